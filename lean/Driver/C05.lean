import Emboss.Model.Bounds
import Emboss.Model.CppArith
import Emboss.Model.ExprType
import Driver.Util
open Emboss.Bounds Driver

/-!
Line protocol of `model_c05` (one op per line, one answer per line):

  NODE <op> <arg>…       node-level transfer; arg = <atype>|<cv>
  LEAF <uint|sint|bcd> <size or ?>     leaf range      SSIZE   $static_size_in_bits
  INV <atype>            `_assert_integer_constraints`: true | false | raise
  GATE <atree>           `_integer_bounds_errors_for_expression` on an annotated tree
  TREE <expr>            whole-tree: abs / constant_value / gate computed by the model
  CPPTYPE <lo> <hi>      `_cpp_integer_type_for_range`
  TYPES <expr>           IntermediateT/ResultT of every run-time function node, preorder
  CPPEVAL <expr> ; <id>=<int> …        fixed-width evaluation vs the model's own annotations
  SIG <atype>…           template arguments `IntermediateT ResultT ArgT…` of one generated call,
                         from the annotations of result :: operands (`raise` = generator raises)
  SIGS <expr>            `<Op>:<IntermediateT>,<ResultT>,<ArgT>…` of every emitted call, preorder
  TYOF <expr>            the typing discipline `tyOf`: int | bool | enum | ill-typed

atype:  i:<min>:<max>:<modulus>:<mv>  (inf, -inf)  |  b:T b:F b:U  |  e:<int> e:U
cv:     n (None) | i<int> | bT | bF | e<int> | x (raised)
expr:   (c n) (t) (f) (ec n) (u id size) (s id size) (d id size) (ss id) (bl id) (el id)
        (g id <atype>) (+ a b) (- a b) (* a b) (== a b) (!= a b) (< a b) (<= a b) (> a b)
        (>= a b) (&& a b) (|| a b) (? c t f) (max a …) (ub a) (lb a) (cref a) (vref a)
        (present a c) = $present(field a) whose existence condition is c;  size ? = unknown
atree:  (F <atype> child…) function node, (N <atype>) anything else
-/

def showExt : ExtInt → String
  | .negInf => "-inf"
  | .posInf => "inf"
  | .fin v => toString v

def showMod : Modulus → String
  | .inf => "inf"
  | .fin m => toString m

def showAType : AType → String
  | .int a => s!"i:{showExt a.min}:{showExt a.max}:{showMod a.modulus}:{showExt a.mv}"
  | .bool none => "b:U"
  | .bool (some true) => "b:T"
  | .bool (some false) => "b:F"
  | .enum none => "e:U"
  | .enum (some v) => s!"e:{v}"

def showOAType : Option AType → String
  | none => "crash"
  | some t => showAType t

def showCV : CV → String
  | .crash => "x"
  | .unknown => "n"
  | .val (.int v) => s!"i{v}"
  | .val (.bool true) => "bT"
  | .val (.bool false) => "bF"
  | .val (.enum v) => s!"e{v}"

def parseExt (s : String) : Option ExtInt :=
  if s == "inf" then some .posInf
  else if s == "-inf" then some .negInf
  else s.toInt?.map .fin

def parseMod (s : String) : Option Modulus :=
  if s == "inf" then some .inf else s.toNat?.map .fin

def parseAType (s : String) : Option AType :=
  match s.splitOn ":" with
  | ["i", a, b, c, d] => do
    let a ← parseExt a; let b ← parseExt b; let c ← parseMod c; let d ← parseExt d
    pure (.int ⟨a, b, c, d⟩)
  | ["b", "T"] => some (.bool (some true))
  | ["b", "F"] => some (.bool (some false))
  | ["b", "U"] => some (.bool none)
  | ["e", "U"] => some (.enum none)
  | ["e", v] => v.toInt?.map (fun v => .enum (some v))
  | _ => none

def parseCV (s : String) : Option CV :=
  if s == "n" then some .unknown
  else if s == "x" then some .crash
  else if s == "bT" then some (.val (.bool true))
  else if s == "bF" then some (.val (.bool false))
  else if s.startsWith "i" then (s.drop 1).toString.toInt?.map (fun v => .val (.int v))
  else if s.startsWith "e" then (s.drop 1).toString.toInt?.map (fun v => .val (.enum v))
  else none

def parseArg (s : String) : Option (AType × CV) :=
  match s.splitOn "|" with
  | [a, c] => do let a ← parseAType a; let c ← parseCV c; pure (a, c)
  | _ => none

def binOpOf (s : String) : Option BinOp :=
  match s with
  | "add" | "+" => some .add | "sub" | "-" => some .sub | "mul" | "*" => some .mul
  | "eq" | "==" => some .eq | "ne" | "!=" => some .ne
  | "lt" | "<" => some .lt | "le" | "<=" => some .le
  | "gt" | ">" => some .gt | "ge" | ">=" => some .ge
  | "and" | "&&" => some .and | "or" | "||" => some .or
  | _ => none

def nodeOp (op : String) (args : List (AType × CV)) : Option String :=
  match binOpOf op, args with
  | some b, [(l, cl), (r, cr)] => some (showOAType (absBin b l r cl cr))
  | some _, _ => none
  | none, _ =>
    match op, args with
    | "choice", [(c, _), (t, _), (f, _)] => some (showOAType (absChoice c t f))
    | "max", a :: as => some (showOAType (absMax ((a :: as).map (·.1))))
    | "upper", [(a, _)] => some (showOAType (absBound true a))
    | "lower", [(a, _)] => some (showOAType (absBound false a))
    | _, _ => none

/-! S-expressions -/
inductive SExp where
  | atom (s : String)
  | list (l : List SExp)
  deriving Inhabited

def tokenize (s : String) : List String :=
  ((s.replace "(" " ( ").replace ")" " ) ").splitOn " " |>.filter (· ≠ "")

/-- fuel-free recursive descent over the token list (tokens are consumed, so it terminates;
    `partial` only because the recursion is not structural) -/
partial def parseSExp : List String → Option (SExp × List String)
  | [] => none
  | "(" :: rest => parseSList rest []
  | ")" :: _ => none
  | t :: rest => some (.atom t, rest)
where
  parseSList : List String → List SExp → Option (SExp × List String)
    | [], _ => none
    | ")" :: rest, acc => some (.list acc.reverse, rest)
    | toks, acc =>
      match parseSExp toks with
      | some (e, rest) => parseSList rest (e :: acc)
      | none => none

def parseSize (s : String) : Option (Option Int) :=
  if s == "?" then some none else s.toInt?.map some

partial def exprOf : SExp → Option Expr
  | .list [.atom "c", .atom n] => n.toInt?.map .const
  | .list [.atom "t"] => some (.bconst true)
  | .list [.atom "f"] => some (.bconst false)
  | .list [.atom "ec", .atom n] => n.toInt?.map .econst
  | .list [.atom "u", .atom id, .atom sz] => do pure (.ileaf (← id.toNat?) .uint (← parseSize sz))
  | .list [.atom "s", .atom id, .atom sz] => do pure (.ileaf (← id.toNat?) .sint (← parseSize sz))
  | .list [.atom "d", .atom id, .atom sz] => do pure (.ileaf (← id.toNat?) .bcd (← parseSize sz))
  | .list [.atom "ss", .atom id] => id.toNat?.map .ssize
  | .list [.atom "bl", .atom id] => id.toNat?.map .bleaf
  | .list [.atom "el", .atom id] => id.toNat?.map .eleaf
  | .list [.atom "g", .atom id, .atom ty] => do
    match ← parseAType ty with
    | .int a => pure (.given (← id.toNat?) a)
    | _ => none
  | .list [.atom "?", c, t, f] => do pure (.choice (← exprOf c) (← exprOf t) (← exprOf f))
  | .list (.atom "max" :: args) => do pure (.max (← args.mapM exprOf))
  | .list [.atom "ub", a] => do pure (.upper (← exprOf a))
  | .list [.atom "lb", a] => do pure (.lower (← exprOf a))
  | .list [.atom "cref", a] => do pure (.cref (← exprOf a))
  | .list [.atom "vref", a] => do pure (.vref (← exprOf a))
  | .list [.atom "present", a, c] => do pure (.present (← exprOf a) (← exprOf c))
  | .list [.atom op, a, b] => do
    let op ← binOpOf op
    pure (.bin op (← exprOf a) (← exprOf b))
  | _ => none

partial def atreeOf : SExp → Option ATree
  | .list (.atom "F" :: .atom ty :: kids) => do
    pure (.node true (← parseAType ty) (← kids.mapM atreeOf))
  | .list [.atom "N", .atom ty] => do pure (.node false (← parseAType ty) [])
  | _ => none

def showGateErr : GateErr → String
  | .unbounded => "unbounded" | .constTooBig => "const" | .rangeTooBig => "range" | .mixed => "mixed"

def showGate : Option (List GateErr) → String
  | none => "crash"
  | some [] => "ok"
  | some l => "err " ++ ",".intercalate (l.map showGateErr)

def showCType : Option CType → String
  | none => "none"
  | some .i32 => "i32" | some .u32 => "u32" | some .i64 => "i64" | some .u64 => "u64"

def parseTree (s : String) : Option SExp :=
  match parseSExp (tokenize s) with
  | some (e, []) => some e
  | _ => none

def parseEnv (s : String) : Option (List (Nat × Int)) :=
  (s.splitOn " ").filter (· ≠ "") |>.mapM fun kv =>
    match kv.splitOn "=" with
    | [k, v] => do pure (← k.toNat?, ← v.toInt?)
    | _ => none

def envOf (l : List (Nat × Int)) : Env :=
  let look := fun (id : Nat) => match l.find? (·.1 == id) with | some p => p.2 | none => 0
  { i := look, b := fun id => look id != 0, e := look }

def showCppRes : CRes → String
  | .ok (.int v) => s!"ok i{v}"
  | .ok (.bool true) => "ok bT"
  | .ok (.bool false) => "ok bF"
  | .ok (.enum v) => s!"ok e{v}"
  | .overflow => "overflow"
  | .notype => "notype"
  | .staticAssert => "static-assert"
  | .stuck => "stuck"

def showTName : TName → String
  | .int .i32 => "i32" | .int .u32 => "u32" | .int .i64 => "i64" | .int .u64 => "u64"
  | .noInt => "none" | .bool => "bool" | .enum => "enum"

def showOpKind : OpKind → String
  | .bin .add => "Sum" | .bin .sub => "Difference" | .bin .mul => "Product"
  | .bin .eq => "Equal" | .bin .ne => "NotEqual" | .bin .lt => "LessThan"
  | .bin .le => "LessThanOrEqual" | .bin .gt => "GreaterThan" | .bin .ge => "GreaterThanOrEqual"
  | .bin .and => "And" | .bin .or => "Or" | .choice => "Choice" | .max => "Maximum"

def handle (line : String) : String :=
  let (op, rest) :=
    match line.splitOn " " with
    | [] => ("", "")
    | o :: r => (o, " ".intercalate r)
  match op with
  | "NODE" =>
    match rest.splitOn " " with
    | o :: args =>
      match args.mapM parseArg with
      | some a => (nodeOp o a).getD "bad-op"
      | none => "bad-op"
    | [] => "bad-op"
  | "LEAF" =>
    match rest.splitOn " " with
    | [k, sz] =>
      match (match k with | "uint" => some LeafKind.uint | "sint" => some .sint | "bcd" => some .bcd | _ => none),
            parseSize sz with
      | some k, some sz => showAType (.int (leafRange k sz))
      | _, _ => "bad-op"
    | _ => "bad-op"
  | "SSIZE" => if rest == "" then showAType (.int staticSizeRange) else "bad-op"
  | "INV" =>
    match parseAType rest with
    | some (.int a) => match invPy a with | some true => "true" | some false => "false" | none => "raise"
    | _ => "bad-op"
  | "GATE" =>
    match (parseTree rest).bind atreeOf with
    | some t => showGate (gate t)
    | none => "bad-op"
  | "TREE" =>
    match (parseTree rest).bind exprOf with
    | some e =>
      let g := match annot e with | some t => showGate (gate t) | none => "-"
      s!"abs={showOAType (abs e)} cv={showCV (cv e)} gate={g}"
    | none => "bad-op"
  | "CPPTYPE" =>
    match rest.splitOn " " with
    | [a, b] => match a.toInt?, b.toInt? with
      | some a, some b => showCType (cppTypeForRange a b)
      | _, _ => "bad-op"
    | _ => "bad-op"
  | "TYPES" =>
    match (parseTree rest).bind exprOf with
    | some e =>
      match opTypes e with
      | some l => "types " ++ " ".intercalate (l.map fun (a, b) => showCType a ++ "/" ++ showCType b)
      | none => "crash"
    | none => "bad-op"
  | "SIG" =>
    match ((rest.splitOn " ").filter (· ≠ "")).mapM parseAType with
    | some (t :: ts) =>
      match nodeSig (t :: ts) with
      | some (it, ns) => " ".intercalate (showTName it :: ns.map showTName)
      | none => "raise"
    | _ => "bad-op"
  | "SIGS" =>
    match (parseTree rest).bind exprOf with
    | some e =>
      match opSigs e with
      | some l => "sigs " ++ " ".intercalate (l.map fun (k, it, ns) =>
          showOpKind k ++ ":" ++ ",".intercalate (showTName it :: ns.map showTName))
      | none => "raise"
    | none => "bad-op"
  | "TYOF" =>
    match (parseTree rest).bind exprOf with
    | some e =>
      match tyOf e with
      | some .int => "int" | some .bool => "bool" | some .enum => "enum" | none => "ill-typed"
    | none => "bad-op"
  | "CPPEVAL" =>
    match rest.splitOn ";" with
    | [t, env] =>
      match (parseTree t).bind exprOf, parseEnv env with
      | some e, some env => showCppRes (cppEval (envOf env) e)
      | _, _ => "bad-op"
    | _ => "bad-op"
  | _ => "bad-op"

def main : IO Unit := run handle
