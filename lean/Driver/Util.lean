/-
Shared helpers for the line-protocol drivers: one operation per input line, one
canonical output line per operation.  Unknown / ill-formed operations print
`bad-op` (never a default value).
-/
namespace Driver

/-- Parse a comma-separated list of naturals; "" is the empty list; any junk ⇒ none. -/
def parseNatList (s : String) : Option (List Nat) :=
  if s.isEmpty then some []
  else (s.splitOn ",").mapM (fun t => t.toNat?)

def parseIntList (s : String) : Option (List Int) :=
  if s.isEmpty then some []
  else (s.splitOn ",").mapM (fun t => t.toInt?)

def showNatList (l : List Nat) : String :=
  ",".intercalate (l.map toString)

/-- Read stdin line by line, apply `handle`, print the answer.  Ends at EOF. -/
partial def loop (h : IO.FS.Stream) (out : IO.FS.Stream) (handle : String → String) : IO Unit := do
  let line ← h.getLine
  if line.isEmpty then
    out.flush
    return ()
  let line := (line.dropEndWhile (fun c => c == '\n' || c == '\r')).toString
  out.putStrLn (handle line)
  loop h out handle

def run (handle : String → String) : IO Unit := do
  loop (← IO.getStdin) (← IO.getStdout) handle

end Driver
