import Emboss.Model.ViewObs
import Emboss.Model.Synth
import Emboss.Model.ViewFrag
import Driver.Util
/-!
Line-protocol driver `model_c01` for C01 / C04 / C20 (shared).

  IR <sexpr>      load a module (harness/lib/irpack.py) -> `ok <n> wf=<moduleWF> csm=<moduleConstMatch> dyn=<moduleNoDynFixed> synth=<#sizeIsSynth> cov=<#structClosedFolds> ref=<#structInFragment> refm=<moduleInFragment> fuel=<#fuelOK>` | `bad-ir`
  OBS <Struct> <params…> <hex|->              -> the observation line cppdrv prints for the real code
  EQ  <Struct> <params…> <hexA> <hexB>        -> `EQ a<ok> b<ok> e<..> r<..>` (e/r only when both Ok)
  CP  <Struct> <params…> <hexSrc> <hexDst>    -> `CP t<0|1> <hexDst'> <hexSrc'>`
  CPO <Struct> <params…> <hexArena> so sl do dl -> `CP t<0|1> <hexArena'>`
  anything else -> `bad-op`; a structure whose references the fuel cannot resolve -> `out-of-fuel`.
-/
open Emboss.View

namespace DriverC01

inductive Sx where
  | atom (s : String)
  | list (l : List Sx)
  deriving Inhabited

def tokenize (s : String) : List String :=
  let (acc, cur) := s.foldl (fun (p : List String × String) c =>
    let (acc, cur) := p
    if c == '(' || c == ')' then
      ((String.singleton c) :: (if cur.isEmpty then acc else cur :: acc), "")
    else if c == ' ' then
      ((if cur.isEmpty then acc else cur :: acc), "")
    else (acc, cur.push c)) ([], "")
  (if cur.isEmpty then acc else cur :: acc).reverse

/-- parse with an explicit stack of open lists -/
def parseSx (toks : List String) : Option Sx :=
  let rec go : List String → List (List Sx) → Option Sx
    | [], [[x]] => some x
    | [], _ => none
    | "(" :: rest, stack => go rest ([] :: stack)
    | ")" :: rest, top :: next :: stack => go rest ((Sx.list top.reverse :: next) :: stack)
    | ")" :: _, _ => none
    | t :: rest, top :: stack => go rest ((Sx.atom t :: top) :: stack)
    | _ :: _, [] => none
  go toks [[]]

def atoms (l : List Sx) : Option (List String) :=
  l.mapM (fun | .atom s => some s | _ => none)

def dVal : Sx → Option Val
  | .list [.atom "i", .atom n] => n.toInt?.map Val.int
  | .list [.atom "b", .atom n] => some (.bool (n == "1"))
  | _ => none

def dFn : String → Option Fn
  | "add" => some .add | "sub" => some .sub | "mul" => some .mul | "eq" => some .eq
  | "ne" => some .ne | "lt" => some .lt | "le" => some .le | "gt" => some .gt | "ge" => some .ge
  | "and" => some .and | "or" => some .or | "choice" => some .choice | "max" => some .max
  | _ => none

partial def dExpr : Sx → Option Expr
  | .atom "lv" => some .lv
  | .list (.atom "i" :: r) => (dVal (.list (.atom "i" :: r))).map Expr.const
  | .list (.atom "b" :: r) => (dVal (.list (.atom "b" :: r))).map Expr.const
  | .list [.atom "fold", v, e] => do
    let v ← dVal v
    let e ← dExpr e
    pure (.fold v e)
  | .list (.atom "ref" :: p) => (atoms p).map Expr.ref
  | .list [.atom "param", .atom n] => some (.param n)
  | .list (.atom "has" :: p) => (atoms p).map Expr.has
  | .list (.atom "op" :: .atom f :: args) => do
    let f ← dFn f
    let as ← args.mapM dExpr
    pure (.op f (as.foldr Exprs.cons .nil))
  | _ => none

def dReq : Sx → Option (Option Expr)
  | .atom "none" => some none
  | e => (dExpr e).map some

def dKindS : Sx → Option ScalarKind
  | .atom "uint" => some .uint | .atom "int" => some .int | .atom "flag" => some .flag
  | .atom "bcd" => some .bcd | .atom "float" => some .float
  | .list [.atom "enum", .atom w, .atom s] => w.toNat?.map (fun w => .enum w (s == "1"))
  | _ => none

partial def dType : Sx → Option PType
  | .list [.atom "scalar", k, .atom bits, req] => do
    let k ← dKindS k
    let bits ← bits.toNat?
    let req ← dReq req
    pure (.scalar k bits req)
  | .list [.atom "struct", .atom name, .atom bits, .list (.atom "args" :: args)] => do
    let bits ← bits.toNat?
    let as ← args.mapM dExpr
    pure (.struct name bits (as.foldr Exprs.cons .nil))
  | .list [.atom "array", t, .atom es] => do
    let t ← dType t
    let es ← es.toNat?
    pure (.array t es)
  | _ => none

def dBo : String → Option ByteOrder
  | "le" => some .le | "be" => some .be | "null" => some .null | _ => none

def dField : Sx → Option Field
  | .list [.atom "field", .atom name, .atom anon, cond, kind] => do
    let cond ← dExpr cond
    let kind ← match kind with
      | .list [.atom "phys", start, size, ty, .atom bo] => do
        let start ← dExpr start
        let size ← dExpr size
        let ty ← dType ty
        let bo ← dBo bo
        pure (FieldKind.phys start size ty bo)
      | .list [.atom "virt", value, req] => do
        let value ← dExpr value
        let req ← dReq req
        pure (FieldKind.virt value req)
      | .list (.atom "alias" :: p) => (atoms p).map FieldKind.alias
      | _ => none
    pure { name := name, anon := anon == "1", cond := cond, kind := kind }
  | _ => none

def dStruct : Sx → Option StructDef
  | .list [.atom "struct", .atom name, .atom unit, .list (.atom "params" :: ps), .atom sizeField, req,
           .list (.atom "fields" :: fs)] => do
    let unit ← unit.toNat?
    let ps ← atoms ps
    let req ← dReq req
    let fs ← fs.mapM dField
    pure { name := name, unit := unit, params := ps, fields := fs, requires := req, sizeField := sizeField }
  | _ => none

def dModule : Sx → Option Module
  | .list (.atom "module" :: ss) => (ss.mapM dStruct).map (fun l => { structs := l })
  | _ => none

def hexDigit (c : Char) : Option Nat :=
  if '0' ≤ c ∧ c ≤ '9' then some (c.toNat - '0'.toNat)
  else if 'a' ≤ c ∧ c ≤ 'f' then some (c.toNat - 'a'.toNat + 10)
  else none

def parseHex (s : String) : Option (List Nat) :=
  if s == "-" then some []
  else
    let rec go : List Char → Option (List Nat)
      | [] => some []
      | [_] => none
      | a :: b :: r => do
        let x ← hexDigit a
        let y ← hexDigit b
        let t ← go r
        pure ((x * 16 + y) :: t)
    go s.toList

def hexChar (n : Nat) : Char := "0123456789abcdef".toList.getD n '?'

def showHex (l : List Nat) : String :=
  if l.isEmpty then "-" else String.ofList (l.flatMap (fun b => [hexChar (b / 16), hexChar (b % 16)]))

def fuel : Nat := 200
def printFuel : Nat := 100000

structure State where
  m : Module
  okStructs : List String

def splitParams (sd : StructDef) (args : List String) : Option (List Val × List String) :=
  let n := sd.params.length
  if args.length < n then none
  else do
    let ps ← (args.take n).mapM (fun s => s.toInt?.map Val.int)
    pure (ps, args.drop n)

def handle (st : State) (line : String) : State × String :=
  match line.splitOn " " with
  | "IR" :: rest =>
    match parseSx (tokenize (" ".intercalate rest)) >>= dModule with
    | some m =>
      let oks := (m.structs.filter (fun sd => fuelOK m fuel sd)).map (·.name)
      ({ m := m, okStructs := oks },
        "ok " ++ toString m.structs.length ++ " wf=" ++ b01 (moduleWF m) ++ " csm=" ++ b01 (moduleConstMatch m) ++
        " dyn=" ++ b01 (moduleNoDynFixed m) ++
        " synth=" ++ toString (m.structs.filter sizeIsSynth).length ++
        " cov=" ++ toString (m.structs.filter structClosedFolds).length ++
        " ref=" ++ toString (m.structs.filter (Emboss.ViewRef.structInFragment m)).length ++
        " refm=" ++ b01 (Emboss.ViewRef.moduleInFragment m) ++
        " fuel=" ++ toString oks.length)
    | none => (st, "bad-ir")
  | op :: name :: args =>
    match st.m.find name with
    | none => (st, "bad-op")
    | some sd =>
      if !st.okStructs.contains name then (st, "out-of-fuel")
      else
        let o := G st.m fuel
        match splitParams sd args with
        | none => (st, "bad-op")
        | some (ps, rest) =>
          match op, rest with
          | "OBS", [hex] =>
            match parseHex hex with
            | some buf => (st, obsView o st.m printFuel (rootView sd ps buf))
            | none => (st, "bad-op")
          | "EQ", [ha, hb] =>
            match parseHex ha, parseHex hb with
            | some a, some b =>
              let wa := rootView sd ps a
              let wb := rootView sd ps b
              let next := step st.m o
              let oa := next.okAt wa []
              let ob := next.okAt wb []
              (st, "EQ a" ++ b01 oa ++ " b" ++ b01 ob ++
                (if oa && ob then
                  " e" ++ b01 (viewEquals o st.m 64 wa wb) ++ " r" ++ b01 (viewEquals o st.m 64 wb wa)
                 else " e- r-"))
            | _, _ => (st, "bad-op")
          | "CP", [hs, hd] =>
            match parseHex hs, parseHex hd with
            | some s, some d =>
              let (t, arena) := tryCopy o st.m sd ps (s ++ d) 0 s.length s.length d.length
              (st, "CP t" ++ b01 t ++ " " ++ showHex (arena.drop s.length) ++ " " ++ showHex (arena.take s.length))
            | _, _ => (st, "bad-op")
          | "CPO", [ha, so, sl, d0, dl] =>
            match parseHex ha, so.toNat?, sl.toNat?, d0.toNat?, dl.toNat? with
            | some a, some so, some sl, some d0, some dl =>
              if so + sl > a.length || d0 + dl > a.length then (st, "bad-op")
              else
                let (t, arena) := tryCopy o st.m sd ps a so sl d0 dl
                (st, "CP t" ++ b01 t ++ " " ++ showHex arena)
            | _, _, _, _, _ => (st, "bad-op")
          | _, _ => (st, "bad-op")
  | _ => (st, "bad-op")

partial def loop (h out : IO.FS.Stream) (st : State) : IO Unit := do
  let line ← h.getLine
  if line.isEmpty then
    out.flush
    return ()
  let line := (line.dropEndWhile (fun c => c == '\n' || c == '\r')).toString
  let (st', ans) := handle st line
  out.putStrLn ans
  loop h out st'

end DriverC01

def main : IO Unit := do
  DriverC01.loop (← IO.getStdin) (← IO.getStdout) { m := { structs := [] }, okStructs := [] }
