import Lean.Data.Json
import Emboss.Model.Constraints
import Emboss.Model.ConstraintsLoc
import Driver.Util
open Emboss.Constraints Driver Lean

/-!
Line protocol of `model_c14`:

  CHECK <json program>      → `errors k1;k2;…` (kinds of `check`, IN ORDER) or `errors` if none
  BYTEORDER <json program>  → `bo <typeid>.<field>=<byte order|->;…` (`fieldByteOrders`)
  FIELDLOC <json program>   → `fieldloc <typeid>.<field>:<kind>@(field|attr<i>|inherited);…` (`verifyFieldsL`)
  ATTRS <scope> <json attribute list> → `located kind@index.part[+index of the noted attribute];…`
                              (`checkAttrListL`; scope = module|struct|bits|enum|external|field|vfield|value)
  REQ <json sexpr> <size|none> → `true` / `false`      (`reqMet`)
  RESERVED <word>           → `true` / `false`
  BACKENDS <json string>    → `true` / `false`         (`validBackEnds`)
  anything else             → `bad-op`
-/

namespace C14

abbrev P := Except String

def intOfJson (j : Json) : P Int := do
  let s ← j.getStr?
  match s.toInt? with
  | some i => pure i
  | none => throw s!"bad int {s}"

def optInt (j : Json) : P (Option Int) :=
  if j.isNull then pure none else some <$> intOfJson j

def arr (j : Json) : P (List Json) := do
  let a ← j.getArr?
  pure a.toList

partial def sexprOfJson (j : Json) : P SExpr := do
  let a ← arr j
  match a with
  | [] => throw "empty sexpr"
  | h :: rest =>
    let k ← h.getStr?
    match k, rest with
    | "size", [] => pure .size
    | "isStatic", [] => pure .isStatic
    | "unknown", [] => pure .unknown
    | "num", [n] =>
      match n.getInt? with
      | .ok i => pure (.num i)
      | .error _ => (.num <$> intOfJson n)
    | "bool", [b] => .bool <$> b.getBool?
    | "choice", [c, t, e] => do pure (.choice (← sexprOfJson c) (← sexprOfJson t) (← sexprOfJson e))
    | op, [x, y] => do
      let x ← sexprOfJson x
      let y ← sexprOfJson y
      match op with
      | "and" => pure (.and x y) | "or" => pure (.or x y)
      | "eq" => pure (.eq x y) | "ne" => pure (.ne x y)
      | "lt" => pure (.lt x y) | "le" => pure (.le x y)
      | "gt" => pure (.gt x y) | "ge" => pure (.ge x y)
      | "add" => pure (.add x y) | "sub" => pure (.sub x y) | "mul" => pure (.mul x y)
      | _ => throw s!"bad sexpr op {op}"
    | _, _ => throw s!"bad sexpr {k}"

def avalOfJson (j : Json) : P AVal := do
  match j with
  | .str "other" => pure .other
  | _ =>
    match j.getObjVal? "s" with
    | .ok s => .str <$> s.getStr?
    | .error _ =>
    match j.getObjVal? "i" with
    | .ok i => .int <$> optInt i
    | .error _ =>
    match j.getObjVal? "req" with
    | .ok e => .req <$> sexprOfJson e
    | .error _ =>
    match j.getObjVal? "b" with
    | .ok b => do
      let lit ← (← j.getObjVal? "lit").getBool?
      if b.isNull then pure (.bool none lit) else do pure (.bool (some (← b.getBool?)) lit)
    | .error _ => throw "bad attribute value"

def attrOfJson (j : Json) : P Attr := do
  pure { name := ← (← j.getObjVal? "n").getStr?, backEnd := ← (← j.getObjVal? "b").getStr?,
         isDefault := ← (← j.getObjVal? "d").getBool?, val := ← avalOfJson (← j.getObjVal? "v") }

def attrsOf (j : Json) : P (List Attr) := do
  (← arr (← j.getObjVal? "attrs")).mapM attrOfJson

def boundOfJson (j : Json) : P Bound := do
  let s ← j.getStr?
  if s == "-inf" then pure .negInf
  else if s == "inf" then pure .posInf
  else match s.toInt? with
    | some i => pure (.fin i)
    | none => throw s!"bad bound {s}"

def lenOfJson (j : Json) : P Len := do
  let s ← j.getStr?
  if s == "auto" then pure .auto
  else if s == "dyn" then pure .dyn
  else match s.toInt? with
    | some i => pure (.const i)
    | none => throw s!"bad len {s}"

partial def tyOfJson (j : Json) : P Ty := do
  match j.getObjVal? "a" with
  | .ok a =>
    match ← arr a with
    | [r, s] => do pure (.atomic (← r.getNat?) (← optInt s))
    | _ => throw "bad atomic"
  | .error _ =>
    match ← arr (← j.getObjVal? "arr") with
    | [b, l] => do pure (.array (← tyOfJson b) (← lenOfJson l))
    | _ => throw "bad array"

def vkindOfJson (j : Json) : P VKind := do
  match ← j.getStr? with
  | "integer" => pure .integer
  | "enumeration" => pure .enumeration
  | "boolean" => pure .boolean
  | "other" => pure .other
  | s => throw s!"bad vkind {s}"

def fieldOfJson (j : Json) : P Field := do
  pure { name := ← (← j.getObjVal? "name").getStr?,
         isVirtual := ← (← j.getObjVal? "virtual").getBool?,
         ty := ← tyOfJson (← j.getObjVal? "ty"),
         start := ← optInt (← j.getObjVal? "start"),
         sizeConst := ← optInt (← j.getObjVal? "size"),
         sizeMin := ← boundOfJson (← j.getObjVal? "min"),
         sizeMax := ← boundOfJson (← j.getObjVal? "max"),
         attrs := ← attrsOf j,
         vkind := ← vkindOfJson (← j.getObjVal? "vkind") }

def valueOfJson (j : Json) : P EnumValue := do
  pure { name := ← (← j.getObjVal? "name").getStr?, value := ← intOfJson (← j.getObjVal? "value"),
         attrs := ← attrsOf j }

def paramOfJson (j : Json) : P Param := do
  pure { name := ← (← j.getObjVal? "name").getStr?, isInt := ← (← j.getObjVal? "int").getBool?,
         ref := ← (← j.getObjVal? "ref").getNat?, explicitSize := ← optInt (← j.getObjVal? "size"),
         lo := ← boundOfJson (← j.getObjVal? "lo"), hi := ← boundOfJson (← j.getObjVal? "hi") }

def unitOfJson (j : Json) : P AUnit := do
  match ← j.getNat? with
  | 0 => pure .none
  | 1 => pure .bit
  | 8 => pure .byte
  | n => throw s!"bad unit {n}"

partial def forestOfJson (js : List Json) : P Forest := do
  match js with
  | [] => pure .nil
  | j :: rest =>
    let kindS ← (← j.getObjVal? "kind").getStr?
    let kind ← match kindS with
      | "external" => pure Kind.external
      | "enum" => do pure (Kind.enum (← (← arr (← j.getObjVal? "values")).mapM valueOfJson))
      | "struct" => do pure (Kind.structure (← (← arr (← j.getObjVal? "fields")).mapM fieldOfJson))
      | s => throw s!"bad kind {s}"
    let t : TypeInfo := {
      id := ← (← j.getObjVal? "id").getNat?, name := ← (← j.getObjVal? "name").getStr?,
      anonymous := ← (← j.getObjVal? "anon").getBool?, unit := ← unitOfJson (← j.getObjVal? "unit"),
      kind := kind, attrs := ← attrsOf j,
      params := ← (← arr (← j.getObjVal? "params")).mapM paramOfJson,
      isFlag := ← (← j.getObjVal? "flag").getBool? }
    let ch ← forestOfJson (← arr (← j.getObjVal? "sub"))
    let sib ← forestOfJson rest
    pure (.node t ch sib)

def extOfJson (j : Json) : P Emboss.Bounds.ExtInt := do
  let s ← j.getStr?
  if s == "-inf" then pure .negInf
  else if s == "inf" then pure .posInf
  else match s.toInt? with
    | some i => pure (.fin i)
    | none => throw s!"bad bound {s}"

def atypeOfJson (j : Json) : P Emboss.Bounds.AType := do
  match ← arr j with
  | [k, lo, hi, m] => do
    if (← k.getStr?) != "int" then throw "bad atype"
    let ms ← m.getStr?
    let modulus : Emboss.Bounds.Modulus ←
      if ms == "inf" then pure Emboss.Bounds.Modulus.inf
      else match ms.toNat? with
        | some n => pure (Emboss.Bounds.Modulus.fin n)
        | none => throw s!"bad modulus {ms}"
    pure (.int ⟨← extOfJson lo, ← extOfJson hi, modulus, .fin 0⟩)
  | [k, c] => do
    let isConst ← c.getBool?
    match ← k.getStr? with
    | "bool" => pure (.bool (if isConst then some true else none))
    | "enum" => pure (.enum (if isConst then some 0 else none))
    | s => throw s!"bad atype {s}"
  | _ => throw "bad atype"

partial def atreeOfJson (j : Json) : P Emboss.Bounds.ATree := do
  match ← arr j with
  | [f, t, args] => do
    pure (.node (← f.getBool?) (← atypeOfJson t) (← (← arr args).mapM atreeOfJson))
  | _ => throw "bad atree"

def moduleOfJson (j : Json) : P Emboss.Constraints.Module := do
  let gated ← match j.getObjVal? "gated" with
    | .ok g => (← arr g).mapM (fun x => do
        match ← arr x with
        | [syn, t] => do pure ((← syn.getBool?), (← atreeOfJson t))
        | _ => throw "bad gated")
    | .error _ => pure []
  pure { attrs := ← attrsOf j, types := ← forestOfJson (← arr (← j.getObjVal? "types")),
         staticRefs := ← (← arr (← j.getObjVal? "refs")).mapM (·.getBool?), gated := gated }

def programOfJson (j : Json) : P Program := do
  (← arr j).mapM moduleOfJson

def showEK : EK → String
  | .paramNeedsSize => "param-needs-size" | .paramEnumSized => "param-enum-sized"
  | .dupAttr n => "dup-attr:" ++ n | .noDefault n => "no-default:" ++ n
  | .unknownAttr n => "unknown-attr:" ++ n
  | .attrType n => "attr-type:" ++ n | .attrConst n => "attr-const:" ++ n
  | .attrChoice n => "attr-choice:" ++ n | .attrBackEnds => "attr-back-ends"
  | .backEndMismatch b => "back-end-mismatch:" ++ b
  | .fixedSizeVariable => "fixed-size-variable" | .fixedSizeMismatch => "fixed-size-mismatch"
  | .maxBitsRange => "max-bits-range" | .unitMissing => "unit-missing" | .unitBad => "unit-bad"
  | .boNotAllowed => "bo-not-allowed" | .boRequired => "bo-required" | .boNull => "bo-null"
  | .requiresArray => "requires-array" | .requiresType => "requires-type"
  | .byteInBits => "byte-in-bits" | .elemNotFixed => "elem-not-fixed"
  | .elemNotBytes => "elem-not-bytes" | .innerAuto => "inner-auto" | .innerDyn => "inner-dyn"
  | .bitsNotFixed => "bits-not-fixed" | .bitsTooBig => "bits-too-big"
  | .explicitMismatch => "explicit-mismatch" | .fixedWrongField => "fixed-wrong-field"
  | .fieldTooSmall => "field-too-small"
  | .enumDynamic => "enum-dynamic" | .enumWidth => "enum-width" | .reqNotMet t => "req-not-met:" ++ t
  | .reservedField => "reserved-field" | .reservedEnum => "reserved-enum"
  | .reservedType => "reserved-type"
  | .staticRef => "static-ref" | .enumValueRange => "enum-value-range"
  | .paramBounds => "param-bounds" | .crash => "crash"
  | .gate .unbounded => "gate:unbounded" | .gate .constTooBig => "gate:const"
  | .gate .rangeTooBig => "gate:range" | .gate .mixed => "gate:mixed"

def showBO : Nat × String × Option AVal → String
  | (id, name, v) =>
    let vs := match v with
      | some (.str s) => s
      | some _ => "?"
      | none => "-"
    s!"{id}.{name}={vs}"

def insertSorted (s : String) : List String → List String
  | [] => [s]
  | h :: t => if s ≤ h then s :: h :: t else h :: insertSorted s t

def sortStrings (l : List String) : List String := l.foldr insertSorted []

def showBool (b : Bool) : String := if b then "true" else "false"

def splitFirst (s : String) : String × String :=
  match s.splitOn " " with
  | [] => ("", "")
  | h :: t => (h, " ".intercalate t)

def handle (line : String) : String :=
  let (op, rest) := splitFirst line
  match op with
  | "CHECK" =>
    match Json.parse rest >>= programOfJson with
    | .ok p =>
      let ks := (check p).map showEK
      if ks.isEmpty then "errors" else "errors " ++ ";".intercalate ks
    | .error _ => "bad-op"
  | "BYTEORDER" =>
    match Json.parse rest >>= programOfJson with
    | .ok p =>
      let ks := (fieldByteOrders p).map showBO
      if ks.isEmpty then "bo" else "bo " ++ ";".intercalate ks
    | .error _ => "bad-op"
  | "ATTRS" =>
    let (scope, js) := splitFirst rest
    let specs : Option (List (String × Bool)) :=
      match scope with
      | "module" => some Emboss.Generated.AttrTable.moduleAttrs
      | "struct" => some Emboss.Generated.AttrTable.structAttrs
      | "bits" => some Emboss.Generated.AttrTable.bitsAttrs
      | "enum" => some Emboss.Generated.AttrTable.enumAttrs
      | "external" => some Emboss.Generated.AttrTable.externalAttrs
      | "field" => some Emboss.Generated.AttrTable.physicalFieldAttrs
      | "vfield" => some Emboss.Generated.AttrTable.virtualFieldAttrs
      | "value" => some Emboss.Generated.AttrTable.enumValueAttrs
      | _ => none
    match specs, Json.parse js >>= (fun j => do let l ← arr j; l.mapM attrOfJson) with
    | some specs, .ok as =>
      let showPart : Part → String
        | .whole => "whole" | .name => "name" | .value => "value"
      let ks := (checkAttrListL specs [] 0 as).map fun e =>
        showEK e.k ++ "@" ++ toString e.idx ++ "." ++ showPart e.part ++
          (match e.note with | some j => "+" ++ toString j | none => "")
      if ks.isEmpty then "located" else "located " ++ ";".intercalate ks
    | _, _ => "bad-op"
  | "FIELDLOC" =>
    match Json.parse rest >>= programOfJson with
    | .ok p =>
      let showAt : FieldAt → String
        | .field => "field" | .attrValue i => "attr" ++ toString i | .inherited => "inherited"
      let ks := (verifyFieldsL p).map fun e =>
        toString e.1 ++ "." ++ e.2.1 ++ ":" ++ showEK e.2.2.1 ++ "@" ++ showAt e.2.2.2
      if ks.isEmpty then "fieldloc" else "fieldloc " ++ ";".intercalate ks
    | .error _ => "bad-op"
  | "REQ" =>
    let (sz, js) := splitFirst rest
    let size : Option (Option Int) := if sz == "none" then some none else sz.toInt?.map some
    match size, Json.parse js >>= sexprOfJson with
    | some size, .ok e => showBool (reqMet e size)
    | _, _ => "bad-op"
  | "RESERVED" => if rest.isEmpty then "bad-op" else showBool (isReserved rest)
  | "BACKENDS" =>
    match Json.parse rest >>= (·.getStr?) with
    | .ok s => showBool (validBackEnds s)
    | .error _ => "bad-op"
  | _ => "bad-op"

end C14

def main : IO Unit := run C14.handle
