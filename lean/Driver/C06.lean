import Emboss.Model.Text
import Emboss.Model.TextTree
import Emboss.Model.TextRead
import Emboss.Model.TextLayout
import Driver.Util
open Emboss.Text Driver

/-! Line protocol for C06.  Texts travel hex-encoded (two lower-case hex digits per
character code, codes < 256 only).

    WINT <ty> <value> <base> <0|1>   → text <hex>
    DINT <ty> <hex>                  → ok <value> | reject
    TOK <hex>                        → toks <hex>,<hex>,…  | out-of-fuel
    SRT <bufhex|-> (L <emitted 0|1> <width bits> <present expr> <offset expr>)…
                                     → ok <bufhex> | fail
        expr (prefix): c <n> | y <byte offset> | + a b | * a b | > a b | = a b | & a b | ! a
-/

def hexDigitVal (c : Char) : Option Nat :=
  if '0' ≤ c ∧ c ≤ '9' then some (c.toNat - 48)
  else if 'a' ≤ c ∧ c ≤ 'f' then some (c.toNat - 87)
  else none

def unhex : List Char → Option (List Char)
  | [] => some []
  | a :: b :: r => do
    let x ← hexDigitVal a
    let y ← hexDigitVal b
    let rest ← unhex r
    pure (Char.ofNat (x * 16 + y) :: rest)
  | _ => none

def hexOf (s : List Char) : String :=
  String.ofList (s.flatMap fun c =>
    let n := c.toNat
    if n < 256 then [digitChar (n / 16), digitChar (n % 16)] else ['?', '?'])

def parseTy : String → Option IntTy
  | "i8" => some .i8 | "i16" => some .i16 | "i32" => some .i32 | "i64" => some .i64
  | "u8" => some .u8 | "u16" => some .u16 | "u32" => some .u32 | "u64" => some .u64
  | _ => none

def parseBase : String → Option Base
  | "2" => some .b2 | "10" => some .b10 | "16" => some .b16 | _ => none

def parseBool : String → Option Bool
  | "0" => some false | "1" => some true | _ => none

/-- Value trees travel as a prefix token stream:
`i <ty> <v>` | `b <0|1>` | `e <namehex|-> <ty> <v>` | `f <hex>` | `a <ascii 0|1> <n> elem…` |
`s <n> (<namehex> <ro 0|1> value)…`; an unreadable atomic element is `u`, an unreadable atomic
field `<namehex> u` (texts written with allow_partial_output).  Fuel = number of tokens. -/
def unhexTok (t : String) : Option (List Char) :=
  if t == "-" then some [] else unhex t.toList

mutual
def parseVal : Nat → List String → Option (TVal × List String)
  | 0, _ => none
  | _ + 1, "i" :: ty :: v :: r => do
    let T ← parseTy ty
    let x ← v.toInt?
    pure (.scalar (.int T x), r)
  | _ + 1, "b" :: b :: r => do
    let x ← parseBool b
    pure (.scalar (.bool x), r)
  | _ + 1, "e" :: n :: ty :: v :: r => do
    let T ← parseTy ty
    let x ← v.toInt?
    let name ← (if n == "-" then some none else (unhex n.toList).map some)
    pure (.scalar (.enumV name T x), r)
  | _ + 1, "f" :: t :: r => do
    let x ← unhex t.toList
    pure (.scalar (.float x), r)
  | fuel + 1, "a" :: asc :: n :: r => do
    let a ← parseBool asc
    let k ← n.toNat?
    let (vs, r') ← parseVals fuel k r
    pure (.arr a vs, r')
  | fuel + 1, "s" :: n :: r => do
    let k ← n.toNat?
    let (fs, r') ← parseFields fuel k r
    pure (.struct fs, r')
  | _, _ => none
def parseVals : Nat → Nat → List String → Option (TVals × List String)
  | 0, _, _ => none
  | _, 0, r => some (.nil, r)
  | fuel + 1, k + 1, "u" :: r => do
    let (vs, r2) ← parseVals fuel k r
    pure (.skip vs, r2)
  | fuel + 1, k + 1, r => do
    let (v, r1) ← parseVal fuel r
    let (vs, r2) ← parseVals fuel k r1
    pure (.cons v vs, r2)
def parseFields : Nat → Nat → List String → Option (TFields × List String)
  | 0, _, _ => none
  | _, 0, r => some (.nil, r)
  | fuel + 1, k + 1, name :: "u" :: r => do
    let nm ← unhex name.toList
    let (fs, r2) ← parseFields fuel k r
    pure (.skip nm fs, r2)
  | fuel + 1, k + 1, name :: ro :: r => do
    let nm ← unhex name.toList
    let b ← parseBool ro
    let (v, r1) ← parseVal fuel r
    let (fs, r2) ← parseFields fuel k r1
    pure (.cons nm b v fs, r2)
  | _, _, _ => none
end

/-- Reader shapes: `i <ty> <lo> <hi>` | `b` | `f` | `e <ty> <lo> <hi> <k> (<namehex> <v>)…` |
`a <count> elem` | `s <n> (<namehex> shape)…`. -/
def parseEnumNames : Nat → List String → Option (List (List Char × Int) × List String)
  | 0, r => some ([], r)
  | k + 1, n :: v :: r => do
    let nm ← unhex n.toList
    let x ← v.toInt?
    let (rest, r') ← parseEnumNames k r
    pure ((nm, x) :: rest, r')
  | _, _ => none

mutual
def parseShape : Nat → List String → Option (RShape × List String)
  | 0, _ => none
  | _ + 1, "i" :: ty :: lo :: hi :: r => do
    let T ← parseTy ty
    let l ← lo.toInt?
    let h ← hi.toInt?
    pure (.scalar (.int T l h), r)
  | _ + 1, "b" :: r => some (.scalar .bool, r)
  | _ + 1, "f" :: r => some (.scalar .float, r)
  | _ + 1, "e" :: ty :: lo :: hi :: k :: r => do
    let T ← parseTy ty
    let l ← lo.toInt?
    let h ← hi.toInt?
    let n ← k.toNat?
    let (names, r') ← parseEnumNames n r
    pure (.scalar (.enumR names T l h), r')
  | fuel + 1, "a" :: n :: r => do
    let k ← n.toNat?
    let (e, r') ← parseShape fuel r
    pure (.arr k e, r')
  | fuel + 1, "s" :: n :: r => do
    let k ← n.toNat?
    let (fs, r') ← parseShapeFields fuel k r
    pure (.struct fs, r')
  | _, _ => none
def parseShapeFields : Nat → Nat → List String → Option (RFields × List String)
  | 0, _, _ => none
  | _, 0, r => some (.nil, r)
  | fuel + 1, k + 1, name :: r => do
    let nm ← unhex name.toList
    let (sh, r1) ← parseShape fuel r
    let (fs, r2) ← parseShapeFields fuel k r1
    pure (.cons nm sh fs, r2)
  | _, _, _ => none
end

def showWVal : WVal → String
  | .int v => toString v
  | .bool b => if b then "true" else "false"
  | .float t => "tok:" ++ hexOf t

def showWrites (ws : List Write) : String :=
  String.join (ws.map fun w => String.ofList w.1 ++ "=" ++ showWVal w.2 ++ ";")


/-- Layout expressions travel as prefix token streams; fuel = number of tokens. -/
def parseLExpr : Nat → List String → Option (LExpr × List String)
  | 0, _ => none
  | _ + 1, "c" :: n :: r => do pure (.const (← n.toNat?), r)
  | _ + 1, "y" :: k :: r => do pure (.byte (← k.toNat?), r)
  | fuel + 1, op :: r =>
    if op == "!" then do
      let (a, r1) ← parseLExpr fuel r
      pure (.not a, r1)
    else if op == "+" || op == "*" || op == ">" || op == "=" || op == "&" then do
      let (a, r1) ← parseLExpr fuel r
      let (b, r2) ← parseLExpr fuel r1
      let e := if op == "+" then LExpr.add a b else if op == "*" then .mul a b
        else if op == ">" then .gt a b else if op == "=" then .eq a b else .and a b
      pure (e, r2)
    else none
  | _ + 1, [] => none

def parseLeaves : Nat → List String → Option (List Leaf)
  | _, [] => some []
  | 0, _ => none
  | fuel + 1, "L" :: em :: w :: r => do
    let em ← parseBool em
    let w ← w.toNat?
    let (p, r1) ← parseLExpr (r.length + 1) r
    let (o, r2) ← parseLExpr (r1.length + 1) r1
    let rest ← parseLeaves fuel r2
    pure (⟨p, o, w, em⟩ :: rest)
  | _ + 1, _ => none

def bytesOfHex (s : List Char) : Option (List Nat) := (unhex s).map fun cs => cs.map Char.toNat

def hexOfBytes (bs : List Nat) : String :=
  String.ofList (bs.flatMap fun n => [digitChar (n / 16 % 16), digitChar (n % 16)])

def handle (line : String) : String :=
  match line.splitOn " " with
  | ["WINT", ty, v, b, g] =>
    match parseTy ty, v.toInt?, parseBase b, parseBool g with
    | some T, some x, some base, some g =>
      if T.InRange x then "text " ++ hexOf (writeInt T x base g) else "bad-op"
    | _, _, _, _ => "bad-op"
  | ["DINT", ty, h] =>
    match parseTy ty, unhex h.toList with
    | some T, some s =>
      match decodeInt T s with
      | some v => "ok " ++ toString v
      | none => "reject"
    | _, _ => "bad-op"
  | ["TOK", h] =>
    match unhex h.toList with
    | some s =>
      match tokens s with
      | some ts => "toks " ++ ",".intercalate (ts.map hexOf)
      | none => "out-of-fuel"
    | none => "bad-op"
  | "WVAL" :: m :: c :: b :: g :: ind :: rest =>
    match parseBool m, parseBool c, parseBase b, parseBool g, unhexTok ind with
    | some m, some c, some base, some g, some indent =>
      match parseVal (rest.length + 1) rest with
      | some (v, []) => "text " ++ hexOf (writeToString ⟨m, c, base, g, indent, []⟩ v)
      | some (_, _ :: _) => "bad-op"
      | none => if rest.length = 0 then "bad-op" else "bad-op"
    | _, _, _, _, _ => "bad-op"
  | "RVAL" :: h :: rest =>
    match unhexTok h, parseShape (rest.length + 1) rest with
    | some text, some (shape, []) =>
      match updateFromText shape text with
      | .ok ws _ => "ok " ++ showWrites ws
      | .fail => "fail"
      | .outOfFuel => "out-of-fuel"
    | _, _ => "bad-op"
  | "SRT" :: h :: rest =>
    match (if h == "-" then some [] else bytesOfHex h.toList), parseLeaves (rest.length + 1) rest with
    | some bytes, some leaves =>
      match structRoundTrip leaves bytes with
      | some out => "ok " ++ (if out.isEmpty then "-" else hexOfBytes out)
      | none => "fail"
    | _, _ => "bad-op"
  | _ => "bad-op"

def main : IO Unit := run handle
