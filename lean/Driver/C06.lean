import Emboss.Model.Text
import Driver.Util
open Emboss.Text Driver

/-! Line protocol for C06.  Texts travel hex-encoded (two lower-case hex digits per
character code, codes < 256 only).

    WINT <ty> <value> <base> <0|1>   → text <hex>
    DINT <ty> <hex>                  → ok <value> | reject
    TOK <hex>                        → toks <hex>,<hex>,…  | out-of-fuel
-/

def hexDigitVal (c : Char) : Option Nat :=
  if '0' ≤ c ∧ c ≤ '9' then some (c.toNat - 48)
  else if 'a' ≤ c ∧ c ≤ 'f' then some (c.toNat - 87)
  else none

def unhex : List Char → Option (List Char)
  | [] => some []
  | a :: b :: r => do
    let x ← hexDigitVal a
    let y ← hexDigitVal b
    let rest ← unhex r
    pure (Char.ofNat (x * 16 + y) :: rest)
  | _ => none

def hexOf (s : List Char) : String :=
  String.ofList (s.flatMap fun c =>
    let n := c.toNat
    if n < 256 then [digitChar (n / 16), digitChar (n % 16)] else ['?', '?'])

def parseTy : String → Option IntTy
  | "i8" => some .i8 | "i16" => some .i16 | "i32" => some .i32 | "i64" => some .i64
  | "u8" => some .u8 | "u16" => some .u16 | "u32" => some .u32 | "u64" => some .u64
  | _ => none

def parseBase : String → Option Base
  | "2" => some .b2 | "10" => some .b10 | "16" => some .b16 | _ => none

def parseBool : String → Option Bool
  | "0" => some false | "1" => some true | _ => none

def handle (line : String) : String :=
  match line.splitOn " " with
  | ["WINT", ty, v, b, g] =>
    match parseTy ty, v.toInt?, parseBase b, parseBool g with
    | some T, some x, some base, some g =>
      if T.InRange x then "text " ++ hexOf (writeInt T x base g) else "bad-op"
    | _, _, _, _ => "bad-op"
  | ["DINT", ty, h] =>
    match parseTy ty, unhex h.toList with
    | some T, some s =>
      match decodeInt T s with
      | some v => "ok " ++ toString v
      | none => "reject"
    | _, _ => "bad-op"
  | ["TOK", h] =>
    match unhex h.toList with
    | some s =>
      match tokens s with
      | some ts => "toks " ++ ",".intercalate (ts.map hexOf)
      | none => "out-of-fuel"
    | none => "bad-op"
  | _ => "bad-op"

def main : IO Unit := run handle
