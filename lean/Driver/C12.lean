import Lean.Data.Json
import Emboss.Model.Scope
import Emboss.Model.ScopeSyntax
import Driver.Util
open Emboss.Scope Driver Lean

/-!
Line protocol for C12.

`HOIST <json>` — json = {"module": file, "counter": value of the anonymous-name counter,
"types": the type definitions of the file as written, each `[tag, name, subs, fields]`}.
Answer: the (scope ++ [name]) of every type and of every field / enum value of the IR
`module_ir` builds, in IR order, and the counter afterwards.

`RESOLVE <json>` — json describes the module set as seen right before `resolve_symbols`
(definitions in the order the passes of `_construct_symbol_tables` visit them, plain
references and field references in traversal order).  Answer: one compact JSON value.
-/

abbrev E := Except String

def arr (j : Json) (k : String) : E (Array Json) := do (← j.getObjVal? k).getArr?
def str (j : Json) (k : String) : E String := do (← j.getObjVal? k).getStr?
def nat (j : Json) (k : String) : E Nat := do (← j.getObjVal? k).getNat?
def strs (j : Json) : E (List String) := do (← j.getArr?).toList.mapM (·.getStr?)
def path (j : Json) (k : String) : E Path := do strs (← j.getObjVal? k)

def parseShape (j : Json) : E FieldShape := do
  let a ← j.getArr?
  match a.toList with
  | [t] =>
    match ← t.getStr? with
    | "array" => pure .array
    | "vother" => pure .virtOther
    | _ => throw "shape"
  | [t, i] =>
    match ← t.getStr? with
    | "atomic" => pure (.atomic (← i.getNat?))
    | "valias" => pure (.virtAlias (← i.getNat?))
    | _ => throw "shape"
  | _ => throw "shape"

def parseCtx (j : Json) : E Ctx := do
  let a ← j.getObjVal? "attr"
  let attr ← if a.isNull then pure none else some <$> a.getStr?
  pure { module := ← str j "module", types := ← path j "types", attrField := attr,
         anon := ← path j "anon" }

def parseNameLoc (j : Json) : E (String × Nat) := do
  match (← j.getArr?).toList with
  | [n, l] => pure (← n.getStr?, ← l.getNat?)
  | _ => throw "name/loc"

def parseModule (j : Json) : E (ModuleDesc × List Ref × List FRef) := do
  let modules ← path j "modules"
  let types ← (← arr j "types").toList.mapM fun t => do
    pure ({ scope := ← path t "scope", name := ← str t "name", loc := ← nat t "loc" } : TypeDecl)
  let values ← (← arr j "values").toList.mapM fun t => do
    pure ({ scope := ← path t "scope", name := ← str t "name", loc := ← nat t "loc" } : ValueDecl)
  let params ← (← arr j "params").toList.mapM fun t => do
    pure ({ scope := ← path t "scope", name := ← str t "name", loc := ← nat t "loc" } : ParamDecl)
  let fields ← (← arr j "fields").toList.mapM fun t => do
    let a ← t.getObjVal? "abbr"
    let abbr ← if a.isNull then pure none else some <$> parseNameLoc a
    pure ({ scope := ← path t "scope", name := ← str t "name", loc := ← nat t "loc", abbr := abbr,
            thisLoc := ← nat t "thisLoc", shape := ← parseShape (← t.getObjVal? "shape") } : FieldDecl)
  let imports ← (← arr j "imports").toList.mapM fun t => do
    pure ({ module := ← str t "module", file := ← str t "file", alias := ← str t "alias",
            loc := ← nat t "loc" } : ImportDecl)
  let refs ← (← arr j "refs").toList.mapM fun t => do
    let names ← (← arr t "names").toList.mapM parseNameLoc
    pure ({ ctx := ← parseCtx (← t.getObjVal? "ctx"), names := names, loc := ← nat t "loc",
            isLocal := ← (← t.getObjVal? "local").getBool? } : Ref)
  let frefs ← (← arr j "frefs").toList.mapM fun t => do
    let p ← (← arr t "path").toList.mapM fun e => do
      match (← e.getArr?).toList with
      | [n, a, b] => pure ({ name := ← n.getStr?, nloc := ← a.getNat?, rloc := ← b.getNat? } : PathElem)
      | _ => throw "path element"
    pure ({ ctx := ← parseCtx (← t.getObjVal? "ctx"), path := p } : FRef)
  pure ({ modules, types, values, fields, params, imports }, refs, frefs)

def jpath (p : Path) : Json := Json.arr (p.map Json.str).toArray
def jn (n : Nat) : Json := Json.num n

def jerr : Err → Json
  | .duplicate n l o => Json.arr #["dup", n, jn l, jn o]
  | .missing n l => Json.arr #["miss", n, jn l]
  | .ambiguous n l a b => Json.arr #["amb", n, jn l, jn a, jn b]
  | .arrayMember n l => Json.arr #["array", n, jn l]
  | .noncomposite n l => Json.arr #["noncomp", n, jn l]
  | .badAlias n l => Json.arr #["badalias", n, jn l]
  | .moduleAsField n l => Json.arr #["modfield", n, jn l]

def jfres : FRes → Json
  | .ok cs => Json.mkObj [("ok", Json.arr (cs.map jpath).toArray)]
  | .err e => Json.mkObj [("err", jerr e)]
  | .bail => "bail"
  | .crash => "crash"
  | .fuel => "fuel"
  | .recursion => "recursion"

def answer (M : ModuleDesc) (refs : List Ref) (frefs : List FRef) : Json :=
  match resolveSymbols M refs frefs with
  | .errors es => Json.mkObj [("errors", Json.arr (es.map jerr).toArray)]
  | .broken => Json.mkObj [("broken", true)]
  | .crash => Json.mkObj [("crash", true)]
  | .resolved ra rb =>
    let fr := resolveFieldRefs M ra rb frefs
    Json.mkObj [("refs", Json.arr (ra.map jpath).toArray),
                ("heads", Json.arr (rb.map jpath).toArray),
                ("frefs", Json.arr (fr.map jfres).toArray)]

partial def parseSyn (j : Json) : E Syn := do
  match (← j.getArr?).toList with
  | [t, n, subs, fields] =>
    let tag ← match ← t.getStr? with
      | "type" => pure Tag.typeDef
      | "inline" => pure Tag.inline
      | "anon" => pure Tag.anon
      | "plain" => pure Tag.plain
      | _ => throw "tag"
    let ss ← (← subs.getArr?).toList.mapM parseSyn
    let fs ← (← fields.getArr?).toList.mapM parseSyn
    pure (.node tag (← n.getStr?) 0 ss fs)
  | _ => throw "node"

def hoist (j : Json) : E Json := do
  let m ← str j "module"
  let c ← nat j "counter"
  let types ← (← arr j "types").toList.mapM parseSyn
  let numbered := numberAll types c
  let ir := buildModule numbered.1
  let out (l : List (Path × String)) : Json := Json.arr (l.map (fun x => jpath (x.1 ++ [x.2]))).toArray
  pure (Json.mkObj [("types", out (flatTypes [m] ir)), ("fields", out (flatFields [m] ir)),
                    ("counter", jn numbered.2)])

def handle (line : String) : String :=
  if line.startsWith "HOIST " then
    match Json.parse (line.drop 6).toString >>= hoist with
    | .ok j => j.compress
    | .error _ => "bad-op"
  else
  if line.startsWith "RESOLVE " then
    match Json.parse (line.drop 8).toString >>= parseModule with
    | .ok (M, refs, frefs) => (answer M refs frefs).compress
    | .error _ => "bad-op"
  else "bad-op"

def main : IO Unit := run handle
