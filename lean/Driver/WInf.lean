/-
Line protocol for the write-inference model.

  expr  := c<int> | r<nat> | lv | l:<name> | ( u <name> expr ) | ( b <op> expr expr )
         | ( t <name> expr expr expr )          op := add | sub | mul | <other name>
  INVERT <expr>                      → `none` | `some r<x> <expr>`
  FINDPATH <expr>                    → `none` | `path i,j,…`
  EVAL <lv> <id=val,…|-> <expr>      → `none` | `<int>`
  WMETHOD <i> <field> ; <field> ; …  → physical | read_only | alias <x> | transform <x> <expr> | out-of-fuel
        field := P | V0 <expr> | V1 <expr>      (V1: the field has [requires])
  VWRITE <lo> <hi> <v> <expr>        → `param=<T> check=<0|1|none> inv=<int|ub|notype|unmodelled|->
                                         range=<lo>..<hi>|none types=<I>/<R>/<L>/<R>,…`
        the generated write methods of a transform virtual field whose value range is
        [lo, hi], on the candidate `v` (must be a value of the parameter type, else `bad-op`):
        C++ parameter type, outcome of the generated range check, the inverse as the
        generated C++ computes it (`-` when the check refuses), the inferred range of the
        inverse, and the template arguments of every run-time node (preorder)
-/
import Emboss.Model.WriteInference
import Driver.Util
open Emboss.WInf

namespace Driver

def opOfString (s : String) : Op :=
  match s with
  | "add" => .add | "sub" => .sub | "mul" => .mul
  | n => .other n

def opToString : Op → String
  | .add => "add" | .sub => "sub" | .mul => "mul" | .other n => n

partial def showExpr : Expr → String
  | .const v => s!"c{v}"
  | .ref i => s!"r{i}"
  | .logical => "lv"
  | .leaf n => s!"l:{n}"
  | .un n a => s!"( u {n} {showExpr a} )"
  | .bin op a b => s!"( b {opToString op} {showExpr a} {showExpr b} )"
  | .tern n a b c => s!"( t {n} {showExpr a} {showExpr b} {showExpr c} )"

/-- Recursive-descent parser over a token list; fuel = number of tokens. -/
def parseExpr : Nat → List String → Option (Expr × List String)
  | 0, _ => none
  | fuel + 1, toks =>
    match toks with
    | [] => none
    | "lv" :: rest => some (.logical, rest)
    | "(" :: "u" :: n :: rest => do
      let (a, rest) ← parseExpr fuel rest
      match rest with
      | ")" :: rest => some (.un n a, rest)
      | _ => none
    | "(" :: "b" :: op :: rest => do
      let (a, rest) ← parseExpr fuel rest
      let (b, rest) ← parseExpr fuel rest
      match rest with
      | ")" :: rest => some (.bin (opOfString op) a b, rest)
      | _ => none
    | "(" :: "t" :: n :: rest => do
      let (a, rest) ← parseExpr fuel rest
      let (b, rest) ← parseExpr fuel rest
      let (c, rest) ← parseExpr fuel rest
      match rest with
      | ")" :: rest => some (.tern n a b c, rest)
      | _ => none
    | tok :: rest =>
      if tok.startsWith "c" then (tok.drop 1).toString.toInt?.map fun v => (.const v, rest)
      else if tok.startsWith "r" then (tok.drop 1).toString.toNat?.map fun v => (.ref v, rest)
      else if tok.startsWith "l:" then some (.leaf (tok.drop 2).toString, rest)
      else none

def parseWhole (toks : List String) : Option Expr :=
  match parseExpr (toks.length + 1) toks with
  | some (e, []) => some e
  | _ => none

def parseField (toks : List String) : Option Field :=
  match toks with
  | ["P"] => some .physical
  | "V0" :: rest => (parseWhole rest).map fun e => .virtual e false
  | "V1" :: rest => (parseWhole rest).map fun e => .virtual e true
  | _ => none

def splitOnTok (sep : String) (toks : List String) : List (List String) :=
  let rec go (acc cur : List String) (out : List (List String)) : List String → List (List String)
    | [] => (cur.reverse :: out).reverse
    | t :: ts => if t == sep then go acc [] (cur.reverse :: out) ts else go acc (t :: cur) out ts
  go [] [] [] toks

def parseEnv (s : String) : Option (Nat → Int) :=
  if s == "-" then some (fun _ => 0) else do
    let pairs ← (s.splitOn ",").mapM fun item =>
      match item.splitOn "=" with
      | [i, v] => do
        let i ← i.toNat?
        let v ← v.toInt?
        pure (i, v)
      | _ => none
    pure fun i => match pairs.find? (fun p => p.1 == i) with
      | some p => p.2
      | none => 0

def handleWInf (line : String) : Option String :=
  match (line.splitOn " ").filter (· ≠ "") with
  | "INVERT" :: toks =>
    some <| match parseWhole toks with
    | none => "bad-op"
    | some e =>
      match invert e with
      | none => "none"
      | some (r, inv) => s!"some {showExpr r} {showExpr inv}"
  | "FINDPATH" :: toks =>
    some <| match parseWhole toks with
    | none => "bad-op"
    | some e =>
      match findPath e with
      | none => "none"
      | some p => "path " ++ showNatList p
  | "EVAL" :: lv :: env :: toks =>
    some <| match lv.toInt?, parseEnv env, parseWhole toks with
    | some lv, some env, some e =>
      match eval env lv e with
      | none => "none"
      | some v => toString v
    | _, _, _ => "bad-op"
  | "VWRITE" :: lo :: hi :: v :: toks =>
    some <| match lo.toInt?, hi.toInt?, v.toInt?, parseWhole toks with
    | some lo, some hi, some v, some body =>
      let lv : Rng := ⟨lo, hi⟩
      match logicalType lv with
      | none => "param=none"
      | some t =>
        if !t.holds v then "bad-op" else
        let showT : Option Emboss.CppInt.IntTy → String := fun o =>
          match o with | some t => t.toString | none => "none"
        let chk := rangeCheck lv t v
        let inv := match chk with
          | some true =>
            (match cppEval lv v body with
             | .ok u => toString u | .ub => "ub" | .notype => "notype" | .unmodelled => "unmodelled")
          | _ => "-"
        let rng := match rangeOf lv body with
          | some r => s!"{r.lo}..{r.hi}" | none => "none"
        let tys := ",".intercalate ((cppTypes lv body).map fun (a, b, c, d) =>
          s!"{showT a}/{showT b}/{showT c}/{showT d}")
        let chkS := match chk with | some true => "1" | some false => "0" | none => "none"
        s!"param={t.toString} check={chkS} inv={inv} range={rng} types={if tys == "" then "-" else tys}"
    | _, _, _, _ => "bad-op"
  | "WMETHOD" :: i :: toks =>
    some <| match i.toNat?, (splitOnTok ";" toks).mapM parseField with
    | some i, some fields =>
      match writeMethod fields (fields.length + 1) i with
      | .physical => "physical"
      | .readOnly => "read_only"
      | .alias x => s!"alias {x}"
      | .transform x body => s!"transform {x} {showExpr body}"
      | .outOfFuel => "out-of-fuel"
    | _, _ => "bad-op"
  | _ => none

end Driver
