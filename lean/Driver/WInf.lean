/-
Line protocol for the write-inference model.

  expr  := c<int> | r<nat> | lv | l:<name> | ( u <name> expr ) | ( b <op> expr expr )
         | ( t <name> expr expr expr )          op := add | sub | mul | <other name>
  INVERT <expr>                      → `none` | `some r<x> <expr>`
  FINDPATH <expr>                    → `none` | `path i,j,…`
  EVAL <lv> <id=val,…|-> <expr>      → `none` | `<int>`
  WMETHOD <i> <field> ; <field> ; …  → physical | read_only | alias <x> | transform <x> <expr> | out-of-fuel
        field := P | V0 <expr> | V1 <expr>      (V1: the field has [requires])
-/
import Emboss.Model.WriteInference
import Driver.Util
open Emboss.WInf

namespace Driver

def opOfString (s : String) : Op :=
  match s with
  | "add" => .add | "sub" => .sub | "mul" => .mul
  | n => .other n

def opToString : Op → String
  | .add => "add" | .sub => "sub" | .mul => "mul" | .other n => n

partial def showExpr : Expr → String
  | .const v => s!"c{v}"
  | .ref i => s!"r{i}"
  | .logical => "lv"
  | .leaf n => s!"l:{n}"
  | .un n a => s!"( u {n} {showExpr a} )"
  | .bin op a b => s!"( b {opToString op} {showExpr a} {showExpr b} )"
  | .tern n a b c => s!"( t {n} {showExpr a} {showExpr b} {showExpr c} )"

/-- Recursive-descent parser over a token list; fuel = number of tokens. -/
def parseExpr : Nat → List String → Option (Expr × List String)
  | 0, _ => none
  | fuel + 1, toks =>
    match toks with
    | [] => none
    | "lv" :: rest => some (.logical, rest)
    | "(" :: "u" :: n :: rest => do
      let (a, rest) ← parseExpr fuel rest
      match rest with
      | ")" :: rest => some (.un n a, rest)
      | _ => none
    | "(" :: "b" :: op :: rest => do
      let (a, rest) ← parseExpr fuel rest
      let (b, rest) ← parseExpr fuel rest
      match rest with
      | ")" :: rest => some (.bin (opOfString op) a b, rest)
      | _ => none
    | "(" :: "t" :: n :: rest => do
      let (a, rest) ← parseExpr fuel rest
      let (b, rest) ← parseExpr fuel rest
      let (c, rest) ← parseExpr fuel rest
      match rest with
      | ")" :: rest => some (.tern n a b c, rest)
      | _ => none
    | tok :: rest =>
      if tok.startsWith "c" then (tok.drop 1).toString.toInt?.map fun v => (.const v, rest)
      else if tok.startsWith "r" then (tok.drop 1).toString.toNat?.map fun v => (.ref v, rest)
      else if tok.startsWith "l:" then some (.leaf (tok.drop 2).toString, rest)
      else none

def parseWhole (toks : List String) : Option Expr :=
  match parseExpr (toks.length + 1) toks with
  | some (e, []) => some e
  | _ => none

def parseField (toks : List String) : Option Field :=
  match toks with
  | ["P"] => some .physical
  | "V0" :: rest => (parseWhole rest).map fun e => .virtual e false
  | "V1" :: rest => (parseWhole rest).map fun e => .virtual e true
  | _ => none

def splitOnTok (sep : String) (toks : List String) : List (List String) :=
  let rec go (acc cur : List String) (out : List (List String)) : List String → List (List String)
    | [] => (cur.reverse :: out).reverse
    | t :: ts => if t == sep then go acc [] (cur.reverse :: out) ts else go acc (t :: cur) out ts
  go [] [] [] toks

def parseEnv (s : String) : Option (Nat → Int) :=
  if s == "-" then some (fun _ => 0) else do
    let pairs ← (s.splitOn ",").mapM fun item =>
      match item.splitOn "=" with
      | [i, v] => do
        let i ← i.toNat?
        let v ← v.toInt?
        pure (i, v)
      | _ => none
    pure fun i => match pairs.find? (fun p => p.1 == i) with
      | some p => p.2
      | none => 0

def handleWInf (line : String) : Option String :=
  match (line.splitOn " ").filter (· ≠ "") with
  | "INVERT" :: toks =>
    some <| match parseWhole toks with
    | none => "bad-op"
    | some e =>
      match invert e with
      | none => "none"
      | some (r, inv) => s!"some {showExpr r} {showExpr inv}"
  | "FINDPATH" :: toks =>
    some <| match parseWhole toks with
    | none => "bad-op"
    | some e =>
      match findPath e with
      | none => "none"
      | some p => "path " ++ showNatList p
  | "EVAL" :: lv :: env :: toks =>
    some <| match lv.toInt?, parseEnv env, parseWhole toks with
    | some lv, some env, some e =>
      match eval env lv e with
      | none => "none"
      | some v => toString v
    | _, _, _ => "bad-op"
  | "WMETHOD" :: i :: toks =>
    some <| match i.toNat?, (splitOnTok ";" toks).mapM parseField with
    | some i, some fields =>
      match writeMethod fields (fields.length + 1) i with
      | .physical => "physical"
      | .readOnly => "read_only"
      | .alias x => s!"alias {x}"
      | .transform x body => s!"transform {x} {showExpr body}"
      | .outOfFuel => "out-of-fuel"
    | _, _ => "bad-op"
  | _ => none

end Driver
