import Emboss.Model.Types
import Driver.Util
open Emboss.Types Driver

/-! Line protocol for C13.  Tokens are blank-separated, prefix notation.
`EXPR <file> <expr>` → `ty=<T> errs=<e;e;...>`;
`TYPE X k (file e)* P k (file loc (A|T ty))* L k (file e e)* A k (file e)* C k (file e)* V k (file e)*
 S k (file loc file loc n (ty loc)* g e*)* T k (file loc kind signed val)*`
(val = `s0 | s1 | x <expr> (k0 | k1 <expr in C05's language>)`)
→ `accepted` | `rejected <pass> <errs>` | `crashed <c>`; an error is `loc@file:class(+loc@file)*`. -/

abbrev P (α : Type) := List String → Option (α × List String)

def pLoc : P Loc
  | t :: ts =>
    if t.endsWith "s" then (t.dropEnd 1).toString.toNat?.map fun n => (⟨n, true⟩, ts)
    else t.toNat?.map fun n => (⟨n, false⟩, ts)
  | [] => none

def pNat : P Nat
  | t :: ts => t.toNat?.map fun n => (n, ts)
  | [] => none

def pTy : P Ty
  | "I" :: ts => some (.int, ts)
  | "B" :: ts => some (.bool, ts)
  | "O" :: ts => some (.opaque, ts)
  | "N" :: ts => some (.none, ts)
  | t :: ts => if t.startsWith "E" then (t.drop 1).toString.toNat?.map fun n => (.enum n, ts) else none
  | [] => none

def pDTy : P DTy
  | "I" :: ts => some (.int, ts)
  | "B" :: ts => some (.bool, ts)
  | "O" :: ts => some (.opaque, ts)
  | t :: ts => if t.startsWith "E" then (t.drop 1).toString.toNat?.map fun n => (.enum n, ts) else none
  | [] => none

def binOpOf : String → Option BinOp
  | "add" => some .add | "sub" => some .sub | "mul" => some .mul | "and" => some .and
  | "or" => some .or | "eq" => some .eq | "ne" => some .ne | "lt" => some .lt
  | "le" => some .le | "gt" => some .gt | "ge" => some .ge | _ => none

def fnOf : String → Option Fn
  | "max" => some .max | "present" => some .present | "upper" => some .upper
  | "lower" => some .lower | _ => none

def pMany {α : Type} (p : P α) : Nat → P (List α)
  | 0, ts => some ([], ts)
  | n + 1, ts => do
    let (x, ts) ← p ts
    let (xs, ts) ← pMany p n ts
    pure (x :: xs, ts)

def pCounted {α : Type} (p : P α) : P (List α) := fun ts => do
  let (k, ts) ← pNat ts
  pMany p k ts

partial def pExpr : P Expr
  | "n" :: ts => do let (l, ts) ← pLoc ts; pure (.num l, ts)
  | "b" :: ts => do let (l, ts) ← pLoc ts; pure (.boolc l, ts)
  | "e" :: ts => do let (l, ts) ← pLoc ts; let (n, ts) ← pNat ts; pure (.enumv l n, ts)
  | "cp" :: ts => do
    let (l, ts) ← pLoc ts; let (df, ts) ← pNat ts; let (d, ts) ← pLoc ts; pure (.cphys l df d, ts)
  | "cv" :: ts => do
    let (l, ts) ← pLoc ts; let (df, ts) ← pNat ts; let (d, ts) ← pExpr ts; pure (.cvirt l df d, ts)
  | "co" :: ts => do let (l, ts) ← pLoc ts; pure (.cother l, ts)
  | "lp" :: ts => do let (l, ts) ← pLoc ts; let (t, ts) ← pDTy ts; pure (.lparam l t, ts)
  | "la" :: ts => do let (l, ts) ← pLoc ts; pure (.lparamArr l, ts)
  | "lf" :: ts => do let (l, ts) ← pLoc ts; let (t, ts) ← pDTy ts; pure (.lphys l t, ts)
  | "lv" :: ts => do
    let (l, ts) ← pLoc ts; let (df, ts) ← pNat ts; let (d, ts) ← pExpr ts; pure (.lvirt l df d, ts)
  | "bi" :: ts => do
    let (l, ts) ← pLoc ts
    let (n, ts) ← pNat ts
    match n with
    | 0 => pure (.builtin l .staticSizeInBits, ts)
    | 1 => pure (.builtin l .isStaticallySized, ts)
    | 2 => pure (.builtin l .other, ts)
    | _ => none
  | "op" :: ts => do
    let (l, ts) ← pLoc ts
    match ts with
    | o :: ts => do
      let op ← binOpOf o
      let (a, ts) ← pExpr ts
      let (b, ts) ← pExpr ts
      pure (.bin l op a b, ts)
    | [] => none
  | "ch" :: ts => do
    let (l, ts) ← pLoc ts
    let (c, ts) ← pExpr ts
    let (t, ts) ← pExpr ts
    let (f, ts) ← pExpr ts
    pure (.choice l c t f, ts)
  | "fn" :: ts => do
    let (l, ts) ← pLoc ts
    match ts with
    | o :: ts => do
      let f ← fnOf o
      let (args, ts) ← pCounted pExpr ts
      pure (.fn l f args, ts)
    | [] => none
  | _ => none

def pFExpr : P FExpr := fun ts => do
  let (f, ts) ← pNat ts
  let (e, ts) ← pExpr ts
  pure ((f, e), ts)

def pParam : P Param := fun ts => do
  let (f, ts) ← pNat ts
  let (l, ts) ← pLoc ts
  match ts with
  | "A" :: ts => pure (⟨f, l, .array⟩, ts)
  | "T" :: ts => do let (t, ts) ← pDTy ts; pure (⟨f, l, .atomic t⟩, ts)
  | _ => none

def pLocation : P (FileId × Expr × Expr) := fun ts => do
  let (f, ts) ← pNat ts
  let (a, ts) ← pExpr ts
  let (b, ts) ← pExpr ts
  pure ((f, a, b), ts)

def pTyLoc : P (Ty × Loc) := fun ts => do
  let (t, ts) ← pTy ts
  let (l, ts) ← pLoc ts
  pure ((t, l), ts)

def pPassed : P Passed := fun ts => do
  let (f, ts) ← pNat ts
  let (l, ts) ← pLoc ts
  let (df, ts) ← pNat ts
  let (d, ts) ← pLoc ts
  let (ex, ts) ← pCounted pTyLoc ts
  let (g, ts) ← pCounted pExpr ts
  pure (⟨f, l, df, d, ex, g⟩, ts)

def bBinOpOf : String → Option Emboss.Bounds.BinOp
  | "add" => some .add | "sub" => some .sub | "mul" => some .mul | "and" => some .and
  | "or" => some .or | "eq" => some .eq | "ne" => some .ne | "lt" => some .lt
  | "le" => some .le | "gt" => some .gt | "ge" => some .ge | _ => none

def pSize : String → Option (Option Int)
  | "?" => some none
  | s => s.toInt?.map some

/-- An attribute value in C05's expression language (prefix notation, explicit arities):
`c n | t | f | ec n | u id size | s id size | d id size | ss id | bl id | el id |
 <binop> a b | ch c t f | max k a… | ub a | lb a | cref a | vref a | present a c`. -/
partial def pBExpr : P Emboss.Bounds.Expr
  | "c" :: v :: ts => v.toInt?.map fun n => (.const n, ts)
  | "t" :: ts => some (.bconst true, ts)
  | "f" :: ts => some (.bconst false, ts)
  | "ec" :: v :: ts => v.toInt?.map fun n => (.econst n, ts)
  | "u" :: id :: sz :: ts => do pure (.ileaf (← id.toNat?) .uint (← pSize sz), ts)
  | "s" :: id :: sz :: ts => do pure (.ileaf (← id.toNat?) .sint (← pSize sz), ts)
  | "d" :: id :: sz :: ts => do pure (.ileaf (← id.toNat?) .bcd (← pSize sz), ts)
  | "ss" :: id :: ts => id.toNat?.map fun n => (.ssize n, ts)
  | "bl" :: id :: ts => id.toNat?.map fun n => (.bleaf n, ts)
  | "el" :: id :: ts => id.toNat?.map fun n => (.eleaf n, ts)
  | "ch" :: ts => do
    let (c, ts) ← pBExpr ts
    let (t, ts) ← pBExpr ts
    let (f, ts) ← pBExpr ts
    pure (.choice c t f, ts)
  | "max" :: ts => do
    let (k, ts) ← pNat ts
    let (as, ts) ← pMany pBExpr k ts
    pure (.max as, ts)
  | "ub" :: ts => do let (a, ts) ← pBExpr ts; pure (.upper a, ts)
  | "lb" :: ts => do let (a, ts) ← pBExpr ts; pure (.lower a, ts)
  | "cref" :: ts => do let (a, ts) ← pBExpr ts; pure (.cref a, ts)
  | "vref" :: ts => do let (a, ts) ← pBExpr ts; pure (.vref a, ts)
  | "present" :: ts => do
    let (a, ts) ← pBExpr ts
    let (c, ts) ← pBExpr ts
    pure (.present a c, ts)
  | op :: ts => do
    let o ← bBinOpOf op
    let (a, ts) ← pBExpr ts
    let (b, ts) ← pBExpr ts
    pure (.bin o a b, ts)
  | [] => none

def kindOf : String → Option AKind
  | "boolconst" => some .boolConst | "bool" => some .bool
  | "int" => some .intConst | "strlist" => some .strList | "backends" => some .backEnds | _ => none

def pAttr : P Attr := fun ts => do
  let (f, ts) ← pNat ts
  let (l, ts) ← pLoc ts
  match ts with
  | k :: sg :: ts => do
    let kind ← kindOf k
    let signed := sg == "1"
    match ts with
    | "s0" :: ts => pure (⟨f, l, kind, signed, .str false, none⟩, ts)
    | "s1" :: ts => pure (⟨f, l, kind, signed, .str true, none⟩, ts)
    | "x" :: ts => do
      let (e, ts) ← pExpr ts
      match ts with
      | "k1" :: ts => do let (b, ts) ← pBExpr ts; pure (⟨f, l, kind, signed, .expr e, some b⟩, ts)
      | "k0" :: ts => pure (⟨f, l, kind, signed, .expr e, none⟩, ts)
      | _ => none
    | _ => none
  | _ => none

def pSection {α : Type} (tag : String) (p : P α) : P (List α)
  | t :: ts => if t == tag then pCounted p ts else none
  | [] => none

def pModule : P Module := fun ts => do
  let (exprs, ts) ← pSection "X" pFExpr ts
  let (params, ts) ← pSection "P" pParam ts
  let (locs, ts) ← pSection "L" pLocation ts
  let (arrays, ts) ← pSection "A" pFExpr ts
  let (conds, ts) ← pSection "C" pFExpr ts
  let (vals, ts) ← pSection "V" pFExpr ts
  let (passed, ts) ← pSection "S" pPassed ts
  let (attrs, ts) ← pSection "T" pAttr ts
  pure (⟨exprs, params, locs, arrays, conds, vals, passed, attrs⟩, ts)

def showTy : Ty → String
  | .int => "I" | .bool => "B" | .enum n => s!"E{n}" | .opaque => "O" | .none => "N"

def showCls : Cls → String
  | .mustInt i => s!"mustInt{i}" | .mustBool i => s!"mustBool{i}" | .mustField i => s!"mustField{i}"
  | .arity => "arity" | .cmpArg i => s!"cmpArg{i}" | .cmpSame => "cmpSame"
  | .chCond => "chCond" | .chTrue => "chTrue" | .chSame => "chSame" | .staticPhys => "staticPhys"
  | .staticOther => "staticOther" | .builtinCtx => "builtinCtx" | .posEnumValue => "posEnumValue"
  | .posStart => "posStart" | .posSize => "posSize" | .posArray => "posArray" | .posExist => "posExist"
  | .paramArray => "paramArray" | .paramKind => "paramKind" | .passArity => "passArity"
  | .passKind i => s!"passKind{i}"
  | .attrBool => "attrBool" | .attrConstBool => "attrConstBool" | .attrInt => "attrInt"
  | .attrConst => "attrConst" | .attrStr => "attrStr" | .attrString => "attrString"

def showCrash : Crash → String
  | .paramTypeNone => "paramTypeNone" | .passedTypeNone => "passedTypeNone"
  | .attrTypeNone => "attrTypeNone" | .attrSignedNotLiteral => "attrSignedNotLiteral"

def showLoc (l : Loc) : String := toString l.id ++ (if l.syn then "s" else "")

def showErr (e : Err) : String :=
  showLoc e.l ++ "@" ++ toString e.file ++ ":" ++ showCls e.cls ++
    String.join (e.notes.map fun n => "+" ++ showLoc n.2 ++ "@" ++ toString n.1)

def showErrs (es : List Err) : String := ";".intercalate (es.map showErr)

def tokens (s : String) : List String := (s.splitOn " ").filter (· ≠ "")

def handle (line : String) : String :=
  match tokens line with
  | "EXPR" :: ts =>
    match pFExpr ts with
    | some ((f, e), []) =>
      let r := tc f e
      s!"ty={showTy r.ty} errs={showErrs r.errs}"
    | _ => "bad-op"
  | "TYPE" :: ts =>
    match pModule ts with
    | some (m, []) =>
      match run m with
      | .accepted => "accepted"
      | .rejected p es => s!"rejected {p} {showErrs es}"
      | .crashed c => s!"crashed {showCrash c}"
    | _ => "bad-op"
  | _ => "bad-op"

def main : IO Unit := run handle
