import Lean.Data.Json
import Emboss.Model.Fmt
import Emboss.Spec.Fmt
import Emboss.Spec.FmtEquivC
import Emboss.Spec.FmtRetok
import Driver.Util
open Emboss.Fmt Driver

/-! Line protocol of `model_c11`:

* `FMT <indent_width> <tree>` — `<tree>` in prefix form, blank-separated items:
  `N<i>:<k>` a node with production `formatters[i]` and `k` children (which follow),
  `T<hex>` a token with the given text (UTF-8, hex).  Answer: `ok <hex of the text>`,
  `none` (the model says the Python raises), or `not-text` (the root handler did not
  return a string).
* `TABLE` — evaluates the table obligations of Spec/Fmt.lean on the regenerated registry
  (`tableTyped formatters`, `tableMatchesGrammar formatters grammar`, `tableNormal formatters`,
  `tableComment formatters`):
  `ok`, or `bad …`
  naming the first offending entries.
* `SANITY <formatted tokens> <original tokens>` — each a `,`-separated list of
  `<hex symbol>:<hex text>` (`-` for the empty list).  Answer: `ok`, `differs <i>`,
  `countdiffers`.
* `GLUE` / `GLUECHECK` — the terminal pairs some handler prints with nothing in between
  (`gluedPairs`), and whether all of them are in the audited list (`gluedOK`).
* `RETOK <indent_width> <tree>` — `retokTree` (Spec/FmtRetok.lean): the hypotheses of
  `C11_retokenize_partial` evaluated row by row with the tokenizer model, and the token
  sequence they imply.  Answer: `ok <leaves>` (`,`-separated `<hex symbol>:<hex text>`, `-` for
  none) or `hyp-fails`.
* `HRUN <production index> <indent_width> <hex JSON array of values>` — run the *handler* the
  registry resolves that production to on the given argument values (round 3: per-handler
  probes).  Values: `{"s": str}`, `{"l": [str…]}`, `{"n": 0}` (Python `[]`), `{"r": [row…]}`,
  `{"b": [block…]}`, `{"S": [[row…]…]}`, `{"i": [[row…], [block…]]}`; row =
  `[name, [columns…], indent]`, block = `[[row…], row, [row…]]`.  Answer: `ok <hex JSON value>`,
  `none` (the model says the Python raises), `bad-op`.
-/

def hexVal (c : Char) : Option Nat :=
  if '0' ≤ c ∧ c ≤ '9' then some (c.toNat - '0'.toNat)
  else if 'a' ≤ c ∧ c ≤ 'f' then some (c.toNat - 'a'.toNat + 10)
  else none

def hexBytes : List Char → ByteArray → Option ByteArray
  | [], acc => some acc
  | [_], _ => none
  | a :: b :: r, acc =>
    match hexVal a, hexVal b with
    | some x, some y => hexBytes r (acc.push (UInt8.ofNat (x * 16 + y)))
    | _, _ => none

def unhex (s : String) : Option String :=
  match hexBytes s.toList ByteArray.empty with
  | some b => String.fromUTF8? b
  | none => none

def hexDigit (n : Nat) : Char :=
  if n < 10 then Char.ofNat ('0'.toNat + n) else Char.ofNat ('a'.toNat + n - 10)

def tohex (s : String) : String :=
  String.ofList (s.toUTF8.toList.flatMap (fun b => [hexDigit (b.toNat / 16), hexDigit (b.toNat % 16)]))

/-- A frame: production index, children still missing, children so far (reversed). -/
abbrev Frame := Nat × Nat × List Tree

/-- Deliver a finished subtree to the innermost open frame, closing frames that become
complete.  With no open frame the subtree is the result. -/
def deliver : Tree → List Frame → (Option Tree × List Frame)
  | t, [] => (some t, [])
  | t, (p, k, cs) :: rest =>
    if k ≤ 1 then deliver (.node p (t :: cs).reverse) rest
    else (none, (p, k - 1, t :: cs) :: rest)

def parseItems : List String → List Frame → Option Tree → Option Tree
  | [], [], some t => some t
  | [], _, _ => none
  | item :: items, stack, done =>
    match done with
    | some _ => none            -- trailing garbage
    | none =>
      if item.startsWith "T" then
        match unhex (item.drop 1).toString with
        | some s =>
          let (d, st) := deliver (.tok "" s.toList) stack
          parseItems items st d
        | none => none
      else if item.startsWith "N" then
        match ((item.drop 1).toString.splitOn ":") with
        | [i, k] =>
          match i.toNat?, k.toNat? with
          | some i, some k =>
            if k = 0 then
              let (d, st) := deliver (.node i []) stack
              parseItems items st d
            else parseItems items ((i, k, []) :: stack) none
          | _, _ => none
        | _ => none
      else none

def parseToks (s : String) : Option (List Tok) :=
  if s = "-" then some []
  else (s.splitOn ",").mapM fun item =>
    match item.splitOn ":" with
    | [a, b] => do
      let a ← unhex a
      let b ← unhex b
      pure { sym := a, text := b.toList }
    | _ => none

def showEntry (e : String × List String × String × Bool) : String :=
  e.1 ++ " -> " ++ " ".intercalate e.2.1 ++ " :: " ++ e.2.2.1

def tableReport : String :=
  let tbl := Emboss.Generated.FmtTable.formatters
  let g := Emboss.Generated.FmtTable.grammar
  if tableTyped tbl && tableMatchesGrammar tbl g && tableNormal tbl && tableComment tbl then "ok"
  else
    let untyped := (tbl.filter (fun e => !checkEntry e)).take 3
    let undropped := (tbl.filter (fun e => !dropOK e)).take 3
    let layoutLhs := (tbl.filter (fun e => isLayoutSym e.1)).take 3
    let unnormal := (tbl.filter (fun e => !normOK e)).take 3
    let uncomment := (tbl.filter (fun e => !commentOK e)).take 3
    "bad grammar-match=" ++ toString (tableMatchesGrammar tbl g) ++
      " layout-or-documentation-argument-used=[" ++ "; ".intercalate (unnormal.map showEntry) ++ "]" ++
      " comment-not-at-comment-position=[" ++ "; ".intercalate (uncomment.map showEntry) ++ "]" ++
      " untyped=[" ++ "; ".intercalate (untyped.map showEntry) ++ "]" ++
      " ignored-non-layout=[" ++ "; ".intercalate (undropped.map showEntry) ++ "]" ++
      " layout-lhs=[" ++ "; ".intercalate (layoutLhs.map showEntry) ++ "]"

/-! ### Values as JSON (op `HRUN`) -/

open Lean in
def rowToJson (r : Row) : Json :=
  Json.arr #[Json.str r.name.str, Json.arr (r.columns.map (fun c => Json.str (String.ofList c))).toArray,
    Json.num (JsonNumber.fromNat r.indent)]

open Lean in
def rowsToJson (l : List Row) : Json := Json.arr (l.map rowToJson).toArray

open Lean in
def blockToJson (b : Block) : Json :=
  Json.arr #[rowsToJson b.pre, rowToJson b.header, rowsToJson b.body]

open Lean in
def nilJson : Json := Json.mkObj [("n", Json.num 0)]

open Lean in
/-- Python cannot tell an empty list of rows from an empty list of blocks: every empty list
is `{"n": 0}`. -/
def fmtToJson : Fmt → Json
  | .str s => Json.mkObj [("s", Json.str (String.ofList s))]
  | .strs [] => nilJson
  | .strs l => Json.mkObj [("l", Json.arr (l.map (fun c => Json.str (String.ofList c))).toArray)]
  | .nil => nilJson
  | .rows [] => nilJson
  | .rows l => Json.mkObj [("r", rowsToJson l)]
  | .blocks [] => nilJson
  | .blocks l => Json.mkObj [("b", Json.arr (l.map blockToJson).toArray)]
  | .sections [] => nilJson
  | .sections l => Json.mkObj [("S", Json.arr (l.map rowsToJson).toArray)]
  | .inlineBody h f => Json.mkObj [("i", Json.arr #[rowsToJson h, Json.arr (f.map blockToJson).toArray])]

def rowNames : List RowName :=
  [.comment, .doc, .import_, .attribute, .typeHeader, .field, .virtualField, .if_, .enumValue,
   .sectionBreak, .topTypeSeparator, .fieldSeparator, .valueSeparator, .dedentSpace]

def rowNameOfStr (s : String) : Option RowName := rowNames.find? (fun n => n.str == s)

open Lean in
def jsonToRow (j : Json) : Option Row :=
  match j with
  | Json.arr #[Json.str n, Json.arr cols, ind] => do
    let name ← rowNameOfStr n
    let cols ← cols.toList.mapM (fun c => match c with | Json.str x => some x.toList | _ => none)
    let ind ← (ind.getNat?).toOption
    pure { name := name, columns := cols, indent := ind }
  | _ => none

open Lean in
def jsonToRows (j : Json) : Option (List Row) :=
  match j with
  | Json.arr a => a.toList.mapM jsonToRow
  | _ => none

open Lean in
def jsonToBlock (j : Json) : Option Block :=
  match j with
  | Json.arr #[p, h, b] => do
    let p ← jsonToRows p
    let h ← jsonToRow h
    let b ← jsonToRows b
    pure { pre := p, header := h, body := b }
  | _ => none

open Lean in
def jsonToBlocks (j : Json) : Option (List Block) :=
  match j with
  | Json.arr a => a.toList.mapM jsonToBlock
  | _ => none

open Lean in
def jsonToFmt (j : Json) : Option Fmt :=
  match j.getObjVal? "s" with
  | .ok (Json.str s) => some (.str s.toList)
  | _ =>
  match j.getObjVal? "n" with
  | .ok _ => some .nil
  | _ =>
  match j.getObjVal? "l" with
  | .ok (Json.arr a) => (a.toList.mapM (fun c => match c with | Json.str x => some x.toList | _ => none)).map .strs
  | _ =>
  match j.getObjVal? "r" with
  | .ok r => (jsonToRows r).map .rows
  | _ =>
  match j.getObjVal? "b" with
  | .ok b => (jsonToBlocks b).map .blocks
  | _ =>
  match j.getObjVal? "S" with
  | .ok (Json.arr a) => (a.toList.mapM jsonToRows).map .sections
  | _ =>
  match j.getObjVal? "i" with
  | .ok (Json.arr #[h, f]) => do
    let h ← jsonToRows h
    let f ← jsonToBlocks f
    pure (.inlineBody h f)
  | _ => none

open Lean in
def parseArgs (hex : String) : Option (List Fmt) :=
  match unhex hex with
  | none => none
  | some txt =>
    match Json.parse txt with
    | .ok (Json.arr a) => a.toList.mapM jsonToFmt
    | _ => none

def handlerRun (p iw : Nat) (args : List Fmt) : Option Fmt :=
  match Emboss.Generated.FmtTable.formatters[p]? with
  | none => none
  | some e =>
    match resolve e with
    | none => none
    | some h => h.run iw args

def handle (line : String) : String :=
  match line.splitOn " " with
  | ["TABLE"] => tableReport
  | ["GLUE"] =>
    "\t".intercalate ((gluedPairs Emboss.Generated.FmtTable.formatters).map (fun p => p.1 ++ " " ++ p.2))
  | ["GLUECHECK"] =>
    let tbl := Emboss.Generated.FmtTable.formatters
    if gluedOK tbl then "ok"
    else "bad fixpoints-reached=" ++ toString (fixpointsReached (resolved tbl)) ++
      " not-audited=" ++ "\t".intercalate
      (((gluedPairs tbl).filter (fun p => !allowedGlued.contains p)).map (fun p => p.1 ++ " " ++ p.2))
  | "FMT" :: iw :: items =>
    match iw.toNat?, parseItems items [] none with
    | some iw, some t =>
      match formatTree iw t with
      | some (.str s) => "ok " ++ tohex (String.ofList s)
      | some _ => "not-text"
      | none => "none"
    | _, _ => "bad-op"
  | "RETOK" :: iw :: items =>
    match iw.toNat?, parseItems items [] none with
    | some iw, some t =>
      match Emboss.FmtTok.retokTree iw t with
      | some E =>
        if E.isEmpty then "ok -"
        else "ok " ++ ",".intercalate (E.map (fun l => tohex l.1 ++ ":" ++ tohex (String.ofList l.2)))
      | none => "hyp-fails"
    | _, _ => "bad-op"
  | ["HRUN", p, iw, hex] =>
    match p.toNat?, iw.toNat?, parseArgs hex with
    | some p, some iw, some args =>
      match handlerRun p iw args with
      | some v => "ok " ++ tohex (fmtToJson v).compress
      | none => "none"
    | _, _, _ => "bad-op"
  | ["SANITY", f, o] =>
    match parseToks f, parseToks o with
    | some f, some o =>
      match sanityCheck f o with
      | .ok => "ok"
      | .differs i => "differs " ++ toString i
      | .countDiffers => "countdiffers"
    | _, _ => "bad-op"
  | _ => "bad-op"

def main : IO Unit := run handle
