import Emboss.Model.Fmt
import Emboss.Spec.Fmt
import Emboss.Spec.FmtEquivC
import Driver.Util
open Emboss.Fmt Driver

/-! Line protocol of `model_c11`:

* `FMT <indent_width> <tree>` — `<tree>` in prefix form, blank-separated items:
  `N<i>:<k>` a node with production `formatters[i]` and `k` children (which follow),
  `T<hex>` a token with the given text (UTF-8, hex).  Answer: `ok <hex of the text>`,
  `none` (the model says the Python raises), or `not-text` (the root handler did not
  return a string).
* `TABLE` — evaluates the table obligations of Spec/Fmt.lean on the regenerated registry
  (`tableTyped formatters`, `tableMatchesGrammar formatters grammar`, `tableNormal formatters`,
  `tableComment formatters`):
  `ok`, or `bad …`
  naming the first offending entries.
* `SANITY <formatted tokens> <original tokens>` — each a `,`-separated list of
  `<hex symbol>:<hex text>` (`-` for the empty list).  Answer: `ok`, `differs <i>`,
  `countdiffers`.
* `GLUE` / `GLUECHECK` — the terminal pairs some handler prints with nothing in between
  (`gluedPairs`), and whether all of them are in the audited list (`gluedOK`).
-/

def hexVal (c : Char) : Option Nat :=
  if '0' ≤ c ∧ c ≤ '9' then some (c.toNat - '0'.toNat)
  else if 'a' ≤ c ∧ c ≤ 'f' then some (c.toNat - 'a'.toNat + 10)
  else none

def hexBytes : List Char → ByteArray → Option ByteArray
  | [], acc => some acc
  | [_], _ => none
  | a :: b :: r, acc =>
    match hexVal a, hexVal b with
    | some x, some y => hexBytes r (acc.push (UInt8.ofNat (x * 16 + y)))
    | _, _ => none

def unhex (s : String) : Option String :=
  match hexBytes s.toList ByteArray.empty with
  | some b => String.fromUTF8? b
  | none => none

def hexDigit (n : Nat) : Char :=
  if n < 10 then Char.ofNat ('0'.toNat + n) else Char.ofNat ('a'.toNat + n - 10)

def tohex (s : String) : String :=
  String.ofList (s.toUTF8.toList.flatMap (fun b => [hexDigit (b.toNat / 16), hexDigit (b.toNat % 16)]))

/-- A frame: production index, children still missing, children so far (reversed). -/
abbrev Frame := Nat × Nat × List Tree

/-- Deliver a finished subtree to the innermost open frame, closing frames that become
complete.  With no open frame the subtree is the result. -/
def deliver : Tree → List Frame → (Option Tree × List Frame)
  | t, [] => (some t, [])
  | t, (p, k, cs) :: rest =>
    if k ≤ 1 then deliver (.node p (t :: cs).reverse) rest
    else (none, (p, k - 1, t :: cs) :: rest)

def parseItems : List String → List Frame → Option Tree → Option Tree
  | [], [], some t => some t
  | [], _, _ => none
  | item :: items, stack, done =>
    match done with
    | some _ => none            -- trailing garbage
    | none =>
      if item.startsWith "T" then
        match unhex (item.drop 1).toString with
        | some s =>
          let (d, st) := deliver (.tok "" s.toList) stack
          parseItems items st d
        | none => none
      else if item.startsWith "N" then
        match ((item.drop 1).toString.splitOn ":") with
        | [i, k] =>
          match i.toNat?, k.toNat? with
          | some i, some k =>
            if k = 0 then
              let (d, st) := deliver (.node i []) stack
              parseItems items st d
            else parseItems items ((i, k, []) :: stack) none
          | _, _ => none
        | _ => none
      else none

def parseToks (s : String) : Option (List Tok) :=
  if s = "-" then some []
  else (s.splitOn ",").mapM fun item =>
    match item.splitOn ":" with
    | [a, b] => do
      let a ← unhex a
      let b ← unhex b
      pure { sym := a, text := b.toList }
    | _ => none

def showEntry (e : String × List String × String × Bool) : String :=
  e.1 ++ " -> " ++ " ".intercalate e.2.1 ++ " :: " ++ e.2.2.1

def tableReport : String :=
  let tbl := Emboss.Generated.FmtTable.formatters
  let g := Emboss.Generated.FmtTable.grammar
  if tableTyped tbl && tableMatchesGrammar tbl g && tableNormal tbl && tableComment tbl then "ok"
  else
    let untyped := (tbl.filter (fun e => !checkEntry e)).take 3
    let undropped := (tbl.filter (fun e => !dropOK e)).take 3
    let layoutLhs := (tbl.filter (fun e => isLayoutSym e.1)).take 3
    let unnormal := (tbl.filter (fun e => !normOK e)).take 3
    let uncomment := (tbl.filter (fun e => !commentOK e)).take 3
    "bad grammar-match=" ++ toString (tableMatchesGrammar tbl g) ++
      " layout-or-documentation-argument-used=[" ++ "; ".intercalate (unnormal.map showEntry) ++ "]" ++
      " comment-not-at-comment-position=[" ++ "; ".intercalate (uncomment.map showEntry) ++ "]" ++
      " untyped=[" ++ "; ".intercalate (untyped.map showEntry) ++ "]" ++
      " ignored-non-layout=[" ++ "; ".intercalate (undropped.map showEntry) ++ "]" ++
      " layout-lhs=[" ++ "; ".intercalate (layoutLhs.map showEntry) ++ "]"

def handle (line : String) : String :=
  match line.splitOn " " with
  | ["TABLE"] => tableReport
  | ["GLUE"] =>
    "\t".intercalate ((gluedPairs Emboss.Generated.FmtTable.formatters).map (fun p => p.1 ++ " " ++ p.2))
  | ["GLUECHECK"] =>
    let tbl := Emboss.Generated.FmtTable.formatters
    if gluedOK tbl then "ok"
    else "bad fixpoints-reached=" ++ toString (fixpointsReached (resolved tbl)) ++
      " not-audited=" ++ "\t".intercalate
      (((gluedPairs tbl).filter (fun p => !allowedGlued.contains p)).map (fun p => p.1 ++ " " ++ p.2))
  | "FMT" :: iw :: items =>
    match iw.toNat?, parseItems items [] none with
    | some iw, some t =>
      match formatTree iw t with
      | some (.str s) => "ok " ++ tohex (String.ofList s)
      | some _ => "not-text"
      | none => "none"
    | _, _ => "bad-op"
  | ["SANITY", f, o] =>
    match parseToks f, parseToks o with
    | some f, some o =>
      match sanityCheck f o with
      | .ok => "ok"
      | .differs i => "differs " ++ toString i
      | .countDiffers => "countdiffers"
    | _, _ => "bad-op"
  | _ => "bad-op"

def main : IO Unit := run handle
