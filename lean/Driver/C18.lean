import Lean.Data.Json
import Emboss.Model.Json
import Emboss.Model.JsonText
import Emboss.Generated.IrSchema
import Driver.Util
open Emboss.Json Driver

/-!
Line protocol of `model_c18` (schema = the regenerated `Generated.schema`):

* `ENC <neutral>`      → `enc wf=<0|1> rt=<0|1> <to_json text>` | `enc wf=<0|1> none`
* `DEC <Class> <json>` → `dec <neutral>` | `dec none`
* `HAS <neutral>`      → `has <comma separated names of set fields of the root>`
* `LOCSTR sl sc el ec d y` → `loc ok=<0|1> <str>`
* `LOCPARSE <json string>` → `pos sl sc el ec d y` | `pos none`
* `SCHEMA`             → `schema ok=<0|1> classes=<n>`
* `PARSE <json text>`  → `parse ok <re-rendered text>` | `parse err` | `parse out-of-fuel`
                         (the model's own reader `parseJson`, not Lean's JSON library)
* `FROMJSON <Class> <json text>` → `dec <neutral>` | `dec none` | `dec out-of-fuel`
                         (`fromJson` = `parseJson` then `fromDict`: text level)

`<neutral>` is the tagged JSON dump of a value written by the harness by walking the
dataclass itself: `null` | `{"s":str}` | `{"i":"dec"}` | `{"b":bool}` | `{"e":"dec"}` |
`{"o":"sl sc el ec d y"}` | `{"m":Class,"f":[…positional…]}` | `{"l":[…]}`.
-/

def S : Schema := Generated.schema

partial def valOfJson (j : Lean.Json) : Option Val :=
  match j with
  | .null => some .none
  | .obj _ =>
    match j.getObjVal? "s", j.getObjVal? "i", j.getObjVal? "b", j.getObjVal? "e",
          j.getObjVal? "o", j.getObjVal? "m", j.getObjVal? "l" with
    | .ok (.str s), _, _, _, _, _, _ => some (.str s)
    | _, .ok (.str i), _, _, _, _, _ => i.toInt?.map Val.int
    | _, _, .ok (.bool b), _, _, _, _ => some (.bool b)
    | _, _, _, .ok (.str e), _, _, _ => e.toInt?.map Val.enum
    | _, _, _, _, .ok (.str o), _, _ =>
      match (o.splitOn " ").mapM (fun t => t.toNat?) with
      | some [sl, sc, el, ec, d, y] => some (.loc ⟨⟨sl, sc⟩, ⟨el, ec⟩, d != 0, y != 0⟩)
      | _ => none
    | _, _, _, _, _, .ok (.str c), _ =>
      match j.getObjVal? "f" with
      | .ok (.arr fs) => (fs.toList.mapM valOfJson).map (Val.msg c)
      | _ => none
    | _, _, _, _, _, _, .ok (.arr xs) => (xs.toList.mapM valOfJson).map Val.list
    | _, _, _, _, _, _, _ => none
  | _ => none

partial def dvOfJson (j : Lean.Json) : Option Dv :=
  match j with
  | .null => some .null
  | .bool b => some (.bool b)
  | .str s => some (.str s)
  | .num n => if n.exponent == 0 then some (.int n.mantissa) else none
  | .arr xs => (xs.toList.mapM dvOfJson).map Dv.list
  | .obj kvs => (kvs.toList.mapM (fun (kv : String × Lean.Json) => (dvOfJson kv.2).map (fun d => (kv.1, d)))).map Dv.dict

/-- Neutral dump of a model value, as a `Dv` rendered with the same printer. -/
partial def neutral : Val → Dv
  | .none => .null
  | .str s => .dict [("s", .str s)]
  | .int i => .dict [("i", .str (String.ofList (intChars i)))]
  | .bool b => .dict [("b", .bool b)]
  | .enum n => .dict [("e", .str (String.ofList (intChars n)))]
  | .loc l => .dict [("o", .str (" ".intercalate
      [toString l.start.line, toString l.start.column, toString l.stop.line, toString l.stop.column,
       if l.disjoint then "1" else "0", if l.synthetic then "1" else "0"]))]
  | .msg c fs => .dict [("m", .str c), ("f", .list (fs.map neutral))]
  | .list xs => .dict [("l", .list (xs.map neutral))]

def b01 (b : Bool) : String := if b then "1" else "0"

def rootClass : Val → String
  | .msg c _ => c
  | _ => ""

def splitFirst (s : String) : String × String :=
  match s.splitOn " " with
  | [] => ("", "")
  | h :: t => (h, " ".intercalate t)

def handle (line : String) : String :=
  let (op, arg) := splitFirst line
  match op with
  | "ENC" =>
    match (Lean.Json.parse arg).toOption.bind valOfJson with
    | some m =>
      let c := rootClass m
      let wf := decide (WfMsg S c m)
      match toDict S m with
      | some d =>
        let rt := (fromDict S c d) == some m
        "enc wf=" ++ b01 wf ++ " rt=" ++ b01 rt ++ " " ++ d.render
      | none => "enc wf=" ++ b01 wf ++ " none"
    | none => "bad-op"
  | "DEC" =>
    let (c, js) := splitFirst arg
    match (Lean.Json.parse js).toOption.bind dvOfJson with
    | some d =>
      match fromDict S c d with
      | some m => "dec " ++ (neutral m).render
      | none => "dec none"
    | none => "bad-op"
  | "HAS" =>
    match (Lean.Json.parse arg).toOption.bind valOfJson with
    | some m =>
      match S.findClass (rootClass m) with
      | some cs => "has " ++ ",".intercalate ((cs.fields.filter (fun f => hasField S m f.name)).map (·.name))
          ++ (if hasField S m "no_such_field" then ",!" else "")
      | none => "bad-op"
    | none => "bad-op"
  | "LOCSTR" =>
    match (arg.splitOn " ").mapM (fun t => t.toNat?) with
    | some [sl, sc, el, ec, d, y] =>
      let l : Loc := ⟨⟨sl, sc⟩, ⟨el, ec⟩, d != 0, y != 0⟩
      "loc ok=" ++ b01 l.ok ++ " " ++ l.toStr
    | _ => "bad-op"
  | "LOCPARSE" =>
    match Lean.Json.parse arg with
    | .ok (.str s) =>
      match Loc.fromStr s with
      | some l => "pos " ++ " ".intercalate
          [toString l.start.line, toString l.start.column, toString l.stop.line, toString l.stop.column,
           b01 l.disjoint, b01 l.synthetic]
      | none => "pos none"
    | _ => "bad-op"
  | "PARSE" =>
    match parseJson arg with
    | .ok d _ => "parse ok " ++ d.render
    | .err => "parse err"
    | .outOfFuel => "parse out-of-fuel"
  | "FROMJSON" =>
    let (c, js) := splitFirst arg
    match parseJson js with
    | .ok d _ =>
      match fromDict S c d with
      | some m => "dec " ++ (neutral m).render
      | none => "dec none"
    | .err => "dec none"
    | .outOfFuel => "dec out-of-fuel"
  | "SCHEMA" => "schema ok=" ++ b01 (schemaOk S) ++ " classes=" ++ toString S.classes.length
  | _ => "bad-op"

def main : IO Unit := run handle
