import Lean.Data.Json
import Emboss.Model.Enum
import Driver.Util
open Emboss.Enum Emboss.CppInt Driver
open Lean (Json toJson)
abbrev EName := Emboss.Enum.Name

/-! Line protocol for C19 (and the literal half of C07).

* `ENUM <json>`   enum definition + queries → one JSON line
* `SPLIT <json string>` → `_split_enum_case_values` + `_verify_enum_case_attribute`
* `CAMEL <json string>` → `snake_to_camel`
* `RENDER <int>` → `_render_integer` and what the text denotes
* `EVAL <s|u> <bits> <neg> <mag> <U> <LL> <m1>` → value of a parsed literal
* `TYPE <maxbits> <signed>` → `_cpp_integer_type_for_enum`
* `FIELD <s|u> <W> <bvt> <w> R <raw>` / `… W <v>` → `EnumView::Read` / `CouldWriteValue`
* `FIELD <s|u> <W> <bvt> <w> T <n>` → `UpdateFromText` of the field with the decimal text of `n`
-/

def str (s : List Char) : Json := Json.str (String.ofList s)
def optInt : Option Int → Json
  | some v => toJson v
  | none => Json.null
def optName : Option EName → Json
  | some v => str v
  | none => Json.null

def getAttr (j : Json) : Except String Attr := do
  let be ← (← j.getObjVal? "back_end").getStr?
  let d ← (← j.getObjVal? "is_default").getBool?
  let t ← (← j.getObjVal? "text").getStr?
  pure ⟨be.toList, d, t.toList⟩

def getAttrs (j : Json) : Except String (List Attr) := do
  (← j.getArr?).toList.mapM getAttr

def getValue (j : Json) : Except String Value := do
  let n ← (← j.getObjVal? "name").getStr?
  let v ← (← j.getObjVal? "value").getInt?
  let a ← getAttrs (← j.getObjVal? "attrs")
  pure { name := n.toList, value := v, attrs := a }

def getDef (j : Json) : Except String Def := do
  let n ← (← j.getObjVal? "name").getStr?
  let mbj ← j.getObjVal? "max_bits"
  let mb ← if mbj.isNull then pure none else (some <$> mbj.getInt?)
  let sj ← j.getObjVal? "is_signed"
  let sg ← if sj.isNull then pure none else (some <$> sj.getBool?)
  let lv ← (← (← j.getObjVal? "levels").getArr?).toList.mapM getAttrs
  let vs ← (← (← j.getObjVal? "values").getArr?).toList.mapM getValue
  pure { name := n.toList, maxBitsAttr := mb, signedAttr := sg, levels := lv, values := vs }

def pairsJson (l : List (EName × EName)) : Json :=
  Json.arr (l.map (fun p => Json.arr #[str p.1, str p.2])).toArray

def enumsJson (l : List (EName × Int)) : Json :=
  Json.arr (l.map (fun p => Json.arr #[str p.1, toJson p.2])).toArray

def showStr : Shown → String
  | .name n => "name " ++ String.ofList n
  | .number v => "num " ++ toString v

def handleEnum (j : Json) : Except String Json := do
  let d ← getDef j
  let qn ← (← (← j.getObjVal? "q_names").getArr?).toList.mapM
    (fun x => if x.isNull then pure none else (fun s => some s.toList) <$> x.getStr?)
  let qv ← (← (← j.getObjVal? "q_values").getArr?).toList.mapM (·.getInt?)
  let front := d.frontAccepts
  let base : List (String × Json) :=
    [("front", toJson front), ("max_bits", toJson d.maxBits), ("signed", toJson d.isSigned),
     ("attrs_verified", toJson d.attrsVerified), ("names_distinct", toJson d.namesDistinct),
     ("back", toJson d.backAccepts)]
  if !front then
    return Json.mkObj base
  match generate d with
  | none => return Json.mkObj (base ++ [("gen", Json.null)])
  | some g =>
    let genJ := Json.mkObj [("ty", Json.str g.ty.toString), ("enumerators", enumsJson g.enumerators),
      ("from", pairsJson g.fromName), ("to", pairsJson g.toName),
      ("known", Json.arr (g.known.map str).toArray)]
    match g.cppEnumerators with
    | none => return Json.mkObj (base ++ [("gen", genJ), ("cpp", Json.null)])
    | some es =>
      let distinctNames := decide ((es.map (·.1)).Nodup)
      let labelsOk := decide (g.labelValues es).Nodup && (g.labelValues es).all (·.isSome)
      return Json.mkObj (base ++ [("gen", genJ), ("cpp", enumsJson es),
        ("enumerators_distinct", toJson distinctNames), ("labels_distinct", toJson labelsOk),
        ("from_name", Json.arr (qn.map (fun s => optInt (g.cppFromName es s))).toArray),
        ("to_name", Json.arr (qv.map (fun v => optName (g.cppToName es v))).toArray),
        ("is_known", Json.arr (qv.map (fun v => toJson (g.cppIsKnown es v))).toArray),
        ("show", Json.arr (qv.map (fun v => Json.str (showStr (g.cppShow es v)))).toArray)])

def bit (s : String) : Option Bool :=
  if s == "1" then some true else if s == "0" then some false else none

def tyOf (s w : String) : Option IntTy := do
  let sg ← if s == "s" then some true else if s == "u" then some false else none
  let b ← w.toNat?
  if b == 0 || b > 64 then none else some ⟨sg, b⟩

def handle (line : String) : String :=
  match line.splitOn " " with
  | "ENUM" :: rest =>
    match Json.parse (" ".intercalate rest) with
    | .error _ => "bad-op"
    | .ok j => match handleEnum j with
      | .error _ => "bad-op"
      | .ok r => r.compress
  | "SPLIT" :: rest =>
    match Json.parse (" ".intercalate rest) with
    | .ok (Json.str s) =>
      (Json.mkObj [("cases", Json.arr ((splitCases s.toList).map str).toArray),
                   ("ok", toJson (verifyCases s.toList))]).compress
    | _ => "bad-op"
  | "CAMEL" :: rest =>
    match Json.parse (" ".intercalate rest) with
    | .ok (Json.str s) => (str (snakeToCamel s.toList)).compress
    | _ => "bad-op"
  | ["RENDER", v] =>
    match v.toInt? with
    | none => "bad-op"
    | some v => match renderInteger v with
      | none => "assert"
      | some r => r.toString ++ " = " ++ (match evalRendered r with
        | some x => toString x
        | none => "ill-formed")
  | ["EVAL", s, w, neg, mag, u, ll, m1] =>
    match tyOf s w, bit neg, mag.toNat?, bit u, bit ll, bit m1 with
    | some ty, some neg, some mag, some u, some ll, some m1 =>
      match evalRendered ⟨ty, neg, mag, u, ll, m1⟩ with
      | some x => toString x
      | none => "ill-formed"
    | _, _, _, _, _, _ => "bad-op"
  | ["TYPE", mb, sg] =>
    match mb.toInt?, bit sg with
    | some mb, some sg => match cppTypeForEnum mb sg with
      | some t => t.toString
      | none => "assert"
    | _, _ => "bad-op"
  | ["FIELD", s, w, bvt, k, "R", raw] =>
    match tyOf s w, bvt.toNat?, k.toNat?, raw.toNat? with
    | some ty, some _, some _, some raw => toString (viewRead ty raw)
    | _, _, _, _ => "bad-op"
  | ["FIELD", s, w, bvt, k, "W", v] =>
    match tyOf s w, bvt.toNat?, k.toNat?, v.toInt? with
    | some ty, some bvt, some k, some v =>
      if viewCouldWrite ty bvt k v then "ok " ++ toString (viewWriteBits ty bvt k v) else "no"
    | _, _, _, _ => "bad-op"
  | ["FIELD", s, w, bvt, k, "T", n] =>
    match tyOf s w, bvt.toNat?, k.toNat?, n.toInt? with
    | some ty, some bvt, some k, some n =>
      match viewReadTextNumber ty bvt k n with
      | some b => "ok " ++ toString b
      | none => "no"
    | _, _, _, _ => "bad-op"
  | _ => "bad-op"

def main : IO Unit := run handle
