import Driver.Scalar
import Driver.WInf
open Driver

def handle (line : String) : String :=
  match handleScalar line with
  | some r => r
  | none =>
    match handleWInf line with
    | some r => r
    | none => "bad-op"

def main : IO Unit := run handle
