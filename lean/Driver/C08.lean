/-
Line-protocol driver for C08 / C09 (stateful: automata, grammar, certificate and rule lists
are stored in named slots; every op answers exactly one line; anything unknown or
ill-formed answers `bad-op`).

  AUT <slot> <strict 0|1> <eoi> <prods> <actions> <gotos> <deferrs>
  GRAM <start> <startPrime> <eoi> <prods>
  CERT <items> <first> <nullable> <nt>
  RULES <slot> <prods>
  LOADF <path>                 run the ops of a file (big tables), answer `loaded <n>`
  LRVALID <slot>               `valid` | `invalid <first failing conjunct>`
  RUN <slot> <fuel> <syms>     `accept <tree>` | `error <code|N> <index> <state> <expected>` |
                               `internal <why>` | `out-of-fuel`
  GEN <start> <startPrime> <eoi> <prods>
                               the model generator `gen G` (level B): `gen conflicts=<0|1> n=<states>
                               items=<..> actions=<..|?> gotos=<..>` | `gen out-of-fuel`
  REDUCED                      `reduced=<0|1>`: the productivity check `Gen.reducedB` on the current grammar (GRAM)
  GENV <start> <startPrime> <eoi> <prods>
                               the model generator's own output through the compiled validator and the
                               termination analysis (what `C08_gen_valid` proves for every grammar):
                               `genv wf=<0|1> conflicts=<0|1> valid=<ok|conjunct> term=<0|1>` | `gen out-of-fuel`
  MARKALL <src> <dst> <fuel> <examples>
                               model of the `mark_error` loop of make_parser: `marked <n>` (result stored
                               in <dst>) | `refused <k>` (example k returns a message).  examples:
                               `syms|where|code;...`, where = `E` (end of input) | `A<i>` (ANY_TOKEN at
                               index i) | `T<i>` (the token at index i)
  LRTERM <slot>                `terminates` | `diverge below=<u|-> state=<s> key=<a>` (termination analysis)
  BISIM <slotA> <slotB>        `bisim ok pairs=<n> identity=<bool>` | `bisim mismatch path=<syms> at=<s>,<t> why=<..>`
  SAMERULES <slotA> <slotB>    `same` | `differ`
Empty fields are written `-`.
  prods    lhs>r1,r2;lhs>;...
  actions  s:a=S12,a=R3,a=A,a=E5,a=EN;s:;...
  gotos    s:x=t,x=t;...
  deferrs  s=c,s=c
  items    s:pi.dot.la,pi.dot.la;...          first  x:a,b;...        nullable / nt   x,y,z
-/
import Emboss.Model.Lr1
import Emboss.Model.Lr1Valid
import Emboss.Model.Lr1Bisim
import Emboss.Model.Lr1Term
import Emboss.Model.Lr1Gen
import Emboss.Model.Merr
import Std.Data.HashMap
open Emboss.Lr1

namespace DriverLr1

def fld (s : String) : String := if s == "-" then "" else s

def splitNE (s : String) (sep : String) : List String :=
  if s.isEmpty then [] else s.splitOn sep

def parseNats (s : String) (sep : String := ",") : Option (List Nat) :=
  (splitNE s sep).mapM (·.toNat?)

def parseRule (s : String) : Option Rule :=
  match s.splitOn ">" with
  | [l, r] => do pure ⟨← l.toNat?, ← parseNats r⟩
  | _ => none

def parseRules (s : String) : Option (List Rule) := (splitNE (fld s) ";").mapM parseRule

def parseAction (s : String) : Option Action :=
  if s == "A" then some .accept
  else if s == "EN" then some (.error none)
  else if s.startsWith "S" then (s.drop 1).toNat?.map .shift
  else if s.startsWith "R" then (s.drop 1).toNat?.map .reduce
  else if s.startsWith "E" then (s.drop 1).toNat?.map (fun c => .error (some c))
  else none

def parseKV {β} (f : String → Option β) (s : String) : Option (Nat × β) :=
  match s.splitOn "=" with
  | [k, v] => do pure (← k.toNat?, ← f v)
  | _ => none

/-- `s:entry,entry` → (s, entries) -/
def parseRowOf {β} (f : String → Option β) (s : String) : Option (Nat × List β) :=
  match s.splitOn ":" with
  | [k, v] => do pure (← k.toNat?, ← (splitNE v ",").mapM f)
  | _ => none

def maxKey {β} (rows : List (Nat × β)) : Nat := rows.foldl (fun m r => max m (r.1 + 1)) 0

def parseAut (strict eoi prods acts gotos defs : String) : Option Automaton := do
  let strict ← strict.toNat?
  let eoi ← eoi.toNat?
  let prods ← parseRules prods
  let arows ← (splitNE (fld acts) ";").mapM (parseRowOf (parseKV parseAction))
  let grows ← (splitNE (fld gotos) ";").mapM (parseRowOf (parseKV (·.toNat?)))
  let defs ← (splitNE (fld defs) ",").mapM (parseKV (·.toNat?))
  let action : Array (Option Row) :=
    arows.foldl (fun a r => a.setIfInBounds r.1 (some r.2)) (Array.replicate (maxKey arows) none)
  let goto : Array (List (Nat × Nat)) :=
    grows.foldl (fun a r => a.setIfInBounds r.1 r.2) (Array.replicate (maxKey grows) [])
  pure { prods, action, goto, defaultErrors := defs, strict := strict != 0, eoi }

def parseItem (s : String) : Option Item :=
  match s.splitOn "." with
  | [a, b, c] => do pure ⟨← a.toNat?, ← b.toNat?, ← c.toNat?⟩
  | _ => none

structure RawCert where
  items : Array (List Item)
  first : List (Nat × List Nat)
  nullable : List Nat
  nts : List Nat

def parseCert (items first nullable nt : String) : Option RawCert := do
  let irows ← (splitNE (fld items) ";").mapM (parseRowOf parseItem)
  let first ← (splitNE (fld first) ";").mapM (parseRowOf (·.toNat?))
  let nullable ← parseNats (fld nullable)
  let nts ← parseNats (fld nt)
  let items : Array (List Item) :=
    irows.foldl (fun a r => a.setIfInBounds r.1 r.2) (Array.replicate (maxKey irows) [])
  pure { items, first, nullable, nts }

def bitmap (l : List Nat) : Array Bool :=
  l.foldl (fun a x => a.setIfInBounds x true) (Array.replicate (l.foldl (fun m x => max m (x + 1)) 0) false)

/-- Assemble the certificate: the lookup arrays are (untrusted) indexes of `g`; `Valid`
checks them. -/
def mkCert (g : Grammar) (r : RawCert) : Cert :=
  let all := g.all
  let nsym := all.foldl (fun m p => max m (p.lhs + 1)) 0
  let prodsOf : Array (List Nat) :=
    all.zipIdx.foldl (fun a (p, i) => a.modify p.lhs (fun l => l ++ [i])) (Array.replicate nsym [])
  let first : Array (List Nat) :=
    r.first.foldl (fun a e => a.setIfInBounds e.1 e.2) (Array.replicate (maxKey r.first) [])
  { items := r.items, rules := all.toArray, prodsOf, first, nullable := bitmap r.nullable,
    nt := bitmap r.nts }

/-! canonical output -/
partial def showTree : Tree → String
  | .leaf t => s!"t{t.sym}.{t.text}"
  | .node p cs =>
    "(" ++ toString p.lhs ++ ">" ++ ",".intercalate (p.rhs.map toString) ++
      String.join (cs.map (fun c => " " ++ showTree c)) ++ ")"

def showCode : Option Nat → String
  | some c => toString c
  | none => "N"

def sortDedup (l : List Nat) : List Nat :=
  (l.toArray.qsort (· < ·)).toList.eraseDups

def showResult : Result → String
  | .accept t => "accept " ++ showTree t
  | .error c i s e =>
    let e := sortDedup e
    s!"error {showCode c} {i} {s} " ++ (if e.isEmpty then "-" else ",".intercalate (e.map toString))
  | .internal w => "internal " ++ w
  | .outOfFuel => "out-of-fuel"

def parseExample (s : String) : Option ErrExample :=
  match s.splitOn "|" with
  | [syms, wh, code] => do
    let syms ← parseNats (fld syms)
    let toks : List Token := syms.zipIdx.map (fun (x, i) => (⟨x, i⟩ : Token))
    let code ← code.toNat?
    if wh == "E" then pure ⟨toks, .eoi, code⟩
    else
      let i ← (wh.drop 1).toNat?
      let t ← toks[i]?
      if wh.startsWith "A" then pure ⟨toks, .any t, code⟩
      else if wh.startsWith "T" then pure ⟨toks, .tok t, code⟩
      else none
  | _ => none

/-- `markAll` that also reports the index of the first refused example -/
def markAllIdx (A : Automaton) (fuel : Nat) : Nat → List ErrExample → Except Nat Automaton
  | _, [] => .ok A
  | k, e :: es =>
    match markError A fuel e with
    | some B => markAllIdx B fuel (k + 1) es
    | none => .error k

def showAction : Action → String
  | .shift s => s!"S{s}"
  | .reduce p => s!"R{p}"
  | .accept => "A"
  | .error c => "E" ++ showCode c

def showGen (o : Gen.Out) : String :=
  let items := ";".intercalate (o.states.toList.zipIdx.map fun (l, i) =>
    s!"{i}:" ++ ",".intercalate (l.map fun it => s!"{it.pi}.{it.dot}.{it.la}"))
  let acts := if o.conflicts then "?" else
    ";".intercalate ((o.aut.action.toList.zipIdx.filterMap fun (r, i) =>
      match r with
      | none => none
      | some r =>
        let r := (r.toArray.qsort (fun a b => a.1 < b.1)).toList
        some (s!"{i}:" ++ ",".intercalate (r.map fun e => s!"{e.1}={showAction e.2}"))))
  let gotos := ";".intercalate ((o.aut.goto.toList.zipIdx.filterMap fun (r, i) =>
    if r.isEmpty then none else some (s!"{i}:" ++ ",".intercalate (r.map fun e => s!"{e.1}={e.2}"))))
  s!"gen conflicts={if o.conflicts then 1 else 0} n={o.states.size} items={items} actions={if acts.isEmpty then "-" else acts} gotos={if gotos.isEmpty then "-" else gotos}"

/-! unverified search for the state pairing; its result is checked by the proved `bisimB` -/
def allTargets (A : Automaton) : Nat :=
  let m := max A.action.size A.goto.size
  let m := A.action.foldl (fun m r => match r with
    | some r => r.foldl (fun m e => match e.2 with | .shift s => max m (s + 1) | _ => m) m
    | none => m) m
  A.goto.foldl (fun m r => r.foldl (fun m e => max m (e.2 + 1)) m) m

structure Mismatch where
  path : List Nat
  s : Nat
  t : Nat
  why : String

def showAct : Action → String
  | .shift s => s!"S{s}"
  | .reduce i => s!"R{i}"
  | .accept => "A"
  | .error c => "E" ++ showCode c

partial def bfs (A B : Automaton) (queue : Array (Nat × Nat × List Nat)) (qi : Nat)
    (π : Array (Option Nat)) : Except Mismatch (Array (Option Nat)) :=
  if h : qi < queue.size then
    let (s, t, path) := queue[qi]
    match pairOf π s with
    | some t' =>
      if t' == t then bfs A B queue (qi + 1) π
      else .error ⟨path.reverse, s, t, s!"state {s} of the first automaton corresponds to both {t'} and {t} of the second"⟩
    | none =>
      let π := π.setIfInBounds s (some t)
      let keys := (rowKeys (A.row s) ++ rowKeys (B.row t)).eraseDups
      let gkeys := (A.gotoKeys s ++ B.gotoKeys t).eraseDups
      if A.defaultErrors.lookup s != B.defaultErrors.lookup t then
        .error ⟨path.reverse, s, t, "default error codes differ"⟩
      else if (A.strict && (A.row s).isNone) || (B.strict && (B.row t).isNone) then
        .error ⟨path.reverse, s, t, "state without an action row in a plain-dict table"⟩
      else
        let step1 : Except Mismatch (Array (Nat × Nat × List Nat)) :=
          keys.foldlM (fun q a =>
            match A.actionOf s a, B.actionOf t a with
            | .shift s', .shift t' => pure (q.push (s', t', a :: path))
            | .reduce i, .reduce j =>
              if A.prods[i]?.isSome && A.prods[i]? == B.prods[j]? then pure q
              else .error ⟨(a :: path).reverse, s, t, "reduce by different productions"⟩
            | .accept, .accept => pure q
            | .error c, .error d =>
              if c == d then pure q
              else .error ⟨(a :: path).reverse, s, t, s!"error codes differ: {showCode c} vs {showCode d}"⟩
            | x, y => .error ⟨(a :: path).reverse, s, t, s!"actions differ: {showAct x} vs {showAct y}"⟩) queue
        match step1 with
        | .error e => .error e
        | .ok q =>
          let step2 : Except Mismatch (Array (Nat × Nat × List Nat)) :=
            gkeys.foldlM (fun q x =>
              match A.gotoOf s x, B.gotoOf t x with
              | some s', some t' => pure (q.push (s', t', x :: path))
              | _, _ => .error ⟨(x :: path).reverse, s, t, "goto present in one table only"⟩) q
          match step2 with
          | .error e => .error e
          | .ok q => bfs A B q (qi + 1) π
  else .ok π

def doBisim (A B : Automaton) : String :=
  if A.eoi != B.eoi then "bisim mismatch path=- at=0,0 why=end-of-input codes differ" else
  match bfs A B #[(0, 0, [])] 0 (Array.replicate (allTargets A) none) with
  | .error m =>
    let p := if m.path.isEmpty then "-" else ",".intercalate (m.path.map toString)
    s!"bisim mismatch path={p} at={m.s},{m.t} why={m.why}"
  | .ok π =>
    if bisimB A B π then
      let ident := π.toList.zipIdx.all (fun (o, i) => o.isNone || o == some i)
      s!"bisim ok pairs={(π.toList.filter (·.isSome)).length} identity={ident}"
    else "bisim mismatch path=- at=0,0 why=pairing found by search is rejected by the verified checker"

@[noinline] def partB (g : Grammar) (a : Automaton) (c : Cert) (part : String) : Option Bool :=
  let m := fastMem c.sets
  if part == "wf" then some (decide (VWf g a c))
  else if part == "start" then some (decide (VStart m g c))
  else if part == "trans" then some (decide (VTrans m a c))
  else if part == "closure" then some (decide (VClosure m c))
  else if part == "complete" then some (decide (VComplete a c))
  else if part == "kernel" then some (decide (VKernel m a c))
  else if part == "order" then some (decide (VOrder c))
  else if part == "actjust" then some (decide (VActJust m g a c))
  else if part == "first" then some (decide (VFirst c))
  else if part == "list" then some (validB g a c)
  else none

structure St where
  auts : Std.HashMap String Automaton := {}
  rules : Std.HashMap String (List Rule) := {}
  gram : Option Grammar := none
  cert : Option RawCert := none

def handlePure (st : St) (line : String) : St × String :=
  match line.splitOn " " with
  | ["AUT", slot, strict, eoi, prods, acts, gotos, defs] =>
    match parseAut strict eoi prods acts gotos defs with
    | some a => ({ st with auts := st.auts.insert slot a }, "ok")
    | none => (st, "bad-op")
  | ["GRAM", start, sp, eoi, prods] =>
    match start.toNat?, sp.toNat?, eoi.toNat?, parseRules prods with
    | some start, some sp, some eoi, some prods =>
      ({ st with gram := some ⟨start, prods, sp, eoi⟩ }, "ok")
    | _, _, _, _ => (st, "bad-op")
  | ["CERT", items, first, nullable, nt] =>
    match parseCert items first nullable nt with
    | some c => ({ st with cert := some c }, "ok")
    | none => (st, "bad-op")
  | ["RULES", slot, prods] =>
    match parseRules prods with
    | some r => ({ st with rules := st.rules.insert slot r }, "ok")
    | none => (st, "bad-op")
  | ["LRVALID", slot] =>
    match st.auts[slot]?, st.gram, st.cert with
    | some a, some g, some c =>
      let c := mkCert g c
      (st, if validFast g a c then "valid" else "invalid " ++ validWhy g a c)
    | _, _, _ => (st, "bad-op")
  | ["GEN", start, sp, eoi, prods] =>
    match start.toNat?, sp.toNat?, eoi.toNat?, parseRules prods with
    | some start, some sp, some eoi, some prods =>
      (st, match gen ⟨start, prods, sp, eoi⟩ with
           | some o => showGen o
           | none => "gen out-of-fuel")
    | _, _, _, _ => (st, "bad-op")
  | ["REDUCED"] =>
    match st.gram with
    | some g => (st, if Gen.reducedB g then "reduced=1" else "reduced=0")
    | none => (st, "bad-op")
  | ["GENV", start, sp, eoi, prods] =>
    match start.toNat?, sp.toNat?, eoi.toNat?, parseRules prods with
    | some start, some sp, some eoi, some prods =>
      let g : Grammar := ⟨start, prods, sp, eoi⟩
      (st, match gen g with
           | some o =>
             s!"genv wf={if decide (WfG g) then 1 else 0} conflicts={if o.conflicts then 1 else 0} valid={validWhy g o.aut o.cert} term={if termOK o.aut then 1 else 0}"
           | none => "gen out-of-fuel")
    | _, _, _, _ => (st, "bad-op")
  | ["MARKALL", src, dst, fuel, exs] =>
    match st.auts[src]?, fuel.toNat?, (splitNE (fld exs) ";").mapM parseExample with
    | some a, some fuel, some exs =>
      match markAllIdx a fuel 0 exs with
      | .ok b => ({ st with auts := st.auts.insert dst b }, s!"marked {exs.length}")
      | .error k => (st, s!"refused {k}")
    | _, _, _ => (st, "bad-op")
  | ["LRTERM", slot] =>
    match st.auts[slot]? with
    | some a =>
      (st, if termOK a then "terminates" else
        match termWhy a with
        | some (u, s, k) =>
          "diverge below=" ++ (match u with | some u => toString u | none => "-") ++ s!" state={s} key={k}"
        | none => "diverge below=- state=- key=-")
    | none => (st, "bad-op")
  | ["LRPART", slot, part] =>
    match st.auts[slot]?, st.gram, st.cert with
    | some a, some g, some c =>
      (st, match partB g a (mkCert g c) part with | some b => s!"{part} {b}" | none => "bad-op")
    | _, _, _ => (st, "bad-op")
  | ["RUN", slot, fuel, syms] =>
    match st.auts[slot]?, fuel.toNat?, parseNats (fld syms) with
    | some a, some fuel, some syms =>
      let w := syms.zipIdx.map (fun (x, i) => (⟨x, i⟩ : Token))
      (st, showResult (run a fuel w))
    | _, _, _ => (st, "bad-op")
  | ["BISIM", sa, sb] =>
    match st.auts[sa]?, st.auts[sb]? with
    | some a, some b => (st, doBisim a b)
    | _, _ => (st, "bad-op")
  | ["SAMERULES", sa, sb] =>
    match st.rules[sa]?, st.rules[sb]? with
    | some a, some b => (st, if sameRulesB a b then "same" else "differ")
    | _, _ => (st, "bad-op")
  | _ => (st, "bad-op")

def handle (st : St) (line : String) : IO (St × String) := do
  match line.splitOn " " with
  | ["LOADF", path] =>
    try
      let txt ← IO.FS.readFile path
      let mut s := st
      let mut n := 0
      let mut bad := false
      for l in txt.splitOn "\n" do
        if !l.isEmpty then
          let (s', out) := handlePure s l
          s := s'
          n := n + 1
          if out != "ok" then bad := true
      return (s, if bad then "bad-op" else s!"loaded {n}")
    catch _ => return (st, "bad-op")
  | _ => return handlePure st line

partial def loop (h out : IO.FS.Stream) (st : St) : IO Unit := do
  let line ← h.getLine
  if line.isEmpty then
    out.flush
    return ()
  let line := (line.dropEndWhile (fun c => c == '\n' || c == '\r')).toString
  let (st, ans) ← handle st line
  out.putStrLn ans
  loop h out st

end DriverLr1

def main : IO Unit := do
  DriverLr1.loop (← IO.getStdin) (← IO.getStdout) {}
