import Driver.Scalar
open Driver

def handle (line : String) : String :=
  match handleScalar line with
  | some r => r
  | none => "bad-op"

def main : IO Unit := run handle
