import Emboss.Model.Purity
import Emboss.Model.PurityPatterns
import Driver.Util
open Emboss.Purity Driver

/-
Line protocol of model_c17.

  RUN <texts>;<jobs>
      texts = T:status:k:imp1,imp2 | …      status ∈ ok,err ; k = number of anonymous bits
      jobs  = main~file=T,file=T / …        (one process, jobs in order; fuel 64 each)
    → per job, joined by " / ":
        ok file@base+k,file@base+k ctr=N   |  err <diag> ctr=N  |  fuel ctr=N
  FIND <file>;<d1,d2,…>;<dir=T,dir=T,…>     → some T | none
  SORT a,b,c   MIN a,b,c   MAX a,b,c   ONLY a,b,c   KEYS k=v,k=v,…
-/

structure TextInfo where
  id : String
  ok : Bool
  k : Nat
  imports : List String

def parseText (s : String) : Option TextInfo :=
  match s.splitOn ":" with
  | [id, st, k, imps] => do
    let k ← k.toNat?
    let ok ← (if st == "ok" then some true else if st == "err" then some false else none)
    pure ⟨id, ok, k, if imps.isEmpty then [] else imps.splitOn ","⟩
  | _ => none

def parserOf (tbl : List TextInfo) : Parser := fun text file =>
  match tbl.find? (fun t => t.id == text) with
  | some t =>
    if t.ok then .ok ⟨t.imports, (List.range t.k).map Tok.hole⟩
    else .error ("syntax:" ++ text ++ ":" ++ file)
  | none => .error ("unknown-text:" ++ text)

def parseBinding (s : String) : Option (String × String) :=
  match s.splitOn "=" with
  | [f, t] => some (f, t)
  | _ => none

def parseJob (s : String) : Option (String × List (String × String)) :=
  match s.splitOn "~" with
  | [main, fs] => do
    let bs ← (if fs.isEmpty then some [] else (fs.splitOn ",").mapM parseBinding)
    pure (main, bs)
  | _ => none

def readerOf (bs : List (String × String)) : Reader := fun f =>
  match bs.find? (fun b => b.1 == f) with
  | some b => .ok b.2
  | none => .error "missing"

def showOutcome (σ : St) : Outcome → String
  | .ok ms => "ok " ++ ",".intercalate (ms.map fun m =>
      m.file ++ "@" ++ toString m.base ++ "+" ++ toString m.skel.anon) ++ " ctr=" ++ toString σ.counter
  | .error d => "err " ++ d ++ " ctr=" ++ toString σ.counter
  | .outOfFuel => "fuel ctr=" ++ toString σ.counter

def runJobs (P : Parser) : St → List (String × List (String × String)) → List String
  | _, [] => []
  | σ, (main, bs) :: r =>
    let res := compile P (readerOf bs) 64 σ main
    showOutcome res.1 res.2 :: runJobs P res.1 r

def leN : Nat → Nat → Bool := fun a b => decide (a ≤ b)

def showOpt : Option Nat → String
  | some n => "some " ++ toString n
  | none => "none"

def handle (line : String) : String :=
  match line.splitOn " " with
  | ["RUN", arg] =>
    match arg.splitOn ";" with
    | [texts, jobs] =>
      match (if texts.isEmpty then some [] else (texts.splitOn "|").mapM parseText),
            (if jobs.isEmpty then some [] else (jobs.splitOn "/").mapM parseJob) with
      | some tbl, some js => " / ".intercalate (runJobs (parserOf tbl) St.init js)
      | _, _ => "bad-op"
    | _ => "bad-op"
  | ["FIND", arg] =>
    match arg.splitOn ";" with
    | [f, dirs, binds] =>
      match (if binds.isEmpty then some [] else (binds.splitOn ",").mapM parseBinding) with
      | some bs =>
        let fs : String → String → Option String := fun d f' =>
          if f' == f then (bs.find? (fun b => b.1 == d)).map (·.2) else none
        match findInDirs fs f (if dirs.isEmpty then [] else dirs.splitOn ",") with
        | some t => "some " ++ t
        | none => "none"
      | none => "bad-op"
    | _ => "bad-op"
  | ["SORT", arg] =>
    match parseNatList arg with
    | some l => "sorted " ++ showNatList (pySorted leN l)
    | none => "bad-op"
  | ["MIN", arg] =>
    match parseNatList arg with
    | some l => showOpt (pyMin l)
    | none => "bad-op"
  | ["MAX", arg] =>
    match parseNatList arg with
    | some l => showOpt (pyMax l)
    | none => "bad-op"
  | ["ONLY", arg] =>
    match parseNatList arg with
    | some l => showOpt (onlyElement l)
    | none => "bad-op"
  | ["KEYS", arg] =>
    match parseNatList arg with
    | some l => "keys " ++ showNatList (dictKeys (l.map fun k => (k, ())))
    | none => "bad-op"
  | _ => "bad-op"

def main : IO Unit := run handle
