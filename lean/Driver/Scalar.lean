/-
Line protocol for the scalar-view model (shared by `model_c02` and `model_c03`).

  SCALAR <ty> <kBits> <c> <o> <order> <mode> <path> <hex|-> <argT> <value>

  ty    : uint | int | bcd | flag | float | enumu<UW> | enums<UW>
  order : le | be | null          mode : direct | offset       path : opt | noopt
  argT  : i8 u8 i16 u16 i32 u32 i64 u64   (C++ type of the TryToWrite argument)

Answer:  cmp=<b> ok=<b> rd=<int|-|check> could=<b> try=<0|1|check> after=<hex> ok2=<b> rd2=<int|-|check>

  STRUCT <p> <store hex|-> <ty> <kBits> <c> <o> <order> <mode> <path> <argT> <value>

the same field, its container at byte `p` of the structure's backing store; `after` is the
whole store (`storeTryToWrite`).
-/
import Emboss.Model.Scalar
import Driver.Util
open Emboss.Bits Emboss.Scalar

namespace Driver

def hexDigit (c : Char) : Option Nat :=
  if '0' ≤ c ∧ c ≤ '9' then some (c.toNat - '0'.toNat)
  else if 'a' ≤ c ∧ c ≤ 'f' then some (c.toNat - 'a'.toNat + 10)
  else none

def parseHexBytes (s : String) : Option (List Nat) :=
  if s == "-" then some [] else
  let rec go : List Char → Option (List Nat)
    | [] => some []
    | [_] => none
    | a :: b :: rest => do
      let x ← hexDigit a
      let y ← hexDigit b
      let r ← go rest
      pure ((x * 16 + y) :: r)
  go s.toList

def hexNibble (n : Nat) : Char :=
  if n < 10 then Char.ofNat ('0'.toNat + n) else Char.ofNat ('a'.toNat + n - 10)

def showHexBytes (l : List Nat) : String :=
  if l.isEmpty then "-" else
  String.ofList (l.foldr (fun b acc => hexNibble (b / 16 % 16) :: hexNibble (b % 16) :: acc) [])

def parseTy (s : String) : Option Ty :=
  match s with
  | "uint" => some .uint | "int" => some .int | "bcd" => some .bcd
  | "flag" => some .flag | "float" => some .float
  | "enumu8" => some (.enum 8 false) | "enumu16" => some (.enum 16 false)
  | "enumu32" => some (.enum 32 false) | "enumu64" => some (.enum 64 false)
  | "enums8" => some (.enum 8 true) | "enums16" => some (.enum 16 true)
  | "enums32" => some (.enum 32 true) | "enums64" => some (.enum 64 true)
  | _ => none

def parseIntT (s : String) : Option IntT :=
  match s with
  | "i8" => some ⟨true, 8⟩ | "u8" => some ⟨false, 8⟩
  | "i16" => some ⟨true, 16⟩ | "u16" => some ⟨false, 16⟩
  | "i32" => some ⟨true, 32⟩ | "u32" => some ⟨false, 32⟩
  | "i64" => some ⟨true, 64⟩ | "u64" => some ⟨false, 64⟩
  | _ => none

def b01 (b : Bool) : String := if b then "1" else "0"

def showRd (v : View) : String :=
  if v.isComplete then
    match v.uncheckedRead with
    | some x => toString x
    | none => "check"
  else "-"

/-- Static preconditions of the templates (`static_assert`s and what a well-formed
instantiation needs); anything else is `bad-op`. -/
def configOk (ty : Ty) (k c o : Nat) (order : ByteOrder) (direct : Bool) : Bool :=
  decide (c % 8 = 0 ∧ 8 ≤ c ∧ c ≤ 64 ∧ 1 ≤ k ∧ k ≤ 64 ∧ o ≤ 255) &&
  (order != .null || c == 8) &&
  (!direct || (o == 0 && k == c)) &&
  (match ty with
   | .flag => k == 1
   | .float => k == 32 || k == 64
   | .enum uw _ => decide (k ≤ uw)
   | _ => true)

def scalarLine (rest : List String) : String :=
    match rest with
    | [ty, k, c, o, order, mode, path, hex, argT, value] =>
      Id.run do
        let some ty := parseTy ty | return "bad-op"
        let some k := k.toNat? | return "bad-op"
        let some c := c.toNat? | return "bad-op"
        let some o := o.toNat? | return "bad-op"
        let some order := (match order with
          | "le" => some ByteOrder.little | "be" => some .big | "null" => some .null
          | _ => none) | return "bad-op"
        let some direct := (match mode with
          | "direct" => some true | "offset" => some false | _ => none) | return "bad-op"
        let some path := (match path with
          | "opt" => some Path.opt | "noopt" => some .noopt | _ => none) | return "bad-op"
        let some bytes := parseHexBytes hex | return "bad-op"
        let some t := parseIntT argT | return "bad-op"
        let some x := value.toInt? | return "bad-op"
        if !configOk ty k c o order direct then return "bad-op"
        if !t.holds x then return "bad-op"
        let bb : BitBlock := { order := order, path := path, c := c, bytes := bytes }
        let v : View := fieldView ty direct bb o k
        let pre := s!"cmp={b01 v.isComplete} ok={b01 v.ok} rd={showRd v} could={b01 (v.couldWrite t x)}"
        match v.tryToWrite t x with
        | .refused =>
          return s!"{pre} try=0 after={showHexBytes v.buf.bytes} ok2={b01 v.ok} rd2={showRd v}"
        | .checkFailed => return s!"{pre} try=check"
        | .written v' =>
          return s!"{pre} try=1 after={showHexBytes v'.buf.bytes} ok2={b01 v'.ok} rd2={showRd v'}"
    | _ => "bad-op"

def handleScalar (line : String) : Option String :=
  match line.splitOn " " with
  | "SCALAR" :: rest => some (scalarLine rest)
  | "STRUCT" :: rest =>
    match rest with
    | [p, hex, ty, k, c, o, order, mode, path, argT, value] =>
      some <| Id.run do
        let some p := p.toNat? | return "bad-op"
        let some store := parseHexBytes hex | return "bad-op"
        let some cN := c.toNat? | return "bad-op"
        let some tyV := parseTy ty | return "bad-op"
        let some kN := k.toNat? | return "bad-op"
        let some oN := o.toNat? | return "bad-op"
        let some orderV := (match order with
          | "le" => some ByteOrder.little | "be" => some .big | "null" => some .null
          | _ => none) | return "bad-op"
        let some direct := (match mode with
          | "direct" => some true | "offset" => some false | _ => none) | return "bad-op"
        let some pathV := (match path with
          | "opt" => some Path.opt | "noopt" => some .noopt | _ => none) | return "bad-op"
        let some t := parseIntT argT | return "bad-op"
        let some x := value.toInt? | return "bad-op"
        -- the field's own view over its container (or over nothing when the store is short)
        let cont := (containerOf store p (cN / 8)).getD []
        let inner := scalarLine [ty, k, c, o, order, mode, path, showHexBytes cont, argT, value]
        if inner == "bad-op" then return "bad-op"
        let after := match storeTryToWrite store p orderV pathV cN tyV direct oN kN t x with
          | .written s' => showHexBytes s'
          | .refused => showHexBytes store
          | .checkFailed => "check"
        -- replace the container-level `after=` by the store-level one
        return " ".intercalate ((inner.splitOn " ").map fun tok =>
          if tok.startsWith "after=" then "after=" ++ after else tok)
    | _ => some "bad-op"
  | _ => none

end Driver
