/- REGENERATED on every run by harness/translate/c14.py from
   compiler/front_end/attribute_checker.py (imported; the tables are read as Python
   objects, not as source text).  Do not edit. -/
import Emboss.Model.SExpr
namespace Emboss.Generated.AttrTable
open Emboss.Constraints

/-- (attribute name, allowed as `$default`?) -/
def moduleAttrs : List (String × Bool) := [("byte_order", true), ("expected_back_ends", false)]

/-- (attribute name, allowed as `$default`?) -/
def bitsAttrs : List (String × Bool) := [("fixed_size_in_bits", false), ("requires", false)]

/-- (attribute name, allowed as `$default`?) -/
def structAttrs : List (String × Bool) := [("byte_order", true), ("fixed_size_in_bits", false), ("requires", false)]

/-- (attribute name, allowed as `$default`?) -/
def enumAttrs : List (String × Bool) := [("is_signed", false), ("maximum_bits", false)]

/-- (attribute name, allowed as `$default`?) -/
def externalAttrs : List (String × Bool) := [("addressable_unit_size", false), ("fixed_size_in_bits", false), ("is_integer", false), ("static_requirements", false)]

/-- (attribute name, allowed as `$default`?) -/
def physicalFieldAttrs : List (String × Bool) := [("byte_order", false), ("requires", false), ("text_output", false)]

/-- (attribute name, allowed as `$default`?) -/
def virtualFieldAttrs : List (String × Bool) := [("requires", false), ("text_output", false)]

/-- enum values: `enum_value_attributes=None` in `normalize_and_verify`. -/
def enumValueAttrs : List (String × Bool) := []

def attrTypes : List (String × AttrTy) := [
  ("addressable_unit_size", .intConst),
  ("byte_order", (.choice ["BigEndian", "LittleEndian", "Null"])),
  ("expected_back_ends", .backEnds),
  ("fixed_size_in_bits", .intConst),
  ("is_integer", .boolConst),
  ("is_signed", .boolConst),
  ("maximum_bits", .intConst),
  ("requires", .bool),
  ("static_requirements", .bool),
  ("text_output", (.choice ["Emit", "Skip"]))
]

def defaultEnumMaximumBits : Int := 64
def defaultBackEnds : String := "cpp"

end Emboss.Generated.AttrTable
