/- REGENERATED on every run by harness/translate/c14.py from
   compiler/front_end/prelude.emb (parsed by the real front end).  Do not edit. -/
import Emboss.Model.SExpr
namespace Emboss.Generated.Prelude
open Emboss.Constraints

/-- `[static_requirements: …]` of `external UInt`. -/
def reqUInt : SExpr :=
  (.and .isStatic (.and (.le (.num (1)) .size) (.le .size (.num (64)))))

/-- `[static_requirements: …]` of `external Int`. -/
def reqInt : SExpr :=
  (.and .isStatic (.and (.le (.num (1)) .size) (.le .size (.num (64)))))

/-- `[static_requirements: …]` of `external Bcd`. -/
def reqBcd : SExpr :=
  (.and .isStatic (.and (.le (.num (1)) .size) (.le .size (.num (64)))))

/-- `[static_requirements: …]` of `external Flag`. -/
def reqFlag : SExpr :=
  (.and .isStatic (.eq .size (.num (1))))

/-- `[static_requirements: …]` of `external Float`. -/
def reqFloat : SExpr :=
  (.and .isStatic (.or (.eq .size (.num (32))) (.eq .size (.num (64)))))

/-- Every `external` of the prelude with its requirement (if any). -/
def externals : List (String × Option SExpr) := [
  ("UInt", some reqUInt),
  ("Int", some reqInt),
  ("Bcd", some reqBcd),
  ("Flag", some reqFlag),
  ("Float", some reqFloat)
]

end Emboss.Generated.Prelude
