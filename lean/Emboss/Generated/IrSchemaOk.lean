/-
Obligation over the regenerated IR schema (tie T of C18): the schema extracted from the
current `ir_data.py` satisfies the precondition of the round-trip theorems.  Re-elaborated
by `lake build` whenever `IrSchema.lean` changes.
-/
import Emboss.Generated.IrSchema
namespace Emboss.Json.Generated
open Emboss.Json

theorem schema_ok : SchemaOk schema := by decide +kernel

/-- … and every constructor default is a value of its field's type. -/
theorem schema_ok_strict : SchemaOkStrict schema := by decide +kernel

end Emboss.Json.Generated
