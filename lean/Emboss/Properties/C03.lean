/-
C03 — Field writes are range-checked, read back exactly, touch only their own bits.

Property theorems only.  Model: Emboss/Model/{Bits,Scalar}.lean.  Spec: Emboss/Spec/Scalar.lean.
All theorems are for an arbitrary placement `Placed bb o w` (any container
c ∈ {8,…,64}, any width, any offset with o + w ≤ c, any byte order, either code path, any
contents) and both kinds of view buffer (`direct`: field of a struct; otherwise field of a bits).
-/
import Emboss.Properties.C02
import Emboss.Lemmas.ScalarWriteView
import Emboss.Lemmas.ScalarStore
import Emboss.Lemmas.WriteInferenceCpp
namespace Emboss.Scalar
open Emboss.Bits Emboss.Scalar.Spec

variable {bb : BitBlock} {o w : Nat}

/-- **UIntView::CouldWriteValue** (the two-step shift expression, with integer promotion, for
every argument type up to 64 bits) accepts exactly the representable values `0 ≤ x < 2^w`. -/
theorem C03_could_write_iff_representable_uint (h : Placed bb o w) (direct : Bool) (t : IntT)
    (x : Int) (ha : ArgOk .uint w t x) :
    (fieldView .uint direct bb o w).couldWrite t x = true ↔ Representable .uint w x := by
  rw [representable_unsigned (ty := .uint) rfl]
  exact uint_could w h.w_pos (placed_w_le h) _ t x ha.1 ha.2

example : (fieldView .uint false exBB 9 5).couldWrite ⟨true, 32⟩ 31 = true ∧
    (fieldView .uint false exBB 9 5).couldWrite ⟨true, 32⟩ 32 = false ∧
    (fieldView .uint false exBB 9 5).couldWrite ⟨true, 32⟩ (-1) = false := by decide

/-- **IntView::CouldWriteValue** (the piecewise expression incl. `kBits == 1`; the lower
bound is skipped for unsigned argument types) accepts exactly `-2^(w-1) ≤ x < 2^(w-1)`. -/
theorem C03_could_write_iff_representable_int (h : Placed bb o w) (direct : Bool) (t : IntT)
    (x : Int) (ha : ArgOk .int w t x) :
    (fieldView .int direct bb o w).couldWrite t x = true ↔ Representable .int w x := by
  rw [representable_signed (ty := .int) rfl h.w_pos]
  exact int_could w h.w_pos (placed_w_le h) _ t x ha.1

example : (fieldView .int false exBB 9 5).couldWrite ⟨false, 64⟩ 15 = true ∧
    (fieldView .int false exBB 9 5).couldWrite ⟨false, 64⟩ 16 = false ∧
    (fieldView .int false exBB 9 5).couldWrite ⟨true, 8⟩ (-16) = true ∧
    (fieldView .int false exBB 9 5).couldWrite ⟨true, 8⟩ (-17) = false := by decide

/-- **BcdView::CouldWriteValue** (`value <= MaxBcd(kBits)`) accepts exactly the values some
`w`-bit pattern with decimal nibbles denotes. -/
theorem C03_could_write_iff_representable_bcd (h : Placed bb o w) (direct : Bool) (t : IntT)
    (x : Int) (ha : ArgOk .bcd w t x) :
    (fieldView .bcd direct bb o w).couldWrite t x = true ↔ Representable .bcd w x := by
  obtain ⟨h0, _⟩ := ha
  obtain ⟨n, rfl⟩ : ∃ n : Nat, x = n := ⟨x.toNat, by omega⟩
  have hb := (bcd_could_write (v := n) h.w_pos (placed_w_le h)).1
  simp only [View.couldWrite, fieldView, View.VW, Bool.and_eq_true, decide_eq_true_eq,
    Int.toNat_natCast]
  unfold Representable decodeSpec
  constructor
  · rintro ⟨hm, _⟩
    obtain ⟨d, hd, hok, hv⟩ := hb.mp (of_decide_eq_true hm)
    exact ⟨d, hd, by simp only [hok, if_true, hv]⟩
  · rintro ⟨d, hd, he⟩
    simp only at he
    split at he
    · rename_i hok
      simp only [Option.some.injEq] at he
      exact ⟨decide_eq_true (hb.mpr ⟨d, hd, hok, by omega⟩), by omega⟩
    · cases he

example : (fieldView .bcd false exBB 9 5).couldWrite ⟨false, 8⟩ 19 = true ∧
    (fieldView .bcd false exBB 9 5).couldWrite ⟨false, 8⟩ 20 = false := by decide

/-- **FlagView::CouldWriteValue**: both booleans are accepted and representable. -/
theorem C03_could_write_iff_representable_flag (direct : Bool) (t : IntT)
    (x : Int) (ha : ArgOk .flag 1 t x) :
    (fieldView .flag direct bb o 1).couldWrite t x = true ∧ Representable .flag 1 x := by
  refine ⟨rfl, ?_⟩
  rcases ha with rfl | rfl
  · exact ⟨0, by decide, rfl⟩
  · exact ⟨1, by decide, rfl⟩

example : ArgOk .flag 1 ⟨false, 8⟩ 1 ∧ (fieldView .flag false exBB 10 1).couldWrite ⟨false, 8⟩ 1 = true :=
  ⟨Or.inr rfl, rfl⟩

/-- **EnumView::CouldWriteValue**, unsigned enums (any underlying type `uw ≥ w`, any buffer
value type): accepts exactly `x < 2^w`. -/
theorem C03_could_write_iff_representable_enum (h : Placed bb o w) (direct : Bool) (uw : Nat)
    (huw : w ≤ uw) (t : IntT) (x : Int) (ha : ArgOk (.enum uw false) w t x) :
    (fieldView (.enum uw false) direct bb o w).couldWrite t x = true ↔
      Representable (.enum uw false) w x := by
  rw [representable_unsigned (ty := .enum uw false) rfl]
  have := enum_unsigned_could w uw h.w_pos huw (fieldBuf direct bb o w)
    (by rw [fieldBuf_W]; exact placed_w_le_W h) t x ha.1 ha.2
  exact ⟨fun hc => ⟨ha.1, this.mp hc⟩, fun hr => this.mpr hr.2⟩

example : (fieldView (.enum 64 false) false exBB 9 5).couldWrite ⟨false, 64⟩ 31 = true ∧
    (fieldView (.enum 64 false) false exBB 9 5).couldWrite ⟨false, 64⟩ 32 = false := by decide

/-
Full statement (false on the real code, see the counterexample below):
  ∀ uw ≥ w, couldWrite x = true ↔ Representable (.enum uw true) w x
-/
/-- **EnumView::CouldWriteValue**, signed enums, partial: when the field has the width of the
underlying type (`w = uw`; the buffer's value type may be wider — an `int8_t` enum at bit 4 of
a 16-bit `bits` — since `fix: … negative value of a signed enum … inside a wider bits`, which
converts through the unsigned underlying type) exactly the representable values, i.e. every
value of the enum type, are accepted.  Missing: fields narrower than the underlying type
(open finding `signed-enum-in-field-narrower-than-underlying-type`, see
`C03_could_write_enum_signed_actual`). -/
theorem C03_could_write_enum_signed_partial (h : Placed bb o w) (direct : Bool)
    (t : IntT) (x : Int) (ha : ArgOk (.enum w true) w t x) :
    ((fieldView (.enum w true) direct bb o w).couldWrite t x = true ↔
      Representable (.enum w true) w x) ∧
    (fieldView (.enum w true) direct bb o w).couldWrite t x = true := by
  have hr := (representable_signed (ty := .enum w true) rfl h.w_pos x).mpr ha
  have hc := (enum_signed_could w w h.w_pos (Nat.le_refl w) (fieldBuf direct bb o w)
    (by rw [fieldBuf_W]; exact placed_w_le_W h) t x ha.1 ha.2).mpr (Or.inl rfl)
  exact ⟨⟨fun _ => hr, fun _ => hc⟩, hc⟩

-- non-vacuity: an `int8_t` enum occupying one byte of a struct (`w = uw = W = 8`), and the
-- pinned input of the fixed finding: the same enum at bit 4 of a 16-bit `bits` (`W = 16`)
example : exBB8.W = 8 ∧ (fieldView (.enum 8 true) true exBB8 0 8).couldWrite ⟨true, 8⟩ (-128) = true := by
  decide
def exBB16 : BitBlock := { order := .little, path := .opt, c := 16, bytes := [0, 0] }
example : exBB16.W = 16 ∧
    (fieldView (.enum 8 true) false exBB16 4 8).couldWrite ⟨true, 8⟩ (-1) = true ∧
    (∃ v', (fieldView (.enum 8 true) false exBB16 4 8).tryToWrite ⟨true, 8⟩ (-1) = .written v' ∧
      v'.buf.bytes = [0xf0, 0x0f] ∧ v'.read = some (-1)) := ⟨by decide, by decide, _, rfl, by decide, by decide⟩

/-- **EnumView::CouldWriteValue of a signed enum, the behaviour of the code for every
`(w, uw, W)`** (`w ≤ uw`, any buffer value type): a field as wide as the underlying type
accepts every value; a narrower field accepts exactly `0 ≤ x < 2^w`.  Compared with the
documented two's-complement range `-2^(w-1) ≤ x < 2^(w-1)` the narrow field wrongly refuses
the negative half and wrongly accepts `2^(w-1) ≤ x < 2^w` — the open finding. -/
theorem C03_could_write_enum_signed_actual (h : Placed bb o w) (direct : Bool) (uw : Nat)
    (huw : w ≤ uw) (t : IntT) (x : Int) (ha : ArgOk (.enum uw true) w t x) :
    ((fieldView (.enum uw true) direct bb o w).couldWrite t x = true ↔
      (w = uw ∨ (0 ≤ x ∧ x < ((2 ^ w : Nat) : Int)))) ∧
    (w < uw → (((fieldView (.enum uw true) direct bb o w).couldWrite t x = true ↔
        Representable (.enum uw true) w x) ↔
      ((0 ≤ x ∧ x < ((2 ^ (w - 1) : Nat) : Int)) ∨ x < -((2 ^ (w - 1) : Nat) : Int) ∨
        ((2 ^ w : Nat) : Int) ≤ x))) := by
  have hc := enum_signed_could w uw h.w_pos huw (fieldBuf direct bb o w)
    (by rw [fieldBuf_W]; exact placed_w_le_W h) t x ha.1 ha.2
  refine ⟨hc, ?_⟩
  intro hlt
  have hc' : (fieldView (.enum uw true) direct bb o w).couldWrite t x = true ↔
      (w = uw ∨ (0 ≤ x ∧ x < ((2 ^ w : Nat) : Int))) := hc
  rw [hc', representable_signed (ty := .enum uw true) rfl h.w_pos]
  have hd := pow_pred_double (W := w) h.w_pos
  constructor
  · intro hiff
    by_cases h0 : 0 ≤ x
    · by_cases h1 : x < ((2 ^ (w - 1) : Nat) : Int)
      · exact Or.inl ⟨h0, h1⟩
      · right; right
        by_cases h2 : x < ((2 ^ w : Nat) : Int)
        · have := hiff.mp (Or.inr ⟨h0, h2⟩); omega
        · omega
    · right; left
      by_cases h1 : -((2 ^ (w - 1) : Nat) : Int) ≤ x
      · have := hiff.mpr ⟨h1, by omega⟩
        rcases this with he | ⟨h0', _⟩ <;> omega
      · omega
  · rintro (⟨h0, h1⟩ | h1 | h1)
    · exact ⟨fun _ => ⟨by omega, h1⟩, fun _ => Or.inr ⟨h0, by omega⟩⟩
    · constructor
      · rintro (he | ⟨h0, _⟩) <;> omega
      · rintro ⟨h2, _⟩; omega
    · constructor
      · rintro (he | ⟨_, h2⟩) <;> omega
      · rintro ⟨_, h2⟩; omega

/-- **Counterexample**: a 4-bit field of an `int8_t` enum refuses `-1` (representable in
4-bit two's complement) and accepts `15` (not representable). -/
theorem C03_enum_signed_narrow_counterexample :
    (fieldView (.enum 8 true) false exBB8 0 4).couldWrite ⟨true, 8⟩ (-1) = false ∧
    Representable (.enum 8 true) 4 (-1) ∧
    (fieldView (.enum 8 true) false exBB8 0 4).couldWrite ⟨true, 8⟩ 15 = true ∧
    ¬ Representable (.enum 8 true) 4 15 := by
  refine ⟨by decide, ⟨15, by decide, by decide⟩, by decide, ?_⟩
  rw [representable_signed (ty := .enum 8 true) rfl (by decide)]
  decide

/-- **Write then read**: whenever `CouldWriteValue(x)` holds (the view being complete),
`TryToWrite(x)` succeeds, the buffer stays a well-formed container, and `Read()` then
returns exactly `x` (and `Ok()` holds).  For every view type meeting `TypeFits` (signed
enums: `w = uw`; the narrow signed enum fields are covered, with the behaviour the code has,
by `C03_enum_signed_write_then_read_actual`). -/
theorem C03_write_then_read (h : Placed bb o w) (direct : Bool)
    (hd : direct = true → o = 0 ∧ w = bb.c) (ty : Ty) (hty : TypeFits ty w)
    (t : IntT) (x : Int) (ha : ArgOk ty w t x)
    (hc : (fieldView ty direct bb o w).couldWrite t x = true) :
    ∃ bytes', (fieldView ty direct bb o w).tryToWrite t x =
        .written (fieldView ty direct { bb with bytes := bytes' } o w) ∧
      Placed { bb with bytes := bytes' } o w ∧
      (fieldView ty direct { bb with bytes := bytes' } o w).read = some x := by
  obtain ⟨henc, hdec⟩ := encode_spec h direct ty hty t x ha hc
  obtain ⟨bytes', hw, hp, hu⟩ := tryToWrite_written h direct hd ty t x hc henc
  refine ⟨bytes', hw, hp, ?_⟩
  rw [C02_read_eq_spec hp direct hd ty hty]
  have : fieldBits { bb with bytes := bytes' } o w = (fieldView ty direct bb o w).encode x :=
    bits_of_updated hu henc
  rw [this, hdec]

example : ∃ v', (fieldView .int false exBB 9 5).tryToWrite ⟨true, 8⟩ (-3) = .written v' ∧
    v'.read = some (-3) ∧ v'.buf.bytes = [0x12, 0x3a, 0x56] := ⟨_, rfl, by decide, by decide⟩

/-- **Signed enum, write then read, for every `(w, uw, W)`**: whatever value the code accepts
(`C03_could_write_enum_signed_actual`) is stored in the field's own bits only and read back
exactly — also in the narrow fields of the open finding, where the accepted values are
`0 … 2^w − 1` and `Read()` zero-extends.  So the finding is confined to *which* values are
accepted / how a given bit pattern is interpreted; write/read round trips and the frame
condition hold unconditionally. -/
theorem C03_enum_signed_write_then_read_actual (h : Placed bb o w) (direct : Bool)
    (hd : direct = true → o = 0 ∧ w = bb.c) (uw : Nat) (huw : w ≤ uw) (t : IntT) (x : Int)
    (ha : ArgOk (.enum uw true) w t x)
    (hc : (fieldView (.enum uw true) direct bb o w).couldWrite t x = true) :
    ∃ bytes', (fieldView (.enum uw true) direct bb o w).tryToWrite t x =
        .written (fieldView (.enum uw true) direct { bb with bytes := bytes' } o w) ∧
      Placed { bb with bytes := bytes' } o w ∧
      (fieldView (.enum uw true) direct { bb with bytes := bytes' } o w).read = some x ∧
      ∀ o' w', o' + w' ≤ o ∨ o + w ≤ o' →
        fieldBits { bb with bytes := bytes' } o' w' = fieldBits bb o' w' := by
  have hkB := placed_w_le_W h
  have hcase := (enum_signed_could w uw h.w_pos huw (fieldBuf direct bb o w)
    (by rw [fieldBuf_W]; exact hkB) t x ha.1 ha.2).mp hc
  have henc_eq : (fieldView (.enum uw true) direct bb o w).encode x = wrap bb.W (ofInt uw x) := by
    simp only [View.encode, fieldView, fieldBuf_W]
  -- the unsigned image fits the field
  have hfit : ofInt uw x < 2 ^ w := by
    rcases hcase with he | ⟨h0, hlt⟩
    · subst he; exact ofInt_lt w x
    · rw [ofInt_of_nonneg h0 (by have := pow_le_pow huw; omega)]; omega
  have hwr : wrap bb.W (ofInt uw x) = ofInt uw x := enum_encode_eq hkB x hfit
  have henc : (fieldView (.enum uw true) direct bb o w).encode x < 2 ^ w := by
    rw [henc_eq, hwr]; exact hfit
  obtain ⟨bytes', hw, hp, hu⟩ := tryToWrite_written h direct hd (.enum uw true) t x hc henc
  have hfb0 : fieldBits { bb with bytes := bytes' } o w =
      (fieldView (.enum uw true) direct bb o w).encode x := bits_of_updated hu henc
  have hfb : fieldBits { bb with bytes := bytes' } o w = ofInt uw x := by
    rw [hfb0, henc_eq, hwr]
  refine ⟨bytes', hw, hp, ?_, fun o' w' hdis => bits_disjoint_of_updated hu hdis⟩
  rw [(C02_enum_read_signed_actual hp uw huw direct hd).2.1, hfb,
    toSigned_ofInt (by have := h.w_pos; omega) ha.1 ha.2]

-- non-vacuity (test): the 4-bit field of an `int8_t` enum accepts 15, stores 0xF in the low
-- nibble only, and reads 15 back
example : ∃ v', (fieldView (.enum 8 true) false exBB8 0 4).tryToWrite ⟨true, 8⟩ 15 = .written v' ∧
    v'.buf.bytes = [0x8f] ∧ v'.read = some 15 := ⟨_, rfl, by decide, by decide⟩

/-- **Frame**: a successful write changes the container value only in bits `[o, o+w)`
(`Updated`: every other bit is the old one), writes back exactly the container's `c/8`
bytes, and therefore every disjoint field of the same container reads the same bits as
before.  Bytes outside the container are not part of the store at all (`storeLE/BE` produce
`c/8` bytes; the sanitizer-instrumented tie checks the real code never touches others). -/
theorem C03_write_frame (h : Placed bb o w) (direct : Bool)
    (hd : direct = true → o = 0 ∧ w = bb.c) (ty : Ty) (hty : TypeFits ty w)
    (t : IntT) (x : Int) (ha : ArgOk ty w t x)
    (hc : (fieldView ty direct bb o w).couldWrite t x = true) :
    ∃ bytes', (fieldView ty direct bb o w).tryToWrite t x =
        .written (fieldView ty direct { bb with bytes := bytes' } o w) ∧
      bytes'.length = bb.bytes.length ∧
      Updated o w (containerValue bb.order bb.bytes) (fieldBits { bb with bytes := bytes' } o w)
        (containerValue bb.order bytes') ∧
      ∀ o' w', o' + w' ≤ o ∨ o + w ≤ o' →
        fieldBits { bb with bytes := bytes' } o' w' = fieldBits bb o' w' := by
  obtain ⟨henc, _⟩ := encode_spec h direct ty hty t x ha hc
  obtain ⟨bytes', hw, hp, hu⟩ := tryToWrite_written h direct hd ty t x hc henc
  have hfb : fieldBits { bb with bytes := bytes' } o w = (fieldView ty direct bb o w).encode x :=
    bits_of_updated hu henc
  refine ⟨bytes', hw, ?_, by rw [hfb]; exact hu, fun o' w' hdis => bits_disjoint_of_updated hu hdis⟩
  have h1 := hp.len; have h2 := h.len
  simp only at h1; omega

-- non-vacuity (test): writing -3 into bits 9..13 of `12 34 56` (big endian) changes only those
-- bits: 0x123456 → 0x123a56; the neighbouring fields (bits 0..8 and 14..23) read as before
example : ∃ v', (fieldView .int false exBB 9 5).tryToWrite ⟨true, 8⟩ (-3) = .written v' ∧
    fieldBits v'.buf.bitBlock 0 9 = fieldBits exBB 0 9 ∧
    fieldBits v'.buf.bitBlock 14 10 = fieldBits exBB 14 10 ∧
    fieldBits v'.buf.bitBlock 9 5 = 29 := ⟨_, rfl, by decide, by decide, by decide⟩

/-- **Frame at the level of the structure's buffer.**  The field's `c`-bit container occupies
bytes `[p, p + c/8)` of the structure's backing store (the sub-buffer handed to the view
aliases them).  A write the view accepts yields a store of the same length in which **every
byte outside `[p, p + c/8)` is the old byte**, the container's bytes are the ones of
`C03_write_frame` (so inside the container only bits `[o, o+w)` changed) and the field then
reads `x`; if the buffer is too short for the container, or the value is refused, nothing is
written at all. -/
theorem C03_write_frame_store (store : List Nat) (p : Nat) (order : ByteOrder) (path : Path)
    (c : Nat) (hfit : p + c / 8 ≤ store.length)
    (h : Placed { order := order, path := path, c := c, bytes := (store.drop p).take (c / 8) } o w)
    (direct : Bool) (hd : direct = true → o = 0 ∧ w = c) (ty : Ty) (hty : TypeFits ty w)
    (t : IntT) (x : Int) (ha : ArgOk ty w t x)
    (hc : (fieldView ty direct
      { order := order, path := path, c := c, bytes := (store.drop p).take (c / 8) } o w).couldWrite t x = true) :
    ∃ store' bytes', storeTryToWrite store p order path c ty direct o w t x = .written store' ∧
      store'.length = store.length ∧
      (∀ i, i < p ∨ p + c / 8 ≤ i → store'[i]? = store[i]?) ∧
      containerOf store' p (c / 8) = some bytes' ∧
      (fieldView ty direct { order := order, path := path, c := c, bytes := bytes' } o w).read = some x ∧
      Updated o w (containerValue order ((store.drop p).take (c / 8)))
        (fieldBits { order := order, path := path, c := c, bytes := bytes' } o w)
        (containerValue order bytes') := by
  obtain ⟨bytes', hw, hlen, hu, _⟩ := C03_write_frame h direct hd ty hty t x ha hc
  obtain ⟨bytes'', hw', _, hrd⟩ := C03_write_then_read h direct hd ty hty t x ha hc
  have hbb : bytes'' = bytes' := by
    rw [hw] at hw'
    simp only [View.WriteResult.written.injEq, fieldView, View.mk.injEq, true_and] at hw'
    cases direct <;> simp [fieldBuf, BitBlock.offsetStorage] at hw' <;> simp_all
  subst hbb
  have hl : bytes''.length = c / 8 := by
    have h1 := h.len; have h2 := h.c_mult
    simp only at hlen h1 h2
    omega
  have hfit' : p + bytes''.length ≤ store.length := by omega
  refine ⟨storeAfter store p bytes'', bytes'', ?_, storeAfter_length store p bytes'' hfit',
    fun i hi => storeAfter_outside store p bytes'' hfit' i (by omega), ?_, hrd, hu⟩
  · unfold storeTryToWrite containerOf
    rw [if_pos hfit]
    simp only [hw]
    congr 2
    cases direct <;> rfl
  · rw [← hl]; exact storeAfter_container store p bytes'' hfit'

/-- Too short a buffer, or a refused value: the store is not written. -/
theorem C03_store_refused (store : List Nat) (p : Nat) (order : ByteOrder) (path : Path) (c : Nat)
    (ty : Ty) (direct : Bool) (o w : Nat) (t : IntT) (x : Int)
    (hf : store.length < p + c / 8 ∨ ∀ bytes, (fieldView ty direct
      { order := order, path := path, c := c, bytes := bytes } o w).couldWrite t x = false) :
    storeTryToWrite store p order path c ty direct o w t x = .refused := by
  unfold storeTryToWrite containerOf
  rcases hf with hf | hf
  · rw [if_neg (by omega)]
  · split
    · rfl
    · rw [tryToWrite_refused_of_not_could _ t x (hf _)]

-- non-vacuity (test): the container `12 34 56` of `exBB` at byte 2 of a 7-byte store
example : storeTryToWrite [0xaa, 0xbb, 0x12, 0x34, 0x56, 0xcc, 0xdd] 2 .big .opt 24 .int false 9 5
      ⟨true, 8⟩ (-3) = .written [0xaa, 0xbb, 0x12, 0x3a, 0x56, 0xcc, 0xdd] ∧
    storeTryToWrite [0xaa, 0xbb, 0x12, 0x34] 2 .big .opt 24 .int false 9 5 ⟨true, 8⟩ (-3) = .refused := by
  decide

/-- **Failed write**: if `CouldWriteValue(x)` is false or the view is incomplete,
`TryToWrite(x)` returns false without calling `WriteUInt` (the buffer is not touched). -/
theorem C03_failed_write_no_change (v : View) (t : IntT) (x : Int)
    (hf : v.couldWrite t x = false ∨ v.isComplete = false) : v.tryToWrite t x = .refused := by
  rcases hf with hf | hf
  · exact tryToWrite_refused_of_not_could v t x hf
  · exact tryToWrite_refused_of_incomplete v t x hf

example : (fieldView .uint false exBB 9 5).tryToWrite ⟨true, 32⟩ 32 = .refused ∧
    (fieldView .uint false { exBB with bytes := [1, 2] } 9 5).tryToWrite ⟨true, 32⟩ 3 = .refused :=
  ⟨rfl, rfl⟩

end Emboss.Scalar

/-! ## Write inference (`compiler/front_end/write_inference.py`) -/
namespace Emboss.WInf
open Emboss.WInf.Spec

/-- `2 + ((3 - x) - 10)`, the example in the source comment of `_invert_expression`. -/
def exExpr : Expr :=
  .bin .add (.const 2) (.bin .sub (.bin .sub (.const 3) (.ref 7)) (.const 10))

/-- **The synthesised inverse is correct, and exists exactly on the documented fragment.**
(1) If `_invert_expression e` returns `(r, inv)` then `r` is a field reference `x` and for
every target value `v` (over ℤ): storing `inv[$logical_value := v]` in `x` makes `e` evaluate
to `v`, whatever the other fields hold; `inv` mentions no field.
(2) `_invert_expression e` succeeds iff `e` is an ADD/SUB chain over exactly one field
reference whose other operands are reference-free — it fails exactly outside that fragment. -/
theorem C03_inverse_correct (e : Expr) :
    (∀ r inv, invert e = some (r, inv) →
      refCount inv = 0 ∧
      ∃ x, r = .ref x ∧ ∀ (env : Nat → Int) (v a : Int), eval env v inv = some a →
        eval (update env x a) v e = some v) ∧
    ((∃ x inv, invert e = some (.ref x, inv)) ↔ ∃ x, Invertible e x) := by
  refine ⟨fun r inv h => ⟨invert_refFree e r inv h, ?_⟩, invert_isSome_iff e⟩
  obtain ⟨x, hx⟩ := invert_fst_ref e r inv h
  refine ⟨x, hx, fun env v a hev => ?_⟩
  obtain ⟨x', hx', heq⟩ := inverse_correct e r inv h env v a hev
  rw [hx] at hx'; cases hx'; exact heq

-- non-vacuity (tests): the inverse of `2 + ((3 - x) - 10)` is `3 - (($lv - 2) + 10)`;
-- writing 100 stores -105 and 2 + ((3 - -105) - 10) = 100; `x * 2`, `x + y`, `x - x` fail.
example : invert exExpr = some (.ref 7,
    .bin .sub (.const 3) (.bin .add (.bin .sub .logical (.const 2)) (.const 10))) := by decide
example : eval (fun _ => 0) 100 (.bin .sub (.const 3) (.bin .add (.bin .sub .logical (.const 2)) (.const 10)))
      = some (-105) ∧ eval (update (fun _ => 0) 7 (-105)) 100 exExpr = some 100 := by decide
example : invert (.bin .mul (.ref 1) (.const 2)) = none ∧
    invert (.bin .add (.ref 1) (.ref 2)) = none ∧ invert (.bin .sub (.ref 1) (.ref 1)) = none := by
  decide

/-- **Transform write** (promoted from `C03_transform_write_partial`: the hypothesis "the
inverse is evaluated exactly" is discharged).  The model now evaluates `function_body` the
way the generated C++ does — per node the bounds of `expression_bounds`, `IntermediateT` /
`ResultT` chosen by `_cpp_integer_type_for_range`, `MaybeDo`'s conversions, signed overflow =
undefined — after the range check that `fix: make writes through an arithmetic virtual field
reject values outside the field's range` put in front of it (rendered literals compared under
the usual arithmetic conversions).  For **every** value `v` of the C++ parameter type:

* the generated code has defined behaviour (no overflow, no value-changing conversion);
* `TryToWrite(v)` succeeds **exactly when** `[requires]` holds, `v` lies in the virtual
  field's own range, the destination is complete and accepts the exact (ℤ) inverse image;
* then the destination holds the value for which `read_transform` evaluates to `v`
  (whatever the other fields hold), inside the range the front end inferred for it;
* otherwise the destination is untouched.

Side conditions: `lv`/`t` are the range and C++ type of the virtual field, the inverse lies in
the fragment `_invert_expression` emits with constant-typed operands the model can evaluate
(`rangeOf … = some r`), and every node has a C++ type (otherwise the header does not
compile).  Before the repair the same model accepts `v = 0` for `let v = f0 + 1` over a
32-bit `UInt` and stores `0xFFFFFFFF` (see the `example` below) — fixed finding
`virtual-write-inverse-wraps-in-unsigned-destination-type`. -/
theorem C03_transform_write (rt body : Expr) (x : Nat) (hinv : invert rt = some (.ref x, body))
    (lv r : Rng) (t : Emboss.CppInt.IntTy) (ht : logicalType lv = some t) (hle : lv.lo ≤ lv.hi)
    (hr : rangeOf lv body = some r) (hty : typesExist lv body = true)
    (valueIsOk : Int → Bool) (d : Dest) (v : Int) (hv : t.holds v = true) (env : Nat → Int) :
    ∃ ok d', virtualTryToWrite lv t body valueIsOk d v = some (ok, d') ∧
      (ok = true ↔ valueIsOk v = true ∧ lv.lo ≤ v ∧ v ≤ lv.hi ∧ d.complete = true ∧
        ∃ u, eval (fun _ => 0) v body = some u ∧ d.could u = true) ∧
      (ok = true → eval (update env x d'.value) v rt = some v ∧ d.could d'.value = true ∧
        r.lo ≤ d'.value ∧ d'.value ≤ r.hi) ∧
      (ok = false → d' = d) :=
  transform_write rt body x hinv lv r t ht hle hr hty valueIsOk d v hv env

/-- The generated range check alone: exact for every value of the parameter type. -/
theorem C03_virtual_range_check_exact (lv : Rng) (t : Emboss.CppInt.IntTy)
    (ht : logicalType lv = some t) (hle : lv.lo ≤ lv.hi) (v : Int) (hv : t.holds v = true) :
    rangeCheck lv t v = some (decide (lv.lo ≤ v ∧ v ≤ lv.hi)) :=
  rangeCheck_exact ht hle hv

/-- The generated inverse is exact inside the field's range (no wrap, no overflow). -/
theorem C03_inverse_cpp_exact (lv : Rng) (v : Int) (hv : lv.lo ≤ v ∧ v ≤ lv.hi) (body : Expr)
    (r : Rng) (hr : rangeOf lv body = some r) (hty : typesExist lv body = true) :
    ∃ u, cppEval lv v body = .ok u ∧ eval (fun _ => 0) v body = some u ∧ r.lo ≤ u ∧ u ≤ r.hi :=
  cppEval_exact lv v hv body r hr hty

/-- An 8-bit unsigned destination holding 5, complete; `let v = f + 100`: range `[100, 355]`. -/
def exDest : Dest := { could := fun u => decide (0 ≤ u ∧ u < 256), complete := true, value := 5 }
def exLv : Rng := ⟨100, 355⟩
def exBody : Expr := .bin .sub .logical (.const 100)
example : invert (.bin .add (.ref 0) (.const 100)) = some (.ref 0, exBody) ∧
    logicalType exLv = some Emboss.CppInt.i32 ∧ rangeOf exLv exBody = some ⟨0, 255⟩ ∧
    typesExist exLv exBody = true := by decide
/-- Observable part of a `TryToWrite` outcome: (returned value, destination value afterwards). -/
def obs (r : Option (Bool × Dest)) : Option (Bool × Int) := r.map fun p => (p.1, p.2.value)
example : obs (virtualTryToWrite exLv Emboss.CppInt.i32 exBody (fun _ => true) exDest 130) = some (true, 30) ∧
    obs (virtualTryToWrite exLv Emboss.CppInt.i32 exBody (fun _ => true) exDest 99) = some (false, 5) ∧
    obs (virtualTryToWrite exLv Emboss.CppInt.i32 exBody (fun _ => true) exDest 356) = some (false, 5) := by
  decide

-- the pinned input of the fixed finding: `let v0 = f0 + 1` over `0 [+4] UInt f0`:
-- range [1, 2^32], parameter type int64_t, inverse `$logical_value - 1` computed with
-- IntermediateT = int64_t, ResultT = uint32_t.  Outside the range the C++ expression wraps
-- (0 ↦ 0xFFFFFFFF) — which is why `CouldWriteValue(0)` was true before the repair; the range
-- check now refuses 0 before the inverse is computed.
def exLv32 : Rng := ⟨1, 4294967296⟩
def exBody1 : Expr := .bin .sub .logical (.const 1)
def exDest32 : Dest :=
  { could := fun u => decide (0 ≤ u ∧ u < 4294967296), complete := true, value := 5 }
example : logicalType exLv32 = some Emboss.CppInt.i64 ∧
    cppTypes exLv32 exBody1 = [(some Emboss.CppInt.i64, some Emboss.CppInt.u32,
      some Emboss.CppInt.i64, some Emboss.CppInt.i32)] ∧
    cppEval exLv32 0 exBody1 = .ok 4294967295 ∧
    rangeCheck exLv32 Emboss.CppInt.i64 0 = some false ∧
    obs (virtualTryToWrite exLv32 Emboss.CppInt.i64 exBody1 (fun _ => true) exDest32 0) =
      some (false, 5) ∧
    obs (virtualTryToWrite exLv32 Emboss.CppInt.i64 exBody1 (fun _ => true) exDest32 4294967296) =
      some (true, 4294967295) := by decide

/-- **Alias write**: a virtual field gets an `alias` write method only when it is exactly a
reference (without `[requires]`) to a writable field of the structure, and a `transform` only
with the inverse computed above onto a writable field — so every write through an alias /
transform chain lands on a physical field.  (In the generated C++ an alias returns the
target's own view object: writing the alias *is* writing the target.) -/
theorem C03_alias_write (fields : List Field) (fuel i : Nat) :
    (∀ x, writeMethod fields (fuel + 1) i = .alias x →
      fields[i]? = some (.virtual (.ref x) false) ∧ x < fields.length ∧
      writeMethod fields fuel x ≠ .readOnly ∧ writeMethod fields fuel x ≠ .outOfFuel) ∧
    (∀ x body, writeMethod fields (fuel + 1) i = .transform x body →
      ∃ rt rq, fields[i]? = some (.virtual rt rq) ∧ invert rt = some (.ref x, body) ∧
        x < fields.length ∧ writeMethod fields fuel x ≠ .readOnly ∧
        writeMethod fields fuel x ≠ .outOfFuel) :=
  alias_write fields fuel i

-- fields: 0 physical; 1 = alias of 0; 2 = alias of 1; 3 = field 2 + 1; 4 = alias of parameter 9;
-- 5 = field 0 with [requires] (transform with the identity body)
def exFields : List Field :=
  [.physical, .virtual (.ref 0) false, .virtual (.ref 1) false,
   .virtual (.bin .add (.ref 2) (.const 1)) false, .virtual (.ref 9) false, .virtual (.ref 0) true]
example : writeMethod exFields 5 2 = .alias 1 ∧
    writeMethod exFields 5 3 = .transform 2 (.bin .sub .logical (.const 1)) ∧
    writeMethod exFields 5 4 = .readOnly ∧ writeMethod exFields 5 5 = .transform 0 .logical := by
  decide

end Emboss.WInf
