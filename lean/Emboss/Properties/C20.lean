/-
C20 — CopyFrom and Equals implement logical copy and logical equality.

Model: `viewEquals` / `typeEquals` / `tryCopy` / `arenaCopy` in Emboss/Model/ViewObs.lean
(mirrors the `equals_method_test` template, leaf/array `Equals` of the runtime, the
`TryToCopyFrom` template and `ContiguousBuffer::TryToCopyFrom` = `memmove` on one address space).
-/
import Emboss.Lemmas.Equals
import Emboss.Lemmas.Locality
import Emboss.Properties.C01
import Emboss.Lemmas.ViewRefLogEq
namespace Emboss.View

/-- `Equals` is symmetric (for two views of the same structure type). -/
theorem C20_equals_symmetric (o : Oracle) (m : Module) :
    ∀ (fuel : Nat) (wa wb : SView), wa.sd = wb.sd →
      viewEquals o m fuel wa wb = viewEquals o m fuel wb wa := by
  intro fuel
  induction fuel with
  | zero => intro _ _ _; rfl
  | succ fuel ih =>
    intro wa wb hsd
    simp only [viewEquals]
    rw [← hsd]
    have hf : fieldEquals o m (viewEquals o m fuel) wa wb = fieldEquals o m (viewEquals o m fuel) wb wa := by
      funext f
      exact fieldEquals_symm o m _ ih wa wb f
    rw [hf]
    congr 1
    congr 1
    cases wa.params <;> cases wb.params <;> first | rfl | exact BEq.comm

/-- `TryToCopyFrom` succeeds exactly when the source is `Ok()` and both the destination and the
source storage hold the source's intrinsic size (the latter is implied by `Ok()`, the runtime
checks it again). -/
theorem C20_copy_succeeds_iff (o : Oracle) (m : Module) (sd : StructDef) (ps : List Val)
    (arena : List Nat) (so sl d0 dl : Nat) :
    (tryCopy o m sd ps arena so sl d0 dl).1 = true ↔
      ((step m o).okAt (rootView sd ps ((arena.drop so).take sl)) [] = true ∧
       ∃ sz : Int, sizeOf? o (rootView sd ps ((arena.drop so).take sl)) = some sz ∧
         0 ≤ sz ∧ sz.toNat ≤ dl ∧ sz.toNat ≤ sl) := by
  unfold tryCopy
  simp only
  by_cases hok : (step m o).okAt (rootView sd ps ((arena.drop so).take sl)) [] = true
  · rw [if_pos hok]
    cases hs : sizeOf? o (rootView sd ps ((arena.drop so).take sl)) with
    | none => simp [hok]
    | some sz =>
      by_cases hc : 0 ≤ sz ∧ sz.toNat ≤ dl ∧ sz.toNat ≤ sl
      · simp only [if_pos hc, true_iff]
        exact ⟨hok, sz, rfl, hc⟩
      · simp only [if_neg hc, hok, true_and]
        constructor
        · intro h; cases h
        · intro ⟨sz', h1, h2⟩
          cases h1
          exact absurd h2 hc
  · simp [hok]

/-- A failed copy changes nothing. -/
theorem C20_failed_copy_no_change (o : Oracle) (m : Module) (sd : StructDef) (ps : List Val)
    (arena : List Nat) (so sl d0 dl : Nat)
    (h : (tryCopy o m sd ps arena so sl d0 dl).1 = false) :
    (tryCopy o m sd ps arena so sl d0 dl).2 = arena := by
  unfold tryCopy at h ⊢
  simp only at h ⊢
  split
  · split
    · split
      · rename_i h1 _ _ h2 h3
        rw [if_pos h1] at h
        simp only [h2] at h
        rw [if_pos h3] at h
        cases h
      · rfl
    · rfl
  · rfl

/-- After a successful copy of `n` bytes: the arena keeps its length, the destination's first
`n` bytes are the source's (old) first `n` bytes, everything before and after the destination
window is untouched. -/
theorem C20_copy_post (arena : List Nat) (so d0 n : Nat)
    (hs : so + n ≤ arena.length) (hd : d0 + n ≤ arena.length) :
    (arenaCopy arena so d0 n).length = arena.length ∧
    ((arenaCopy arena so d0 n).drop d0).take n = (arena.drop so).take n ∧
    (arenaCopy arena so d0 n).take d0 = arena.take d0 ∧
    (arenaCopy arena so d0 n).drop (d0 + n) = arena.drop (d0 + n) := by
  have hl1 : (arena.take d0).length = d0 := by rw [List.length_take]; omega
  have hl2 : ((arena.drop so).take n).length = n := by
    rw [List.length_take, List.length_drop]; omega
  unfold arenaCopy
  simp only
  refine ⟨?_, ?_, ?_, ?_⟩
  · simp only [List.length_append, hl1, hl2, List.length_drop]; omega
  · rw [List.append_assoc, List.drop_left' hl1, List.take_left' hl2]
  · rw [List.append_assoc, List.take_left' hl1]
  · have : (arena.take d0 ++ (arena.drop so).take n).length = d0 + n := by
      rw [List.length_append, hl1, hl2]
    rw [List.drop_left' this]

/-- Overlap is handled like `memmove`: whatever the relative position of the two windows (no
disjointness hypothesis), the destination receives the bytes the source window held *before* the
copy — the result equals copying through a temporary. -/
theorem C20_copy_overlap (arena : List Nat) (so d0 n : Nat)
    (hs : so + n ≤ arena.length) (hd : d0 + n ≤ arena.length) :
    arenaCopy arena so d0 n =
      arena.take d0 ++ (arena.drop so).take n ++ arena.drop (d0 + n) ∧
    ((arenaCopy arena so d0 n).drop d0).take n = (arena.drop so).take n :=
  ⟨rfl, (C20_copy_post arena so d0 n hs hd).2.1⟩

/-- After a successful copy the destination is `Ok()`: if the source view is Ok with size `sz`
and the destination buffer afterwards starts with the source's first `sz` bytes (what
`C20_copy_post` guarantees) then the destination view is Ok.  Uses locality
(`C01_locality_partial`: the source restricted to its first `sz` bytes is still Ok) and prefix
monotonicity of `Ok()` (`C01_ok_monotone_arrays_partial`); hypothesis `SizeCovers` as there.
"… and Equals the source" is not proved (it additionally needs reflexivity of `Equals` on Ok
views); the harness checks it by a follow-up `EQ` after every successful `CP`. -/
theorem C20_copy_dest_ok_partial (m : Module) (hm : moduleWF m = true) (sd : StructDef)
    (hsd : structWF m sd = true) (hcov : SizeCovers m sd) (ps : List Val) (src dst' : List Nat)
    (K : Nat) (sz : Int)
    (hsz : (G m (K + 1)).read (rootView sd ps src) [sd.sizeField] = some (.int sz))
    (h0 : 0 ≤ sz) (hfit : sz ≤ src.length)
    (hok : (G m (K + 2)).okAt (rootView sd ps src) [] = true)
    (hcopy : dst'.take sz.toNat = src.take sz.toNat) :
    (G m (K + 2)).okAt (rootView sd ps dst') [] = true := by
  -- the size is also known one level up
  have hsz' : (G m (K + 1 + 1)).read (rootView sd ps src) [sd.sizeField] = some (.int sz) :=
    (G_fuel_mono hm (K + 1) _ _ (VLe.refl _) hsd).1 _ _ hsz
  have hag := C01_locality_partial m hm sd hsd hcov ps src (K + 1) sz hsz' h0 hfit (K + 2) (Nat.le_refl _)
  have h1 : (G m (K + 2)).okAt (rootView sd ps (src.take sz.toNat)) [] = true := by
    rw [hag.okAt]; exact hok
  have hle : VLe (rootView sd ps (src.take sz.toNat)) (rootView sd ps dst') := by
    refine ⟨rfl, OLe.refl _, ?_⟩
    simp only [rootView, StLe]
    rw [← hcopy]
    exact List.take_prefix _ _
  exact G_ok_mono_arr hm (w1 := rootView sd ps (src.take sz.toNat)) hcov hle hsd (K + 2) h1

/-- `Equals` ignores the bytes behind the structure: if a view knows its size `sz ≤ |a|` and `a'`
has the same first `sz` bytes (the buffers differ only in trailing bytes no field covers), then
`Equals` against *any* third view gives the same answer for both (and, with
`C20_equals_symmetric`, on either side).  Partial: only padding *behind* the last field, not gaps
between fields; hypothesis `SizeCovers` as in `C01_locality_partial`. -/
theorem C20_equals_ignores_padding_partial (m : Module) (hm : moduleWF m = true) (sd : StructDef)
    (hsd : structWF m sd = true) (hcov : SizeCovers m sd) (ps : List Val) (a a' : List Nat)
    (K : Nat) (sz : Int)
    (hsz : (G m (K + 1)).read (rootView sd ps a) [sd.sizeField] = some (.int sz))
    (h0 : 0 ≤ sz) (hfit : sz ≤ a.length) (hsame : a'.take sz.toNat = a.take sz.toNat)
    (k : Nat) (hk : k ≤ K) (wx : SView) (fuel : Nat) :
    viewEquals (G m k) m fuel (rootView sd ps a) wx = viewEquals (G m k) m fuel (rootView sd ps a') wx := by
  have hlen0 : ((rootView sd ps (a.take sz.toNat)).st.size : Int) ≥ sz := by
    simp only [rootView, Storage.size, List.length_take]; omega
  -- the truncated view agrees with the view over `a` …
  have e1 := tight_equals hm (w0 := rootView sd ps (a.take sz.toNat)) (w := rootView sd ps a) rfl rfl
    (rootView_take_le sd ps a _) rfl hsd hcov K sz hsz hlen0 k hk wx fuel
  -- … it knows the size too, hence so does the view over `a'` …
  have hag := tight_agree hm (w0 := rootView sd ps (a.take sz.toNat)) (w := rootView sd ps a) rfl rfl
    (rootView_take_le sd ps a _) rfl hsd hcov K sz hsz hlen0 (K + 1) (Nat.le_refl _)
  have hsz0 : (G m (K + 1)).read (rootView sd ps (a.take sz.toNat)) [sd.sizeField] = some (.int sz) := by
    rw [hag.read]; exact hsz
  have hle : StLe (rootView sd ps (a.take sz.toNat)).st (rootView sd ps a').st := by
    simp only [rootView, StLe]
    rw [← hsame]
    exact List.take_prefix _ _
  have hsz' : (G m (K + 1)).read (rootView sd ps a') [sd.sizeField] = some (.int sz) :=
    (G_mono hm (K + 1) (rootView sd ps (a.take sz.toNat)) (rootView sd ps a') ⟨rfl, OLe.refl _, hle⟩ hsd).1 _ _ hsz0
  -- … and agrees with the truncated view as well
  have e2 := tight_equals hm (w0 := rootView sd ps (a.take sz.toNat)) (w := rootView sd ps a') rfl rfl
    hle rfl hsd hcov K sz hsz' hlen0 k hk wx fuel
  rw [← e1, e2]

/-- Corollary for copies: after a successful copy (`dst'` starts with the source's first `sz`
bytes) `dst'.Equals(src)` has the same value as `src.Equals(src)`: "the destination Equals the
source" reduces to reflexivity of `Equals` on the (Ok) source, which is not proved here (it needs a
fuel/nesting argument) and is checked on the real code by `EQ` on identical buffers. -/
theorem C20_copy_dest_equals_src_partial (m : Module) (hm : moduleWF m = true) (sd : StructDef)
    (hsd : structWF m sd = true) (hcov : SizeCovers m sd) (ps : List Val) (src dst' : List Nat)
    (K : Nat) (sz : Int)
    (hsz : (G m (K + 1)).read (rootView sd ps src) [sd.sizeField] = some (.int sz))
    (h0 : 0 ≤ sz) (hfit : sz ≤ src.length) (hcopy : dst'.take sz.toNat = src.take sz.toNat)
    (k : Nat) (hk : k ≤ K) (fuel : Nat) :
    viewEquals (G m k) m fuel (rootView sd ps dst') (rootView sd ps src) =
      viewEquals (G m k) m fuel (rootView sd ps src) (rootView sd ps src) :=
  (C20_equals_ignores_padding_partial m hm sd hsd hcov ps src dst' K sz hsz h0 hfit hcopy k hk
    (rootView sd ps src) fuel).symm

/-! ### non-vacuity -/

/-- `struct Ex: 0 [+1] UInt tag; if tag == 1: 1 [+2] UInt a; 3 [+tag] UInt:8[] arr` (C01's example):
`01 05 00 09` and `01 05 00 09 ff` are Equal (the fifth byte is not covered), a flipped covered bit
makes them unequal, a 3-byte destination is too small, and a 4-byte copy into the second half of an 8-byte arena from the overlapping
window at offset 2 moves the old bytes. -/
example :
    viewEquals (G exM 6) exM 8 (rootView exSd [] [1, 5, 0, 9]) (rootView exSd [] [1, 5, 0, 9, 255]) = true ∧
    viewEquals (G exM 6) exM 8 (rootView exSd [] [1, 5, 0, 9]) (rootView exSd [] [1, 4, 0, 9]) = false ∧
    tryCopy (G exM 6) exM exSd [] [7, 7, 1, 5, 0, 9, 7, 7] 2 6 5 3 = (false, [7, 7, 1, 5, 0, 9, 7, 7]) ∧
    tryCopy (G exM 6) exM exSd [] [7, 7, 1, 5, 0, 9, 7, 7] 2 6 4 4 = (true, [7, 7, 1, 5, 1, 5, 0, 9]) := by
  decide

/-! ### Equals is logical equality as the reference semantics defines it

Full statement (`C20_equals_iff_logical`): for two views of the same structure type, `Equals` is
true exactly when both agree on which fields are present and every present physical field
(recursively, element by element for arrays) reads equal.  "Present" and "reads" are the
reference semantics' notions: `LogicallyEqual` (Spec/ViewRef.lean) is stated over R-facts only.
Proved (round 3) for **every view of the fragment of `C01_G_equals_R_partial` whose own physical
fields are scalars** — a byte structure *or a `bits` container with sub-byte fields*, at the top
of a message or nested anywhere (the windows `sa`, `sb` are arbitrary: byte windows or container
numbers), with conditions, dynamic offsets, virtual fields, aliases, parameters, `[requires]`.
Round 2 had top-level flat byte structures only.  The recursion through fields of structure type
and arrays stays with the Python reference (`embref.logical_equal`, every EQ command of every
run). -/

open Emboss.ViewRef in
theorem C20_equals_iff_logical_partial (m : Module) (hwfm : moduleWF m = true) (sd : StructDef) (d : Nat)
    (hfr : reachOK m d sd = true) (hsc : scalarFields sd = true) (huniq : namesUnique sd)
    (ps : Option (List Val)) (sa sb : Storage)
    (hwa : viewWF { sd := sd, params := ps, st := sa } = true)
    (hwb : viewWF { sd := sd, params := ps, st := sb } = true) (n k : Nat)
    (hfuel : ∀ f ∈ sd.fields, need m (n + 1) sd [f.name] = true) :
    viewEquals (G m n) m (k + 1) { sd := sd, params := ps, st := sa } { sd := sd, params := ps, st := sb } = true ↔
      LogicallyEqual m { sd := sd, params := ps, st := sa } { sd := sd, params := ps, st := sb } := by
  have hm := closed_reach m
  have hP : ∃ d, reachOK m d sd = true := ⟨d, hfr⟩
  have hscf : ∀ f ∈ sd.fields, ∀ start size ty bo, f.kind = .phys start size ty bo →
      ∃ kk bits req, ty = .scalar kk bits req := by
    intro f hfm start size ty bo hk
    unfold scalarFields at hsc
    simp only [List.all_eq_true] at hsc
    have := hsc f hfm
    rw [hk] at this
    cases ty with
    | scalar kk bits req => exact ⟨kk, bits, req, rfl⟩
    | struct a b c => cases this
    | array a b => cases this
  simp only [viewEquals, Bool.and_eq_true, List.all_eq_true, LogicallyEqual]
  constructor
  · intro ⟨_, h⟩ f hfm hphys
    have hf := huniq f hfm
    have hfe := h f hfm
    cases hk : f.kind with
    | alias t => simp [isPhys, hk] at hphys
    | virt v r => simp [isPhys, hk] at hphys
    | phys start size ty bo =>
      obtain ⟨kk, bits, req, hty⟩ := hscf f hfm start size ty bo hk
      subst hty
      rw [fieldEquals_scalar m n ⟨sd, ps, sa⟩ ⟨sd, ps, sb⟩ rfl _ hf hk] at hfe
      cases hA : (G m (n + 1)).has { sd := sd, params := ps, st := sa } [f.name] with
      | none => rw [hA] at hfe; simp at hfe
      | some ha =>
        cases hB : (G m (n + 1)).has { sd := sd, params := ps, st := sb } [f.name] with
        | none => rw [hA, hB] at hfe; simp at hfe
        | some hb =>
          rw [hA, hB] at hfe
          simp only [Bool.and_eq_true, beq_iff_eq, Bool.or_eq_true, Bool.not_eq_true'] at hfe
          obtain ⟨hab, hval⟩ := hfe
          subst hab
          refine ⟨ha, (G_sound m hm (n + 1) _ hP hwa).2 _ _ hA, (G_sound m hm (n + 1) _ hP hwb).2 _ _ hB, ?_⟩
          intro hc
          subst hc
          rcases hval with hval | hval
          · cases hval
          · cases hRA : (G m (n + 1)).read { sd := sd, params := ps, st := sa } [f.name] with
            | none => rw [hRA] at hval; simp at hval
            | some x =>
              cases hRB : (G m (n + 1)).read { sd := sd, params := ps, st := sb } [f.name] with
              | none => rw [hRA, hRB] at hval; simp at hval
              | some y =>
                rw [hRA, hRB] at hval
                simp only [beq_iff_eq] at hval
                subst hval
                exact ⟨x, (G_sound m hm (n + 1) _ hP hwa).1 _ _ hRA,
                  (G_sound m hm (n + 1) _ hP hwb).1 _ _ hRB⟩
  · intro h
    refine ⟨by cases ps <;> simp, ?_⟩
    intro f hfm
    have hf := huniq f hfm
    cases hk : f.kind with
    | alias t => simp only [fieldEquals, hk]
    | virt v r => simp only [fieldEquals, hk]
    | phys start size ty bo =>
      obtain ⟨kk, bits, req, hty⟩ := hscf f hfm start size ty bo hk
      subst hty
      obtain ⟨c, fa, fb, hv⟩ := h f hfm (by simp [isPhys, hk])
      have hn := hfuel f hfm
      have hA := G_complete m hm hwfm (n + 1) _ _ fa hP hwa hn
      have hB := G_complete m hm hwfm (n + 1) _ _ fb hP hwb hn
      rw [fieldEquals_scalar m n ⟨sd, ps, sa⟩ ⟨sd, ps, sb⟩ rfl _ hf hk, hA, hB]
      cases c with
      | false => simp
      | true =>
        obtain ⟨v, va, vb⟩ := hv rfl
        have hRA := G_complete m hm hwfm (n + 1) _ _ va hP hwa hn
        have hRB := G_complete m hm hwfm (n + 1) _ _ vb hP hwb hn
        rw [hRA, hRB]
        simp

/-- non-vacuity: (i) C01's flat example (`n`, conditional `y` at offset `n + 1`, virtual `v`):
`01 00 fe` and `01 77 fe` are Equal — byte 1 is covered by no field — and `01 00 fd` is not;
(ii) the `bits` container `Bf` (`a` = bit 0, `b` = bits 1–3, `c` = bits 4–7) as a view over the
numbers 0xa5 / 0xa5 / 0xa4: equal / differing in the flag.  So by the theorem the first pairs are
logically equal in the reference's sense and the second are not. -/
example :
    viewEquals (G exNest 3) exNest 1
      (rootView exFlat [.int 7] [1, 0, 254]) (rootView exFlat [.int 7] [1, 119, 254]) = true ∧
    viewEquals (G exNest 3) exNest 1
      (rootView exFlat [.int 7] [1, 0, 254]) (rootView exFlat [.int 7] [1, 0, 253]) = false ∧
    (∀ f ∈ exFlat.fields, need exNest 4 exFlat [f.name] = true) ∧
    viewEquals (G exNest 3) exNest 1
      { sd := exBits, params := some [], st := .bits (some 165) 8 }
      { sd := exBits, params := some [], st := .bits (some 165) 8 } = true ∧
    viewEquals (G exNest 3) exNest 1
      { sd := exBits, params := some [], st := .bits (some 165) 8 }
      { sd := exBits, params := some [], st := .bits (some 164) 8 } = false ∧
    Emboss.ViewRef.scalarFields exBits = true ∧ Emboss.ViewRef.scalarFields exFlat = true ∧
    Emboss.ViewRef.viewWF { sd := exBits, params := some [], st := .bits (some 165) 8 } = true ∧
    (∀ f ∈ exBits.fields, need exNest 4 exBits [f.name] = true) := by
  decide

/-! ### … recursively through fields of structure / `bits` type

`LogEq m k` (Spec/ViewRef.lean) is C20's statement with the recursion spelled out: same
parameters, same presence of every physical field, equal values of present scalar fields, and for
a present field of structure / `bits` type the two views *R assigns to the field* (`SubViewR`:
inner definition, argument values, sub-window — the premises of R's rule `sub`) are logically
equal one level down.  The theorem holds for every family `P` of structures of the refinement fragment closed under
"type of a field", without array fields (`ModOK`: e.g. all structures of a module, or the ones
reachable from one structure; arrays: the generated `Equals` compares clamped element counts, which R
defines for complete arrays only — stays with the Python reference and the post-copy follow-ups),
every pair of views of a structure of the module, every fuel `k` (= nesting depth explored, the
same on both sides; `k = 0` is "out of fuel" = `false` on both). -/

open Emboss.ViewRef in
theorem C20_equals_iff_logical_nested_partial (m : Module) (n : Nat) (P : StructDef → Prop)
    (h : ModOK m n P) (k : Nat) (wa wb : SView) (hP : P wa.sd) (hsd : wb.sd = wa.sd)
    (hwa : viewWF wa = true) (hwb : viewWF wb = true) :
    viewEquals (G m n) m k wa wb = true ↔ LogEq m k wa wb :=
  viewEquals_iff_logEq m n h k wa wb hP hsd hwa hwb

/-- `struct Out2: 0 [+1] UInt n / if n > 0: n [+2] In(n) in / let v = in.s` (C01's nested example
without its array) -/
def exOuter2 : StructDef :=
  { exOuter with name := "Out2", fields := exOuter.fields.take 3 }

def exNest2 : Module := { structs := [exOuter2, exInner, exBits] }

open Emboss.ViewRef in
theorem exNest2_ok : ModOK exNest2 6 (fun sd => sd ∈ exNest2.structs) where
  closed := closed_of_refModule (by decide) (by decide)
  wf := by decide
  noarr := by
    intro sd hsd
    simp only [exNest2, List.mem_cons, List.not_mem_nil, or_false] at hsd
    rcases hsd with rfl | rfl | rfl <;> decide
  fuel := by
    intro sd hsd
    simp only [exNest2, List.mem_cons, List.not_mem_nil, or_false] at hsd
    rcases hsd with rfl | rfl | rfl <;> decide
  uniq := by
    intro sd hsd
    simp only [exNest2, List.mem_cons, List.not_mem_nil, or_false] at hsd
    rcases hsd with rfl | rfl | rfl <;> intro f hf
    · simp only [exOuter2, exOuter, List.take, List.mem_cons, List.not_mem_nil, or_false] at hf
      rcases hf with rfl | rfl | rfl <;> rfl
    · simp only [exInner, List.mem_cons, List.not_mem_nil, or_false] at hf
      rcases hf with rfl | rfl | rfl | rfl | rfl | rfl <;> rfl
    · simp only [exBits, List.mem_cons, List.not_mem_nil, or_false] at hf
      rcases hf with rfl | rfl | rfl <;> rfl

/-- non-vacuity: `02 ff 07 a5` vs `02 00 07 a5` (byte 1 is covered by no field: equal, through the
nested `In(2)` and its `bits` container) vs `02 ff 07 a4` (the flag inside the container inside
the nested structure differs: not equal); hence, by the theorem, `LogEq` holds / fails. -/
example :
    viewEquals (G exNest2 6) exNest2 3 (rootView exOuter2 [] [2, 255, 7, 165])
      (rootView exOuter2 [] [2, 0, 7, 165]) = true ∧
    viewEquals (G exNest2 6) exNest2 3 (rootView exOuter2 [] [2, 255, 7, 165])
      (rootView exOuter2 [] [2, 255, 7, 164]) = false := by
  decide

open Emboss.ViewRef in
example : LogEq exNest2 3 (rootView exOuter2 [] [2, 255, 7, 165]) (rootView exOuter2 [] [2, 0, 7, 165]) ∧
    ¬ LogEq exNest2 3 (rootView exOuter2 [] [2, 255, 7, 165]) (rootView exOuter2 [] [2, 255, 7, 164]) := by
  have hmem : ∀ d, (rootView exOuter2 [] d).sd ∈ exNest2.structs := fun _ => List.mem_cons_self
  constructor
  · exact (C20_equals_iff_logical_nested_partial exNest2 6 _ exNest2_ok 3
      (rootView exOuter2 [] [2, 255, 7, 165]) (rootView exOuter2 [] [2, 0, 7, 165])
      (hmem _) rfl (by decide) (by decide)).mp (by decide)
  · intro hc
    have := (C20_equals_iff_logical_nested_partial exNest2 6 _ exNest2_ok 3
      (rootView exOuter2 [] [2, 255, 7, 165]) (rootView exOuter2 [] [2, 255, 7, 164])
      (hmem _) rfl (by decide) (by decide)).mpr hc
    revert this
    decide

/-! ### reflexivity of Equals on Ok views

`C20_copy_dest_equals_src_partial` reduces "after a copy the destination Equals the source" to
`src.Equals(src)`.  Proved for every view whose own physical fields are scalars (byte structure
or `bits` container): an Ok view Equals itself (every presence is known and every present field is
readable, which is what the per-field clauses of the generated `Equals` need).  For structures
with fields of structure type / arrays it is still checked on the real code only (post-copy
follow-up commands of harness/corr/C20.py). -/

open Emboss.ViewRef in
theorem C20_equals_reflexive_partial (m : Module) (hm : moduleWF m = true) (w : SView)
    (hsd : structWF m w.sd = true) (hsc : scalarFields w.sd = true) (huniq : namesUnique w.sd)
    (n k : Nat) (hok : (G m (n + 1)).okAt w [] = true) :
    viewEquals (G m (n + 1)) m (k + 1) w w = true := by
  simp only [viewEquals, Bool.and_eq_true, List.all_eq_true]
  refine ⟨by cases w.params <;> simp, ?_⟩
  intro f hfm
  have hf := huniq f hfm
  -- what Ok() of the view says about this field
  simp only [G, step, Bool.and_eq_true, List.all_eq_true] at hok
  have hfield := hok.1.2 f hfm
  cases hk : f.kind with
  | alias t => simp only [fieldEquals, hk]
  | virt v r => simp only [fieldEquals, hk]
  | phys start size ty bo =>
    have hty : ∃ kk bits req, ty = .scalar kk bits req := by
      unfold scalarFields at hsc
      simp only [List.all_eq_true] at hsc
      have := hsc f hfm
      rw [hk] at this
      cases ty with
      | scalar kk bits req => exact ⟨kk, bits, req, rfl⟩
      | struct a b c => cases this
      | array a b => cases this
    obtain ⟨kk, bits, req, hty⟩ := hty
    subst hty
    cases n with
    | zero => simp [G, Oracle.bottom] at hfield
    | succ n' =>
      have up2r : ∀ v, (G m (n' + 1)).read w [f.name] = some v →
          (G m (n' + 3)).read w [f.name] = some v := fun v h =>
        (C01_fuel_monotone m hm _ hsd (n' + 2)).1 _ _ ((C01_fuel_monotone m hm _ hsd (n' + 1)).1 _ _ h)
      have up2h : ∀ c, (G m (n' + 1)).has w [f.name] = some c →
          (G m (n' + 3)).has w [f.name] = some c := fun c h =>
        (C01_fuel_monotone m hm _ hsd (n' + 2)).2 _ _ ((C01_fuel_monotone m hm _ hsd (n' + 1)).2 _ _ h)
      rw [fieldEquals_scalar m (n' + 2) w w rfl _ hf hk]
      cases hh : (G m (n' + 1)).has w [f.name] with
      | none => rw [hh] at hfield; cases hfield
      | some c =>
        rw [up2h c hh]
        cases c with
        | false => simp
        | true =>
          rw [hh] at hfield
          simp only at hfield
          -- `(G (n'+1)).okAt w [f.name]`: the leaf is readable
          simp only [G, step, hf, hk] at hfield
          have hrd : (G m (n' + 1)).read w [f.name] = _ := step_read_scalar m (G m n') w hf hk
          cases hst : physStorage (G m n') w f start size with
          | none => rw [hst] at hfield; simp at hfield
          | some st =>
            rw [hst] at hfield hrd
            simp only [argsKnown, typeOk, Bool.true_and] at hfield
            cases hl : leafRead (G m n') w kk bits req (st.adaptFor w.sd.unit 1 bo bits) with
            | none => rw [hl] at hfield; simp at hfield
            | some v =>
              simp only at hrd
              rw [hl] at hrd
              rw [show n' + 2 + 1 = n' + 3 from rfl, up2r v hrd]
              simp

/-- non-vacuity: the flat example over `01 00 fe` is Ok and Equals itself; so is the `bits`
container `Bf` over the number 0xa5. -/
example :
    (G exNest 4).okAt (rootView exFlat [.int 7] [1, 0, 254]) [] = true ∧
    viewEquals (G exNest 4) exNest 1
      (rootView exFlat [.int 7] [1, 0, 254]) (rootView exFlat [.int 7] [1, 0, 254]) = true ∧
    moduleWF exNest = true ∧ structWF exNest exFlat = true ∧ structWF exNest exBits = true := by
  decide

end Emboss.View
