/-
C19 — Enum names, values and C++ representation match the definition.

Property theorems only.  Model: Emboss/Model/Enum.lean (+ CppInt.lean); spec:
Emboss/Spec/Enum.lean; lemmas: Emboss/Lemmas/Enum*.lean, CppInt.lean.

Reading guide: `d : Def` is the enum as the front end leaves it, `g : Gen` is everything
`_generate_enum_definition` emits (`generate d = some g`), `g.enumerators` the `NAME = value`
lines; `g.cppFromName es`, `g.cppToName es`, `g.cppIsKnown es` are the meanings of the three
generated functions given the C++ enumerator table `es`.
-/
import Emboss.Lemmas.EnumSpec
import Emboss.Lemmas.EnumDistinct
namespace Emboss.Enum
open Emboss.CppInt

/-- **Underlying type and enumerator values.**  For an accepted enum the C++ underlying type
has the declared signedness (or, when `is_signed` is not given, is signed iff some value is
negative), is at least `maximum_bits` (default 64) wide and at most 64; there is one
enumerator per declared value per requested spelling, in order; and the C++ value of every
enumerator — the rendered literal converted to the underlying type — is exactly the declared
value (no narrowing, so the enumerator list is well-formed). -/
theorem C19_underlying_type (d : Def) (g : Gen) (hacc : d.frontAccepts = true)
    (hgen : generate d = some g) :
    g.ty.signed = d.isSigned ∧
    (d.signedAttr = none → (d.isSigned = true ↔ ∃ v ∈ d.values, v.value < 0)) ∧
    (d.maxBitsAttr = none → d.maxBits = 64) ∧
    d.maxBits ≤ g.ty.bits ∧ g.ty.bits ≤ 64 ∧
    g.enumerators = d.values.flatMap (fun v => (namesOf d v).map (fun x => (x, v.value))) ∧
    (∀ v ∈ d.values, namesOf d v ≠ []) ∧
    g.cppEnumerators = some g.enumerators := by
  obtain ⟨hty, hne, he, _, _, _⟩ := generate_spec d g hgen
  obtain ⟨hs, hb, hw⟩ := cppTypeForEnum_spec _ _ _ hty
  simp only [Def.frontAccepts, Def.widthOk, Def.representable, Bool.and_eq_true, decide_eq_true_eq,
    List.all_eq_true] at hacc
  refine ⟨hs, ?_, ?_, hb, by omega, he, hne, ?_⟩
  · intro hn
    simp only [Def.isSigned, hn, List.any_eq_true, decide_eq_true_eq]
  · intro hn; simp [Def.maxBits, hn]
  · unfold Gen.cppEnumerators
    apply mapM_enumeratorValue
    intro p hp
    rw [he] at hp
    obtain ⟨v, hv, hp'⟩ := List.mem_flatMap.mp hp
    obtain ⟨x, _, rfl⟩ := List.mem_map.mp hp'
    apply enumeratorValue_exact _ _ (by omega) (by omega)
    apply holds_of_inRange d.isSigned d.maxBits.toNat g.ty v.value hs (by omega) (by omega)
    exact hacc.2 v hv

/-- Non-vacuity: a signed 8-bit enum with two spellings of one value and a duplicate value. -/
def exDef : Def :=
  { name := "Foo".toList, maxBitsAttr := some 8,
    levels := [[⟨"cpp".toList, true, "kCamelCase, SHOUTY_CASE".toList⟩]],
    values := [{ name := "AB_C".toList, value := 1 }, { name := "BC".toList, value := 1 },
               { name := "CD".toList, value := -128,
                 attrs := [⟨"cpp".toList, false, "SHOUTY_CASE".toList⟩] }] }

def exGen : Gen :=
  { ty := ⟨true, 8⟩,
    enumerators := [("kAbC".toList, 1), ("AB_C".toList, 1), ("kBc".toList, 1), ("BC".toList, 1),
                    ("CD".toList, -128)],
    fromName := [("AB_C".toList, "kAbC".toList), ("AB_C".toList, "AB_C".toList),
                 ("BC".toList, "kBc".toList), ("BC".toList, "BC".toList), ("CD".toList, "CD".toList)],
    toName := [("kAbC".toList, "AB_C".toList), ("CD".toList, "CD".toList)],
    known := ["kAbC".toList, "CD".toList] }

example : exDef.frontAccepts = true ∧ (generate exDef).map (·.enumerators) = some exGen.enumerators ∧
    (generate exDef).map (·.toName) = some exGen.toName ∧
    (generate exDef).map (·.fromName) = some exGen.fromName ∧
    (generate exDef).map (·.ty) = some ⟨true, 8⟩ := by decide

/-- **`TryToGetEnumFromName`.**  For an enum the back end accepts (so that the enumerator
identifiers are pairwise distinct, `C19_enumerators_distinct`) the function
returns the value of the first declared value named `n`, and fails for `nullptr`.  When the
declared names are distinct (the front end rejects duplicates) this says: `fromName n = some v`
iff `n` is a declared Emboss name with value `v` — nothing else maps, in particular not the
`kCamelCase` spellings. -/
theorem C19_from_name (d : Def) (g : Gen) (hgen : generate d = some g)
    (hacc : d.backAccepts = true) (hnames : (d.values.map (·.name)).Nodup) :
    g.cppFromName g.enumerators none = none ∧
    (∀ n v, g.cppFromName g.enumerators (some n) = some v ↔ Spec.Declares d.declared n v) ∧
    (∀ n, (∀ v, ¬ Spec.Declares d.declared n v) → g.cppFromName g.enumerators (some n) = none) := by
  have hd := enumerators_nodup_of_accepts d g hgen hacc
  obtain ⟨_, hne, he, hf, _, _⟩ := generate_spec d g hgen
  have hr : Resolves g.enumerators (namesOf d) d.values := by
    rw [he]; rw [he] at hd; exact resolves_of_nodup _ _ hd
  have key : ∀ n, g.cppFromName g.enumerators (some n) =
      (d.values.find? (fun v => v.name == n)).map (·.value) := by
    intro n
    have := fromOf_find g.enumerators (namesOf d) d.values hne hr n
    rw [← hf] at this
    rw [← this]
    simp only [Gen.cppFromName]
    cases g.fromName.find? (fun p => p.1 == n) <;> rfl
  have iff : ∀ n v, g.cppFromName g.enumerators (some n) = some v ↔ Spec.Declares d.declared n v := by
    intro n v
    rw [key n]
    exact find_name_iff d.values hnames n v
  refine ⟨rfl, iff, ?_⟩
  intro n hn
  cases h : g.cppFromName g.enumerators (some n) with
  | none => rfl
  | some v => exact absurd ((iff n v).mp h) (hn v)

/-- **`TryToGetNameFromEnum`** returns the first declared name having the value, and `nullptr`
exactly for undeclared values. -/
theorem C19_to_name_first (d : Def) (g : Gen) (hgen : generate d = some g)
    (hacc : d.backAccepts = true) (x : Int) :
    (∀ n, g.cppToName g.enumerators x = some n ↔ Spec.FirstNameOf d.declared x n) ∧
    (g.cppToName g.enumerators x = none ↔ ¬ Spec.Known d.declared x) := by
  have hd := enumerators_nodup_of_accepts d g hgen hacc
  obtain ⟨_, hne, he, _, ht, _⟩ := generate_spec d g hgen
  have hr : Resolves g.enumerators (namesOf d) d.values := by
    rw [he]; rw [he] at hd; exact resolves_of_nodup _ _ hd
  have key : g.cppToName g.enumerators x = (d.values.find? (fun v => v.value == x)).map (·.name) := by
    have := toOf_find g.enumerators (namesOf d) d.values hne hr x []
    rw [← ht] at this
    simpa [Gen.cppToName] using this
  constructor
  · intro n
    rw [key]
    exact first_iff d.values x n
  · rw [key]
    simp only [Option.map_eq_none_iff, List.find?_eq_none, Spec.Known, Def.declared]
    constructor
    · rintro h ⟨n, hm⟩
      obtain ⟨v, hv, he'⟩ := List.mem_map.mp hm
      simp only [Prod.mk.injEq] at he'
      have := h v hv
      simp [he'.2] at this
    · intro h v hv hvx
      apply h
      simp only [beq_iff_eq] at hvx
      exact ⟨v.name, List.mem_map.mpr ⟨v, hv, by simp [hvx]⟩⟩

/-- **`EnumIsKnown`** is true exactly for declared values. -/
theorem C19_is_known_iff_declared (d : Def) (g : Gen) (hgen : generate d = some g)
    (hacc : d.backAccepts = true) (x : Int) :
    g.cppIsKnown g.enumerators x = true ↔ Spec.Known d.declared x := by
  have hd := enumerators_nodup_of_accepts d g hgen hacc
  obtain ⟨_, hne, he, _, _, hk⟩ := generate_spec d g hgen
  have hr : Resolves g.enumerators (namesOf d) d.values := by
    rw [he]; rw [he] at hd; exact resolves_of_nodup _ _ hd
  obtain ⟨ws, h1, _, _, h4⟩ := toOf_labels g.enumerators (namesOf d) d.values hne hr []
  have hx : x ∈ ws ↔ Spec.Known d.declared x := by
    rw [h4 x]
    simp only [List.not_mem_nil, not_false_eq_true, true_and, Spec.Known, Def.declared]
    constructor
    · rintro ⟨v, hv, rfl⟩; exact ⟨v.name, List.mem_map.mpr ⟨v, hv, rfl⟩⟩
    · rintro ⟨n, hm⟩
      obtain ⟨v, hv, he'⟩ := List.mem_map.mp hm
      simp only [Prod.mk.injEq] at he'
      exact ⟨v, hv, he'.2⟩
  rw [← hx]
  simp only [Gen.cppIsKnown, hk, List.any_map, List.any_eq_true, Function.comp, beq_iff_eq]
  constructor
  · rintro ⟨p, hp, hl⟩
    have : some x ∈ ws.map some := by
      rw [← h1]; exact List.mem_map.mpr ⟨p, hp, hl⟩
    obtain ⟨w, hw, hwe⟩ := List.mem_map.mp this
    cases hwe; exact hw
  · intro hw
    have : some x ∈ (toOf (namesOf d) [] d.values).map (fun p => lookup g.enumerators p.1) := by
      rw [h1]; exact List.mem_map.mpr ⟨x, hw, rfl⟩
    obtain ⟨p, hp, hl⟩ := List.mem_map.mp this
    exact ⟨p, hp, hl⟩

/-- **No duplicate `case` labels** in the two generated `switch`es (needed for the header to
compile): every label resolves to an enumerator, and the label values are pairwise distinct.
Rests on the `previously_seen_numeric_values` logic. -/
theorem C19_switch_labels_distinct (d : Def) (g : Gen) (hgen : generate d = some g)
    (hacc : d.backAccepts = true) :
    (g.labelValues g.enumerators).Nodup ∧ (∀ o ∈ g.labelValues g.enumerators, o.isSome = true) ∧
    g.known = g.toName.map (·.1) := by
  have hd := enumerators_nodup_of_accepts d g hgen hacc
  obtain ⟨_, hne, he, _, ht, hk⟩ := generate_spec d g hgen
  have hr : Resolves g.enumerators (namesOf d) d.values := by
    rw [he]; rw [he] at hd; exact resolves_of_nodup _ _ hd
  obtain ⟨ws, h1, h2, _, _⟩ := toOf_labels g.enumerators (namesOf d) d.values hne hr []
  have hl : g.labelValues g.enumerators = ws.map some := by
    simp only [Gen.labelValues, ht]; exact h1
  refine ⟨?_, ?_, by rw [hk, ht]⟩
  · rw [hl]
    exact List.pairwise_map.mpr (List.Pairwise.imp (fun h he => h (Option.some.inj he)) h2)
  · rw [hl]
    intro o ho
    obtain ⟨w, _, rfl⟩ := List.mem_map.mp ho
    rfl

/-- Non-vacuity for the four theorems above: `exDef` generates `exGen`, its enumerators are
distinct, names are distinct; lookups behave as stated (tests by evaluation). -/
example : (generate exDef).map (·.known) = some exGen.known ∧ (exGen.enumerators.map (·.1)).Nodup ∧
    (exDef.values.map (·.name)).Nodup ∧
    exGen.cppFromName exGen.enumerators (some "BC".toList) = some 1 ∧
    exGen.cppFromName exGen.enumerators (some "kBc".toList) = none ∧
    exGen.cppToName exGen.enumerators 1 = some "AB_C".toList ∧
    exGen.cppToName exGen.enumerators 2 = none ∧
    exGen.cppIsKnown exGen.enumerators (-128) = true ∧ exDef.backAccepts = true := by decide

/-- **Enumerator identifiers are pairwise distinct** for every enum the back end accepts (so
the `enum class` body is well-formed).  Since `fix: dca9b37` the back end rejects an enum two of
whose values would get the same C++ name ("Enum values 'A_1B' and 'A1B' would both be named
'kA1b' in the generated C++ code."); the check is exact: it passes iff the identifiers are
pairwise distinct. -/
theorem C19_enumerators_distinct (d : Def) (g : Gen) (hgen : generate d = some g) :
    (d.backAccepts = true → (g.enumerators.map (·.1)).Nodup) ∧
    (d.namesDistinct = true ↔ (g.enumerators.map (·.1)).Nodup) :=
  ⟨enumerators_nodup_of_accepts d g hgen, namesDistinct_iff d g hgen⟩

/-- **The check rejects nothing but genuine case-conversion collisions**: an enum whose declared
names are distinct SHOUTY names (the front end guarantees both), whose `enum_case` attributes
are verified, and whose names stay pairwise distinct after `snake_to_camel` passes it. -/
theorem C19_rejects_only_camel_collisions (d : Def) (g : Gen) (hgen : generate d = some g)
    (hnames : (d.values.map (·.name)).Nodup)
    (hshape : ∀ v ∈ d.values, ∃ c cs, v.name = c :: cs ∧ c ≠ 'k')
    (hver : d.attrsVerified = true)
    (hcamel : d.values.Pairwise (fun a b => snakeToCamel a.name ≠ snakeToCamel b.name)) :
    d.backAccepts = true := by
  simp only [Def.backAccepts, hver, Bool.true_and]
  rw [namesDistinct_iff d g hgen]
  obtain ⟨_, _, he, _, _, _⟩ := generate_spec d g hgen
  rw [he]
  exact enumerator_names_nodup d hnames hshape
    (fun v hv => spellings_nodup d v (hshape v hv) (fun t ht => effective_verified d hver v hv t ht)) hcamel

/-- The former counterexample (finding `enum-value-names-equal-after-camel-conversion`, now
fixed): `A_1B` and `A1B` are distinct SHOUTY names, the attribute is valid, the front end
accepts — and the back end now rejects, because both would be `kA1b`.  Pinned in
`corpus/C19/camel_collision_must_be_rejected.emb`; reverting the fix makes the module accepted
with a header g++ refuses. -/
def exCollide : Def :=
  { name := "Foo".toList, levels := [[⟨"cpp".toList, true, "kCamelCase".toList⟩]],
    values := [{ name := "A_1B".toList, value := 1 }, { name := "A1B".toList, value := 2 }] }

theorem C19_collision_rejected :
    exCollide.frontAccepts = true ∧ (exCollide.values.map (·.name)).Nodup ∧
    exCollide.attrsVerified = true ∧
    (generate exCollide).map (fun g => g.enumerators.map (·.1)) =
      some ["kA1b".toList, "kA1b".toList] ∧
    exCollide.backAccepts = false := by decide

/-- Non-vacuity: `exDef` is accepted by the back end and meets every hypothesis of
`C19_rejects_only_camel_collisions`. -/
example : exDef.backAccepts = true ∧ (exDef.values.map (·.name)).Nodup ∧
    (exDef.values.all (fun v => match v.name with | c :: _ => c != 'k' | [] => false)) = true ∧
    exDef.attrsVerified = true ∧
    exDef.values.Pairwise (fun a b => snakeToCamel a.name ≠ snakeToCamel b.name) := by decide

/-- **`operator<<`** streams the first declared name of a declared value and the decimal
number of any other value — whatever the underlying type (since `fix: 43666cd` the value is
promoted with unary `+`, so 8-bit enums are no longer streamed as characters). -/
theorem C19_ostream (d : Def) (g : Gen) (hgen : generate d = some g) (hacc : d.backAccepts = true)
    (x : Int) :
    (∀ n, Spec.FirstNameOf d.declared x n → g.cppShow g.enumerators x = .name n) ∧
    (¬ Spec.Known d.declared x → g.cppShow g.enumerators x = .number x) := by
  obtain ⟨h1, h2⟩ := C19_to_name_first d g hgen hacc x
  constructor
  · intro n hn
    simp [Gen.cppShow, (h1 n).mpr hn]
  · intro hk
    simp [Gen.cppShow, h2.mpr hk]

example : exGen.cppShow exGen.enumerators 1 = .name "AB_C".toList ∧
    exGen.cppShow exGen.enumerators 65 = .number 65 := by decide

/-- **`$default` precedence** (doc/language-reference.md: "a `$default` enum case can be set on
a module, struct, bits, or enum and applies to all enum values within"): an attribute on the
value wins; otherwise the innermost enclosing `$default`; otherwise SHOUTY_CASE only. -/
theorem C19_enum_case_precedence (outer : List (List Attr)) (inner : List Attr)
    (t : List Char) (n : Name) :
    effectiveCase [⟨['c', 'p', 'p'], false, t⟩] (defaultsOf (outer ++ [inner])) = .cases t ∧
    defaultsOf (outer ++ [[⟨['c', 'p', 'p'], true, t⟩]]) = some t ∧
    defaultsOf (outer ++ [[]]) = defaultsOf outer ∧
    enumeratorNames n (effectiveCase [] none) = some [n] := by
  refine ⟨by simp [effectiveCase, Attr.isCpp], ?_, ?_, by simp [effectiveCase, enumeratorNames]⟩
  · simp [defaultsOf, gatherDefault, List.foldl_append, Attr.isCpp]
  · simp [defaultsOf, gatherDefault, List.foldl_append]

/-- **Attributes addressed to another back end do not count** (`[(rust) enum_case: …]`): they
change neither the effective case of a value nor the `$default` in force. -/
theorem C19_enum_case_other_back_end_ignored (levels : List (List Attr)) (lvl : List Attr)
    (b : List Char) (d : Bool) (t : List Char) (attrs : List Attr) (dflt : Option (List Char))
    (hb : b ≠ ['c', 'p', 'p']) :
    effectiveCase (⟨b, d, t⟩ :: attrs) dflt = effectiveCase attrs dflt ∧
    defaultsOf (levels ++ [⟨b, d, t⟩ :: lvl]) = defaultsOf (levels ++ [lvl]) := by
  have hc : (⟨b, d, t⟩ : Attr).isCpp = false := by
    simp only [Attr.isCpp, beq_eq_false_iff_ne, ne_eq]; exact hb
  constructor
  · simp [effectiveCase, List.filter_cons, hc]
  · simp [defaultsOf, gatherDefault, List.foldl_append, List.foldl_cons, hc]

example : defaultsOf [[⟨"cpp".toList, true, "kCamelCase".toList⟩], [],
    [⟨"cpp".toList, true, "SHOUTY_CASE".toList⟩]] = some "SHOUTY_CASE".toList := by decide

/-
Full statement (false on the real code):

  theorem C19_field_accepts_in_range (ty : IntTy) (bvt w : Nat) (v : Int) … :
      viewCouldWrite ty bvt w v = true ↔ Spec.FieldRange ty.signed w v
      ∧ viewRead ty raw = Spec.FieldValue ty.signed w raw

Proved fragments: unsigned enums (any field width), and signed enums whose field is as wide as
the underlying type (in any container, since `fix: f572d62`).  Missing: signed enums in a field
*narrower* than the underlying type; for them the statement is false (counterexample below,
finding `signed-enum-in-field-narrower-than-underlying-type`, still open: the repair was
rejected because `runtime/cpp/test/emboss_enum_view_test.cc:156` pins the zero-extension). -/
/-- **Enum fields accept any in-range value, named or not** — partial: unsigned enums.
`w` = field width, `bvt` = width of the unsigned integer the field's bits are read into
(`BitViewType::ValueType`), `ty` = the enum's underlying type. -/
theorem C19_field_accepts_in_range_partial (ty : IntTy) (bvt w : Nat) (v : Int) (raw : Nat)
    (hu : ty.signed = false) (hw1 : 1 ≤ w) (hwb : w ≤ bvt) (hwt : w ≤ ty.bits)
    (hv : ty.holds v = true) (hraw : (raw : Int) < pow2 w) :
    (viewCouldWrite ty bvt w v = true ↔ Spec.FieldRange false w v) ∧
    viewRead ty raw = Spec.FieldValue false w raw ∧
    (Spec.FieldRange false w v → (viewWriteBits ty bvt w v : Int) = v) := by
  have pw := pow2_pos w
  have pb := pow2_pos bvt
  have mwb : pow2 w ≤ pow2 bvt := pow2_mono hwb
  have mwt : pow2 w ≤ pow2 ty.bits := pow2_mono hwt
  have hv' : 0 ≤ v ∧ v ≤ pow2 ty.bits - 1 := by
    simpa [IntTy.holds, IntTy.minVal, IntTy.maxVal, hu] using hv
  have hU : wrap ⟨false, ty.bits⟩ v = v := by
    simp only [wrap, Bool.false_and, Bool.false_eq_true, if_false]
    exact Int.emod_eq_of_lt hv'.1 (by omega)
  have hwrapB : toBitViewValue ty bvt v = v % pow2 bvt := by
    unfold toBitViewValue
    rw [hU]
    simp [wrap]
  have hwrapT : ∀ x, wrap ty x = x % pow2 ty.bits := by intro x; simp [wrap, hu]
  have hmod_nonneg := Int.emod_nonneg v (Int.ne_of_gt pb)
  have hmod_lt := Int.emod_lt_of_pos v pb
  refine ⟨?_, ?_, ?_⟩
  · simp only [viewCouldWrite, hwrapB, hwrapT, Spec.FieldRange, Bool.false_eq_true, if_false,
      Bool.and_eq_true, Bool.or_eq_true, decide_eq_true_eq]
    show _ ↔ 0 ≤ v ∧ v < pow2 w
    constructor
    · rintro ⟨h1, h2⟩
      have pt := pow2_pos ty.bits
      have hlt : v % pow2 bvt % pow2 ty.bits ≤ v % pow2 bvt := by
        by_cases hc : v % pow2 bvt < pow2 ty.bits
        · rw [Int.emod_eq_of_lt hmod_nonneg hc]; exact Int.le_refl _
        · have := Int.emod_lt_of_pos (v % pow2 bvt) pt
          omega
      have hvb : v < pow2 bvt := by omega
      have : v % pow2 bvt = v := Int.emod_eq_of_lt hv'.1 hvb
      rcases h2 with h2 | h2
      · subst h2; exact ⟨hv'.1, hvb⟩
      · omega
    · rintro ⟨h0, hlt⟩
      have e1 : v % pow2 bvt = v := Int.emod_eq_of_lt h0 (by omega)
      have e2 : v % pow2 ty.bits = v := Int.emod_eq_of_lt h0 (by omega)
      rw [e1, e2]
      exact ⟨rfl, Or.inr hlt⟩
  · simp only [viewRead, hwrapT, Spec.FieldValue, Bool.false_eq_true, false_and, if_false]
    exact Int.emod_eq_of_lt (by omega) (by omega)
  · simp only [Spec.FieldRange, Bool.false_eq_true, if_false]
    show 0 ≤ v ∧ v < pow2 w → _
    rintro ⟨h0, hlt⟩
    have e1 : v % pow2 bvt = v := Int.emod_eq_of_lt h0 (by omega)
    have e2 : v % pow2 w = v := Int.emod_eq_of_lt h0 hlt
    simp only [viewWriteBits, hwrapB, e1, e2]
    omega

/-- Non-vacuity: a 3-bit field of a `uint8_t` enum inside an 8-bit `bits`. -/
example : (⟨false, 8⟩ : IntTy).holds 5 = true ∧ viewCouldWrite ⟨false, 8⟩ 8 3 5 = true ∧
    viewCouldWrite ⟨false, 8⟩ 8 3 8 = false ∧ viewRead ⟨false, 8⟩ 7 = 7 := by decide

/-- Second proved fragment of the field clause: a signed enum whose field is as wide as its
underlying type — in a container (`BitViewType::ValueType`, `bvt` bits) of the same width (an
`int8_t` enum in a one-byte `struct` field) *or wider* (an 8-bit field of a 16-bit `bits`;
since `fix: f572d62`) — accepts exactly the values of its type, stores their two's-complement
bits in the field and nothing above it, and reads two's complement. -/
theorem C19_field_signed_full_width_partial (ty : IntTy) (bvt : Nat) (v : Int) (raw : Nat)
    (hs : ty.signed = true) (hb : 0 < ty.bits) (hbv : ty.bits ≤ bvt) (hv : ty.holds v = true)
    (hraw : (raw : Int) < pow2 ty.bits) :
    viewCouldWrite ty bvt ty.bits v = true ∧ Spec.FieldRange true ty.bits v ∧
    (viewWriteBits ty bvt ty.bits v : Int) = v % pow2 ty.bits ∧
    viewRead ty raw = Spec.FieldValue true ty.bits raw := by
  have hp := pow2_pos ty.bits
  have mb : pow2 ty.bits ≤ pow2 bvt := pow2_mono hbv
  have hh : pow2 ty.bits = 2 * pow2 (ty.bits - 1) := by
    have : ty.bits = (ty.bits - 1) + 1 := by omega
    rw [this, pow2_succ]; simp
  have hv' : -(pow2 (ty.bits - 1)) ≤ v ∧ v ≤ pow2 (ty.bits - 1) - 1 := by
    simpa [IntTy.holds, IntTy.minVal, IntTy.maxVal, hs] using hv
  have hm0 := Int.emod_nonneg v (Int.ne_of_gt hp)
  have hm1 := Int.emod_lt_of_pos v hp
  have hB : toBitViewValue ty bvt v = v % pow2 ty.bits := by
    simp only [toBitViewValue, wrap, Bool.false_and, Bool.false_eq_true, if_false]
    exact Int.emod_eq_of_lt hm0 (by omega)
  refine ⟨?_, ?_, ?_, ?_⟩
  · simp only [viewCouldWrite, hB, Bool.and_eq_true, Bool.or_eq_true, decide_eq_true_eq]
    refine ⟨?_, Or.inr hm1⟩
    by_cases h0 : 0 ≤ v
    · rw [Int.emod_eq_of_lt h0 (by omega)]
      exact (wrap_of_holds ty v hb hv).symm
    · have e1 : (v + pow2 ty.bits) % pow2 ty.bits = v + pow2 ty.bits :=
        Int.emod_eq_of_lt (by omega) (by omega)
      have e2 : v % pow2 ty.bits = v + pow2 ty.bits := by rw [← e1, Int.add_emod_right]
      rw [e2]
      simp only [wrap, hs, Bool.true_and, decide_eq_true_eq, e1]
      have : v + pow2 ty.bits ≥ pow2 (ty.bits - 1) := by omega
      simp only [this, if_true]
      omega
  · simp only [Spec.FieldRange, if_true]
    show -(pow2 (ty.bits - 1)) ≤ v ∧ v < pow2 (ty.bits - 1)
    omega
  · simp only [viewWriteBits, hB]
    rw [Int.emod_emod_of_dvd _ (Int.dvd_refl _)]
    omega
  · simp only [viewRead, wrap, hs, Bool.true_and, decide_eq_true_eq, Spec.FieldValue, true_and]
    have e : (raw : Int) % pow2 ty.bits = raw := Int.emod_eq_of_lt (by omega) hraw
    rw [e]
    show _ = if (raw : Int) ≥ pow2 (ty.bits - 1) then (raw : Int) - pow2 ty.bits else (raw : Int)
    rfl

example : (⟨true, 8⟩ : IntTy).holds (-1) = true ∧ viewCouldWrite ⟨true, 8⟩ 8 8 (-1) = true ∧
    viewCouldWrite ⟨true, 8⟩ 16 8 (-1) = true ∧ viewWriteBits ⟨true, 8⟩ 16 8 (-1) = 255 ∧
    viewRead ⟨true, 8⟩ 255 = -1 := by decide

/-- **Enum fields accept any in-range value through the text format too** (`UpdateFromText`
with the decimal number — which is what `WriteToString` emits for an unnamed value): for an
unsigned enum every value of the field's range, up to `2^64 - 1`, is accepted and stored
exactly; for a signed enum in a full-width field every value of the type, down to `-2^63`. -/
theorem C19_field_text_number_partial (ty : IntTy) (bvt w : Nat) (v : Int)
    (hb0 : 0 < ty.bits) (hb64 : ty.bits ≤ 64) (hv : ty.holds v = true) :
    (ty.signed = false → 1 ≤ w → w ≤ bvt → w ≤ ty.bits → Spec.FieldRange false w v →
      viewReadTextNumber ty bvt w v = some v.toNat) ∧
    (ty.signed = true → ty.bits ≤ bvt →
      viewReadTextNumber ty bvt ty.bits v = some (v % pow2 ty.bits).toNat) := by
  have hwrap : wrap ty v = v := wrap_of_holds ty v hb0 hv
  have m64 : pow2 ty.bits ≤ pow2 64 := pow2_mono hb64
  have m63 : pow2 (ty.bits - 1) ≤ pow2 63 := pow2_mono (by omega)
  have p1 := pow2_pos (ty.bits - 1)
  have hh : pow2 ty.bits = 2 * pow2 (ty.bits - 1) := by
    have : ty.bits = (ty.bits - 1) + 1 := by omega
    rw [this, pow2_succ]; simp
  have hh64 : pow2 64 = 2 * pow2 63 := by rw [pow2_63, pow2_64]; decide
  constructor
  · intro hu hw1 hwb hwt hr
    have hv' : 0 ≤ v ∧ v ≤ pow2 ty.bits - 1 := by
      simpa [IntTy.holds, IntTy.minVal, IntTy.maxVal, hu] using hv
    have hraw : ((0 : Nat) : Int) < pow2 w := pow2_pos w
    obtain ⟨h1, _, h3⟩ := C19_field_accepts_in_range_partial ty bvt w v 0 hu hw1 hwb hwt hv hraw
    have hdec : (if 0 ≤ v then decide (v < pow2 64) else decide (-(pow2 63) ≤ v)) = true := by
      simp only [hv'.1, if_true, decide_eq_true_eq]; omega
    simp only [viewReadTextNumber, hdec, if_true, hwrap, h1.mpr hr]
    have := h3 hr
    congr 1
    omega
  · intro hs hbv
    have hv' : -(pow2 (ty.bits - 1)) ≤ v ∧ v ≤ pow2 (ty.bits - 1) - 1 := by
      simpa [IntTy.holds, IntTy.minVal, IntTy.maxVal, hs] using hv
    have hraw : ((0 : Nat) : Int) < pow2 ty.bits := pow2_pos ty.bits
    obtain ⟨h1, _, h3, _⟩ := C19_field_signed_full_width_partial ty bvt v 0 hs hb0 hbv hv hraw
    have hdec : (if 0 ≤ v then decide (v < pow2 64) else decide (-(pow2 63) ≤ v)) = true := by
      by_cases h0 : 0 ≤ v
      · simp only [h0, if_true, decide_eq_true_eq]; omega
      · simp only [h0, if_false, decide_eq_true_eq]; omega
    simp only [viewReadTextNumber, hdec, if_true, hwrap, h1]
    congr 1
    omega

/-- Non-vacuity / the boundary the text reader must get right: `2^64 - 1` and `2^63` of an
unsigned 64-bit enum, `-2^63` of a signed one (tests by evaluation). -/
example : viewReadTextNumber ⟨false, 64⟩ 64 64 18446744073709551615 = some 18446744073709551615 ∧
    viewReadTextNumber ⟨false, 64⟩ 64 64 9223372036854775808 = some 9223372036854775808 ∧
    viewReadTextNumber ⟨true, 64⟩ 64 64 (-9223372036854775808) = some 9223372036854775808 ∧
    viewReadTextNumber ⟨false, 64⟩ 64 64 18446744073709551616 = none ∧
    viewReadTextNumber ⟨false, 8⟩ 8 3 8 = none := by decide

/-- Counterexample for signed enums (finding `signed-enum-in-field-narrower-than-underlying-
type`, F14, open): `[maximum_bits: 8] [is_signed: true] NEG = -1` in a 4-bit field of an 8-bit
`bits`: the raw bits `0xF` (two's-complement −1 in 4 bits) read as 15, `NEG` cannot be
written, and 15 — outside the 4-bit signed range — can. -/
theorem C19_field_counterexample :
    viewRead ⟨true, 8⟩ 15 = 15 ∧ Spec.FieldValue true 4 15 = -1 ∧
    viewCouldWrite ⟨true, 8⟩ 8 4 (-1) = false ∧ Spec.FieldRange true 4 (-1) ∧
    viewCouldWrite ⟨true, 8⟩ 8 4 15 = true ∧ ¬ Spec.FieldRange true 4 15 := by decide

end Emboss.Enum
