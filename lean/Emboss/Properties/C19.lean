import Emboss.Model.Enum
namespace Emboss.Enum
open Emboss.CppInt

/-- placeholder while the harness is brought up -/
theorem C19_placeholder : cppTypeForEnum 8 true = some ⟨true, 8⟩ := by decide

end Emboss.Enum
