/-
C19 — Enum names, values and C++ representation match the definition.

Property theorems only.  Model: Emboss/Model/Enum.lean (+ CppInt.lean); spec:
Emboss/Spec/Enum.lean; lemmas: Emboss/Lemmas/Enum*.lean, CppInt.lean.

Reading guide: `d : Def` is the enum as the front end leaves it, `g : Gen` is everything
`_generate_enum_definition` emits (`generate d = some g`), `g.enumerators` the `NAME = value`
lines; `g.cppFromName es`, `g.cppToName es`, `g.cppIsKnown es` are the meanings of the three
generated functions given the C++ enumerator table `es`.
-/
import Emboss.Lemmas.EnumSpec
import Emboss.Lemmas.EnumDistinct
namespace Emboss.Enum
open Emboss.CppInt

/-- **Underlying type and enumerator values.**  For an accepted enum the C++ underlying type
has the declared signedness (or, when `is_signed` is not given, is signed iff some value is
negative), is at least `maximum_bits` (default 64) wide and at most 64; there is one
enumerator per declared value per requested spelling, in order; and the C++ value of every
enumerator — the rendered literal converted to the underlying type — is exactly the declared
value (no narrowing, so the enumerator list is well-formed). -/
theorem C19_underlying_type (d : Def) (g : Gen) (hacc : d.frontAccepts = true)
    (hgen : generate d = some g) :
    g.ty.signed = d.isSigned ∧
    (d.signedAttr = none → (d.isSigned = true ↔ ∃ v ∈ d.values, v.value < 0)) ∧
    (d.maxBitsAttr = none → d.maxBits = 64) ∧
    d.maxBits ≤ g.ty.bits ∧ g.ty.bits ≤ 64 ∧
    g.enumerators = d.values.flatMap (fun v => (namesOf d v).map (fun x => (x, v.value))) ∧
    (∀ v ∈ d.values, namesOf d v ≠ []) ∧
    g.cppEnumerators = some g.enumerators := by
  obtain ⟨hty, hne, he, _, _, _⟩ := generate_spec d g hgen
  obtain ⟨hs, hb, hw⟩ := cppTypeForEnum_spec _ _ _ hty
  simp only [Def.frontAccepts, Def.widthOk, Def.representable, Bool.and_eq_true, decide_eq_true_eq,
    List.all_eq_true] at hacc
  refine ⟨hs, ?_, ?_, hb, by omega, he, hne, ?_⟩
  · intro hn
    simp only [Def.isSigned, hn, List.any_eq_true, decide_eq_true_eq]
  · intro hn; simp [Def.maxBits, hn]
  · unfold Gen.cppEnumerators
    apply mapM_enumeratorValue
    intro p hp
    rw [he] at hp
    obtain ⟨v, hv, hp'⟩ := List.mem_flatMap.mp hp
    obtain ⟨x, _, rfl⟩ := List.mem_map.mp hp'
    apply enumeratorValue_exact _ _ (by omega) (by omega)
    apply holds_of_inRange d.isSigned d.maxBits.toNat g.ty v.value hs (by omega) (by omega)
    exact hacc.2 v hv

/-- Non-vacuity: a signed 8-bit enum with two spellings of one value and a duplicate value. -/
def exDef : Def :=
  { name := "Foo".toList, maxBitsAttr := some 8,
    levels := [[⟨"cpp".toList, true, "kCamelCase, SHOUTY_CASE".toList⟩]],
    values := [{ name := "AB_C".toList, value := 1 }, { name := "BC".toList, value := 1 },
               { name := "CD".toList, value := -128,
                 attrs := [⟨"cpp".toList, false, "SHOUTY_CASE".toList⟩] }] }

def exGen : Gen :=
  { ty := ⟨true, 8⟩,
    enumerators := [("kAbC".toList, 1), ("AB_C".toList, 1), ("kBc".toList, 1), ("BC".toList, 1),
                    ("CD".toList, -128)],
    fromName := [("AB_C".toList, "kAbC".toList), ("AB_C".toList, "AB_C".toList),
                 ("BC".toList, "kBc".toList), ("BC".toList, "BC".toList), ("CD".toList, "CD".toList)],
    toName := [("kAbC".toList, "AB_C".toList), ("CD".toList, "CD".toList)],
    known := ["kAbC".toList, "CD".toList] }

example : exDef.frontAccepts = true ∧ (generate exDef).map (·.enumerators) = some exGen.enumerators ∧
    (generate exDef).map (·.toName) = some exGen.toName ∧
    (generate exDef).map (·.fromName) = some exGen.fromName ∧
    (generate exDef).map (·.ty) = some ⟨true, 8⟩ := by decide

/-- **`TryToGetEnumFromName`.**  With pairwise distinct enumerator identifiers (see
`C19_enumerators_distinct_partial`; without it the header does not compile) the function
returns the value of the first declared value named `n`, and fails for `nullptr`.  When the
declared names are distinct (the front end rejects duplicates) this says: `fromName n = some v`
iff `n` is a declared Emboss name with value `v` — nothing else maps, in particular not the
`kCamelCase` spellings. -/
theorem C19_from_name (d : Def) (g : Gen) (hgen : generate d = some g)
    (hd : (g.enumerators.map (·.1)).Nodup) (hnames : (d.values.map (·.name)).Nodup) :
    g.cppFromName g.enumerators none = none ∧
    (∀ n v, g.cppFromName g.enumerators (some n) = some v ↔ Spec.Declares d.declared n v) ∧
    (∀ n, (∀ v, ¬ Spec.Declares d.declared n v) → g.cppFromName g.enumerators (some n) = none) := by
  obtain ⟨_, hne, he, hf, _, _⟩ := generate_spec d g hgen
  have hr : Resolves g.enumerators (namesOf d) d.values := by
    rw [he]; rw [he] at hd; exact resolves_of_nodup _ _ hd
  have key : ∀ n, g.cppFromName g.enumerators (some n) =
      (d.values.find? (fun v => v.name == n)).map (·.value) := by
    intro n
    have := fromOf_find g.enumerators (namesOf d) d.values hne hr n
    rw [← hf] at this
    rw [← this]
    simp only [Gen.cppFromName]
    cases g.fromName.find? (fun p => p.1 == n) <;> rfl
  have iff : ∀ n v, g.cppFromName g.enumerators (some n) = some v ↔ Spec.Declares d.declared n v := by
    intro n v
    rw [key n]
    exact find_name_iff d.values hnames n v
  refine ⟨rfl, iff, ?_⟩
  intro n hn
  cases h : g.cppFromName g.enumerators (some n) with
  | none => rfl
  | some v => exact absurd ((iff n v).mp h) (hn v)

/-- **`TryToGetNameFromEnum`** returns the first declared name having the value, and `nullptr`
exactly for undeclared values. -/
theorem C19_to_name_first (d : Def) (g : Gen) (hgen : generate d = some g)
    (hd : (g.enumerators.map (·.1)).Nodup) (x : Int) :
    (∀ n, g.cppToName g.enumerators x = some n ↔ Spec.FirstNameOf d.declared x n) ∧
    (g.cppToName g.enumerators x = none ↔ ¬ Spec.Known d.declared x) := by
  obtain ⟨_, hne, he, _, ht, _⟩ := generate_spec d g hgen
  have hr : Resolves g.enumerators (namesOf d) d.values := by
    rw [he]; rw [he] at hd; exact resolves_of_nodup _ _ hd
  have key : g.cppToName g.enumerators x = (d.values.find? (fun v => v.value == x)).map (·.name) := by
    have := toOf_find g.enumerators (namesOf d) d.values hne hr x []
    rw [← ht] at this
    simpa [Gen.cppToName] using this
  constructor
  · intro n
    rw [key]
    exact first_iff d.values x n
  · rw [key]
    simp only [Option.map_eq_none_iff, List.find?_eq_none, Spec.Known, Def.declared]
    constructor
    · rintro h ⟨n, hm⟩
      obtain ⟨v, hv, he'⟩ := List.mem_map.mp hm
      simp only [Prod.mk.injEq] at he'
      have := h v hv
      simp [he'.2] at this
    · intro h v hv hvx
      apply h
      simp only [beq_iff_eq] at hvx
      exact ⟨v.name, List.mem_map.mpr ⟨v, hv, by simp [hvx]⟩⟩

/-- **`EnumIsKnown`** is true exactly for declared values. -/
theorem C19_is_known_iff_declared (d : Def) (g : Gen) (hgen : generate d = some g)
    (hd : (g.enumerators.map (·.1)).Nodup) (x : Int) :
    g.cppIsKnown g.enumerators x = true ↔ Spec.Known d.declared x := by
  obtain ⟨_, hne, he, _, _, hk⟩ := generate_spec d g hgen
  have hr : Resolves g.enumerators (namesOf d) d.values := by
    rw [he]; rw [he] at hd; exact resolves_of_nodup _ _ hd
  obtain ⟨ws, h1, _, _, h4⟩ := toOf_labels g.enumerators (namesOf d) d.values hne hr []
  have hx : x ∈ ws ↔ Spec.Known d.declared x := by
    rw [h4 x]
    simp only [List.not_mem_nil, not_false_eq_true, true_and, Spec.Known, Def.declared]
    constructor
    · rintro ⟨v, hv, rfl⟩; exact ⟨v.name, List.mem_map.mpr ⟨v, hv, rfl⟩⟩
    · rintro ⟨n, hm⟩
      obtain ⟨v, hv, he'⟩ := List.mem_map.mp hm
      simp only [Prod.mk.injEq] at he'
      exact ⟨v, hv, he'.2⟩
  rw [← hx]
  simp only [Gen.cppIsKnown, hk, List.any_map, List.any_eq_true, Function.comp, beq_iff_eq]
  constructor
  · rintro ⟨p, hp, hl⟩
    have : some x ∈ ws.map some := by
      rw [← h1]; exact List.mem_map.mpr ⟨p, hp, hl⟩
    obtain ⟨w, hw, hwe⟩ := List.mem_map.mp this
    cases hwe; exact hw
  · intro hw
    have : some x ∈ (toOf (namesOf d) [] d.values).map (fun p => lookup g.enumerators p.1) := by
      rw [h1]; exact List.mem_map.mpr ⟨x, hw, rfl⟩
    obtain ⟨p, hp, hl⟩ := List.mem_map.mp this
    exact ⟨p, hp, hl⟩

/-- **No duplicate `case` labels** in the two generated `switch`es (needed for the header to
compile): every label resolves to an enumerator, and the label values are pairwise distinct.
Rests on the `previously_seen_numeric_values` logic. -/
theorem C19_switch_labels_distinct (d : Def) (g : Gen) (hgen : generate d = some g)
    (hd : (g.enumerators.map (·.1)).Nodup) :
    (g.labelValues g.enumerators).Nodup ∧ (∀ o ∈ g.labelValues g.enumerators, o.isSome = true) ∧
    g.known = g.toName.map (·.1) := by
  obtain ⟨_, hne, he, _, ht, hk⟩ := generate_spec d g hgen
  have hr : Resolves g.enumerators (namesOf d) d.values := by
    rw [he]; rw [he] at hd; exact resolves_of_nodup _ _ hd
  obtain ⟨ws, h1, h2, _, _⟩ := toOf_labels g.enumerators (namesOf d) d.values hne hr []
  have hl : g.labelValues g.enumerators = ws.map some := by
    simp only [Gen.labelValues, ht]; exact h1
  refine ⟨?_, ?_, by rw [hk, ht]⟩
  · rw [hl]
    exact List.pairwise_map.mpr (List.Pairwise.imp (fun h he => h (Option.some.inj he)) h2)
  · rw [hl]
    intro o ho
    obtain ⟨w, _, rfl⟩ := List.mem_map.mp ho
    rfl

/-- Non-vacuity for the four theorems above: `exDef` generates `exGen`, its enumerators are
distinct, names are distinct; lookups behave as stated (tests by evaluation). -/
example : (generate exDef).map (·.known) = some exGen.known ∧ (exGen.enumerators.map (·.1)).Nodup ∧
    (exDef.values.map (·.name)).Nodup ∧
    exGen.cppFromName exGen.enumerators (some "BC".toList) = some 1 ∧
    exGen.cppFromName exGen.enumerators (some "kBc".toList) = none ∧
    exGen.cppToName exGen.enumerators 1 = some "AB_C".toList ∧
    exGen.cppToName exGen.enumerators 2 = none ∧
    exGen.cppIsKnown exGen.enumerators (-128) = true := by decide

/-
Full statement (false on the real code, see the counterexample below):

  theorem C19_enumerators_distinct (d g) (hgen : generate d = some g)
      (hnames : declared names distinct) (hshape : SHOUTY names) (hver : enum_case verified) :
      (g.enumerators.map (·.1)).Nodup

Proved fragment: with the extra hypothesis `hcamel` — the declared names stay pairwise
distinct after `snake_to_camel` (which forgets underscores next to digits, doubled and
trailing underscores). -/
/-- **Enumerator identifiers are pairwise distinct** (so the `enum class` body, and hence the
hypothesis `hd` of the theorems above, is well-formed) — partial: needs `hcamel`. -/
theorem C19_enumerators_distinct_partial (d : Def) (g : Gen) (hgen : generate d = some g)
    (hnames : (d.values.map (·.name)).Nodup)
    (hshape : ∀ v ∈ d.values, ∃ c cs, v.name = c :: cs ∧ c ≠ 'k')
    (hver : ∀ v ∈ d.values, ∀ t,
      effectiveCase v.attrs (defaultsOf d.levels) = .cases t → verifyCases t = true)
    (hcamel : d.values.Pairwise (fun a b => snakeToCamel a.name ≠ snakeToCamel b.name)) :
    (g.enumerators.map (·.1)).Nodup := by
  obtain ⟨_, _, he, _, _, _⟩ := generate_spec d g hgen
  rw [he]
  exact enumerator_names_nodup d hnames hshape
    (fun v hv => spellings_nodup d v (hshape v hv) (hver v hv)) hcamel

/-- Counterexample to the full statement (finding `enum-value-names-equal-after-camel-
conversion`): `A_1B` and `A1B` are distinct SHOUTY names, the attribute is valid, the enum is
accepted and generated — with the enumerator `kA1b` twice.  Replayed on the real code by
`./check C19` (g++: redeclaration of 'kA1b'). -/
def exCollide : Def :=
  { name := "Foo".toList, levels := [[⟨"cpp".toList, true, "kCamelCase".toList⟩]],
    values := [{ name := "A_1B".toList, value := 1 }, { name := "A1B".toList, value := 2 }] }

theorem C19_enumerators_counterexample :
    exCollide.frontAccepts = true ∧ (exCollide.values.map (·.name)).Nodup ∧
    verifyCases "kCamelCase".toList = true ∧
    (generate exCollide).map (fun g => g.enumerators.map (·.1)) =
      some ["kA1b".toList, "kA1b".toList] := by decide

/-- Non-vacuity of `C19_enumerators_distinct_partial`: `exDef` meets every hypothesis. -/
example : (exDef.values.map (·.name)).Nodup ∧
    (exDef.values.all (fun v => match v.name with | c :: _ => c != 'k' | [] => false)) = true ∧
    verifyCases "kCamelCase, SHOUTY_CASE".toList = true ∧ verifyCases "SHOUTY_CASE".toList = true ∧
    exDef.values.Pairwise (fun a b => snakeToCamel a.name ≠ snakeToCamel b.name) := by decide

/-- **`$default` precedence** (doc/language-reference.md: "a `$default` enum case can be set on
a module, struct, bits, or enum and applies to all enum values within"): an attribute on the
value wins; otherwise the innermost enclosing `$default`; otherwise SHOUTY_CASE only. -/
theorem C19_enum_case_precedence (outer : List (List Attr)) (inner : List Attr) (a : Attr)
    (t : List Char) (n : Name) :
    effectiveCase [⟨a.backEnd, false, t⟩] (defaultsOf (outer ++ [inner])) = .cases t ∧
    defaultsOf (outer ++ [[⟨a.backEnd, true, t⟩]]) = some t ∧
    defaultsOf (outer ++ [[]]) = defaultsOf outer ∧
    enumeratorNames n (effectiveCase [] none) = some [n] := by
  refine ⟨by simp [effectiveCase], ?_, ?_, by simp [effectiveCase, enumeratorNames]⟩
  · simp [defaultsOf, gatherDefault, List.foldl_append]
  · simp [defaultsOf, gatherDefault, List.foldl_append]

example : defaultsOf [[⟨"cpp".toList, true, "kCamelCase".toList⟩], [],
    [⟨"cpp".toList, true, "SHOUTY_CASE".toList⟩]] = some "SHOUTY_CASE".toList := by decide

/-
Full statement (false on the real code):

  theorem C19_field_accepts_in_range (ty : IntTy) (bvt w : Nat) (v : Int) … :
      viewCouldWrite ty bvt w v = true ↔ Spec.FieldRange ty.signed w v
      ∧ viewRead ty raw = Spec.FieldValue ty.signed w raw

Proved fragment: unsigned enums (any field width).  Missing: signed enums; for them the
statement is false whenever the field is narrower than the underlying type or than its
`bits` container (counterexample below, finding
`signed-enum-in-field-narrower-than-underlying-type`). -/
/-- **Enum fields accept any in-range value, named or not** — partial: unsigned enums.
`w` = field width, `bvt` = width of the unsigned integer the field's bits are read into
(`BitViewType::ValueType`), `ty` = the enum's underlying type. -/
theorem C19_field_accepts_in_range_partial (ty : IntTy) (bvt w : Nat) (v : Int) (raw : Nat)
    (hu : ty.signed = false) (hw1 : 1 ≤ w) (hwb : w ≤ bvt) (hwt : w ≤ ty.bits)
    (hv : ty.holds v = true) (hraw : (raw : Int) < pow2 w) :
    (viewCouldWrite ty bvt w v = true ↔ Spec.FieldRange false w v) ∧
    viewRead ty raw = Spec.FieldValue false w raw ∧
    (Spec.FieldRange false w v → (viewWriteBits bvt w v : Int) = v) := by
  have pw := pow2_pos w
  have pb := pow2_pos bvt
  have mwb : pow2 w ≤ pow2 bvt := pow2_mono hwb
  have mwt : pow2 w ≤ pow2 ty.bits := pow2_mono hwt
  have hv' : 0 ≤ v ∧ v ≤ pow2 ty.bits - 1 := by
    simpa [IntTy.holds, IntTy.minVal, IntTy.maxVal, hu] using hv
  have hwrapB : wrap ⟨false, bvt⟩ v = v % pow2 bvt := by simp [wrap]
  have hwrapT : ∀ x, wrap ty x = x % pow2 ty.bits := by intro x; simp [wrap, hu]
  have hmod_nonneg := Int.emod_nonneg v (Int.ne_of_gt pb)
  have hmod_lt := Int.emod_lt_of_pos v pb
  refine ⟨?_, ?_, ?_⟩
  · simp only [viewCouldWrite, hwrapB, hwrapT, Spec.FieldRange, Bool.false_eq_true, if_false,
      Bool.and_eq_true, Bool.or_eq_true, decide_eq_true_eq]
    show _ ↔ 0 ≤ v ∧ v < pow2 w
    constructor
    · rintro ⟨h1, h2⟩
      have pt := pow2_pos ty.bits
      have hlt : v % pow2 bvt % pow2 ty.bits ≤ v % pow2 bvt := by
        by_cases hc : v % pow2 bvt < pow2 ty.bits
        · rw [Int.emod_eq_of_lt hmod_nonneg hc]; exact Int.le_refl _
        · have := Int.emod_lt_of_pos (v % pow2 bvt) pt
          omega
      have hvb : v < pow2 bvt := by omega
      have : v % pow2 bvt = v := Int.emod_eq_of_lt hv'.1 hvb
      rcases h2 with h2 | h2
      · subst h2; exact ⟨hv'.1, hvb⟩
      · omega
    · rintro ⟨h0, hlt⟩
      have e1 : v % pow2 bvt = v := Int.emod_eq_of_lt h0 (by omega)
      have e2 : v % pow2 ty.bits = v := Int.emod_eq_of_lt h0 (by omega)
      rw [e1, e2]
      exact ⟨rfl, Or.inr hlt⟩
  · simp only [viewRead, hwrapT, Spec.FieldValue, Bool.false_eq_true, false_and, if_false]
    exact Int.emod_eq_of_lt (by omega) (by omega)
  · simp only [Spec.FieldRange, Bool.false_eq_true, if_false]
    show 0 ≤ v ∧ v < pow2 w → _
    rintro ⟨h0, hlt⟩
    have e1 : v % pow2 bvt = v := Int.emod_eq_of_lt h0 (by omega)
    have e2 : v % pow2 w = v := Int.emod_eq_of_lt h0 hlt
    simp only [viewWriteBits, hwrapB, e1, e2]
    omega

/-- Non-vacuity: a 3-bit field of a `uint8_t` enum inside an 8-bit `bits`. -/
example : (⟨false, 8⟩ : IntTy).holds 5 = true ∧ viewCouldWrite ⟨false, 8⟩ 8 3 5 = true ∧
    viewCouldWrite ⟨false, 8⟩ 8 3 8 = false ∧ viewRead ⟨false, 8⟩ 7 = 7 := by decide

/-- Second proved fragment of the field clause: a signed enum whose field is as wide as its
underlying type *and* as its container (`w = bits(ValueType) = bits(BitViewType::ValueType)`,
e.g. an `int8_t` enum in a one-byte `struct` field) accepts exactly the values of its type and
reads two's complement. -/
theorem C19_field_signed_full_width_partial (ty : IntTy) (v : Int) (raw : Nat)
    (hs : ty.signed = true) (hb : 0 < ty.bits) (hv : ty.holds v = true)
    (hraw : (raw : Int) < pow2 ty.bits) :
    viewCouldWrite ty ty.bits ty.bits v = true ∧ Spec.FieldRange true ty.bits v ∧
    viewRead ty raw = Spec.FieldValue true ty.bits raw := by
  have hp := pow2_pos ty.bits
  have hh : pow2 ty.bits = 2 * pow2 (ty.bits - 1) := by
    have : ty.bits = (ty.bits - 1) + 1 := by omega
    rw [this, pow2_succ]; simp
  have hv' : -(pow2 (ty.bits - 1)) ≤ v ∧ v ≤ pow2 (ty.bits - 1) - 1 := by
    simpa [IntTy.holds, IntTy.minVal, IntTy.maxVal, hs] using hv
  refine ⟨?_, ?_, ?_⟩
  · simp only [viewCouldWrite, decide_true, Bool.true_or, Bool.and_true, decide_eq_true_eq]
    have hB : wrap ⟨false, ty.bits⟩ v = v % pow2 ty.bits := by simp [wrap]
    rw [hB]
    by_cases h0 : 0 ≤ v
    · rw [Int.emod_eq_of_lt h0 (by omega)]
      exact (wrap_of_holds ty v hb hv).symm
    · have e1 : (v + pow2 ty.bits) % pow2 ty.bits = v + pow2 ty.bits :=
        Int.emod_eq_of_lt (by omega) (by omega)
      have e2 : v % pow2 ty.bits = v + pow2 ty.bits := by rw [← e1, Int.add_emod_right]
      rw [e2]
      simp only [wrap, hs, Bool.true_and, decide_eq_true_eq, e1]
      have : v + pow2 ty.bits ≥ pow2 (ty.bits - 1) := by omega
      simp only [this, if_true]
      omega
  · simp only [Spec.FieldRange, if_true]
    show -(pow2 (ty.bits - 1)) ≤ v ∧ v < pow2 (ty.bits - 1)
    omega
  · simp only [viewRead, wrap, hs, Bool.true_and, decide_eq_true_eq, Spec.FieldValue, true_and]
    have e : (raw : Int) % pow2 ty.bits = raw := Int.emod_eq_of_lt (by omega) hraw
    rw [e]
    show _ = if (raw : Int) ≥ pow2 (ty.bits - 1) then (raw : Int) - pow2 ty.bits else (raw : Int)
    rfl

example : (⟨true, 8⟩ : IntTy).holds (-1) = true ∧ viewCouldWrite ⟨true, 8⟩ 8 8 (-1) = true ∧
    viewRead ⟨true, 8⟩ 255 = -1 := by decide

/-- Counterexample for signed enums (finding `signed-enum-in-field-narrower-than-underlying-
type`, F14): `[maximum_bits: 8] [is_signed: true] NEG = -1` in a 4-bit field of an 8-bit
`bits`: the raw bits `0xF` (two's-complement −1 in 4 bits) read as 15, `NEG` cannot be
written, and 15 — outside the 4-bit signed range — can.  Also with a full-width field inside
a wider container (8-bit field in a 16-bit `bits`) `NEG` cannot be written. -/
theorem C19_field_counterexample :
    viewRead ⟨true, 8⟩ 15 = 15 ∧ Spec.FieldValue true 4 15 = -1 ∧
    viewCouldWrite ⟨true, 8⟩ 8 4 (-1) = false ∧ Spec.FieldRange true 4 (-1) ∧
    viewCouldWrite ⟨true, 8⟩ 8 4 15 = true ∧ ¬ Spec.FieldRange true 4 15 ∧
    viewCouldWrite ⟨true, 8⟩ 16 8 (-1) = false ∧ Spec.FieldRange true 8 (-1) := by decide

end Emboss.Enum
