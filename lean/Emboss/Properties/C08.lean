/-
C08 — the LR(1) generator builds a parser for exactly the grammar's language.

Translation validation: for all grammars `G`, automata `A` (tables as dumped from the real
`lr1.Parser`) and certificates `C`, `Valid G A C` (decided by the executable checker, run on
every generated table) implies the theorems below about `run A` — the model of `Parser.parse`.
-/
import Emboss.Lemmas.Lr1Sound
namespace Emboss.Lr1

/-- **Soundness.**  If the tables validate and the parser accepts `w` with tree `t`, then `t`
is a derivation of `w`: every node an instance of a production of `G`, the root is the start
symbol, the leaves are the input tokens in order.  (`w` must not contain a token whose symbol
is the end-of-input marker: see the open finding `end-of-input-symbol-inside-token-list`.) -/
theorem C08_sound {G : Grammar} {A : Automaton} {C : Cert} (hv : Valid G A C)
    {w : List Token} (hw : ∀ t ∈ w, t.sym ≠ G.eoi) {fuel : Nat} {t : Tree}
    (h : run A fuel w = .accept t) : Derives G t w := by
  obtain ⟨hp, hr, k, hk, hy⟩ := (runFrom_post hv w fuel init (inv_init w)).2 t h
  refine ⟨hp, hr, ?_⟩
  rw [hy, List.take_of_length_le (lookahead_eoi_ge hw hk)]

/-- **Safety.**  Over validated tables `Parser.parse` never raises: no `KeyError` (missing goto
or action row), no failed assertion, no stack underflow, no shift past the end of input — for
every token list (also ill-formed ones) and every step budget. -/
theorem C08_safe {G : Grammar} {A : Automaton} {C : Cert} (hv : Valid G A C)
    (w : List Token) (fuel : Nat) (m : String) : run A fuel w ≠ .internal m :=
  (runFrom_post hv w fuel init (inv_init w)).1 m

end Emboss.Lr1
