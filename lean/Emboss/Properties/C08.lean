import Emboss.Model.Lr1Valid
namespace Emboss.Lr1
theorem C08_validator_decides {G A C} (h : validB G A C = true) : Valid G A C := validB_sound h
end Emboss.Lr1
