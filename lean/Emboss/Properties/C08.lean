/-
C08 — the LR(1) generator builds a parser for exactly the grammar's language.

Translation validation: for all grammars `G`, automata `A` (tables as dumped from the real
`lr1.Parser`) and certificates `C`, `Valid G A C` (decided by the executable checker, run on
every generated table) implies the theorems below about `run A` — the model of `Parser.parse`.
-/
import Emboss.Lemmas.Lr1Complete
namespace Emboss.Lr1

/-- **Soundness.**  If the tables validate and the parser accepts `w` with tree `t`, then `t`
is a derivation of `w`: every node an instance of a production of `G`, the root is the start
symbol, the leaves are the input tokens in order.  (`w` must not contain a token whose symbol
is the end-of-input marker: see the open finding `end-of-input-symbol-inside-token-list`.) -/
theorem C08_sound {G : Grammar} {A : Automaton} {C : Cert} (hv : Valid G A C)
    {w : List Token} (hw : ∀ t ∈ w, t.sym ≠ G.eoi) {fuel : Nat} {t : Tree}
    (h : run A fuel w = .accept t) : Derives G t w := by
  obtain ⟨hp, hr, k, hk, hy⟩ := (runFrom_post hv w fuel init (inv_init w)).2 t h
  refine ⟨hp, hr, ?_⟩
  rw [hy, List.take_of_length_le (lookahead_eoi_ge hw hk)]

/-- **Safety.**  Over validated tables `Parser.parse` never raises: no `KeyError` (missing goto
or action row), no failed assertion, no stack underflow, no shift past the end of input — for
every token list (also ill-formed ones) and every step budget. -/
theorem C08_safe {G : Grammar} {A : Automaton} {C : Cert} (hv : Valid G A C)
    (w : List Token) (fuel : Nat) (m : String) : run A fuel w ≠ .internal m :=
  (runFrom_post hv w fuel init (inv_init w)).1 m

/-- **Completeness.**  If the tables validate, every derivation `t` of `w` from the start
symbol is found: with enough fuel the parser accepts `w` and returns exactly `t`. -/
theorem C08_complete {G : Grammar} {A : Automaton} {C : Cert} (hv : Valid G A C)
    {t : Tree} {w : List Token} (hd : Derives G t w) :
    ∃ f0, ∀ fuel, f0 ≤ fuel → run A fuel w = .accept t :=
  run_complete hv hd

/-- **Unambiguity.**  A grammar whose tables validate has at most one parse tree per token
string: an ambiguous grammar can never be validated, i.e. is never silently conflict-free. -/
theorem C08_unambiguous {G : Grammar} {A : Automaton} {C : Cert} (hv : Valid G A C)
    {t₁ t₂ : Tree} {w : List Token} (h₁ : Derives G t₁ w) (h₂ : Derives G t₂ w) : t₁ = t₂ := by
  obtain ⟨f₁, hf₁⟩ := run_complete hv h₁
  obtain ⟨f₂, hf₂⟩ := run_complete hv h₂
  have e₁ := hf₁ (max f₁ f₂) (Nat.le_max_left _ _)
  have e₂ := hf₂ (max f₁ f₂) (Nat.le_max_right _ _)
  rw [e₁] at e₂
  cases e₂; rfl

/-- Accepting runs terminate (from completeness); for rejected inputs termination of the model
run is not proved here: see `C08_error_position`, which is conditional on an error result. -/
theorem C08_terminates_partial {G : Grammar} {A : Automaton} {C : Cert} (hv : Valid G A C)
    {w : List Token} (hs : Sentence G w) : ∃ fuel t, run A fuel w = .accept t := by
  obtain ⟨t, hd⟩ := hs
  obtain ⟨f, hf⟩ := run_complete hv hd
  exact ⟨f, t, hf f (Nat.le_refl _)⟩

end Emboss.Lr1
