/-
C08 — the LR(1) generator builds a parser for exactly the grammar's language.

Translation validation: for all grammars `G`, automata `A` (tables as dumped from the real
`lr1.Parser`) and certificates `C`, `Valid G A C` (decided by the executable checker, run on
every generated table) implies the theorems below about `run A` — the model of `Parser.parse`.
-/
import Emboss.Lemmas.Lr1Examples
import Emboss.Lemmas.Lr1Fast
import Emboss.Lemmas.Lr1Term
import Emboss.Lemmas.Lr1GenValid
import Emboss.Lemmas.Lr1GenFuelBfs
import Emboss.Lemmas.Lr1GenReduced
import Emboss.Lemmas.Lr1TermCex
import Emboss.Lemmas.Lr1EmbossRuns
namespace Emboss.Lr1

/-- **The compiled validator decides `Valid`.**  `validFast` (hash-set membership; what the
driver runs on every dumped table, the Emboss grammars included) implies `Valid`, from which
all theorems below follow. -/
theorem C08_validator_sound {G : Grammar} {A : Automaton} {C : Cert} (h : validFast G A C = true) :
    Valid G A C := validFast_sound h

/-- **Soundness.**  If the tables validate and the parser accepts `w` with tree `t`, then `t`
is a derivation of `w`: every node an instance of a production of `G`, the root is the start
symbol, the leaves are the input tokens in order — for **every** token list (a client token
that carries the end-of-input marker as its symbol has no action since fix 935ff56, so the
former hypothesis "no `$` token in `w`" is gone). -/
theorem C08_sound {G : Grammar} {A : Automaton} {C : Cert} (hv : Valid G A C)
    {w : List Token} {fuel : Nat} {t : Tree}
    (h : run A fuel w = .accept t) : Derives G t w := by
  obtain ⟨hp, hr, k, hk, hy⟩ := (runFrom_post hv w fuel init (inv_init w)).2 t h
  refine ⟨hp, hr, ?_⟩
  rw [hy, List.take_of_length_le hk]

/-- **Safety.**  Over validated tables `Parser.parse` never raises: no `KeyError` (missing goto
or action row), no failed assertion, no stack underflow, no shift past the end of input — for
every token list (also ill-formed ones) and every step budget. -/
theorem C08_safe {G : Grammar} {A : Automaton} {C : Cert} (hv : Valid G A C)
    (w : List Token) (fuel : Nat) (m : String) : run A fuel w ≠ .internal m :=
  (runFrom_post hv w fuel init (inv_init w)).1 m

/-- **Completeness.**  If the tables validate, every derivation `t` of `w` from the start
symbol is found: with enough fuel the parser accepts `w` and returns exactly `t`. -/
theorem C08_complete {G : Grammar} {A : Automaton} {C : Cert} (hv : Valid G A C)
    {t : Tree} {w : List Token} (hd : Derives G t w) :
    ∃ f0, ∀ fuel, f0 ≤ fuel → run A fuel w = .accept t :=
  run_complete hv hd

/-- **Unambiguity.**  A grammar whose tables validate has at most one parse tree per token
string: an ambiguous grammar can never be validated, i.e. is never silently conflict-free. -/
theorem C08_unambiguous {G : Grammar} {A : Automaton} {C : Cert} (hv : Valid G A C)
    {t₁ t₂ : Tree} {w : List Token} (h₁ : Derives G t₁ w) (h₂ : Derives G t₂ w) : t₁ = t₂ := by
  obtain ⟨f₁, hf₁⟩ := run_complete hv h₁
  obtain ⟨f₂, hf₂⟩ := run_complete hv h₂
  have e₁ := hf₁ (max f₁ f₂) (Nat.le_max_left _ _)
  have e₂ := hf₂ (max f₁ f₂) (Nat.le_max_right _ _)
  rw [e₁] at e₂
  cases e₂; rfl

/-- **Exactly the grammar's language.**  Over validated tables the parser accepts `w` with tree
`t` iff `t` is a derivation of `w`. -/
theorem C08_accepts_iff {G : Grammar} {A : Automaton} {C : Cert} (hv : Valid G A C)
    {w : List Token} (t : Tree) :
    (∃ fuel, run A fuel w = .accept t) ↔ Derives G t w :=
  ⟨fun ⟨_, h⟩ => C08_sound hv h, fun hd =>
    let ⟨f, hf⟩ := C08_complete hv hd
    ⟨f, hf f (Nat.le_refl _)⟩⟩

/-- **Termination (accepted and rejected inputs).**  `TermOK A` is the decidable termination
analysis of Model/Lr1Term.lean (run by the driver on every dumped table, op `LRTERM`: for every
state, successor state and row key it executes the chain of reductions the table prescribes at
a fixed cursor and checks that it comes to a Shift/Accept/Error or pops below its starting
point).  Over a table that passes, `Parser.parse` halts on **every** token list: there is a
step budget with which the model run returns a result (accept, syntax error, or a Python
exception) instead of running out of fuel.  Measure: (tokens left, stack height).

`Valid` alone does not imply this — a certificate may carry a FIRST table that is closed but not
least, and then validates tables with spurious ε-reductions that loop on a lookahead no
sentence can have (e.g. `S → a | A c; A → B A; B → ε` with `c ∈ FIRST(A)`: the state reached
over `B` reduces `B → ε` on `c` and returns to itself) — hence the separate, checked hypothesis. -/
theorem C08_terminates {A : Automaton} (hT : TermOK A) (w : List Token) :
    ∃ fuel, run A fuel w ≠ .outOfFuel :=
  run_terminates hT w

/-- **Counterexample: `Valid` alone does not give termination.**  A hand-built table for
`S → a | A c ; A → B A ; B → ε` whose certificate carries a closed but not least FIRST table
(`c ∈ FIRST(A)`) satisfies `Valid`, fails the termination analysis, and on the input `c` is
still running after 200 steps (it reduces `B → ε` on `c` forever).  Not an output of the real
generator (which computes least FIRST sets); it shows why `C08_terminates` needs `TermOK`. -/
theorem C08_valid_not_terminating_counterexample :
    Valid TermCex.G TermCex.A TermCex.C ∧ ¬ TermOK TermCex.A ∧
      run TermCex.A 200 [⟨6, 0⟩] = .outOfFuel :=
  ⟨TermCex.valid, TermCex.notTermOK, TermCex.loops⟩

/-- **Total correctness.**  Over tables that validate and pass the termination analysis every
token list is decided: with enough fuel the run either accepts with a derivation of `w`, or
reports a syntax error, and then `w` is not a sentence. -/
theorem C08_decides {G : Grammar} {A : Automaton} {C : Cert} (hv : Valid G A C) (hT : TermOK A)
    (w : List Token) :
    ∃ fuel, (∃ t, run A fuel w = .accept t ∧ Derives G t w) ∨
      (∃ code i s e, run A fuel w = .error code i s e ∧ ¬ Sentence G w) := by
  obtain ⟨fuel, hf⟩ := C08_terminates hT w
  refine ⟨fuel, ?_⟩
  cases hr : run A fuel w with
  | accept t => exact Or.inl ⟨t, rfl, C08_sound hv hr⟩
  | error code i s e => exact Or.inr ⟨code, i, s, e, rfl, no_sentence_of_error hv hr (fun _ _ => rfl)⟩
  | internal m => exact absurd hr (C08_safe hv w fuel m)
  | outOfFuel => exact absurd hr hf

/-- Accepting runs terminate also without the analysis (from completeness). -/
theorem C08_terminates_accepting {G : Grammar} {A : Automaton} {C : Cert} (hv : Valid G A C)
    {w : List Token} (hs : Sentence G w) : ∃ fuel t, run A fuel w = .accept t := by
  obtain ⟨t, hd⟩ := hs
  obtain ⟨f, hf⟩ := run_complete hv hd
  exact ⟨f, t, hf f (Nat.le_refl _)⟩

/-! ### Level B: the generator model `gen` (Model/Lr1Gen.lean)

`gen G` models `Grammar(start, productions).parser()`: `_compute_symbols`, the FIRST fixed point
(`_compute_seed_firsts`: rounds until nothing is added), the worklist closure, `_parallel_goto`,
the breadth-first numbering of `_items`, the ACTION loop with its conflict check, goto trimming.
It is compared **exactly** with the real generator on every grammar of the run (driver op `GEN`:
item sets, numbering, conflict flag, tables).  The theorems below are about every grammar. -/

/-- **Level B: the generator is correct by construction.**  Whenever the generator model returns
tables without conflicts, these tables — with the item sets it built, in the order it found the
items, and its own FIRST table as certificate — satisfy all nine conditions of the validator:
`Valid`.  (`WfG G`: the client's productions do not use the reserved symbols `$` and `S'`.)  So
"the generator builds a parser for exactly the grammar's language" is a theorem about the
generator model, not only a per-table validation. -/
theorem C08_gen_valid {G : Grammar} {o : Gen.Out} (h : gen G = some o) (hW : WfG G)
    (hc : o.conflicts = false) : Valid G o.aut o.cert :=
  gen_valid h hW hc

/-- **Level B: exactly the grammar's language, unambiguously, without exceptions** — the
consequences of `C08_gen_valid` for the generated tables: the parser accepts `w` with tree `t`
iff `t` is a derivation of `w`; a grammar with two derivations of one string is never
conflict-free; the driver never raises on any token list. -/
theorem C08_gen_correct {G : Grammar} {o : Gen.Out} (h : gen G = some o) (hW : WfG G)
    (hc : o.conflicts = false) :
    (∀ (w : List Token) (t : Tree), (∃ fuel, run o.aut fuel w = .accept t) ↔ Derives G t w) ∧
    (∀ (w : List Token) (t₁ t₂ : Tree), Derives G t₁ w → Derives G t₂ w → t₁ = t₂) ∧
    (∀ (w : List Token) (fuel : Nat) (m : String), run o.aut fuel w ≠ .internal m) :=
  have hv := C08_gen_valid h hW hc
  ⟨fun _ t => C08_accepts_iff hv t, fun _ _ _ h₁ h₂ => C08_unambiguous hv h₁ h₂,
    fun w fuel m => C08_safe hv w fuel m⟩

/-- **Level B: the fuel bounds suffice.**  The generator model never answers "out of fuel": the FIRST
iteration stops within `n·(n+1) + 2` rounds (`n` = number of symbol codes: every round that does not
stop adds a (nonterminal, terminal-or-ε) fact), every worklist closure within
`|rules|·(maxrhs+1)·n + |seed|` iterations (only dot-0 items are added, each once), and the
breadth-first construction within `2 ^ (|rules|·(maxrhs+1)·n) + 2` steps (states are pairwise
different sorted duplicate-free lists of items, i.e. sublists of the sorted list of all items). -/
theorem C08_gen_fuel_sufficient {G : Grammar} (hW : WfG G) : ∃ o, gen G = some o :=
  gen_some hW

/-- **Level B, in one statement.**  For every grammar that does not use the reserved symbols the
generator model returns tables, and they either carry the conflict flag or validate — hence
(`C08_accepts_iff`, `C08_unambiguous`, `C08_safe`, `C08_error_position`) parse exactly the
grammar's language. -/
theorem C08_gen_total {G : Grammar} (hW : WfG G) :
    ∃ o, gen G = some o ∧ (o.conflicts = true ∨ Valid G o.aut o.cert) := by
  obtain ⟨o, h⟩ := C08_gen_fuel_sufficient hW
  refine ⟨o, h, ?_⟩
  cases hc : o.conflicts with
  | true => exact Or.inl rfl
  | false => exact Or.inr (C08_gen_valid h hW hc)

/-- **Level B: ambiguous grammars are reported.**  If some token string has two different
derivations, the generator model reports conflicts. -/
theorem C08_gen_ambiguous_conflicts {G : Grammar} {o : Gen.Out} (h : gen G = some o) (hW : WfG G)
    {w : List Token} {t₁ t₂ : Tree} (h₁ : Derives G t₁ w) (h₂ : Derives G t₂ w) (hne : t₁ ≠ t₂) :
    o.conflicts = true := by
  cases hc : o.conflicts with
  | true => rfl
  | false => exact absurd (C08_unambiguous (C08_gen_valid h hW hc) h₁ h₂) hne

/-- **Level B, `_closure_of_item`.**  The worklist closure contains its seed, is closed, and
everything it adds is a dot-0 item that some item of the result brings in (no junk). -/
theorem C08_gen_closure {C : Cert} {seed S : List Item} (h : Gen.closure C seed = some S) :
    (∀ x ∈ seed, x ∈ S) ∧ Gen.Closed C S ∧
      (∀ x ∈ S, x ∈ seed ∨ (x.dot = 0 ∧ ∃ y ∈ S, x ∈ Gen.succsOf C y)) :=
  Gen.closure_spec h

/-- **Level B, `_parallel_goto`.**  `goto(I, x)` contains the advance of every item of `I` with
`x` after the dot, is closed, and each of its items is a dot-0 item or such an advance (the item
condition of the validator's `VKernel`). -/
theorem C08_gen_goto {C : Cert} {I J : List Item} {x : Nat} (h : Gen.gotoSet C I x = some J) :
    (∀ it ∈ I, C.nextSyms it = [x] → Gen.advance it ∈ J) ∧ Gen.Closed C J ∧
    (∀ y ∈ J, y.dot = 0 ∨ ∃ it ∈ I, C.nextSyms it = [x] ∧ y = Gen.advance it) :=
  Gen.gotoSet_spec h

/-- **Error position.**  If the tables validate and every nonterminal is productive, an error
reported at index `i` is raised at the first token no sentence can continue with: the consumed
input `w[:i]` is a prefix of a sentence, and no sentence agrees with `w` on positions `≤ i` —
in particular none starts with `w[:i+1]`, and `w` itself is not a sentence.  (Index `|w|` is
the implicit end-of-input token.) -/
theorem C08_error_position {G : Grammar} {A : Automaton} {C : Cert} (hv : Valid G A C)
    (hr : Reduced G) {w : List Token} {fuel : Nat} {code : Option Nat} {i s : Nat} {e : List Nat}
    (h : run A fuel w = .error code i s e) :
    ViablePrefix G (w.take i) ∧
    (i < w.length → ∀ v, ¬ Sentence G (w.take (i + 1) ++ v)) ∧
    ¬ Sentence G w := by
  refine ⟨runFrom_error_viable hv hr w fuel init (inv_init w) (grounded_init hv hr) code i s e h, ?_, ?_⟩
  · intro hi v
    refine no_sentence_of_error hv h (fun j hj => ?_)
    have hj' : j < (w.take (i + 1)).length := by simp; omega
    rw [List.getElem?_append_left hj', List.getElem?_take]
    simp [Nat.lt_succ_of_le hj]
  · exact no_sentence_of_error hv h (fun _ _ => rfl)

/-- **The hypothesis `Reduced G` is checkable.**  `Gen.reducedB G` — the marking loop for
productive nonterminals, run by the driver (op `REDUCED`) for every grammar whose tables are
validated, the two Emboss grammars included, and compared with the harness's own oracle — implies
`Reduced G`. -/
theorem C08_reduced_check_sound {G : Grammar} (h : Gen.reducedB G = true) : Reduced G :=
  reducedB_sound h

/-- **Error position, all hypotheses executable**: tables that pass the compiled validator, for a
grammar that passes the productivity check, report every syntax error at the first token no
sentence can continue with. -/
theorem C08_error_position_checked {G : Grammar} {A : Automaton} {C : Cert}
    (hv : validFast G A C = true) (hr : Gen.reducedB G = true)
    {w : List Token} {fuel : Nat} {code : Option Nat} {i s : Nat} {e : List Nat}
    (h : run A fuel w = .error code i s e) :
    ViablePrefix G (w.take i) ∧
    (i < w.length → ∀ v, ¬ Sentence G (w.take (i + 1) ++ v)) ∧
    ¬ Sentence G w :=
  C08_error_position (C08_validator_sound hv) (C08_reduced_check_sound hr) h

/-- **Error position for the generator model** (after the repair of finding F10: `Grammar.parser()`
reports nonterminals that derive no terminal string together with the conflicts).  For every
output of the generator model without a report — no conflict, no unproductive nonterminal — an
error is raised at the first token no sentence can continue with; the hypothesis `Reduced G` of
`C08_error_position` is discharged by the generator's own productivity check. -/
theorem C08_gen_error_position {G : Grammar} {o : Gen.Out} (h : gen G = some o) (hW : WfG G)
    (hc : o.conflicts = false)
    {w : List Token} {fuel : Nat} {code : Option Nat} {i s : Nat} {e : List Nat}
    (he : run o.aut fuel w = .error code i s e) :
    ViablePrefix G (w.take i) ∧
    (i < w.length → ∀ v, ¬ Sentence G (w.take (i + 1) ++ v)) ∧
    ¬ Sentence G w :=
  C08_error_position (C08_gen_valid h hW hc) (gen_reduced h hW hc) he

/-! ### non-vacuity and the counterexample (tables regenerated from the real lr1.py) -/
open Examples

-- test: the example tables (S → A b; A → a A | ε) validate, accept `a a b` with the expected
-- tree, and reject `a a` at end of input
example : Valid exG exA exC := exValid
example : run exA 20 [⟨5, 0⟩, ⟨5, 1⟩, ⟨4, 2⟩] =
    .accept (.node ⟨2, [3, 4]⟩ [.node ⟨3, [5, 3]⟩ [.leaf ⟨5, 0⟩,
      .node ⟨3, [5, 3]⟩ [.leaf ⟨5, 1⟩, .node ⟨3, []⟩ []]], .leaf ⟨4, 2⟩]) := by decide
example : run exA 20 [⟨5, 0⟩, ⟨5, 1⟩] = .error none 2 3 [4, 5] := by decide
-- test (tables and result regenerated from the real code): a client token whose symbol is the
-- end-of-input marker (code 0) is a syntax error at its own index, not "accept what came before"
example : run exA 60 [⟨5, 0⟩, ⟨0, 1⟩, ⟨5, 2⟩] = .error none 1 3 [4, 5] := exRun3
example : run exA 60 [⟨5, 0⟩, ⟨4, 1⟩, ⟨0, 2⟩] = .error none 2 4 [0] := exRun5
-- tie (tables and results regenerated from generated/cached_parser.py and the real `Parser.parse` on every run,
-- decided by the kernel): `run` on the rows of the shipped Emboss module / expression tables
example := EmbossRuns.moduleRun0
example := EmbossRuns.expressionRun0
-- test: the example tables (regenerated from the real code) pass the termination analysis
example : TermOK exA := by decide
example : TermOK f10A := by decide
-- test: the generator model runs on the example grammar (no conflicts, as many states as the real
-- parser has) and reports conflicts for the ambiguous `S → S a S | b`
example : (gen exG).map (fun o => (o.conflicts, o.cert.items.size)) = some (false, exC.items.size) := by
  decide +kernel
-- test: the hypotheses of `C08_gen_valid` are met by the example grammar
example : WfG exG ∧ (gen exG).map (·.conflicts) = some false := ⟨by decide, by decide +kernel⟩
example : (gen ⟨2, [⟨2, [2, 3, 2]⟩, ⟨2, [4]⟩], 1, 0⟩).map (·.conflicts) = some true := by decide +kernel
example : (Gen.closure exC [⟨2, 0, 0⟩]).isSome = true := by decide
-- test: the productivity check accepts the example grammar and rejects the F10 grammar
example : Gen.reducedB exG = true ∧ Gen.reducedB f10G = false := by decide
example : Reduced exG :=
  ⟨by
    have hA : Productive exG 3 := ⟨.node ⟨3, []⟩ [], ParseTree.node _ _ (by decide) (by simp) rfl, rfl⟩
    have hS : Productive exG 2 :=
      ⟨.node ⟨2, [3, 4]⟩ [.node ⟨3, []⟩ [], .leaf ⟨4, 0⟩],
        ParseTree.node _ _ (by decide)
          (by
            intro c hc
            simp only [List.mem_cons, List.mem_nil_iff, or_false] at hc
            rcases hc with rfl | rfl
            · exact ParseTree.node _ _ (by decide) (by simp) rfl
            · exact ParseTree.leaf _ (by decide)) rfl, rfl⟩
    intro p hp
    simp only [exG, List.mem_cons, List.mem_nil_iff, or_false] at hp
    rcases hp with rfl | rfl | rfl
    · exact hS
    · exact hA
    · exact hA,
   ⟨.node ⟨2, [3, 4]⟩ [.node ⟨3, []⟩ [], .leaf ⟨4, 0⟩],
        ParseTree.node _ _ (by decide)
          (by
            intro c hc
            simp only [List.mem_cons, List.mem_nil_iff, or_false] at hc
            rcases hc with rfl | rfl
            · exact ParseTree.node _ _ (by decide) (by simp) rfl
            · exact ParseTree.leaf _ (by decide)) rfl, rfl⟩⟩

-- test: the grammar of the former finding F10 is now reported by the generator model
example : (gen f10G).map (·.conflicts) = some true := by decide +kernel

/-- **Counterexample (former finding F10; the generator now reports this grammar, see
`C08_gen_error_position`).**  Without productivity `C08_error_position` is false on
the real tables: for `S → a B | a c ; B → b B` the (validated) parser consumes `a b` and reports
the error at index 2 (end of input), although no sentence starts with `a b`. -/
theorem C08_error_position_unproductive_counterexample :
    Valid f10G f10A f10C ∧
    run f10A 20 [⟨3, 0⟩, ⟨6, 1⟩] = .error none 2 4 [6] ∧
    ¬ ViablePrefix f10G ([⟨3, 0⟩, ⟨6, 1⟩].take 2) := by
  refine ⟨f10Valid, by decide, ?_⟩
  intro ⟨v, t, hp, hroot, hy⟩
  cases hp with
  | leaf tok hnt =>
    simp only [Tree.root] at hroot
    rw [hroot] at hnt
    revert hnt; decide
  | node p cs hpm hcs hroots =>
    simp only [f10G, List.mem_cons, List.mem_nil_iff, or_false] at hpm
    rcases hpm with rfl | rfl | rfl
    · obtain ⟨c1, c2, rfl, _, h2⟩ := map_root_pair hroots
      exact f10_no_tree_for_B (hcs c2 (by simp)) h2
    · obtain ⟨c1, c2, rfl, h1, h2⟩ := map_root_pair hroots
      obtain ⟨t1, rfl⟩ := leaf_of_terminal_root (hcs c1 (by simp)) (by rw [h1]; decide)
      obtain ⟨t2, rfl⟩ := leaf_of_terminal_root (hcs c2 (by simp)) (by rw [h2]; decide)
      simp only [Tree.yield, Tree.yieldL, List.take, List.cons_append, List.nil_append,
        List.append_nil, List.cons.injEq] at hy
      have h2' : t2.sym = 5 := h2
      rw [hy.2.1] at h2'
      cases h2'
    · cases hroot

end Emboss.Lr1
