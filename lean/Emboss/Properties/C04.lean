/-
C04 — Checked view operations never leave the buffer or hit undefined behaviour.

Layer 2 of DESIGN §7 C04 (byte-window contract) for the view model `G` of C01.  The two defects
found in round 1 (NullByteOrderer size, unguarded virtual-field write) are repaired in /repo
(a39ac01, 1e1a793): the model follows the repaired code, the former counterexamples are
regression `example`s here and corpus entries of the check.  Layer 1 (arithmetic overflow
freedom) is builder `bounds`' `Emboss/Properties/C04Arith.lean`, restated here as
`C04_arith_no_overflow`.
Layer 3 (sanitized correspondence) is harness/corr/C04.py.  Real memory safety is claimed only as
far as the model and the sanitizers reach (pointer formation, aliasing, the compiler's view of UB
are outside both): level *partial*.

Round 3, text layer: `C04_text_buffer_in_bounds` — the scratch array of `WriteIntegerToTextStream`
(emboss_text_util.h) is never indexed outside `[0, size)`, for every value of every integer type,
base and grouping; size formula and offsets regenerated from the header text
(Generated/TextBuf.lean), control flow = `Emboss.Text.writeInt` (tied by C06's correspondence).
-/
import Emboss.Model.Window
import Emboss.Properties.C04Arith
import Emboss.Lemmas.TextBufBound
namespace Emboss.View

theorem Window.sub_safe {w : Window} {total : Nat} (h : w.safe total) (offset size : Nat) :
    (w.sub offset size).safe total := by
  unfold Window.safe Window.valid Window.sub at *
  simp only
  split
  · exact Or.inl rfl
  · rcases h with h | h
    · left; omega
    · right; omega

/-- `GetOffsetStorage` clamps: the storage handed to a field view never extends past the storage
it was taken from, whatever offset and size the (possibly garbage) message contains. -/
theorem C04_getOffsetStorage_in_bounds (w : Window) (total offset size : Nat) (h : w.safe total) :
    ∀ i ∈ (w.sub offset size).indices, i < total := by
  intro i hi
  have hs := Window.sub_safe h offset size
  unfold Window.indices at hi
  rw [List.mem_range'_1] at hi
  rcases hs with h0 | hv
  · omega
  · unfold Window.valid at hv; omega

/-- Every chain of accessors (`view.a().b()[i].c()` …: any sequence of `GetOffsetStorage` calls
with arbitrary offsets and sizes) starting from a view over a buffer of `total` bytes yields a
window whose bytes are all inside the buffer. -/
theorem C04_accesses_in_bounds (total : Nat) (path : List (Nat × Nat)) :
    ∀ i ∈ (path.foldl (fun (w : Window) p => w.sub p.1 p.2) ({ off := 0, len := total } : Window)).indices,
      i < total := by
  have key : ∀ (path : List (Nat × Nat)) (w : Window), w.safe total →
      (path.foldl (fun (w : Window) p => w.sub p.1 p.2) w).safe total := by
    intro path
    induction path with
    | nil => intro w h; exact h
    | cons p ps ih => intro w h; exact ih _ (Window.sub_safe h p.1 p.2)
  have hs := key path { off := 0, len := total } (Or.inr (by simp [Window.valid]))
  intro i hi
  unfold Window.indices at hi
  rw [List.mem_range'_1] at hi
  rcases hs with h0 | hv
  · omega
  · unfold Window.valid at hv; omega

/-- The list-slice storage of the view model `G` *is* the pointer window: what `G` reads from
`Storage.sub` are exactly the buffer bytes at the window's indices. -/
theorem C04_window_is_slice (buf : List Nat) (w : Window) (offset size : Nat) :
    (buf.drop (w.sub offset size).off).take (w.sub offset size).len =
      (((buf.drop w.off).take w.len).drop offset).take size := by
  unfold Window.sub
  simp only
  rw [List.drop_take, List.drop_drop, List.take_take]
  split
  · rename_i h
    have : min size (w.len - offset) = 0 := by omega
    rw [this]
  · rfl

/-! ### byte orderers: what `BitBlock<Orderer<buffer>, 8·k>` reads -/

/-- A `BitBlock` that is Ok reads inside the buffer, for every byte orderer (little-endian,
big-endian, and the null orderer of one-byte fields without a byte order).  Until fix a39ac01
the null orderer answered `SizeInBytes() = 1` over an empty window and this failed for it
(regression input: corpus/C04/null_order_truncated.emb, `OBS Foo 01`). -/
theorem C04_bitblock_reads_in_bounds (bo : ByteOrder) (k total : Nat) (w : Window)
    (h : w.safe total) : ∀ i ∈ bitBlockReads bo k w, i < total := by
  intro i hi
  unfold bitBlockReads ordererSize at hi
  split at hi
  · rename_i hk
    rw [List.mem_range'_1] at hi
    rcases h with h0 | hv
    · omega
    · unfold Window.valid at hv; omega
  · cases hi

/-- non-vacuity, and the former counterexample as a regression test: `struct Foo: 0 [+1] UInt x
1 [+1] UInt y` (null byte order) over a 1-byte buffer: `y()`'s storage is the empty window at
offset 1 and the `BitBlock` is *not* Ok any more — nothing is read; over 2 bytes it reads index 1. -/
example :
    bitBlockReads .null 1 (({ off := 0, len := 1 } : Window).sub 1 1) = [] ∧
    bitBlockReads .null 1 (({ off := 0, len := 2 } : Window).sub 1 1) = [1] := by decide

/-! ### virtual-field writes: range check first, then the inverse transform -/

/-- `CouldWriteValue` / `TryToWrite` of an arithmetic virtual field (`let v = x - 10`,
`x : UInt:8`: `lo = -10`, `hi = 245`, inverse transform `v + 10`): since fix 1e1a793 the argument
is compared with the field's inferred range *before* the inverse transform is computed, so for
**every** argument of the accessor's value type (garbage, `INT32_MAX`, …) the addition is either
not executed or cannot overflow, provided the transform is overflow-free on the inferred range
itself (which is `C04_arith_no_overflow`'s subject: the range of `v + 10` is the range of `x`). -/
theorem C04_virtual_write_checked_no_overflow (lo hi k : Int)
    (hlo : -2147483648 ≤ lo + k) (hhi : hi + k ≤ 2147483647) (v : Int) :
    virtWriteI32 lo hi k v = some (decide (lo ≤ v ∧ v ≤ hi)) := by
  unfold virtWriteI32 addI32
  by_cases h : v < lo ∨ v > hi
  · rw [if_pos h]; congr 1; symm; apply decide_eq_false; omega
  · rw [if_neg h, if_pos (by omega)]
    simp only [Option.map_some]; congr 1; symm; apply decide_eq_true; omega

/-- non-vacuity + the former counterexample (finding F3,
`ubsan:virtual-field-CouldWriteValue-extreme-argument`) as a regression test: the unguarded sum
overflows for `INT32_MAX`; the guarded one answers "not writable" without computing it. -/
example :
    addI32 2147483647 10 = none ∧ virtWriteI32 (-10) 245 10 2147483647 = some false ∧
    virtWriteI32 (-10) 245 10 245 = some true := by decide

/-! ### arithmetic (layer 1) -/

/-- Layer 1, restated from `Emboss.Properties.C04Arith` (builder `bounds`; model
`Emboss/Model/CppArith.lean`): for every expression whose annotated tree passes the 64-bit gate
of `constraints.py` (and whose referenced virtual fields pass it too), with leaves holding values
of their physical types, the generated fixed-width C++ evaluation (operands cast to
`IntermediateT`, result cast to `ResultT`, types chosen by `_cpp_integer_type_for_range`) never
overflows, never truncates and yields the unbounded-ℤ value the view model `G` computes with —
or the header does not compile (`Choice` static_assert).  The types `IntermediateT/ResultT` this
theorem reasons about (`Emboss.Bounds.opTypes`/`nodeTypes`) are compared with the ones literally
present in every generated header by harness/corr/C04.py (`TYPES` tie). -/
theorem C04_arith_no_overflow (ρ : Emboss.Bounds.Env) (e : Emboss.Bounds.Expr)
    (t : Emboss.Bounds.ATree) (v : Emboss.Bounds.CVal)
    (hann : Emboss.Bounds.annot e = some t) (hgate : Emboss.Bounds.gate t = some [])
    (henv : Emboss.Bounds.EnvOk ρ e) (hev : Emboss.Bounds.eval ρ e = some v)
    (hvref : Emboss.Bounds.vrefsGated e = true) :
    Emboss.Bounds.cppEval ρ e = .ok v ∨ Emboss.Bounds.cppEval ρ e = .staticAssert :=
  Emboss.Bounds.C04_no_overflow ρ e t v hann hgate henv hev hvref

/-- non-vacuity of `C04_arith_no_overflow` on the shape seeded change C04-m2 targets:
`0 - x` over `Int:32 x` holding `INT32_MIN`: range `-(2^31-1) .. 2^31` needs `int64_t`; the model
picks it (`opTypes`) and the evaluation is exact. -/
example :
    let e : Emboss.Bounds.Expr := .bin .sub (.const 0) (.ileaf 0 .sint (some 32))
    let ρ : Emboss.Bounds.Env := ⟨fun _ => -2147483648, fun _ => false, fun _ => 0⟩
    (∃ t, Emboss.Bounds.annot e = some t ∧ Emboss.Bounds.gate t = some []) ∧
      Emboss.Bounds.cppEval ρ e = .ok (.int 2147483648) ∧
      Emboss.Bounds.opTypes e = some [(some .i64, some .i64)] := by
  refine ⟨⟨_, rfl, by decide +kernel⟩, by decide +kernel, by decide +kernel⟩

/-- non-vacuity of the window theorems: a 4-byte buffer, field at offset 2 of size 5 (clamped to
2 bytes), then element 1 of size 1 inside it; a field at offset 9 yields an empty window. -/
example :
    ((({ off := 0, len := 4 } : Window).sub 2 5).sub 1 1) = { off := 3, len := 1 } ∧
    (({ off := 0, len := 4 } : Window).sub 9 2) = { off := 9, len := 0 } ∧
    (([10, 11, 12, 13].drop 3).take 1 = [13]) := by
  decide

end Emboss.View

/-! ### text layer: the scratch array of `WriteIntegerToTextStream` (round 3) -/

namespace Emboss.Text
open Emboss.Generated.TextBuf

/-- `WriteIntegerToTextStream<T>(x, stream, base, grouping)` (runtime/cpp/emboss_text_util.h)
fills `char buffer[buffer_size]` from the right through `next_char` and hands
`buffer + 1 + next_char` to `stream->Write`.  For **every** integer type `T` the function is
instantiated with, every value `x` of that type, every base and both grouping settings, every
index the function touches — the `'\0'` store, each `buffer[next_char] = c` (so also each
`EMBOSS_DCHECK_GE(next_char, 0)`), and the start of the final read — lies in `[0, buffer_size)`.

* `bufferSize`, the NUL index and the initial `next_char` are **regenerated from the header text**
  on every run (harness/translate/textbuf.py → Generated/TextBuf.lean): shrinking the formula
  (seeded change C04-m1: `+ 3` → `+ 2`) makes this proof fail and re-opens the obligation.
* `writeIntTrace` (Model/TextBuf.lean) mirrors the index arithmetic statement by statement;
  `writeIntTrace_eq` shows it is `(writeInt T x base grouping).length` consecutive stores, and
  `writeInt` is compared with the real function on every run of C06 (`model_c06`).
* Assumes `CHAR_BIT = 8` (`T.bits = sizeof(T) * CHAR_BIT`) and that `int` holds the size (≤ 75). -/
theorem C04_text_buffer_in_bounds (T : IntTy) (x : Int) (base : Base) (grouping : Bool)
    (hx : T.InRange x) :
    ∀ i ∈ writeIntTrace (bufferSize T.bits) T x base grouping,
      0 ≤ i ∧ i < (bufferSize T.bits : Int) :=
  writeIntTrace_in_bounds T x base grouping hx

/-- The trace really is what the C++ does with `next_char`: NUL store at `size - 1`, then exactly
one store per character of `writeInt` at `size - 2, size - 3, …`, then the read start. -/
theorem C04_text_buffer_trace_is_writeInt (size : Nat) (T : IntTy) (x : Int) (base : Base)
    (grouping : Bool) :
    writeIntTrace size T x base grouping =
      ((size : Int) - 1) ::
        ((List.range (writeInt T x base grouping).length).map
            (fun (k : Nat) => (size : Int) - 2 - (k : Int)) ++
          [1 + ((size : Int) - 2 - ((writeInt T x base grouping).length : Int))]) := by
  have hn : nulBack = 1 := by decide
  have hf : firstBack = 2 := by decide
  rw [writeIntTrace_eq, hn, hf]
  rfl

/-- non-vacuity / tests (`decide`, concrete inputs): the hypotheses are met by the extreme value
of every width; the bound is **attained** — `-0b10000000` needs all 12 chars of the `int8_t`
array, first store at index 10, last at 0, read from 0; for `int64_t` 75 of 75. -/
example :
    IntTy.i8.InRange (-128) ∧ IntTy.u64.InRange 18446744073709551615 ∧
    bufferSize IntTy.i8.bits = 12 ∧ bufferSize IntTy.i64.bits = 75 ∧
    writeIntTrace 12 .i8 (-128) .b2 true = [11, 10, 9, 8, 7, 6, 5, 4, 3, 2, 1, 0, 0] ∧
    writeIntTrace 12 .i8 0 .b10 false = [11, 10, 10] ∧
    writeIntTrace 12 .u8 255 .b16 true = [11, 10, 9, 8, 7, 7] ∧
    (writeIntTrace 75 .i64 (-9223372036854775808) .b2 true).getLast? = some 0 ∧
    (writeIntTrace 75 .i64 (-9223372036854775808) .b2 true).length = 76 := by decide +kernel

/-- Witness (a test by evaluation, labelled as such) that the size is tight: with an array one
char shorter — what seeded change C04-m1 produces — `int8_t`, `-128`, base 2, grouping stores
`'-'` at index −1 (the real code: `EMBOSS_DCHECK_GE(next_char, 0)` abort, or a stack write out of
bounds in NDEBUG builds). -/
theorem C04_text_buffer_tight_counterexample :
    (-1 : Int) ∈ writeIntTrace (bufferSize IntTy.i8.bits - 1) .i8 (-128) .b2 true ∧
    IntTy.i8.InRange (-128) := by decide +kernel

end Emboss.Text
