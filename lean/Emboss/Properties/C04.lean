/-
C04 — Checked view operations never leave the buffer or hit undefined behaviour.

Layer 2 of DESIGN §7 C04 (byte-window contract) for the view model `G` of C01, plus the two
counterexamples found on the pinned tree.  Layer 1 (arithmetic overflow freedom,
`C04_no_overflow`) is builder `bounds`' `Emboss/Properties/C04Arith.lean`:
  -- TODO(after merge): import Emboss.Properties.C04Arith
Layer 3 (sanitized correspondence) is harness/corr/C04.py.  Real memory safety is claimed only as
far as the model and the sanitizers reach (pointer formation, aliasing, the compiler's view of UB
are outside both): level *partial*.
-/
import Emboss.Model.Window
namespace Emboss.View

theorem Window.sub_safe {w : Window} {total : Nat} (h : w.safe total) (offset size : Nat) :
    (w.sub offset size).safe total := by
  unfold Window.safe Window.valid Window.sub at *
  simp only
  split
  · exact Or.inl rfl
  · rcases h with h | h
    · left; omega
    · right; omega

/-- `GetOffsetStorage` clamps: the storage handed to a field view never extends past the storage
it was taken from, whatever offset and size the (possibly garbage) message contains. -/
theorem C04_getOffsetStorage_in_bounds (w : Window) (total offset size : Nat) (h : w.safe total) :
    ∀ i ∈ (w.sub offset size).indices, i < total := by
  intro i hi
  have hs := Window.sub_safe h offset size
  unfold Window.indices at hi
  rw [List.mem_range'_1] at hi
  rcases hs with h0 | hv
  · omega
  · unfold Window.valid at hv; omega

/-- Every chain of accessors (`view.a().b()[i].c()` …: any sequence of `GetOffsetStorage` calls
with arbitrary offsets and sizes) starting from a view over a buffer of `total` bytes yields a
window whose bytes are all inside the buffer. -/
theorem C04_accesses_in_bounds (total : Nat) (path : List (Nat × Nat)) :
    ∀ i ∈ (path.foldl (fun (w : Window) p => w.sub p.1 p.2) ({ off := 0, len := total } : Window)).indices,
      i < total := by
  have key : ∀ (path : List (Nat × Nat)) (w : Window), w.safe total →
      (path.foldl (fun (w : Window) p => w.sub p.1 p.2) w).safe total := by
    intro path
    induction path with
    | nil => intro w h; exact h
    | cons p ps ih => intro w h; exact ih _ (Window.sub_safe h p.1 p.2)
  have hs := key path { off := 0, len := total } (Or.inr (by simp [Window.valid]))
  intro i hi
  unfold Window.indices at hi
  rw [List.mem_range'_1] at hi
  rcases hs with h0 | hv
  · omega
  · unfold Window.valid at hv; omega

/-- The list-slice storage of the view model `G` *is* the pointer window: what `G` reads from
`Storage.sub` are exactly the buffer bytes at the window's indices. -/
theorem C04_window_is_slice (buf : List Nat) (w : Window) (offset size : Nat) :
    (buf.drop (w.sub offset size).off).take (w.sub offset size).len =
      (((buf.drop w.off).take w.len).drop offset).take size := by
  unfold Window.sub
  simp only
  rw [List.drop_take, List.drop_drop, List.take_take]
  split
  · rename_i h
    have : min size (w.len - offset) = 0 := by omega
    rw [this]
  · rfl

/-! ### byte orderers: what `BitBlock<Orderer<buffer>, 8·k>` reads -/

/-- With the little/big-endian orderers a `BitBlock` that is Ok reads inside the buffer. -/
theorem C04_bitblock_reads_in_bounds (bo : ByteOrder) (hbo : bo ≠ .null) (k total : Nat) (w : Window)
    (h : w.safe total) : ∀ i ∈ bitBlockReads bo k w, i < total := by
  intro i hi
  unfold bitBlockReads at hi
  have hsz : ordererSize bo w = w.len := by cases bo <;> simp_all [ordererSize]
  rw [hsz] at hi
  split at hi
  · rename_i hk
    rw [List.mem_range'_1] at hi
    rcases h with h0 | hv
    · omega
    · unfold Window.valid at hv; omega
  · cases hi

/-- Counterexample (finding `asan:heap-buffer-overflow:NullByteOrderer-truncated-one-byte-field`):
`struct Foo: 0 [+1] UInt x  1 [+1] UInt y` without a byte order gets the `Null` orderer; over a
1-byte buffer `y()`'s storage is the empty window at offset 1, the `BitBlock` nevertheless
reports Ok and `y().Ok()` reads the byte at index 1 of a 1-byte allocation. -/
theorem C04_null_byte_orderer_counterexample :
    (({ off := 0, len := 1 } : Window).sub 1 1).safe 1 ∧
    bitBlockReads .null 1 (({ off := 0, len := 1 } : Window).sub 1 1) = [1] ∧
    ¬ (∀ i ∈ bitBlockReads .null 1 (({ off := 0, len := 1 } : Window).sub 1 1), i < 1) := by
  refine ⟨Or.inl (by decide), by decide, ?_⟩
  intro h
  exact absurd (h 1 (by decide)) (by decide)

/-! ### virtual-field writes evaluate the inverse transform before any range check -/

/-- Counterexample (finding `ubsan:virtual-field-CouldWriteValue-extreme-argument`, F3 of DESIGN
§8): for `let v = x - 10` (`x : UInt:8`) the generated `CouldWriteValue(int32_t v)` computes
`Sum<int32_t, …>(v, 10)` before looking at `v`; `v = INT32_MAX` overflows.  Within the range the
compiler inferred for `v` (`-10..245`) the sum cannot overflow — the hypothesis `C04_no_overflow`
needs for writes. -/
theorem C04_virtual_write_overflow_counterexample :
    addI32 2147483647 10 = none ∧ ∀ v : Int, -10 ≤ v → v ≤ 245 → addI32 v 10 = some (v + 10) := by
  refine ⟨by decide, ?_⟩
  intro v h1 h2
  unfold addI32
  rw [if_pos (by omega)]

/-- non-vacuity of the window theorems: a 4-byte buffer, field at offset 2 of size 5 (clamped to
2 bytes), then element 1 of size 1 inside it; a field at offset 9 yields an empty window. -/
example :
    ((({ off := 0, len := 4 } : Window).sub 2 5).sub 1 1) = { off := 3, len := 1 } ∧
    (({ off := 0, len := 4 } : Window).sub 9 2) = { off := 9, len := 0 } ∧
    (([10, 11, 12, 13].drop 3).take 1 = [13]) := by
  decide

end Emboss.View
