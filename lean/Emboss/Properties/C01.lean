/-
C01 — Generated views report structure state and values exactly as the .emb defines;
anything reported as known from a prefix of a message keeps its value when more bytes arrive.

Property theorems only.  Model: Emboss/Model/{Expr,View,ViewObs,Synth}.lean (mirrors
header_generator.py + generated_code_templates + the runtime headers); spec pieces:
Emboss/Spec/View.lean; lemmas: Emboss/Lemmas/{ExprMono,ViewMono,ViewMono2,Synth}.lean.
-/
import Emboss.Lemmas.ViewMono2
import Emboss.Lemmas.Synth
import Emboss.Lemmas.Locality
import Emboss.Lemmas.ViewRefArray
import Emboss.Lemmas.SizeFolds
namespace Emboss.View
open Emboss.ViewSpec

/-- `Maybe`-evaluation is monotone in the information order: if every field value, parameter,
presence flag and `$logical_value` known in `e1` is known with the same value in `e2`, then every
expression known in `e1` has the same value in `e2` (strict operators, symmetric `&&`/`||`
short-circuit, `?:`, `$max`, folded constants). -/
theorem C01_expr_monotone {e1 e2 : Env} (h : EnvLe e1 e2) (e : Expr) :
    OLe (eval e1 e) (eval e2 e) :=
  eval_mono h e

/-
Full statement (DESIGN §7 C01): ∀ module, struct, params, buffers b, c: *every* observation known
on b — Ok = true, IsComplete = true, SizeIsKnown + size, has_f known, f.Ok = true + value, array
counts of complete arrays — is identical on b ++ c.

Proved below for: every field value at every path (physical scalars of every kind, virtual
fields incl. `$size_in_*`/`$max…`/`$min…`, aliases, fields of nested structures / bits at any
depth, parameters), every presence flag at every path, SizeIsKnown + size, IsComplete.
Missing: structure-level `Ok() = true` and array element counts/Ok of complete arrays (they need
the in-bounds argument "IsComplete ⇒ every present field lies inside the buffer" on top of
`C01_size_is_max_end`); these two are observed directly on the real outputs by the harness
(`cppdrv.monotone_violations`) on every prefix of every buffer.
-/
theorem C01_prefix_monotone_partial (m : Module) (hm : moduleWF m = true) (sd : StructDef)
    (hsd : structWF m sd = true) (ps : List Val) (b c : List Nat) (n : Nat) :
    (∀ p v, (G m n).read (rootView sd ps b) p = some v → (G m n).read (rootView sd ps (b ++ c)) p = some v) ∧
    (∀ p x, (G m n).has (rootView sd ps b) p = some x → (G m n).has (rootView sd ps (b ++ c)) p = some x) ∧
    (∀ sz, sizeOf? (G m n) (rootView sd ps b) = some sz → sizeOf? (G m n) (rootView sd ps (b ++ c)) = some sz) ∧
    (isComplete (G m n) (rootView sd ps b) = true → isComplete (G m n) (rootView sd ps (b ++ c)) = true) := by
  have hle := rootView_le sd ps b c
  have hg := G_mono hm n (rootView sd ps b) (rootView sd ps (b ++ c)) hle hsd
  have hsize : ∀ sz, sizeOf? (G m n) (rootView sd ps b) = some sz →
      sizeOf? (G m n) (rootView sd ps (b ++ c)) = some sz := by
    intro sz h
    unfold sizeOf? at h ⊢
    cases hr : (G m n).read (rootView sd ps b) [(rootView sd ps b).sd.sizeField] with
    | none => rw [hr] at h; cases h
    | some v =>
      have := hg.1 _ v hr
      rw [hr] at h
      simp only [rootView] at this ⊢
      rw [this]; exact h
  refine ⟨fun p v h => hg.1 p v h, fun p x h => hg.2 p x h, hsize, ?_⟩
  intro h
  unfold isComplete at h ⊢
  cases hs : sizeOf? (G m n) (rootView sd ps b) with
  | none => rw [hs] at h; cases h
  | some sz =>
    rw [hs] at h
    rw [hsize sz hs]
    simp only [rootView, Storage.ok, Storage.size, Option.isSome, Bool.true_and, decide_eq_true_eq,
      List.length_append] at h ⊢
    have h' := of_decide_eq_true h
    omega

/-
The remaining half of the full statement, for the fragment *modules without array fields*
(`moduleNoArrays`: nested structures, `bits`, anonymous bits, conditionals, virtual fields,
aliases, parameters, `[requires]` are all inside the fragment): `Ok() = true` of the structure —
and of the view at every path below it — on `b` stays true on `b ++ c`.  Arrays are excluded
because a truncated array can be Ok while a longer one is not; there monotonicity of `Ok()` needs
"IsComplete ⇒ no present field was clamped" (`C01_size_covers_present_fields` supplies the
arithmetic; the lifting to views is not carried out) and is observed on the real outputs instead.
-/
theorem C01_ok_monotone_partial (m : Module) (hm : moduleWF m = true) (hna : moduleNoArrays m = true)
    (sd : StructDef) (hsd : structWF m sd = true) (hsn : structNoArrays sd = true)
    (ps : List Val) (b c : List Nat) (n : Nat) (p : List String) :
    (G m n).okAt (rootView sd ps b) p = true → (G m n).okAt (rootView sd ps (b ++ c)) p = true :=
  G_ok_mono hm hna n (rootView sd ps b) (rootView sd ps (b ++ c)) (rootView_le sd ps b c) hsd hsn p

/-
`Ok()` with arrays.  `SizeCovers m sd` (Emboss/Lemmas/OkMonoArr.lean) is the semantic statement
"whenever a view of `sd` knows its size, every present physical field with a known non-negative
location ends at or before it" — true of the synthesized size expression
(`C01_sizeCovers_of_plain`, via `C01_size_covers_present_fields`); for the *real* IR the size
expression additionally carries the compiler's constant-folding annotations, whose soundness is
C05's subject, hence a hypothesis here (partial).
Under it: a structure that is Ok on `b` is Ok on `b ++ c`, arrays, arrays of structures, nested
structures and aliases into them included; and every present field of a complete view gets
*identical* storage on both buffers (so array element counts and elements are the same).
-/
theorem C01_ok_monotone_arrays_partial (m : Module) (hm : moduleWF m = true) (sd : StructDef)
    (hsd : structWF m sd = true) (hcov : SizeCovers m sd) (ps : List Val) (b c : List Nat) (n : Nat) :
    (G m n).okAt (rootView sd ps b) [] = true → (G m n).okAt (rootView sd ps (b ++ c)) [] = true :=
  G_ok_mono_arr hm (w1 := rootView sd ps b) hcov (rootView_le sd ps b c) hsd n

theorem C01_complete_fields_identical_partial (m : Module) (hm : moduleWF m = true) (sd : StructDef)
    (hsd : structWF m sd = true) (hcov : SizeCovers m sd) (ps : List Val) (b c : List Nat)
    (K : Nat) (sz : Int)
    (hsz : (G m (K + 1)).read (rootView sd ps b) [sd.sizeField] = some (.int sz))
    (hlen : (b.length : Int) ≥ sz)
    (k : Nat) (hk : k ≤ K) (x : String) (f : Field) (start size : Expr) (ty : PType) (bo : ByteOrder)
    (hf : sd.field x = some f) (hkind : f.kind = .phys start size ty bo) (st : Storage)
    (h1 : physStorage (G m k) (rootView sd ps b) f start size = some st) :
    physStorage (G m k) (rootView sd ps (b ++ c)) f start size = some st :=
  physStorage_tight hm (w1 := rootView sd ps b) hcov (rootView_le sd ps b c) hsd K sz hsz rfl hlen k hk
    hf hkind h1

/-- Locality ("an Ok view of size n depends only on its first n bytes"): a view that knows its
size `sz ≤ |b|` and the view over just the first `sz` bytes of `b` agree on *everything* — every
field value, every presence flag, and `Ok()` at every path, the structure's own `Ok()` included. -/
theorem C01_locality_partial (m : Module) (hm : moduleWF m = true) (sd : StructDef)
    (hsd : structWF m sd = true) (hcov : SizeCovers m sd) (ps : List Val) (b : List Nat)
    (K : Nat) (sz : Int)
    (hsz : (G m (K + 1)).read (rootView sd ps b) [sd.sizeField] = some (.int sz))
    (h0 : 0 ≤ sz) (hlen : sz ≤ b.length) (k : Nat) (hk : k ≤ K + 1) :
    Agree (G m k) (rootView sd ps (b.take sz.toNat)) (rootView sd ps b) := by
  refine tight_agree hm (w0 := rootView sd ps (b.take sz.toNat)) (w := rootView sd ps b) rfl rfl
    (rootView_take_le sd ps b _) rfl hsd hcov K sz hsz ?_ k hk
  simp only [rootView, Storage.size, List.length_take]
  omega

/-- The hypothesis `SizeCovers` holds whenever the size field is the un-folded synthesized
expression. -/
theorem C01_sizeCovers_of_plain (m : Module) (hm : moduleWF m = true) (sd : StructDef)
    (hwf : structWF m sd = true) (hp : plainSize sd) : SizeCovers m sd :=
  sizeCovers_of_plain hm hwf hp

/-- `SizeCovers` reduced to C05's subject.  `SizeFoldsExact m sd` (Lemmas/SizeFolds.lean): whenever
a view's partial environment gives the *annotated* `$size_in_*` expression the value `sz`, some
completion of that environment gives the un-annotated synthesized expression the same `sz` — the
content of `C05_constant_value_agrees` / `C05_size_bounds` (folded constants are exact in every
environment whose leaves hold values of their physical types) on the bounds model.  Under it the
hypothesis of `C01_ok_monotone_arrays_partial`, `C01_locality_partial`,
`C20_equals_ignores_padding_partial` holds.  (Result of the round-3 check "can `SizeCovers` be
discharged from `C05_sound`": not by a Lean theorem across the two models — different expression
types, partial vs. total environments — but this is the exact interface.) -/
theorem C01_sizeCovers_of_exact_folds (m : Module) (hm : moduleWF m = true) (sd : StructDef)
    (hwf : structWF m sd = true) (h : SizeFoldsExact m sd) : SizeCovers m sd :=
  sizeCovers_of_foldsExact hm hwf h

/-- … and **discharged** for a decidable class of real IRs: if every constant-folding annotation
in the structure's size expression and in its fields' conditions / locations is a *closed
constant* (`structClosedFolds`, Model/Synth.lean: the annotated node's source expression
evaluates to the literal in the environment that knows nothing — all-static structures and the
static clauses of dynamic ones; not literals derived from a range), then `SizeCovers` holds.  The
driver evaluates `structClosedFolds` on every structure of every real IR (`cov=` in the `IR`
answer); for those structures `C01_ok_monotone_arrays_partial` & co. have no semantic hypothesis
left. -/
theorem C01_sizeCovers_of_closed_folds (m : Module) (hm : moduleWF m = true) (sd : StructDef)
    (hwf : structWF m sd = true) (h : structClosedFolds sd = true) : SizeCovers m sd :=
  sizeCovers_of_foldsExact hm hwf (sizeFoldsExact_of_closed h)

/-- `Ok()` is prefix-monotone, arrays included, for every structure with closed-constant
annotations — all hypotheses decidable and evaluated by the driver on the real IR. -/
theorem C01_ok_monotone_closed_folds (m : Module) (hm : moduleWF m = true) (sd : StructDef)
    (hsd : structWF m sd = true) (hcf : structClosedFolds sd = true) (ps : List Val) (b c : List Nat)
    (n : Nat) :
    (G m n).okAt (rootView sd ps b) [] = true → (G m n).okAt (rootView sd ps (b ++ c)) [] = true :=
  C01_ok_monotone_arrays_partial m hm sd hsd (C01_sizeCovers_of_closed_folds m hm sd hsd hcf) ps b c n

/-- More fuel never changes an answer that was already known (so the fuel the driver uses is
immaterial once `fuelOK` holds). -/
theorem C01_fuel_monotone (m : Module) (hm : moduleWF m = true) (w : SView)
    (hw : structWF m w.sd = true) (n : Nat) :
    (∀ p v, (G m n).read w p = some v → (G m (n + 1)).read w p = some v) ∧
    (∀ p x, (G m n).has w p = some x → (G m (n + 1)).has w p = some x) := by
  have hg := G_fuel_mono hm n w w (VLe.refl w) hw
  exact ⟨fun p v h => hg.1 p v h, fun p x h => hg.2 p x h⟩

/-- The synthesized `$size_in_bytes`/`$size_in_bits` expression evaluates to the reference size:
the largest end `start + size` over the present physical fields, `0` if there is none; it is
unknown exactly when a presence, or the location of a present field, is unknown
(`ViewSpec.size`).  (`sizeIsSynth`, checked by the driver on every real IR, says the real
expression is `synthSize` up to folding annotations.) -/
theorem C01_size_is_max_end (env : Env) (fs : List Field) :
    eval env (synthSize fs) = (ViewSpec.size (extents env fs)).map Val.int :=
  eval_synthSize env fs

/-- Consequently a view whose size is known to be `r` has every present, located physical field
inside `[0, r)`: `IsComplete()` (buffer length ≥ `r`) means no present field was clamped — the
fact behind "an Ok view of size n depends only on its first n bytes". -/
theorem C01_size_covers_present_fields (env : Env) (fs : List Field) (r : Int)
    (h : eval env (synthSize fs) = some (.int r)) :
    0 ≤ r ∧ ∀ s z : Int, (some true, some s, some z) ∈ extents env fs → s + z ≤ r :=
  C01_size_covers_present_fields_aux env fs r h

/-- The switch grouping of `Ok()` is semantics preserving: for every field whose existence
condition is a switch candidate (`discriminant == constant`, either order), the switch-case test
equals the one-`if`-per-field test that the model `G` uses — provided the discriminant is integer
valued whenever it is known (which the front end's type checker guarantees for a candidate).
Fields sharing a case label fall back to the `if` form, which is the naive test itself. -/
theorem C01_ok_switch_eq_naive (env : Env) (cond discrim : Expr) (label : Int) (fieldOk : Bool)
    (hc : switchCandidate cond = some (discrim, label))
    (hint : ∀ b, eval env discrim ≠ some (.bool b)) :
    naiveOkTest (evalBool env cond) fieldOk = switchOkTest (eval env discrim) label fieldOk := by
  cases cond with
  | op f args =>
    cases f <;> try (simp [switchCandidate] at hc)
    cases args with
    | nil => simp [switchCandidate] at hc
    | cons a rest =>
      cases rest with
      | nil => simp [switchCandidate] at hc
      | cons b rest2 =>
        cases rest2 with
        | cons c r3 => simp [switchCandidate] at hc
        | nil =>
          simp only [switchCandidate] at hc
          cases ha : constInt? a with
          | none =>
            cases hb : constInt? b with
            | none => simp [ha, hb] at hc
            | some l =>
              simp only [ha, hb, Option.some.injEq, Prod.mk.injEq] at hc
              obtain ⟨rfl, rfl⟩ := hc
              have hb' := constInt_eval' (env := env) hb
              simp only [evalBool, eval, evalList, applyFn, hb']
              cases hd : eval env a with
              | none => simp [maybeEq, naiveOkTest, switchOkTest]
              | some v =>
                cases v with
                | bool q => exact absurd hd (hint q)
                | int d =>
                  by_cases hdl : d = l
                  · subst hdl; simp [maybeEq, naiveOkTest, switchOkTest]
                  · have hb1 : (d == l) = false := by simp [hdl]
                    simp [maybeEq, naiveOkTest, switchOkTest, hdl, hb1]
          | some l =>
            cases hb : constInt? b with
            | some l2 => simp [ha, hb] at hc
            | none =>
              simp only [ha, hb, Option.some.injEq, Prod.mk.injEq] at hc
              obtain ⟨rfl, rfl⟩ := hc
              have ha' := constInt_eval' (env := env) ha
              simp only [evalBool, eval, evalList, applyFn, ha']
              cases hd : eval env b with
              | none => simp [maybeEq, naiveOkTest, switchOkTest]
              | some v =>
                cases v with
                | bool q => exact absurd hd (hint q)
                | int d =>
                  by_cases hdl : d = l
                  · subst hdl; simp [maybeEq, naiveOkTest, switchOkTest]
                  · have hb1 : (l == d) = false := by
                      simp only [beq_eq_false_iff_ne, ne_eq]; exact fun e => hdl e.symm
                    simp [maybeEq, naiveOkTest, switchOkTest, hdl, hb1]
  | _ => simp [switchCandidate] at hc

/-- `$next` is the end of the previous physical field. -/
theorem C01_next_is_prev_end (env : Env) (prevStart prevSize : Expr) (s z : Int)
    (hs : evalInt env prevStart = some s) (hz : evalInt env prevSize = some z) :
    evalInt env (synthNext prevStart prevSize) = some (s + z) := by
  unfold evalInt at hs hz ⊢
  simp only [synthNext, eval, evalList, applyFn]
  cases h1 : eval env prevStart with
  | none => rw [h1] at hs; cases hs
  | some v1 =>
    cases h2 : eval env prevSize with
    | none => rw [h2] at hz; cases hz
    | some v2 =>
      rw [h1] at hs; rw [h2] at hz
      cases v1 <;> cases v2 <;> simp_all [maybeInt2]

/-- An alias reads its target: when the alias is present its value is the target's value (at the
previous fuel level), otherwise it is unreadable. -/
theorem C01_alias_reads_target (m : Module) (n : Nat) (w : SView) (f : Field) (t : List String)
    (hf : w.sd.field f.name = some f) (hk : f.kind = .alias t) :
    (G m (n + 1)).read w [f.name] =
      if hasField (G m n) w f = some true then (G m n).read w t else none := by
  simp [G, step, hf, hk]

/-! ### non-vacuity: a tag, a conditional field, a dynamically sized array -/

def exPhys : List Field :=
  [ { name := "tag", anon := false, cond := .const (.bool true),
      kind := .phys (.const (.int 0)) (.const (.int 1)) (.scalar .uint 8 none) .le },
    { name := "a", anon := false,
      cond := .op .eq (.cons (.ref ["tag"]) (.cons (.const (.int 1)) .nil)),
      kind := .phys (.const (.int 1)) (.const (.int 2)) (.scalar .uint 16 none) .le },
    { name := "arr", anon := false, cond := .const (.bool true),
      kind := .phys (.const (.int 3)) (.ref ["tag"]) (.array (.scalar .uint 8 none) 1) .le } ]

def exSd : StructDef :=
  { name := "Ex", unit := 8, params := [], requires := none, sizeField := "$size",
    fields := exPhys ++
      [ { name := "$size", anon := false, cond := .const (.bool true),
          kind := .virt (synthSize exPhys) none },
        { name := "al", anon := false, cond := .has ["a"], kind := .alias ["a"] } ] }

def exM : Module := { structs := [exSd] }

/-- the example meets the hypotheses of `C01_prefix_monotone_partial` and is not trivial:
on `01` the presence of `a` is known (true) but its value is not; on `01 05 00` it is 5 and the
alias reads the same; the size `max(1, 3, 3+tag) = 4` is known from the first byte on, and the
view is complete only with 4 bytes. -/
example :
    moduleWF exM = true ∧ structWF exM exSd = true ∧ sizeIsSynth exSd = true ∧ fuelOK exM 6 exSd = true ∧
    (G exM 6).has (rootView exSd [] []) ["a"] = none ∧
    (G exM 6).has (rootView exSd [] [1]) ["a"] = some true ∧
    (G exM 6).read (rootView exSd [] [1]) ["a"] = none ∧
    (G exM 6).read (rootView exSd [] [1, 5, 0]) ["a"] = some (.int 5) ∧
    (G exM 6).read (rootView exSd [] [1, 5, 0]) ["al"] = some (.int 5) ∧
    (G exM 6).has (rootView exSd [] [2, 5, 0]) ["a"] = some false ∧
    sizeOf? (G exM 6) (rootView exSd [] [1]) = some 4 ∧
    isComplete (G exM 6) (rootView exSd [] [1, 5, 0]) = false ∧
    isComplete (G exM 6) (rootView exSd [] [1, 5, 0, 9]) = true := by
  decide

/-- The hypothesis `moduleWF` of the monotonicity theorems, as two decidable properties of the IR
that the driver evaluates on **every real IR** (`IR` answer: `wf= csm= dyn=`):
`moduleConstMatch` — a constant-size field holding a fixed-size bit-addressed type (prelude
scalar, enum, `bits`: fixed size ≤ 64 bits by C14's checks) has exactly the type's size — is what
the front end's `constraints.py` enforces (C14 model: `fixedWrongField`), and the harness requires
it of every accepted module; `moduleNoDynFixed` — no such type sits in a field whose size is not a
compile-time constant — is **not** enforced by the front end: that gap is exactly the open
finding `monotone:fixed-size-type-in-dynamically-sized-field`
(`C01_prefix_monotone_counterexample`), and the harness accepts `dyn=0` only for modules in which
its independent IR walk finds such a field. -/
theorem C01_moduleWF_iff (m : Module) :
    moduleWF m = true ↔ (moduleConstMatch m = true ∧ moduleNoDynFixed m = true) := by
  have hfield : ∀ unit f, fieldWF m unit f = (fieldConstMatch m unit f && fieldNoDynFixed m unit f) := by
    intro unit f
    unfold fieldWF fieldConstMatch fieldNoDynFixed fixedBitsIn
    cases f.kind with
    | alias t => rfl
    | virt a b => rfl
    | phys start size ty bo =>
      cases ty with
      | array a b => rfl
      | scalar k bits req =>
        by_cases hu : unit = 8
        · cases hc : constInt? size <;> simp [hu, hc]
        · simp [hu]
      | struct name bits args =>
        by_cases hu : unit = 8
        · cases hfind : m.find name with
          | none => simp [hu, hfind]
          | some sd =>
            by_cases hu' : sd.unit = 8
            · simp [hu, hu', hfind]
            · cases hc : constInt? size <;> simp [hu, hu', hfind, hc]
        · simp [hu]
  simp only [moduleWF, structWF, moduleConstMatch, moduleNoDynFixed, List.all_eq_true, hfield,
    Bool.and_eq_true]
  constructor
  · intro h
    exact ⟨fun sd hsd f hf => (h sd hsd f hf).1, fun sd hsd f hf => (h sd hsd f hf).2⟩
  · intro ⟨h1, h2⟩ sd hsd f hf
    exact ⟨h1 sd hsd f hf, h2 sd hsd f hf⟩

/-- non-vacuity of `C01_ok_monotone_arrays_partial`: the example (which has a dynamically sized
array) satisfies `SizeCovers`, is Ok on `01 05 00 09` and stays Ok with more bytes. -/
example : SizeCovers exM exSd :=
  C01_sizeCovers_of_plain exM (by decide) exSd (by decide) ⟨_, rfl, rfl⟩

example :
    (G exM 6).okAt (rootView exSd [] [1, 5, 0]) [] = false ∧
    (G exM 6).okAt (rootView exSd [] [1, 5, 0, 9]) [] = true ∧
    (G exM 6).okAt (rootView exSd [] ([1, 5, 0, 9] ++ [7, 7])) [] = true := by
  decide

/-- non-vacuity of `C01_ok_monotone_partial`: the example without its array is inside the
fragment; `01 05 00` is Ok (and stays Ok with a fourth byte), `01 05` is not. -/
def exSdNA : StructDef :=
  { exSd with fields := exPhys.take 2 ++
      [ { name := "$size", anon := false, cond := .const (.bool true),
          kind := .virt (synthSize (exPhys.take 2)) none } ] }

example :
    moduleWF { structs := [exSdNA] } = true ∧ moduleNoArrays { structs := [exSdNA] } = true ∧
    structNoArrays exSdNA = true ∧
    (G { structs := [exSdNA] } 6).okAt (rootView exSdNA [] [1, 5]) [] = false ∧
    (G { structs := [exSdNA] } 6).okAt (rootView exSdNA [] [1, 5, 0]) [] = true ∧
    (G { structs := [exSdNA] } 6).okAt (rootView exSdNA [] ([1, 5, 0] ++ [9])) [] = true := by
  decide

/-- non-vacuity of `C01_size_is_max_end` / `C01_next_is_prev_end`: with `tag = 2` field `a` is
absent and the size is `max(0, 1, 3 + 2) = 5`; with an unreadable tag it is unknown. -/
example :
    ViewSpec.size [(some true, some 0, some 1), (some false, some 1, some 2), (some true, some 3, some 2)]
      = some 5 ∧
    ViewSpec.size [(some true, some 0, some 1), (none, some 1, some 2)] = none ∧
    evalInt { read := fun _ => none, param := fun _ => none, has := fun _ => none, lv := none }
      (synthNext (.const (.int 3)) (.const (.int 2))) = some 5 := by
  decide

end Emboss.View

namespace Emboss.View
open Emboss.ViewRef

/-! ### the generated-code model refines the reference semantics R (Spec/ViewRef.lean)

Full statement (DESIGN §7, `C01_G_refines_R`): for every accepted module, structure, parameters
and buffer, every observation of `G` equals what the reference semantics R defines.  R is a Lean
object: `RFact m w`, the least set of facts about a view closed under the documented rules (no
fuel, no storage model).  Proved for the fragment `reachOK` (Model/ViewFrag.lean; round 3; round 2 had flat byte
structures only): byte structures **and `bits` containers with sub-byte fields** (`Spec.bits o w x`
of the container's number, the spec C02 is proved against), **nested at any depth** (a field of
structure type at a dynamic offset with a dynamic size and run-time arguments: the facts of the
inner structure over the sub-window), `UInt`/`Int`/`Flag`/unsigned-enum scalars in any byte
order, conditional fields, virtual fields, **aliases**, parameters, `[requires]`; structures may
contain arrays of scalars (their presence is inside the theorems, their elements are not reported
through `read` — see `C01_array_*`).  All expressions without constant-folding annotations.
Outside the fragment (BCD/Float/signed-enum leaves, arrays of structures, folded definitions —
where R is only a lower bound, D8) the comparison with R stays in Python (`embref.py`, every
random case of every run).  The theorems are stated for *every* view of the fragment (`viewWF`:
a byte window for a `struct`, a number for a `bits`), the view over a message buffer
(`rootView`) being the instance one starts from. -/

/-- **G refines R** (soundness): whatever the generated view reports as known — a readable
field with its value, a presence flag, at any path into nested structures and `bits` — is a
fact of the reference semantics, at every fuel.  Hypothesis `reachOK m d w.sd` (Model/ViewFrag.lean,
decidable, evaluated by the driver on every structure of every real IR: `ref=`): the view's
structure *and every structure reachable from it through fields of structure type* are inside
the fragment — nothing is asked of the rest of the module.  (The lemmas are proved for any family
of structures closed under "type of a field", `Closed`; `closed_of_refModule` is the module-wide
instance.) -/
theorem C01_G_refines_R_partial (m : Module) (w : SView) (d : Nat) (hfr : reachOK m d w.sd = true)
    (hw : viewWF w = true) (n : Nat) :
    (∀ p v, (G m n).read w p = some v → RFact m w (.val p v)) ∧
    (∀ p b, (G m n).has w p = some b → RFact m w (.pres p b)) :=
  G_sound m (closed_reach m) n w ⟨d, hfr⟩ hw

/-- **R is reported by G** (completeness): every fact of the reference semantics about a view of
the fragment is reported by the generated view once the fuel statically covers the path (`need`,
what `fuelOK` checks on every real IR).  `moduleWF` (decidable, checked by the driver on every
real IR): see `C01_moduleWF_iff`. -/
theorem C01_R_reported_by_G_partial (m : Module) (hwfm : moduleWF m = true) (w : SView) (d : Nat)
    (hfr : reachOK m d w.sd = true) (hw : viewWF w = true) (n : Nat) :
    (∀ p v, RFact m w (.val p v) → need m n w.sd p = true → (G m n).read w p = some v) ∧
    (∀ p b, RFact m w (.pres p b) → need m n w.sd p = true → (G m n).has w p = some b) :=
  ⟨fun p v h => G_complete m (closed_reach m) hwfm n w (.val p v) h ⟨d, hfr⟩ hw,
   fun p b h => G_complete m (closed_reach m) hwfm n w (.pres p b) h ⟨d, hfr⟩ hw⟩

/-- Together: with enough fuel the generated view and the reference agree exactly, value by
value and presence by presence, at every path; in particular R is *functional* on the fragment (a
field has at most one value, a presence at most one truth value) because `G` is a function. -/
theorem C01_G_equals_R_partial (m : Module) (hwfm : moduleWF m = true) (w : SView) (d : Nat)
    (hfr : reachOK m d w.sd = true) (hw : viewWF w = true) (n : Nat) (p : List String)
    (hn : need m n w.sd p = true) :
    (∀ v, (G m n).read w p = some v ↔ RFact m w (.val p v)) ∧
    (∀ b, (G m n).has w p = some b ↔ RFact m w (.pres p b)) :=
  ⟨fun v => ⟨(G_sound m (closed_reach m) n w ⟨d, hfr⟩ hw).1 p v,
             fun h => G_complete m (closed_reach m) hwfm n w (.val p v) h ⟨d, hfr⟩ hw hn⟩,
   fun b => ⟨(G_sound m (closed_reach m) n w ⟨d, hfr⟩ hw).2 p b,
             fun h => G_complete m (closed_reach m) hwfm n w (.pres p b) h ⟨d, hfr⟩ hw hn⟩⟩

/-- "The size is the largest end of any present field", on the reference: if R gives the
synthesised size field (`$size_in_bytes = synthSize fields`, cf. `sizeIsSynth`) of any view — a
nested structure or a `bits` container included — the value `r`, then there is an assignment `ρ`
consisting of R-facts only under which `r` is `ViewSpec.size` of the fields' extents — the largest
`start + size` over the fields R says are present, all of whose presences and locations R knows. -/
theorem C01_R_size_is_max_end_partial (m : Module) (w : SView)
    (fs : List Field) (hfs : fs.all locFoldFree = true) (x : String) (f : Field)
    (hf : w.sd.field x = some f) (hk : f.kind = .virt (synthSize fs) none) (r : Int)
    (h : RFact m w (.val [x] (.int r))) :
    ∃ ρ : Env, (∀ p v, ρ.read p = some v → RFact m w (.val p v)) ∧
      (∀ p c, ρ.has p = some c → RFact m w (.pres p c)) ∧
      ViewSpec.size (extents ρ fs) = some r := by
  cases h with
  | scalar ρ hf' hk' => rw [hf] at hf'; cases hf'; rw [hk] at hk'; cases hk'
  | aliasVal hf' hk' => rw [hf] at hf'; cases hf'; rw [hk] at hk'; cases hk'
  | sub ρ hf' hk' hfind hpres hr hh hp hl hs hz hs0 hz0 hargs hsub hout =>
    rename_i inner
    cases inner with
    | val p v =>
      simp only [Fact.under, Option.some.injEq, Fact.val.injEq, List.cons.injEq] at hout
      obtain ⟨⟨_, hp'⟩, _⟩ := hout
      subst hp'
      exact (val_path_ne_nil hsub).elim
    | _ => simp [Fact.under] at hout
  | nullsub hf' hk' hfind hsub hout =>
    rename_i inner
    cases inner with
    | val p v =>
      simp only [Fact.under, Option.some.injEq, Fact.val.injEq, List.cons.injEq] at hout
      obtain ⟨⟨_, hp'⟩, _⟩ := hout
      subst hp'
      exact (val_path_ne_nil hsub).elim
    | _ => simp [Fact.under] at hout
  | virt ρ hf' hk' hr hh hp hl hv hreq =>
    rw [hf] at hf'; cases hf'
    rw [hk] at hk'; cases hk'
    refine ⟨ρ, hr, hh, ?_⟩
    rw [evalR_eq_eval _ _ (foldFree_synthSize fs hfs), C01_size_is_max_end] at hv
    cases hsz : ViewSpec.size (extents ρ fs) with
    | none => rw [hsz] at hv; cases hv
    | some q => rw [hsz] at hv; simp only [Option.map_some, Option.some.injEq, Val.int.injEq] at hv; rw [hv]

/-- **Arrays of scalars** (constant or dynamic size / element count), soundness: every element
the generated view reads (`x()[i].Ok()`, `i < ElementCount()`; also in a truncated array) is an
`elem` fact of R — the value of the element's bytes at `start + i·elementsize` of the message —
and when the accessor's storage was not clamped (the array's whole extent is inside the window)
`ElementCount()` is R's `count` fact `size / elementsize`.  (`arrElem` / `arrCount`,
Model/ViewObs.lean, are the expressions `obsType` prints per element and as `n<count>`.) -/
theorem C01_array_refines_R_partial (m : Module) (w : SView) (d : Nat)
    (hfr : reachOK m d w.sd = true) (hw : viewWF w = true) (n : Nat) (x : String) (f : Field)
    (hf : w.sd.field x = some f) :
    (∀ i v, arrElem (G m n) w f i = some v → RFact m w (.elem x i v)) ∧
    (∀ start size k bits req es bo c st z,
      f.kind = .phys start size (.array (.scalar k bits req) es) bo →
      arrCount (G m n) w f = some c → physStorage (G m n) w f start size = some st →
      evalInt (envOf (G m n) w none) size = some z → st.ok = true ∧ st.size = z.toNat →
      RFact m w (.count x c)) :=
  have href := (closed_reach m).ref _ ⟨d, hfr⟩
  have hfacts := G_sound m (closed_reach m) n w ⟨d, hfr⟩ hw
  ⟨fun _ _ h => arrElem_sound href hw hfacts hf h,
   fun _ _ _ _ _ _ _ _ _ _ hk h hst hz hfull => arrCount_sound href hw hfacts hf hk h hst hz hfull⟩

/-- … and completeness: R's `count` and `elem` facts are what the generated view reports once
the fuel covers the field. -/
theorem C01_R_array_reported_by_G_partial (m : Module) (hwfm : moduleWF m = true) (w : SView) (d : Nat)
    (hfr : reachOK m d w.sd = true) (hw : viewWF w = true) (n : Nat)
    (x : String) (f : Field) (hf : w.sd.field x = some f) (hn : need m (n + 1) w.sd [x] = true) :
    (∀ c, RFact m w (.count x c) → arrCount (G m n) w f = some c) ∧
    (∀ i v, RFact m w (.elem x i v) → arrElem (G m n) w f i = some v) :=
  array_complete m (closed_reach m) hwfm n w ⟨d, hfr⟩ hw hf hn

/-- `C01_constants` (partial): `$max_size_in_*` / `$min_size_in_*` (and every other virtual field
whose value the compiler folded to a literal, without `[requires]`) read the same constant on
**every** view — any buffer (the empty one included), any parameters, even the null view of an
absent field — at every fuel ≥ 1.  That the constants bracket the run-time size
(`Min ≤ SizeIn… ≤ Max`) is `C05_bounds_functions` (`$upper_bound`/`$lower_bound` are sound) on
the bounds model; here it is checked on every observation of every run
(`harness/corr/C01.py: constants_violations`). -/
theorem C01_constants_partial (m : Module) (o : Oracle) (w : SView) (x : String) (f : Field)
    (hf : w.sd.field x = some f) (c : Val) (orig : Expr) (hk : f.kind = .virt (.fold c orig) none) :
    (step m o).read w [x] = some c ∧ (step m o).okAt w [x] = true := by
  simp [step, hf, hk, virtRead, eval, valueIsOk]

def exConstSd : StructDef :=
  { name := "S", unit := 8, params := [], requires := none, sizeField := "$size",
    fields := [ { name := "$max", anon := false, cond := .const (.bool true),
                  kind := .virt (.fold (.int 5) (.op .max (.cons (.ref ["q"]) .nil))) none } ] }

/-- non-vacuity: a `$max_size_in_bytes = 5` field on the empty buffer and on a null view -/
example :
    (G { structs := [exConstSd] } 1).read (rootView exConstSd [] []) ["$max"] = some (.int 5) ∧
    (G { structs := [exConstSd] } 1).read (nullView exConstSd) ["$max"] = some (.int 5) := by
  decide

/-- `struct Flat(p: UInt:8): 0 [+1] UInt n / if n > 0: n+1 [+1] UInt y [requires: this < 200] /
let v = y + p / let $size = …` -/
def exFlatPhys : List Field :=
  [ { name := "n", anon := false, cond := .const (.bool true),
      kind := .phys (.const (.int 0)) (.const (.int 1)) (.scalar .uint 8 none) .le },
    { name := "y", anon := false, cond := .op .gt (.cons (.ref ["n"]) (.cons (.const (.int 0)) .nil)),
      kind := .phys (.op .add (.cons (.ref ["n"]) (.cons (.const (.int 1)) .nil))) (.const (.int 1))
        (.scalar .int 8 (some (.op .lt (.cons .lv (.cons (.const (.int 100)) .nil))))) .le },
    { name := "v", anon := false, cond := .const (.bool true),
      kind := .virt (.op .add (.cons (.ref ["y"]) (.cons (.param "p") .nil))) none } ]

def exFlatSize : Field :=
  { name := "$size", anon := false, cond := .const (.bool true), kind := .virt (synthSize exFlatPhys) none }

def exFlat : StructDef :=
  { name := "Flat", unit := 8, params := ["p"], requires := none, sizeField := "$size",
    fields := exFlatPhys ++ [exFlatSize] }

/-- `bits Bf: 0 [+1] Flag a / 1 [+3] UInt b / 4 [+4] Int c` -/
def exBits : StructDef :=
  { name := "Bf", unit := 1, params := [], requires := none, sizeField := "$size",
    fields :=
      [ { name := "a", anon := false, cond := .const (.bool true),
          kind := .phys (.const (.int 0)) (.const (.int 1)) (.scalar .flag 1 none) .null },
        { name := "b", anon := false, cond := .const (.bool true),
          kind := .phys (.const (.int 1)) (.const (.int 3)) (.scalar .uint 3 none) .null },
        { name := "c", anon := false, cond := .const (.bool true),
          kind := .phys (.const (.int 4)) (.const (.int 4)) (.scalar .int 4 none) .null } ] }

/-- `struct In(p: UInt:8): 0 [+1] UInt k / 1 [+1] Bf fl / let s = k + p / let cc = fl.c / let one = 1 /
`$size_in_bytes = ⟨2⟩ $max(0, true ? 0+1 : 0, true ? 1+1 : 0)` (annotated by the compiler) -/
def exInner : StructDef :=
  { name := "In", unit := 8, params := ["p"], requires := none, sizeField := "$size",
    fields :=
      [ { name := "k", anon := false, cond := .const (.bool true),
          kind := .phys (.const (.int 0)) (.const (.int 1)) (.scalar .uint 8 none) .le },
        { name := "fl", anon := false, cond := .const (.bool true),
          kind := .phys (.const (.int 1)) (.const (.int 1)) (.struct "Bf" 8 .nil) .le },
        { name := "s", anon := false, cond := .const (.bool true),
          kind := .virt (.op .add (.cons (.ref ["k"]) (.cons (.param "p") .nil))) none },
        { name := "cc", anon := false, cond := .const (.bool true), kind := .alias ["fl", "c"] },
        { name := "one", anon := false, cond := .const (.bool true), kind := .virt (.const (.int 1)) none },
        -- the compiler's annotation on an all-static size: a closed constant, inside the fragment
        { name := "$size", anon := false, cond := .const (.bool true),
          kind := .virt (.fold (.int 2) (.op .max (.cons (.const (.int 0))
            (.cons (sizeClause (.const (.bool true)) (.const (.int 0)) (.const (.int 1)))
              (.cons (sizeClause (.const (.bool true)) (.const (.int 1)) (.const (.int 1))) .nil))))) none } ] }

/-- `struct Out: 0 [+1] UInt n / if n > 0: n [+2] In(n) in / let v = in.s / n+2 [+n] UInt:8[] arr` -/
def exOuterN : Field :=
  { name := "n", anon := false, cond := .const (.bool true),
    kind := .phys (.const (.int 0)) (.const (.int 1)) (.scalar .uint 8 none) .le }

def exOuter : StructDef :=
  { name := "Out", unit := 8, params := [], requires := none, sizeField := "$size",
    fields :=
      [ exOuterN,
        { name := "in", anon := false, cond := .op .gt (.cons (.ref ["n"]) (.cons (.const (.int 0)) .nil)),
          kind := .phys (.ref ["n"]) (.const (.int 2)) (.struct "In" 0 (.cons (.ref ["n"]) .nil)) .le },
        { name := "v", anon := false, cond := .const (.bool true), kind := .virt (.ref ["in", "s"]) none },
        { name := "arr", anon := false, cond := .const (.bool true),
          kind := .phys (.op .add (.cons (.ref ["n"]) (.cons (.const (.int 2)) .nil))) (.ref ["n"])
            (.array (.scalar .uint 8 none) 1) .le } ] }

def exNest : Module := { structs := [exOuter, exInner, exBits, exFlat] }

/-- non-vacuity of the refinement theorems: the module (a structure with a conditional nested
parameterised structure at a dynamic offset, which contains a `bits` container with a flag, a
3-bit unsigned and a 4-bit signed field, an alias into it, a virtual field over a parameter; an
array of scalars; and the flat example of round 2) is inside the fragment, fuel 6 covers the
paths, and on `02 ff 07 a5` (n = 2; `in` = `07 a5`: k = 7, fl = 0xa5: a = 1, b = 2, c = -6) the
model computes `in.s = 9 = v`, `in.fl.c = -6 = in.cc`; with `n = 0` the inner structure is absent
but its constant `one` still reads 1 (null view). -/
example :
    reachOK exNest 4 exOuter = true ∧ reachOK exNest 4 exFlat = true ∧ moduleWF exNest = true ∧
    structInFragment exNest exOuter = true ∧
    viewWF (rootView exOuter [] [2, 255, 7, 165]) = true ∧
    need exNest 6 exOuter ["in", "fl", "c"] = true ∧ need exNest 6 exOuter ["v"] = true ∧
    (G exNest 6).read (rootView exOuter [] [2, 255, 7, 165]) ["in", "fl", "c"] = some (.int (-6)) ∧
    (G exNest 6).read (rootView exOuter [] [2, 255, 7, 165]) ["in", "fl", "a"] = some (.bool true) ∧
    (G exNest 6).read (rootView exOuter [] [2, 255, 7, 165]) ["in", "fl", "b"] = some (.int 2) ∧
    (G exNest 6).read (rootView exOuter [] [2, 255, 7, 165]) ["in", "cc"] = some (.int (-6)) ∧
    (G exNest 6).read (rootView exOuter [] [2, 255, 7, 165]) ["v"] = some (.int 9) ∧
    (G exNest 6).read (rootView exOuter [] [2, 255, 7]) ["in", "fl", "c"] = none ∧
    (G exNest 6).read (rootView exOuter [] [2, 255, 7]) ["in", "k"] = some (.int 7) ∧
    (G exNest 6).has (rootView exOuter [] [0]) ["in"] = some false ∧
    (G exNest 6).read (rootView exOuter [] [0]) ["in", "one"] = some (.int 1) ∧
    (G exNest 6).read (rootView exOuter [] [0]) ["in", "k"] = none ∧
    need exNest 6 exOuter ["in", "$size"] = true ∧
    (G exNest 6).read (rootView exOuter [] [0]) ["in", "$size"] = some (.int 2) ∧
    need exNest 4 exFlat ["v"] = true ∧
    (G exNest 4).read (rootView exFlat [.int 7] [1, 0, 254]) ["v"] = some (.int 5) ∧
    (G exNest 4).read (rootView exFlat [.int 7] [1, 0, 254]) ["$size"] = some (.int 3) ∧
    (G exNest 4).has (rootView exFlat [.int 7] [0]) ["y"] = some false ∧
    (G exNest 4).read (rootView exFlat [.int 7] [1, 0]) ["y"] = none := by
  decide

/-- … hence these are facts of R (derived through the theorem, not by hand) — a sub-byte field of
a `bits` container inside a nested structure at a dynamic offset; a fact below an absent field —
and R's size fact is the largest end of a present field. -/
example : RFact exNest (rootView exOuter [] [2, 255, 7, 165]) (.val ["in", "fl", "c"] (.int (-6))) ∧
    RFact exNest (rootView exOuter [] [0]) (.val ["in", "one"] (.int 1)) ∧
    RFact exNest (rootView exFlat [.int 7] [1, 0, 254]) (.val ["v"] (.int 5)) ∧
    RFact exNest (rootView exFlat [.int 7] [0]) (.pres ["y"] false) ∧
    ∃ ρ : Env, ViewSpec.size (extents ρ exFlatPhys) = some 3 := by
  refine ⟨(C01_G_refines_R_partial exNest _ 4 (by decide) (by decide) 6).1 _ _ (by decide),
    (C01_G_refines_R_partial exNest _ 4 (by decide) (by decide) 6).1 _ _ (by decide),
    (C01_G_refines_R_partial exNest _ 4 (by decide) (by decide) 4).1 _ _ (by decide),
    (C01_G_refines_R_partial exNest _ 4 (by decide) (by decide) 4).2 _ _ (by decide), ?_⟩
  obtain ⟨ρ, _, _, h⟩ := C01_R_size_is_max_end_partial exNest (rootView exFlat [.int 7] [1, 0, 254])
    exFlatPhys (by decide) "$size" exFlatSize (by rfl) rfl 3
    ((C01_G_refines_R_partial exNest _ 4 (by decide) (by decide) 4).1 _ _ (by decide))
  exact ⟨ρ, h⟩

/-- and conversely (completeness): an R-fact derived by hand — `n` is present, by the `pres` rule
with the empty assignment — is reported by the model. -/
example : (G exNest 6).has (rootView exOuter [] [2, 255, 7, 165]) ["n"] = some true :=
  (C01_R_reported_by_G_partial exNest (by decide) _ 4 (by decide) (by decide) 6).2 _ _
    (RFact.pres { read := fun _ => none, has := fun _ => none, param := fun _ => none, lv := none }
      (f := exOuterN) (by rfl) (by intro p v h; cases h) (by intro p c h; cases h)
      (by intro n v h; cases h) rfl (by decide)) (by decide)

def exOuterArr : Field :=
  { name := "arr", anon := false, cond := .const (.bool true),
    kind := .phys (.op .add (.cons (.ref ["n"]) (.cons (.const (.int 2)) .nil))) (.ref ["n"])
      (.array (.scalar .uint 8 none) 1) .le }

/-- non-vacuity of the array theorems: `arr` (`n+2 [+n] UInt:8[]`, dynamic element count) over
`02 ff 07 a5 0b 0c` has 2 elements 11, 12; over the truncated `02 ff 07 a5 0b` the model still
reads element 0 (= 11, an R fact by the theorem) and reports the clamped count 1, which is *not*
claimed by R (the count hypothesis `st.size = z` fails). -/
example :
    exOuter.field "arr" = some exOuterArr ∧ need exNest 6 exOuter ["arr"] = true ∧
    arrCount (G exNest 5) (rootView exOuter [] [2, 255, 7, 165, 11, 12]) exOuterArr = some 2 ∧
    arrElem (G exNest 5) (rootView exOuter [] [2, 255, 7, 165, 11, 12]) exOuterArr 1 = some (.int 12) ∧
    arrElem (G exNest 5) (rootView exOuter [] [2, 255, 7, 165, 11, 12]) exOuterArr 2 = none ∧
    arrCount (G exNest 5) (rootView exOuter [] [2, 255, 7, 165, 11]) exOuterArr = some 1 ∧
    arrElem (G exNest 5) (rootView exOuter [] [2, 255, 7, 165, 11]) exOuterArr 0 = some (.int 11) := by
  refine ⟨by rfl, by decide, by decide, by decide, by decide, by decide, by decide⟩

example : RFact exNest (rootView exOuter [] [2, 255, 7, 165, 11]) (.elem "arr" 0 (.int 11)) :=
  (C01_array_refines_R_partial exNest _ 4 (by decide) (by decide) 5 "arr" exOuterArr (by rfl)).1
    _ _ (by decide)

end Emboss.View

namespace Emboss.View

/-! ### counterexample outside `moduleWF`: a fixed-size scalar in a dynamically sized field -/

/-- `struct Foo:  0 [+1] UInt n   1 [+n] UInt:8 x` — accepted by the compiler (cf.
`testdata/virtual_field.emb`, `4 [+two_x] UInt:32 size_two_x`). -/
def cexSd : StructDef :=
  { name := "Foo", unit := 8, params := [], requires := none, sizeField := "$size",
    fields :=
      [ { name := "n", anon := false, cond := .const (.bool true),
          kind := .phys (.const (.int 0)) (.const (.int 1)) (.scalar .uint 8 none) .le },
        { name := "x", anon := false, cond := .const (.bool true),
          kind := .phys (.const (.int 1)) (.ref ["n"]) (.scalar .uint 8 none) .le } ] }

def cexM : Module := { structs := [cexSd] }

/-- Without the hypothesis `moduleWF` prefix monotonicity fails *in the generated code's own
logic*: `GetOffsetStorage` clamps the requested 5 bytes to the 1 byte that is there, the
`BitBlock<…, 8>` finds exactly 8 bits and `x` reads 7; one more byte and the clamped storage has
2 bytes, the `BitBlock` is not Ok and `x` becomes unreadable.  Replayed on the real code by
harness/corr/C01.py (known finding `monotone:fixed-size-type-in-dynamically-sized-field`). -/
theorem C01_prefix_monotone_counterexample :
    moduleWF cexM = false ∧
    (G cexM 4).read (rootView cexSd [] [5, 7]) ["x"] = some (.int 7) ∧
    (G cexM 4).read (rootView cexSd [] ([5, 7] ++ [9])) ["x"] = none := by
  decide

/-- C01's example with the annotation the compiler puts on the static first clause of its size
expression: `$max(0, ⟨1⟩(true ? 0+1 : 0), tag == 1 ? 1+2 : 0, true ? 3+tag : 0)`. -/
def exFoldSd : StructDef :=
  { exSd with fields := exPhys ++
      [ { name := "$size", anon := false, cond := .const (.bool true),
          kind := .virt (.op .max (.cons (.const (.int 0))
            (.cons (.fold (.int 1) (sizeClause (.const (.bool true)) (.const (.int 0)) (.const (.int 1))))
              (sizeClauses (exPhys.drop 1))))) none } ] }

/-- non-vacuity of `C01_sizeCovers_of_closed_folds` / `C01_ok_monotone_closed_folds`: the
annotated example is in the decidable class (and not `plainSize`: it has an annotation), so
`SizeCovers` holds for it and `Ok()` on `01 05 00 09` persists. -/
example : structClosedFolds exFoldSd = true ∧ moduleWF { structs := [exFoldSd] } = true ∧
    structWF { structs := [exFoldSd] } exFoldSd = true ∧
    (G { structs := [exFoldSd] } 6).okAt (rootView exFoldSd [] [1, 5, 0, 9]) [] = true := by
  decide

example : SizeCovers { structs := [exFoldSd] } exFoldSd :=
  C01_sizeCovers_of_closed_folds _ (by decide) _ (by decide) (by decide)

/-- non-vacuity of `C01_moduleWF_iff`: C01's example module satisfies both parts; the
counterexample of the open finding satisfies the part the front end enforces and fails only the
other one. -/
example : moduleConstMatch exM = true ∧ moduleNoDynFixed exM = true ∧
    moduleConstMatch cexM = true ∧ moduleNoDynFixed cexM = false := by
  decide

end Emboss.View
