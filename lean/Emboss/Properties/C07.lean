/-
C07 — Every module the compiler accepts yields a header that compiles and instantiates.

"g++ accepts this text" is not a Lean proposition; the property is decomposed into the finite
list of reasons a generated header can be ill-formed that the *compiler's decisions* control:
identifier clashes, template-argument preconditions (`static_assert`s of the runtime, list
regenerated on every run), and rendered constants.  Everything else about C++
well-formedness is only observed (by really compiling an instantiate-everything driver).

Models: Emboss/Model/Names.lean, StaticAsserts.lean, CppInt.lean (+ Enum.lean for
`cppTypeForEnum`).
-/
import Emboss.Lemmas.StaticAsserts
import Emboss.Lemmas.EnumGen
import Emboss.Lemmas.Names
import Emboss.Lemmas.NamesAccept
import Emboss.Lemmas.NamesCheck
import Emboss.Lemmas.NamesScan
import Emboss.Model.Names
import Emboss.Model.EnableIfs
import Emboss.Generated.CppReserved
import Emboss.Spec.CppKeywords
namespace Emboss.C07
open Emboss.CppInt Emboss.StaticAsserts Emboss.Names

/-! ## constants -/

/-- **Rendered constants denote the front end's values.**  For every value the back end can
be asked to render (`[-2^63, 2^64)`; outside, its assertion fires and no header is produced),
`_render_integer` produces `static_cast<T>(…)` whose meaning under the C++ rules — decimal
literal typing with the `LL`/`ULL` suffix, unary minus, the `-9223372036854775807LL - 1` form
for `-2^63`, the outer conversion — is exactly the value. -/
theorem C07_constants_equal_front_end (v : Int) :
    (-9223372036854775808 ≤ v ∧ v ≤ 18446744073709551615 →
      ∃ r, renderInteger v = some r ∧ evalRendered r = some v ∧ r.longLongSuffix = true) ∧
    (v < -9223372036854775808 ∨ v > 18446744073709551615 → renderInteger v = none) := by
  refine ⟨?_, render_none v⟩
  rintro ⟨h1, h2⟩
  obtain ⟨r, hr, he⟩ := render_eval v h1 h2
  refine ⟨r, hr, he, ?_⟩
  unfold renderInteger at hr
  cases ht : typeForRange v v with
  | none => simp [ht] at hr
  | some ty =>
    simp only [ht] at hr
    split at hr <;> (cases hr; rfl)

/-- Non-vacuity / the interesting literals (tests by evaluation): `-2^63` takes the
`… - 1` form, `2^63` needs the `U` suffix, and a plain `-9223372036854775808LL` would be
ill-formed (its literal does not fit `long long`). -/
example : (renderInteger (-9223372036854775808)).map Rendered.toString =
      some "static_cast<int64>(-9223372036854775807LL - 1)" ∧
    (renderInteger 9223372036854775808).map Rendered.toString =
      some "static_cast<uint64>(9223372036854775808ULL)" ∧
    evalRendered ⟨i64, true, 9223372036854775808, false, true, false⟩ = none := by decide

/-! ## static_asserts -/

/-- **Every `static_assert` of the runtime is accounted for** (table regenerated from
`runtime/cpp/*.h` on every run): each is classified as platform / runtime-internal /
generated-argument, and each generated-argument class has its obligation proved in
`C07_static_asserts_hold`.  A new or edited assertion makes this fail to elaborate. -/
theorem C07_static_asserts_classified : allClassified = true ∧ allTagsProved = true := by
  decide +kernel

/-- **Accepted ⇒ every template argument the back end writes satisfies its precondition.**
One clause per generated-argument class of `Emboss.StaticAsserts.table`:
* `bits-le-64`, `bits-le-value-type`: a `UInt`/`Int`/`Bcd` field the front end accepted
  (`1 ≤ bits ≤ 64`) has a `LeastWidthInteger` and fits its `ValueType`;
* `flag-bits`, `float-bits`: accepted `Flag` is 1 bit, accepted `Float` 32 or 64;
* `bits-le-value-type` for `EnumView`: a field of `w ≤ maximum_bits` bits fits the enum's
  underlying type;
* `bitblock`: a byte-sized field of at most 8 bytes gives a `BitBlock` whose size is a
  multiple of 8 and at most 64;
* `alignment`: power-of-two alignment and `offset < alignment` are preserved by
  `OffsetStorageType` from any power-of-two root;
* `sub-alignment`: `(modulus, modular_value)` with `modular_value < modulus` (C05's
  invariant), or modulus "infinity" rendered as 0, satisfies `kSubAlignment == 0 ||
  kSubAlignment > kSubOffset`; array elements use `<kElementSize, 0>` with `kElementSize ≥ 1`;
* `null-byte-order`: a one-byte field gives `kBits == 8`. -/
theorem C07_static_asserts_hold :
    (∀ p b, Prelude.accepts p b = true →
      match p with
      | .uint | .int | .bcd => ∃ w, leastWidth b = some w ∧ b ≤ w
      | .flag => b = 1
      | .float => b = 32 ∨ b = 64) ∧
    (∀ (mb : Int) (sg : Bool) (ty : IntTy) (w : Nat),
      Emboss.Enum.cppTypeForEnum mb sg = some ty → (w : Int) ≤ mb → w ≤ ty.bits) ∧
    (∀ n : Nat, n ≤ 8 → (8 * n) % 8 = 0 ∧ 8 * n ≤ 64 ∧ (n = 1 → 8 * n = 8)) ∧
    (∀ k off subAl subOff : Nat,
      (∃ j, (offsetStorage (2 ^ k) off subAl subOff).1 = 2 ^ j) ∧
      (offsetStorage (2 ^ k) off subAl subOff).2 < (offsetStorage (2 ^ k) off subAl subOff).1) ∧
    (∀ (m : Option Nat) (v : Nat), (∀ x, m = some x → v < x) →
      (alignmentOf m v).1 = 0 ∨ (alignmentOf m v).1 > (alignmentOf m v).2) := by
  refine ⟨?_, ?_, ?_, offsetStorage_ok, ?_⟩
  · intro p b h
    cases p <;> simp only [Prelude.accepts, Bool.and_eq_true, decide_eq_true_eq, beq_iff_eq,
      Bool.or_eq_true] at h
    · obtain ⟨w, hw, h1, _⟩ := leastWidth_ok b h.2; exact ⟨w, hw, h1⟩
    · obtain ⟨w, hw, h1, _⟩ := leastWidth_ok b h.2; exact ⟨w, hw, h1⟩
    · obtain ⟨w, hw, h1, _⟩ := leastWidth_ok b h.2; exact ⟨w, hw, h1⟩
    · exact h
    · exact h
  · intro mb sg ty w hty hw
    obtain ⟨_, hb, _⟩ := Emboss.Enum.cppTypeForEnum_spec mb sg ty hty
    omega
  · intro n hn; omega
  · intro m v h
    cases m with
    | none => left; rfl
    | some x => right; exact h x rfl

/-- Non-vacuity: the arguments of a 3-byte `UInt` at offset `4*n + 1` inside a struct viewed
through `MakeAligned…View<…, 8>`. -/
example : Prelude.accepts .uint 24 = true ∧ leastWidth 24 = some 32 ∧
    offsetStorage 8 0 4 1 = (4, 1) ∧ alignmentOf (some 4) 1 = (4, 1) := by decide

/-
Full statement (false on the real code): for `c ? a : b` on integers the back end's
`IntermediateT` and `ResultT` are the same type (runtime `static_assert` "Choice's
IntermediateT should be the same as ResultT").

Proved fragment: when the result range is the hull of the two branches' ranges — what
`expression_bounds` computes for a non-constant condition.  Missing: constant conditions,
where the front end narrows the result to the selected branch (counterexample below, finding
`constant-condition-choice-static-assert`, found by builder `bounds`). -/
theorem C07_choice_types_partial (a b : Int × Int) :
    (choiceTypes (min a.1 b.1, max a.2 b.2) a b).1 = (choiceTypes (min a.1 b.1, max a.2 b.2) a b).2 := by
  simp only [choiceTypes]
  have h1 : min (min a.1 b.1) (min a.1 b.1) = min a.1 b.1 := by omega
  have h2 : max (max a.2 b.2) (max a.2 b.2) = max a.2 b.2 := by omega
  rw [h1, h2]

/-- Counterexample: `let v = true ? a : b` with `a : UInt:8`, `b : UInt:64` — result range
`[0, 255]` (`int32_t`), but `IntermediateT` ranges over `b` too (`uint64_t`). -/
theorem C07_choice_counterexample :
    choiceTypes (0, 255) (0, 255) (0, 18446744073709551615) = (some u64, some i32) := by decide

example : choiceTypes (min 0 0, max 255 65535) (0, 255) (0, 65535) = (some i32, some i32) := by decide

/-! ## arithmetic and comparison operations -/

/-- **`IntermediateT` exists and is wide enough.**  For an operation node the front end
accepted — every integer clause (the result, when it is an integer, and each integer operand)
fits `int64_t` or `uint64_t`, and not one of them needing the signed and another the unsigned
type — the back end's `_cpp_integer_type_for_range(min(…), max(…))` is a type (never the
Python `None`, which would be written into the header as the text `None`), and it holds every
value of every clause, so no operand is truncated by the conversion to `IntermediateT`.
Covers `+ - *`, the comparisons (which have no integer result clause), `?:`, `$max`. -/
theorem C07_operation_intermediate_type (c : Int × Int) (cs : List (Int × Int))
    (hacc : frontAcceptsOp (c :: cs) = true) :
    ∃ ty, opIntermediate (c :: cs) = some ty ∧
      ∀ d ∈ c :: cs, ∀ v, d.1 ≤ v → v ≤ d.2 → ty.holds v = true := by
  obtain ⟨⟨b1, b2⟩, b3, b4, b5⟩ := hullOf_bounds cs c
  have hexists : ∃ ty, typeForRange (hullOf c cs).1 (hullOf c cs).2 = some ty := by
    rcases frontAcceptsOp_uniform _ hacc with hi | hu
    · have h1 : -9223372036854775808 ≤ (hullOf c cs).1 := by
        apply b4
        · have := hi c (List.mem_cons_self ..)
          simp only [fitsI64, Bool.and_eq_true, decide_eq_true_eq] at this; exact this.1
        · intro d hd
          have := hi d (List.mem_cons_of_mem _ hd)
          simp only [fitsI64, Bool.and_eq_true, decide_eq_true_eq] at this; exact this.1
      have h2 : (hullOf c cs).2 ≤ 9223372036854775807 := by
        apply b5
        · have := hi c (List.mem_cons_self ..)
          simp only [fitsI64, Bool.and_eq_true, decide_eq_true_eq] at this; exact this.2
        · intro d hd
          have := hi d (List.mem_cons_of_mem _ hd)
          simp only [fitsI64, Bool.and_eq_true, decide_eq_true_eq] at this; exact this.2
      unfold typeForRange
      split
      · exact ⟨_, rfl⟩
      · split
        · exact ⟨_, rfl⟩
        · rw [if_pos ⟨by omega, by omega⟩]; exact ⟨_, rfl⟩
    · have h1 : 0 ≤ (hullOf c cs).1 := by
        apply b4
        · have := hu c (List.mem_cons_self ..)
          simp only [fitsU64, Bool.and_eq_true, decide_eq_true_eq] at this; exact this.1
        · intro d hd
          have := hu d (List.mem_cons_of_mem _ hd)
          simp only [fitsU64, Bool.and_eq_true, decide_eq_true_eq] at this; exact this.1
      have h2 : (hullOf c cs).2 ≤ 18446744073709551615 := by
        apply b5
        · have := hu c (List.mem_cons_self ..)
          simp only [fitsU64, Bool.and_eq_true, decide_eq_true_eq] at this; exact this.2
        · intro d hd
          have := hu d (List.mem_cons_of_mem _ hd)
          simp only [fitsU64, Bool.and_eq_true, decide_eq_true_eq] at this; exact this.2
      unfold typeForRange
      split
      · exact ⟨_, rfl⟩
      · split
        · exact ⟨_, rfl⟩
        · split
          · exact ⟨_, rfl⟩
          · rw [if_pos ⟨by omega, by omega⟩]; exact ⟨_, rfl⟩
  obtain ⟨ty, hty⟩ := hexists
  refine ⟨ty, hty, ?_⟩
  intro d hd v hv1 hv2
  apply typeForRange_holds _ _ ty hty v
  rcases List.mem_cons.mp hd with rfl | hd'
  · omega
  · have := b3 d hd'; omega

/-- Non-vacuity: `big < 5` with `big : UInt:64`, and `a - b` on two `Int:32`s. -/
example : frontAcceptsOp [(0, 18446744073709551615), (5, 5)] = true ∧
    opIntermediate [(0, 18446744073709551615), (5, 5)] = some u64 ∧
    frontAcceptsOp [(-4294967295, 4294967295), (-2147483648, 2147483647), (-2147483648, 2147483647)] = true ∧
    opIntermediate [(-4294967295, 4294967295), (-2147483648, 2147483647), (-2147483648, 2147483647)] = some i64 := by
  decide

/-- Why the front end's mixed-signedness check is needed (and must see *comparisons* too,
whose result is not an integer): `big == small` with `big : UInt:64`, `small : Int:8` — each
operand fits a 64-bit type, the node is rejected, and without the rejection there is no
intermediate type (the header would contain `Equal</**/None, …>`). -/
theorem C07_mixed_signedness_counterexample :
    [(0, 18446744073709551615), ((-128 : Int), (127 : Int))].all (fun c => fitsU64 c || fitsI64 c) = true ∧
    frontAcceptsOp [(0, 18446744073709551615), (-128, 127)] = false ∧
    opIntermediate [(0, 18446744073709551615), (-128, 127)] = none := by decide

/-! ## names -/

/-
Full statement (false on the real code): within one C++ scope, distinct Emboss entities get
distinct identifiers.

Proved for the `EmbossReserved…` helper types of one structure (below): since `fix: dca9b37`
the back end rejects a structure two of whose fields would get the same helper class name, so
the former hypothesis "names stay distinct after `snake_to_camel`" is a consequence of
acceptance.  The other clash classes (field vs. `backing_` / `<param>_` / `has_<field>`, nested
enum vs. view method, type vs. `<Struct>View`…) are still open findings; they are decided by
the executable `Names.clashes`, tied to g++ by the correspondence, and characterised by
`C07_clash_scopes`; their witnesses are in `C07_names_counterexample`. -/
/-- **Accepted ⇒ the helper types of a structure have pairwise distinct names**: the nested
view classes of the non-alias virtual fields (`EmbossReservedVirtual<Camel>View`,
`EmbossReservedDollarVirtual<Name>View` for `$size_in_bytes` & co.) and the validators of the
fields with `[requires]` (`EmbossReservedValidatorFor<Camel>`).  Hypotheses: the back end's
check passed (`fieldNamesDistinct`, mirror of `_verify_generated_field_names_are_distinct`),
field names are distinct (front end), `$`-fields are virtual. -/
theorem C07_names_distinct (fs : List Field)
    (hnames : (fs.map (·.name)).Nodup)
    (hdv : ∀ f ∈ fs, isDollar f.name = true → f.validator = false)
    (hacc : fieldNamesDistinct fs = true) :
    (reservedNames fs).Nodup :=
  reservedNames_nodup fs hnames hdv hacc

/-- **The check rejects nothing but genuine collisions**: fields whose names stay pairwise
distinct after `snake_to_camel` pass it. -/
theorem C07_rejects_only_camel_collisions (fs : List Field)
    (hcamel : fs.Pairwise (fun a b => Emboss.Enum.snakeToCamel a.name ≠ Emboss.Enum.snakeToCamel b.name)) :
    fieldNamesDistinct fs = true := by
  simp only [fieldNamesDistinct, Bool.and_eq_true, Emboss.Enum.distinctLoop_iff, List.not_mem_nil,
    not_false_eq_true, implies_true, and_true]
  constructor
  · unfold checkedVirtualNames List.Nodup
    rw [List.pairwise_map]
    refine List.Pairwise.sublist List.filter_sublist (hcamel.imp ?_)
    intro a b hab h
    exact hab (List.append_cancel_left (List.append_cancel_right h))
  · unfold checkedValidatorNames List.Nodup
    rw [List.pairwise_map]
    refine List.Pairwise.sublist List.filter_sublist (hcamel.imp ?_)
    intro a b hab h
    exact hab (List.append_cancel_left h)

def fPlain (n : String) : Field := { name := s n }
def fVirt (n : String) : Field := { name := s n, ownView := true }
def fReq (n : String) : Field := { name := s n, validator := true }
def fConst (n : String) : Field := { name := s n, ownView := true, constant := true }

/-- The former counterexamples 1–2 (findings `virtual-field-names-equal-after-camel-conversion`
(F15), `validator-names-equal-after-camel-conversion`; fixed by dca9b37): the scopes would
clash, and the back end now rejects the structure.  Pinned in `corpus/C07/*_must_be_rejected.emb`. -/
theorem C07_camel_collisions_rejected :
    clean (classScope { name := s "Foo", fields := [fPlain "y", fVirt "x_1", fVirt "x1"] }) = false ∧
    fieldNamesDistinct [fPlain "y", fVirt "x_1", fVirt "x1"] = false ∧
    clean (namespaceScope { owner := some { name := s "Foo", fields := [fReq "x_1", fReq "x1"] } }) = false ∧
    fieldNamesDistinct [fReq "x_1", fReq "x1"] = false ∧
    -- not flagged: a `[requires]` field next to a virtual field and an alias with the same CamelCase form
    fieldNamesDistinct [fReq "x_1", fVirt "x1", fPlain "x__1"] = true := by
  decide

/-- The scopes that *would* clash, one per former clash class (the back end rejects each of these
modules since `_verify_generated_identifiers_are_distinct`: `C07_identifier_clashes_rejected`;
reverting that check makes `./check C07` report them again — they are in `corpus/C07/`):
3. field `backing_`; 4. parameter `x` and field `x_`; 5. fields `x` and `has_x`;
6. nested enum `Ok`; 7. struct `Bar` and enum `BarView`; 8. enum `EnumTraits`;
9. constant-size struct with nested enum `MaxSizeInBytes`;
10. a structure named `Storage` (or `ValueType`): the unqualified `Storage::MaxSizeInBytes()` in
the constant's `Read()` finds the template parameter instead of the namespace. -/
theorem C07_names_counterexample :
    clean (classScope { name := s "Foo", fields := [fPlain "backing_"] }) = false ∧
    clean (classScope { name := s "Foo", params := [s "x"], fields := [fPlain "x_"] }) = false ∧
    clean (classScope { name := s "Foo", fields := [fPlain "x", fPlain "has_x"] }) = false ∧
    clean (classScope { name := s "Foo", fields := [fPlain "y"], nestedEnums := [s "Ok"] }) = false ∧
    clean (namespaceScope { structs := [s "Bar"], enums := [s "BarView"] }) = false ∧
    clean (namespaceScope { enums := [s "EnumTraits"] }) = false ∧
    clean (namespaceScope { enums := [s "MaxSizeInBytes"], owner := some { name := s "Foo", fields := [fConst "$max_size_in_bytes"] } }) = false ∧
    clean (typeRefScope { name := s "Storage", fields := [fConst "$max_size_in_bytes"] }) = false ∧
    clean (nestedRefScope { name := s "ValueType", fields := [fConst "$max_size_in_bytes"] }) = false ∧
    -- 11. an enum nested in a structure and named like the structure
    clean (typeRefScope { name := s "Foo", nestedEnums := [s "Foo"] }) = false ∧
    -- 12. two modules of one C++ namespace that both declare `Foo`
    clean (namespaceScope { structs := [s "Foo", s "Foo"] }) = false ∧
    -- not a clash: a nested enum `ValueType`, a structure named like a member function
    clean (typeRefScope { name := s "Foo", nestedEnums := [s "ValueType"] }) = true ∧
    clean (nestedRefScope { name := s "IntrinsicSizeInBytes" }) = true := by
  decide

/-- **The clash scopes, proved** (not only evaluated on witnesses): `clean` decides exactly the
declarative well-formedness of a scope — any two declarations of the same identifier belong to
one overload / redeclaration group — and each open clash class of the view class makes *every*
structure of that shape ill-formed:
* a field named like a member every view class has (`backing_`, `Ok`-style names cannot occur:
  fields are snake_case — but `backing_` and, with parameters, `parameters_initialized_` can);
* a field `<p>_` next to a parameter `<p>` (the parameter's data member);
* fields `x` and `has_x`;
* a nested enum named like a member of the view class (`Ok`, `Storage`, `IsComplete`, …). -/
theorem C07_clash_scopes :
    (∀ ds, clean ds = true ↔
      ds.Pairwise (fun a b => a.ident = b.ident → ∃ g, a.group = some g ∧ b.group = some g)) ∧
    (∀ st f, f ∈ st.fields → isDollar f.name = false → f.name ∈ fixedMembers st →
      clean (classScope st) = false) ∧
    (∀ st p f, p ∈ st.params → f ∈ st.fields → isDollar f.name = false → f.name = p ++ s "_" →
      clean (classScope st) = false) ∧
    (∀ st f g, f ∈ st.fields → g ∈ st.fields → isDollar f.name = false → isDollar g.name = false →
      g.name = s "has_" ++ f.name → clean (classScope st) = false) ∧
    (∀ st e, e ∈ st.nestedEnums → e ∈ fixedMembers st → clean (classScope st) = false) := by
  refine ⟨?_, ?_, ?_, ?_, ?_⟩
  · intro ds
    rw [clean_iff]
    suffices key : ∀ a b : Decl, compatible a b = true ↔
        (a.ident = b.ident → ∃ g, a.group = some g ∧ b.group = some g) from
      ⟨fun h => h.imp (fun {a b} hab => (key a b).mp hab), fun h => h.imp (fun {a b} hab => (key a b).mpr hab)⟩
    intro a b
    unfold compatible
    cases ha : a.group <;> cases hb : b.group <;>
      simp only [Bool.or_false, Bool.or_eq_true, bne_iff_ne, ne_eq, beq_iff_eq]
    · constructor
      · intro h e; exact absurd e h
      · intro h e; obtain ⟨g, hg, _⟩ := h e; cases hg
    · constructor
      · intro h e; exact absurd e h
      · intro h e; obtain ⟨g, hg, _⟩ := h e; cases hg
    · constructor
      · intro h e; exact absurd e h
      · intro h e; obtain ⟨g, _, hg⟩ := h e; cases hg
    · constructor
      · rintro (h | h) e
        · exact absurd e h
        · exact ⟨_, rfl, by rw [h]⟩
      · intro h
        by_cases e : a.ident = b.ident
        · obtain ⟨g, h1, h2⟩ := h e
          cases h1; cases h2; exact Or.inr rfl
        · exact Or.inl e
  · intro st f hf hd hm
    rw [classScope_eq, List.append_assoc, List.append_assoc]
    refine not_clean_of_split _ _ { ident := f.name, what := "fixed member" }
      { ident := f.name, what := "field accessor" } ?_ ?_ (incompatible_of_ident _ _ rfl rfl)
    · exact List.mem_map.mpr ⟨f.name, hm, rfl⟩
    · exact List.mem_append_right _ (List.mem_append_left _ (accessor_mem st f hf hd).1)
  · intro st p f hp hf hd hn
    rw [classScope_eq, List.append_assoc]
    refine not_clean_of_split _ _ { ident := p ++ s "_", what := "parameter member" }
      { ident := f.name, what := "field accessor" } ?_ ?_ (incompatible_of_ident _ _ hn.symm rfl)
    · refine List.mem_append_right _ (List.mem_flatMap.mpr ⟨p, hp, ?_⟩)
      simp
    · exact List.mem_append_left _ (accessor_mem st f hf hd).1
  · intro st f g hf hg hdf hdg hn
    refine not_clean_of_mem _ { ident := s "has_" ++ f.name, what := "field has_" }
      { ident := g.name, what := "field accessor" } ?_ ?_ ?_ (incompatible_of_ident _ _ hn.symm rfl)
    · rw [classScope_eq]
      exact List.mem_append_left _ (List.mem_append_right _ (accessor_mem st f hf hdf).2)
    · rw [classScope_eq]
      exact List.mem_append_left _ (List.mem_append_right _ (accessor_mem st g hg hdg).1)
    · intro h
      have := congrArg Decl.what h
      simp at this
  · intro st e he hm
    rw [classScope_eq, List.append_assoc, List.append_assoc]
    refine not_clean_of_split _ _ { ident := e, what := "fixed member" }
      { ident := e, what := "using <enum>" } ?_ ?_ (incompatible_of_ident _ _ rfl rfl)
    · exact List.mem_map.mpr ⟨e, hm, rfl⟩
    · exact List.mem_append_right _ (List.mem_append_right _ (List.mem_map.mpr ⟨e, he, rfl⟩))

/-- Non-vacuity: each clause has an instance (they are the witnesses of
`C07_names_counterexample`). -/
example : s "backing_" ∈ fixedMembers { name := s "Foo" } ∧ s "Ok" ∈ fixedMembers { name := s "Foo" } ∧
    isDollar (s "backing_") = false ∧ s "x_" = s "x" ++ s "_" ∧ s "has_x" = s "has_" ++ s "x" := by
  decide

/-- **The namespace-scope clash classes, for every scope of the shape** (open findings
`type-named-like-generated-type-identifier`, `type-named-like-enum-helper`,
`nested-type-named-like-size-constant`): an enum named `<S>View`, `<S>Writer`, `Generic<S>View`,
`Make<S>View` or `MakeAligned<S>View` next to a structure `<S>`; an enum named like one of the four
enum helpers (with traits); a type nested in a structure and named like the free function of one
of the structure's constant virtual fields (`MaxSizeInBytes`, …). -/
theorem C07_clash_scopes_namespace :
    (∀ (sc : Scope) (n e : Name), n ∈ sc.structs → e ∈ sc.enums →
      (e = n ++ s "View" ∨ e = n ++ s "Writer" ∨ e = s "Generic" ++ n ++ s "View" ∨
       e = s "Make" ++ n ++ s "View" ∨ e = s "MakeAligned" ++ n ++ s "View") →
      clean (namespaceScope sc) = false) ∧
    (∀ (sc : Scope) (e : Name), sc.traits = true → e ∈ sc.enums →
      (e = s "EnumTraits" ∨ e = s "TryToGetEnumFromName" ∨ e = s "TryToGetNameFromEnum" ∨ e = s "EnumIsKnown") →
      clean (namespaceScope sc) = false) ∧
    (∀ (sc : Scope) (st : Struct) (f : Field) (c e : Name), sc.owner = some st → f ∈ st.fields →
      f.constant = true → cppFieldName f.name = some c → e ∈ sc.enums → e = c →
      clean (namespaceScope sc) = false) := by
  refine ⟨?_, ?_, ?_⟩
  · intro sc n e hn he hcase
    obtain ⟨i, hS⟩ := structDecl_mem sc n hn
    have hE := enumDecl_mem sc e he { ident := e, what := "enum" } (by simp [enumDecls])
    have key : ∀ d : Decl, d ∈ structDecls n i → d.ident = e → d.what ≠ "enum" →
        clean (namespaceScope sc) = false := by
      intro d hd hid hw
      refine not_clean_of_mem _ d { ident := e, what := "enum" } (hS d hd) hE ?_
        (incompatible_of_ident' _ _ hid rfl)
      intro h; exact hw (by rw [h])
    rcases hcase with rfl | rfl | rfl | rfl | rfl
    · exact key { ident := n ++ s "View", what := "View alias" } (by simp [structDecls]) rfl (by simp)
    · exact key { ident := n ++ s "Writer", what := "Writer alias" } (by simp [structDecls]) rfl (by simp)
    · exact key { ident := s "Generic" ++ n ++ s "View", what := "view class template" } (by simp [structDecls]) rfl (by simp)
    · exact key { ident := s "Make" ++ n ++ s "View", group := some (100 + i), what := "Make…View" } (by simp [structDecls]) rfl (by simp)
    · exact key { ident := s "MakeAligned" ++ n ++ s "View", what := "MakeAligned…View" } (by simp [structDecls]) rfl (by simp)
  · intro sc e ht he hcase
    have hE := enumDecl_mem sc e he
    rw [ht] at hE
    have hEnum := hE { ident := e, what := "enum" } (by simp [enumDecls])
    have key : ∀ d : Decl, d ∈ enumDecls e true → d.ident = e → d.what ≠ "enum" →
        clean (namespaceScope sc) = false := by
      intro d hd hid hw
      refine not_clean_of_mem _ d { ident := e, what := "enum" } (hE d hd) hEnum ?_
        (incompatible_of_ident' _ _ hid rfl)
      intro h; exact hw (by rw [h])
    rcases hcase with rfl | rfl | rfl | rfl
    · exact key { ident := s "EnumTraits", group := some 1, what := "EnumTraits" } (by simp [enumDecls]) rfl (by simp)
    · exact key { ident := s "TryToGetEnumFromName", group := some 2, what := "helper" } (by simp [enumDecls]) rfl (by simp)
    · exact key { ident := s "TryToGetNameFromEnum", group := some 3, what := "helper" } (by simp [enumDecls]) rfl (by simp)
    · exact key { ident := s "EnumIsKnown", group := some 4, what := "helper" } (by simp [enumDecls]) rfl (by simp)
  · intro sc st f c e ho hf hc hcpp he hec
    subst hec
    have hEnum := enumDecl_mem sc e he { ident := e, what := "enum" } (by simp [enumDecls])
    have hF : ({ ident := e, what := "constant function" } : Decl) ∈ namespaceScope sc := by
      unfold namespaceScope
      refine List.mem_append_left _ (List.mem_append_right _ ?_)
      rw [ho]
      refine List.mem_flatMap.mpr ⟨f, hf, ?_⟩
      simp [hc, hcpp]
    refine not_clean_of_mem _ _ _ hEnum hF ?_ (incompatible_of_ident _ _ rfl rfl)
    intro h
    have := congrArg Decl.what h
    simp at this

/-- **The reference and cross-module clash classes, for every structure / scope of the shape**
(round 3; before, `parameter-named-like-view-data-member` and `structure-named-Storage-or-ValueType`
were witnesses only): a parameter `<p>` whose data member `<p>_` is a member every view class has
(`backing`, `parameters_initialized`); a structure named `Storage` (template parameter of its view
class) or `ValueType` (alias in the nested view class of every virtual field), whose own
`<Struct>::…` references then resolve to those; an enum nested in a structure of the same name
(`nested-enum-named-like-its-structure`); a structure and an enum of one name in one C++ namespace
(only possible across modules: `type-declared-twice-in-one-cpp-namespace`). -/
theorem C07_clash_scopes_references :
    (∀ (st : Struct) (p : Name), p ∈ st.params → p ++ s "_" ∈ fixedMembers st → clean (classScope st) = false) ∧
    (∀ st : Struct, st.name = s "Storage" → clean (typeRefScope st) = false) ∧
    (∀ st : Struct, st.name = s "ValueType" → clean (nestedRefScope st) = false) ∧
    (∀ st : Struct, st.name ∈ st.nestedEnums → clean (typeRefScope st) = false) ∧
    (∀ (sc : Scope) (n : Name), n ∈ sc.structs → n ∈ sc.enums → clean (namespaceScope sc) = false) :=
  ⟨param_named_like_member, struct_named_storage, struct_named_valuetype, nested_enum_named_like_struct,
   struct_and_enum_of_one_name⟩

example : s "backing" ++ s "_" ∈ fixedMembers { name := s "Foo", params := [s "backing"] } ∧
    s "parameters_initialized" ++ s "_" ∈ fixedMembers { name := s "Foo", params := [s "parameters_initialized"] } := by
  decide

example : s "BarView" = s "Bar" ++ s "View" ∧ cppFieldName (s "$max_size_in_bytes") = some (s "MaxSizeInBytes") := by decide

/-- Non-vacuity: an ordinary structure is clean, and meets the hypotheses of
`C07_names_distinct_partial`. -/
example :
    clean (classScope { name := s "Foo", params := [s "n"], fields := [fPlain "a", fVirt "b_1", fConst "$size_in_bytes"], nestedEnums := [s "Kind"] }) = true ∧
    clean (namespaceScope { structs := [s "Foo", s "Bar"], enums := [s "Kind", s "Other"] }) = true ∧
    [fPlain "a", fVirt "b_1"].Pairwise
      (fun a b => Emboss.Enum.snakeToCamel a.name ≠ Emboss.Enum.snakeToCamel b.name) ∧
    fieldNamesDistinct [fPlain "a", fVirt "b_1", fConst "$size_in_bytes", fReq "c"] = true ∧
    ([fPlain "a", fVirt "b_1", fConst "$size_in_bytes", fReq "c"].map (·.name)).Nodup := by decide

/-! ## accepted ⇒ the generated identifiers are distinct (`_verify_generated_identifiers_are_distinct`) -/

/-- **Accepted ⇒ within every C++ scope of the generated code, two declarations of one identifier
belong to one overload / redeclaration set** — the full statement of the naming half, now a
consequence of acceptance: the back end walks every scope (`checkLoop`, the first-seen dictionary
of `_verify_generated_identifiers_are_distinct`) and rejects the module otherwise.
`Lemmas/NamesCheck.lean`: `checkLoop [] ds = clean ds`. -/
theorem C07_identifiers_distinct (scopes : List (List Decl)) (hacc : identifiersDistinct scopes = true) :
    ∀ sc ∈ scopes, sc.Pairwise (fun a b => a.ident = b.ident → ∃ g, a.group = some g ∧ b.group = some g) := by
  intro sc hs
  exact (C07_clash_scopes.1 sc).mp ((identifiersDistinct_iff scopes).mp hacc sc hs)

/-- **The check rejects nothing but genuine clashes**: it fails iff some scope holds two
incompatible declarations of one identifier. -/
theorem C07_rejects_only_identifier_clashes (scopes : List (List Decl)) :
    identifiersDistinct scopes = false ↔
      ∃ sc ∈ scopes, ¬ sc.Pairwise (fun a b => a.ident = b.ident → ∃ g, a.group = some g ∧ b.group = some g) := by
  constructor
  · intro h
    apply Classical.byContradiction
    intro hn
    have : identifiersDistinct scopes = true := by
      rw [identifiersDistinct_iff]
      intro sc hs
      rw [C07_clash_scopes.1 sc]
      apply Classical.byContradiction
      intro hc
      exact hn ⟨sc, hs, hc⟩
    rw [h] at this
    cases this
  · rintro ⟨sc, hs, hc⟩
    cases hd : identifiersDistinct scopes with
    | false => rfl
    | true => exact absurd (C07_identifiers_distinct scopes hd sc hs) hc

/-- **The former clash classes cannot occur in an accepted structure** (findings
`field-named-like-view-data-member`, `field-named-like-parameter-member`,
`field-named-has_-of-another-field`, `nested-enum-named-like-view-member`,
`parameter-named-like-view-data-member`, `structure-named-Storage-or-ValueType`,
`nested-enum-named-like-its-structure`; all fixed by rejection). -/
theorem C07_accepted_excludes_clash_classes (st : Struct) (hacc : identifiersDistinct (structScopes st) = true) :
    (∀ f ∈ st.fields, isDollar f.name = false → f.name ∉ fixedMembers st) ∧
    (∀ p ∈ st.params, ∀ f ∈ st.fields, isDollar f.name = false → f.name ≠ p ++ s "_") ∧
    (∀ f ∈ st.fields, ∀ g ∈ st.fields, isDollar f.name = false → isDollar g.name = false →
      g.name ≠ s "has_" ++ f.name) ∧
    (∀ e ∈ st.nestedEnums, e ∉ fixedMembers st) ∧
    (∀ p ∈ st.params, p ++ s "_" ∉ fixedMembers st) ∧
    st.name ≠ s "Storage" ∧ st.name ≠ s "ValueType" ∧ st.name ∉ st.nestedEnums := by
  have hall := (identifiersDistinct_iff _).mp hacc
  have hc : clean (classScope st) = true := hall _ (by simp [structScopes])
  have ht : clean (typeRefScope st) = true := hall _ (by simp [structScopes])
  have hn : clean (nestedRefScope st) = true := hall _ (by simp [structScopes])
  refine ⟨?_, ?_, ?_, ?_, ?_, ?_, ?_, ?_⟩
  · intro f hf hd hm
    have := C07_clash_scopes.2.1 st f hf hd hm
    rw [hc] at this; cases this
  · intro p hp f hf hd hm
    have := C07_clash_scopes.2.2.1 st p f hp hf hd hm
    rw [hc] at this; cases this
  · intro f hf g hg hdf hdg hm
    have := C07_clash_scopes.2.2.2.1 st f g hf hg hdf hdg hm
    rw [hc] at this; cases this
  · intro e he hm
    have := C07_clash_scopes.2.2.2.2 st e he hm
    rw [hc] at this; cases this
  · intro p hp hm
    have := C07_clash_scopes_references.1 st p hp hm
    rw [hc] at this; cases this
  · intro h
    have := C07_clash_scopes_references.2.1 st h
    rw [ht] at this; cases this
  · intro h
    have := C07_clash_scopes_references.2.2.1 st h
    rw [hn] at this; cases this
  · intro h
    have := C07_clash_scopes_references.2.2.2.1 st h
    rw [ht] at this; cases this

/-- **… nor in an accepted namespace scope** (findings `type-named-like-generated-type-identifier`,
`type-named-like-enum-helper`, `nested-type-named-like-size-constant`,
`type-declared-twice-in-one-cpp-namespace`). -/
theorem C07_accepted_excludes_namespace_clash_classes (sc : Scope)
    (hacc : identifiersDistinct [namespaceScope sc] = true) :
    (∀ n ∈ sc.structs, ∀ e ∈ sc.enums,
      e ≠ n ++ s "View" ∧ e ≠ n ++ s "Writer" ∧ e ≠ s "Generic" ++ n ++ s "View" ∧
      e ≠ s "Make" ++ n ++ s "View" ∧ e ≠ s "MakeAligned" ++ n ++ s "View" ∧ e ≠ n) ∧
    (sc.traits = true → ∀ e ∈ sc.enums,
      e ≠ s "EnumTraits" ∧ e ≠ s "TryToGetEnumFromName" ∧ e ≠ s "TryToGetNameFromEnum" ∧ e ≠ s "EnumIsKnown") ∧
    (∀ st f c, sc.owner = some st → f ∈ st.fields → f.constant = true → cppFieldName f.name = some c →
      c ∉ sc.enums) := by
  have hc : clean (namespaceScope sc) = true := (identifiersDistinct_iff _).mp hacc _ (by simp)
  refine ⟨?_, ?_, ?_⟩
  · intro n hn e he
    refine ⟨?_, ?_, ?_, ?_, ?_, ?_⟩
    · intro h; have := C07_clash_scopes_namespace.1 sc n e hn he (Or.inl h); rw [hc] at this; cases this
    · intro h; have := C07_clash_scopes_namespace.1 sc n e hn he (Or.inr (Or.inl h)); rw [hc] at this; cases this
    · intro h; have := C07_clash_scopes_namespace.1 sc n e hn he (Or.inr (Or.inr (Or.inl h))); rw [hc] at this; cases this
    · intro h; have := C07_clash_scopes_namespace.1 sc n e hn he (Or.inr (Or.inr (Or.inr (Or.inl h)))); rw [hc] at this; cases this
    · intro h; have := C07_clash_scopes_namespace.1 sc n e hn he (Or.inr (Or.inr (Or.inr (Or.inr h)))); rw [hc] at this; cases this
    · intro h
      subst h
      have := C07_clash_scopes_references.2.2.2.2 sc e hn he
      rw [hc] at this; cases this
  · intro ht e he
    refine ⟨?_, ?_, ?_, ?_⟩
    · intro h; have := C07_clash_scopes_namespace.2.1 sc e ht he (Or.inl h); rw [hc] at this; cases this
    · intro h; have := C07_clash_scopes_namespace.2.1 sc e ht he (Or.inr (Or.inl h)); rw [hc] at this; cases this
    · intro h; have := C07_clash_scopes_namespace.2.1 sc e ht he (Or.inr (Or.inr (Or.inl h))); rw [hc] at this; cases this
    · intro h; have := C07_clash_scopes_namespace.2.1 sc e ht he (Or.inr (Or.inr (Or.inr h))); rw [hc] at this; cases this
  · intro st f c ho hf hk hcpp he
    have := C07_clash_scopes_namespace.2.2 sc st f c c ho hf hk hcpp he rfl
    rw [hc] at this; cases this

/-- The former witnesses are rejected now; an ordinary structure and scope are accepted
(non-vacuity of the three theorems above).  Pinned in `corpus/C07/clash_*_must_be_rejected.*`. -/
theorem C07_identifier_clashes_rejected :
    identifiersDistinct (structScopes { name := s "Foo", fields := [fPlain "backing_"] }) = false ∧
    identifiersDistinct (structScopes { name := s "Foo", params := [s "x"], fields := [fPlain "x_"] }) = false ∧
    identifiersDistinct (structScopes { name := s "Foo", params := [s "backing"], fields := [fPlain "y"] }) = false ∧
    identifiersDistinct (structScopes { name := s "Foo", fields := [fPlain "x", fPlain "has_x"] }) = false ∧
    identifiersDistinct (structScopes { name := s "Foo", fields := [fPlain "y"], nestedEnums := [s "Ok"] }) = false ∧
    identifiersDistinct (structScopes { name := s "Storage", fields := [fPlain "y"] }) = false ∧
    identifiersDistinct (structScopes { name := s "ValueType", fields := [fPlain "y"] }) = false ∧
    identifiersDistinct (structScopes { name := s "Foo", fields := [fPlain "y"], nestedEnums := [s "Foo"] }) = false ∧
    identifiersDistinct [namespaceScope { structs := [s "Bar"], enums := [s "BarView"] }] = false ∧
    identifiersDistinct [namespaceScope { enums := [s "EnumTraits"] }] = false ∧
    identifiersDistinct [namespaceScope { enums := [s "EnumTraits"], traits := false }] = true ∧
    identifiersDistinct [namespaceScope { structs := [s "Foo", s "Foo"] }] = false ∧
    identifiersDistinct (structScopes { name := s "Foo", params := [s "n"], fields := [fPlain "a", fVirt "b_1", fConst "$size_in_bytes"], nestedEnums := [s "Kind", s "ValueType"] }) = true ∧
    identifiersDistinct [namespaceScope { structs := [s "Foo", s "Bar"], enums := [s "Kind", s "Other"] }] = true := by
  decide

/-! ## `(cpp) namespace` -/

/-- **An accepted `(cpp) namespace` value yields well-formed `namespace X {` lines**: the
components the back end emits (`_get_namespace_components`, the same scanner that validates the
text — whitespace around `::` and a leading `::` play no role) are at least one, each a C++
identifier, none of them a reserved word. -/
theorem C07_namespace_components (rw : List String) (text : List Char) (cs : List Name)
    (h : verifyNamespace rw text = .ok cs) :
    nsParse text = some cs ∧ cs ≠ [] ∧
    (∀ c ∈ cs, IsIdent c) ∧ (∀ c ∈ cs, String.ofList c ∉ rw) := by
  unfold verifyNamespace at h
  cases hp : nsParse text with
  | none =>
    simp only [hp] at h
    split at h
    · cases h
    · split at h <;> cases h
  | some ds =>
    simp only [hp] at h
    split at h
    · rename_i hf
      cases h
      obtain ⟨h1, h2⟩ := nsScan_sound text .lead [] cs hp (by simp) trivial
      refine ⟨rfl, h1, h2, ?_⟩
      intro c hc hm
      have : c ∈ cs.filter (fun c => rw.contains (String.ofList c)) :=
        List.mem_filter.mpr ⟨hc, by simp [hm]⟩
      rw [hf] at this
      cases this
    · cases h

/-- **Every text of the documented shape is accepted, with exactly its identifiers**
(completeness; with `C07_namespace_components` the scanner is characterised): blanks `w0`, an
optional `::` followed by blanks, an identifier, blanks, then any number of `:: blanks
identifier blanks` — whatever the blanks (any `str.isspace()` character), provided no component is
a reserved word. -/
theorem C07_namespace_text_complete (rw : List String) (w0 : List Char) (lead : Option (List Char))
    (n : Name) (w2 : List Char) (rest : List (List Char × Name × List Char))
    (h0 : w0.all Emboss.Enum.isSpace = true) (hl : ∀ w1, lead = some w1 → w1.all Emboss.Enum.isSpace = true)
    (hn : IsIdent n) (h2 : w2.all Emboss.Enum.isSpace = true)
    (hr : ∀ p ∈ rest, p.1.all Emboss.Enum.isSpace = true ∧ IsIdent p.2.1 ∧ p.2.2.all Emboss.Enum.isSpace = true)
    (hk : ∀ c ∈ n :: rest.map (·.2.1), String.ofList c ∉ rw) :
    verifyNamespace rw (w0 ++ nsLead lead ++ n ++ w2 ++ nsTail rest) = .ok (n :: rest.map (·.2.1)) := by
  unfold verifyNamespace
  rw [nsParse_complete w0 lead n w2 rest h0 hl hn h2 hr]
  have : (n :: rest.map (·.2.1)).filter (fun c => rw.contains (String.ofList c)) = [] := by
    rw [List.filter_eq_nil_iff]
    intro c hc
    simpa using hk c hc
  simp only [this]

/-- Non-vacuity: `" :: a1 :: b::c_1\t"` is such a text. -/
example : [' '] ++ nsLead (some [' ']) ++ s "a1" ++ [' '] ++ nsTail [([' '], s "b", []), ([], s "c_1", ['\t'])] =
    " :: a1 :: b::c_1\t".toList := by decide

/-- **Every C++17 keyword and alternative token is refused as a namespace component** — over the
back end's own table, regenerated from `_CPP_RESERVED_WORDS` on every run. -/
theorem C07_namespace_keywords_reserved :
    Emboss.Spec.cpp17Keywords.all (fun k => Emboss.Generated.cppReservedWords.contains k) = true := by
  decide +kernel

/-- Non-vacuity and the boundary cases (tests by evaluation): whitespace and a leading `::` are
tolerated; a keyword is refused however it is padded; `::` alone, an empty text, `a::`, `a b`
and `a:::b` are not namespaces. -/
example :
    verifyNamespace ["protected", "new"] " ::a1 :: b_2\t::c ".toList = .ok [s "a1", s "b_2", s "c"] ∧
    verifyNamespace ["protected", "new"] " new".toList = .reserved [s "new"] ∧
    verifyNamespace ["protected", "new"] "::".toList = .global ∧
    verifyNamespace ["protected", "new"] "  ".toList = .empty ∧
    verifyNamespace ["protected", "new"] "a::".toList = .invalid ∧
    verifyNamespace ["protected", "new"] "a b".toList = .invalid ∧
    verifyNamespace ["protected", "new"] "a:::b".toList = .invalid ∧
    verifyNamespace ["protected", "new"] "Protected".toList = .ok [s "Protected"] := by
  decide +kernel

/-- … and against the real table: the seeded-change witness. -/
example : verifyNamespace Emboss.Generated.cppReservedWords "acme :: protected :: wire".toList =
    .reserved [s "protected"] := by decide +kernel

/-! ## `enable_if` preconditions -/

/-- **Every `enable_if` of the runtime and of the code templates is accounted for** (table
regenerated on every run): caller-argument overload rules, the constructor guard, and the
ones over generated template arguments, each of which has its clause below. -/
theorem C07_enable_ifs_classified :
    Emboss.EnableIfs.allClassified = true ∧ Emboss.EnableIfs.allTagsProved = true := by
  decide +kernel

/-- **The generated `GenericArrayView` arguments enable exactly the members the templates use**:
`kAddressableUnitSize` is 8 for an array in a `struct` and 1 in a `bits`, so exactly one of the
two `SizeOfBuffer()` overloads (which `ElementCount()`/`Ok()` call unconditionally) exists, and
it is `SizeInBytes()` for a `struct`, `SizeInBits()` for a `bits`; `ToString()` exists only for
byte arrays of one-byte elements; any other unit would leave no overload at all. -/
theorem C07_enable_if_array_members (isBits : Bool) (elementSize : Nat) :
    Emboss.EnableIfs.sizeOverloads (Emboss.EnableIfs.arrayUnit isBits) = (!isBits, isBits) ∧
    (Emboss.EnableIfs.hasToString (Emboss.EnableIfs.arrayUnit isBits) elementSize = true ↔
      isBits = false ∧ elementSize = 1) ∧
    (∀ u, u ≠ 1 → u ≠ 8 → Emboss.EnableIfs.sizeOverloads u = (false, false)) := by
  refine ⟨by cases isBits <;> rfl, ?_, ?_⟩
  · cases isBits <;> simp [Emboss.EnableIfs.hasToString, Emboss.EnableIfs.arrayUnit]
  · intro u h1 h8
    simp [Emboss.EnableIfs.sizeOverloads, h1, h8]

example : Emboss.EnableIfs.sizeOverloads (Emboss.EnableIfs.arrayUnit true) = (false, true) ∧
    Emboss.EnableIfs.hasToString (Emboss.EnableIfs.arrayUnit false) 1 = true := by decide

end Emboss.C07
