/-
C07 — Every module the compiler accepts yields a header that compiles and instantiates.

"g++ accepts this text" is not a Lean proposition; the property is decomposed into the finite
list of reasons a generated header can be ill-formed that the *compiler's decisions* control:
identifier clashes, template-argument preconditions (`static_assert`s of the runtime, list
regenerated on every run), and rendered constants.  Everything else about C++
well-formedness is only observed (by really compiling an instantiate-everything driver).

Models: Emboss/Model/Names.lean, StaticAsserts.lean, CppInt.lean (+ Enum.lean for
`cppTypeForEnum`).
-/
import Emboss.Lemmas.StaticAsserts
import Emboss.Lemmas.EnumGen
import Emboss.Model.Names
namespace Emboss.C07
open Emboss.CppInt Emboss.StaticAsserts Emboss.Names

/-! ## constants -/

/-- **Rendered constants denote the front end's values.**  For every value the back end can
be asked to render (`[-2^63, 2^64)`; outside, its assertion fires and no header is produced),
`_render_integer` produces `static_cast<T>(…)` whose meaning under the C++ rules — decimal
literal typing with the `LL`/`ULL` suffix, unary minus, the `-9223372036854775807LL - 1` form
for `-2^63`, the outer conversion — is exactly the value. -/
theorem C07_constants_equal_front_end (v : Int) :
    (-9223372036854775808 ≤ v ∧ v ≤ 18446744073709551615 →
      ∃ r, renderInteger v = some r ∧ evalRendered r = some v ∧ r.longLongSuffix = true) ∧
    (v < -9223372036854775808 ∨ v > 18446744073709551615 → renderInteger v = none) := by
  refine ⟨?_, render_none v⟩
  rintro ⟨h1, h2⟩
  obtain ⟨r, hr, he⟩ := render_eval v h1 h2
  refine ⟨r, hr, he, ?_⟩
  unfold renderInteger at hr
  cases ht : typeForRange v v with
  | none => simp [ht] at hr
  | some ty =>
    simp only [ht] at hr
    split at hr <;> (cases hr; rfl)

/-- Non-vacuity / the interesting literals (tests by evaluation): `-2^63` takes the
`… - 1` form, `2^63` needs the `U` suffix, and a plain `-9223372036854775808LL` would be
ill-formed (its literal does not fit `long long`). -/
example : (renderInteger (-9223372036854775808)).map Rendered.toString =
      some "static_cast<int64>(-9223372036854775807LL - 1)" ∧
    (renderInteger 9223372036854775808).map Rendered.toString =
      some "static_cast<uint64>(9223372036854775808ULL)" ∧
    evalRendered ⟨i64, true, 9223372036854775808, false, true, false⟩ = none := by decide

/-! ## static_asserts -/

/-- **Every `static_assert` of the runtime is accounted for** (table regenerated from
`runtime/cpp/*.h` on every run): each is classified as platform / runtime-internal /
generated-argument, and each generated-argument class has its obligation proved in
`C07_static_asserts_hold`.  A new or edited assertion makes this fail to elaborate. -/
theorem C07_static_asserts_classified : allClassified = true ∧ allTagsProved = true := by
  decide +kernel

/-- **Accepted ⇒ every template argument the back end writes satisfies its precondition.**
One clause per generated-argument class of `Emboss.StaticAsserts.table`:
* `bits-le-64`, `bits-le-value-type`: a `UInt`/`Int`/`Bcd` field the front end accepted
  (`1 ≤ bits ≤ 64`) has a `LeastWidthInteger` and fits its `ValueType`;
* `flag-bits`, `float-bits`: accepted `Flag` is 1 bit, accepted `Float` 32 or 64;
* `bits-le-value-type` for `EnumView`: a field of `w ≤ maximum_bits` bits fits the enum's
  underlying type;
* `bitblock`: a byte-sized field of at most 8 bytes gives a `BitBlock` whose size is a
  multiple of 8 and at most 64;
* `alignment`: power-of-two alignment and `offset < alignment` are preserved by
  `OffsetStorageType` from any power-of-two root;
* `sub-alignment`: `(modulus, modular_value)` with `modular_value < modulus` (C05's
  invariant), or modulus "infinity" rendered as 0, satisfies `kSubAlignment == 0 ||
  kSubAlignment > kSubOffset`; array elements use `<kElementSize, 0>` with `kElementSize ≥ 1`;
* `null-byte-order`: a one-byte field gives `kBits == 8`. -/
theorem C07_static_asserts_hold :
    (∀ p b, Prelude.accepts p b = true →
      match p with
      | .uint | .int | .bcd => ∃ w, leastWidth b = some w ∧ b ≤ w
      | .flag => b = 1
      | .float => b = 32 ∨ b = 64) ∧
    (∀ (mb : Int) (sg : Bool) (ty : IntTy) (w : Nat),
      Emboss.Enum.cppTypeForEnum mb sg = some ty → (w : Int) ≤ mb → w ≤ ty.bits) ∧
    (∀ n : Nat, n ≤ 8 → (8 * n) % 8 = 0 ∧ 8 * n ≤ 64 ∧ (n = 1 → 8 * n = 8)) ∧
    (∀ k off subAl subOff : Nat,
      (∃ j, (offsetStorage (2 ^ k) off subAl subOff).1 = 2 ^ j) ∧
      (offsetStorage (2 ^ k) off subAl subOff).2 < (offsetStorage (2 ^ k) off subAl subOff).1) ∧
    (∀ (m : Option Nat) (v : Nat), (∀ x, m = some x → v < x) →
      (alignmentOf m v).1 = 0 ∨ (alignmentOf m v).1 > (alignmentOf m v).2) := by
  refine ⟨?_, ?_, ?_, offsetStorage_ok, ?_⟩
  · intro p b h
    cases p <;> simp only [Prelude.accepts, Bool.and_eq_true, decide_eq_true_eq, beq_iff_eq,
      Bool.or_eq_true] at h
    · obtain ⟨w, hw, h1, _⟩ := leastWidth_ok b h.2; exact ⟨w, hw, h1⟩
    · obtain ⟨w, hw, h1, _⟩ := leastWidth_ok b h.2; exact ⟨w, hw, h1⟩
    · obtain ⟨w, hw, h1, _⟩ := leastWidth_ok b h.2; exact ⟨w, hw, h1⟩
    · exact h
    · exact h
  · intro mb sg ty w hty hw
    obtain ⟨_, hb, _⟩ := Emboss.Enum.cppTypeForEnum_spec mb sg ty hty
    omega
  · intro n hn; omega
  · intro m v h
    cases m with
    | none => left; rfl
    | some x => right; exact h x rfl

/-- Non-vacuity: the arguments of a 3-byte `UInt` at offset `4*n + 1` inside a struct viewed
through `MakeAligned…View<…, 8>`. -/
example : Prelude.accepts .uint 24 = true ∧ leastWidth 24 = some 32 ∧
    offsetStorage 8 0 4 1 = (4, 1) ∧ alignmentOf (some 4) 1 = (4, 1) := by decide

/-
Full statement (false on the real code): for `c ? a : b` on integers the back end's
`IntermediateT` and `ResultT` are the same type (runtime `static_assert` "Choice's
IntermediateT should be the same as ResultT").

Proved fragment: when the result range is the hull of the two branches' ranges — what
`expression_bounds` computes for a non-constant condition.  Missing: constant conditions,
where the front end narrows the result to the selected branch (counterexample below, finding
`constant-condition-choice-static-assert`, found by builder `bounds`). -/
theorem C07_choice_types_partial (a b : Int × Int) :
    (choiceTypes (min a.1 b.1, max a.2 b.2) a b).1 = (choiceTypes (min a.1 b.1, max a.2 b.2) a b).2 := by
  simp only [choiceTypes]
  have h1 : min (min a.1 b.1) (min a.1 b.1) = min a.1 b.1 := by omega
  have h2 : max (max a.2 b.2) (max a.2 b.2) = max a.2 b.2 := by omega
  rw [h1, h2]

/-- Counterexample: `let v = true ? a : b` with `a : UInt:8`, `b : UInt:64` — result range
`[0, 255]` (`int32_t`), but `IntermediateT` ranges over `b` too (`uint64_t`). -/
theorem C07_choice_counterexample :
    choiceTypes (0, 255) (0, 255) (0, 18446744073709551615) = (some u64, some i32) := by decide

example : choiceTypes (min 0 0, max 255 65535) (0, 255) (0, 65535) = (some i32, some i32) := by decide

/-! ## names -/

/-
Full statement (false on the real code): within one C++ scope, distinct Emboss entities get
distinct identifiers.

Proved fragment (`EmbossReserved…` helper types of one structure): under the hypothesis
that the field names stay pairwise distinct after `snake_to_camel`.  The other clash classes
(field vs. `backing_` / `<param>_` / `has_<field>`, nested enum vs. view method, type vs.
`<Struct>View`…) are decided by the executable `Names.clashes`, tied to g++ by the
correspondence; their witnesses are in `C07_names_counterexample`. -/
theorem C07_names_distinct_partial (fs : List Field)
    (hsnake : ∀ f ∈ fs, ∀ c cs, f.name = c :: cs → c ≠ '$')
    (hcamel : fs.Pairwise (fun a b => Emboss.Enum.snakeToCamel a.name ≠ Emboss.Enum.snakeToCamel b.name)) :
    (reservedNames fs).Nodup := by
  have hv : ∀ f ∈ fs, virtualViewName f.name =
      some (s "EmbossReservedVirtual" ++ Emboss.Enum.snakeToCamel f.name ++ s "View") := by
    intro f hf
    unfold virtualViewName
    split
    · rename_i c cs heq
      exact absurd rfl (hsnake f hf _ _ heq)
    · rfl
  unfold reservedNames List.Nodup
  rw [List.pairwise_append]
  refine ⟨?_, ?_, ?_⟩
  · -- virtual view classes among themselves
    rw [List.pairwise_filterMap]
    refine (List.Pairwise.and_mem.mp hcamel).imp ?_
    rintro a b ⟨ha, hb, hab⟩ x hx y hy
    by_cases hoa : a.ownView = true
    · by_cases hob : b.ownView = true
      · simp only [hoa, hob, if_true] at hx hy
        rw [hv a ha] at hx
        rw [hv b hb] at hy
        cases hx; cases hy
        intro h
        have h1 := List.append_cancel_right h
        exact hab (List.append_cancel_left h1)
      · simp [hob] at hy
    · simp [hoa] at hx
  · -- validators among themselves
    rw [List.pairwise_map]
    have hp : fs.Pairwise (fun a b => validatorName a.name ≠ validatorName b.name) := by
      refine hcamel.imp ?_
      intro a b hab h
      exact hab (List.append_cancel_left h)
    exact hp.sublist List.filter_sublist
  · -- a view-class name is never a validator name
    intro x hx y hy h
    obtain ⟨f, hf, hfx⟩ := List.mem_filterMap.mp hx
    obtain ⟨g, hg, rfl⟩ := List.mem_map.mp hy
    by_cases hof : f.ownView = true
    · simp only [hof, if_true] at hfx
      rw [hv f hf] at hfx
      cases hfx
      simp [s, validatorName] at h
    · simp [hof] at hfx

def fPlain (n : String) : Field := { name := s n }
def fVirt (n : String) : Field := { name := s n, ownView := true }
def fReq (n : String) : Field := { name := s n, validator := true }
def fConst (n : String) : Field := { name := s n, ownView := true, constant := true }

/-- Counterexamples to the full statement, one per clash class (all replayed on the real
compiler + g++ by `./check C07`):
1. `let x_1 = …` and `let x1 = …` → two nested classes `EmbossReservedVirtualX1View` (F15);
2. `[requires]` on `x_1` and `x1` → two `EmbossReservedValidatorForX1`;
3. field `backing_`; 4. parameter `x` and field `x_`; 5. fields `x` and `has_x`;
6. nested enum `Ok`; 7. struct `Bar` and enum `BarView`; 8. enum `EnumTraits`;
9. constant-size struct with nested enum `MaxSizeInBytes`;
10. a structure named `Storage` (or `ValueType`): the unqualified `Storage::MaxSizeInBytes()` in
the constant's `Read()` finds the template parameter instead of the namespace. -/
theorem C07_names_counterexample :
    clean (classScope { name := s "Foo", fields := [fPlain "y", fVirt "x_1", fVirt "x1"] }) = false ∧
    clean (namespaceScope { owner := some { name := s "Foo", fields := [fReq "x_1", fReq "x1"] } }) = false ∧
    clean (classScope { name := s "Foo", fields := [fPlain "backing_"] }) = false ∧
    clean (classScope { name := s "Foo", params := [s "x"], fields := [fPlain "x_"] }) = false ∧
    clean (classScope { name := s "Foo", fields := [fPlain "x", fPlain "has_x"] }) = false ∧
    clean (classScope { name := s "Foo", fields := [fPlain "y"], nestedEnums := [s "Ok"] }) = false ∧
    clean (namespaceScope { structs := [s "Bar"], enums := [s "BarView"] }) = false ∧
    clean (namespaceScope { enums := [s "EnumTraits"] }) = false ∧
    clean (namespaceScope { enums := [s "MaxSizeInBytes"], owner := some { name := s "Foo", fields := [fConst "$max_size_in_bytes"] } }) = false ∧
    clean (referenceScope { name := s "Storage", fields := [fConst "$max_size_in_bytes"] }) = false := by
  decide

/-- Non-vacuity: an ordinary structure is clean, and meets the hypotheses of
`C07_names_distinct_partial`. -/
example :
    clean (classScope { name := s "Foo", params := [s "n"], fields := [fPlain "a", fVirt "b_1", fConst "$size_in_bytes"], nestedEnums := [s "Kind"] }) = true ∧
    clean (namespaceScope { structs := [s "Foo", s "Bar"], enums := [s "Kind", s "Other"] }) = true ∧
    [fPlain "a", fVirt "b_1"].Pairwise
      (fun a b => Emboss.Enum.snakeToCamel a.name ≠ Emboss.Enum.snakeToCamel b.name) := by decide

end Emboss.C07
