import Emboss.Model.Constraints
import Emboss.Generated.Prelude
import Emboss.Lemmas.ConstraintsReq
namespace Emboss.Constraints
open Emboss.Generated.Prelude

theorem C14_prelude_requirements :
    (∀ size, reqMet reqUInt size = true ↔ ∃ n, size = some n ∧ 1 ≤ n ∧ n ≤ 64) ∧
    (∀ size, reqMet reqInt size = true ↔ ∃ n, size = some n ∧ 1 ≤ n ∧ n ≤ 64) ∧
    (∀ size, reqMet reqBcd size = true ↔ ∃ n, size = some n ∧ 1 ≤ n ∧ n ≤ 64) ∧
    (∀ size, reqMet reqFlag size = true ↔ size = some 1) ∧
    (∀ size, reqMet reqFloat size = true ↔ (size = some 32 ∨ size = some 64)) := by
  refine ⟨?_, ?_, ?_, ?_, ?_⟩ <;> intro size <;> cases size with
  | none => simp [reqUInt, reqInt, reqBcd, reqFlag, reqFloat, reqMet_none_isStatic_and]
  | some n =>
    simp only [reqUInt, reqInt, reqBcd, reqFlag, reqFloat, reqMet, evalS_and, evalS_or,
      evalS_isStatic_some, evalS_le_num_size, evalS_le_size_num, evalS_eq_size_num, and3_bools,
      or3_bools, Val.truthy]
    simp

end Emboss.Constraints
