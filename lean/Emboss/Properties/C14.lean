/-
C14 — Physical layout and attribute rules are enforced exactly as documented.

Property theorems only.  Model: Emboss/Model/Constraints.lean (by pass, mirrors
constraints.py / attribute_checker.py / attribute_util.py); spec: Emboss/Spec/Constraints.lean
(`Realisable`, by documented rule); regenerated tables: Emboss/Generated/{Prelude,Reserved,
AttrTable}.lean.
-/
import Emboss.Lemmas.ConstraintsTypes
import Emboss.Lemmas.ConstraintsDefaults
import Emboss.Lemmas.ConstraintsReq
import Emboss.Lemmas.ConstraintsLookup
import Emboss.Lemmas.ConstraintsLoc
import Emboss.Generated.Prelude
namespace Emboss.Constraints
open Emboss.Generated Emboss.Generated.Prelude

/-! ### Example programs used for non-vacuity and as counterexample witnesses -/

def exUInt : TypeInfo :=
  { id := 0, name := "UInt", anonymous := false, unit := .none, kind := .external,
    attrs := [⟨"static_requirements", "", false, .req reqUInt⟩,
              ⟨"is_integer", "", false, .bool (some true) true⟩,
              ⟨"addressable_unit_size", "", false, .int (some 1)⟩],
    params := [], isFlag := false }

def exPrelude : Module :=
  { attrs := [⟨"namespace", "cpp", false, .str "emboss::prelude"⟩],
    types := .node exUInt .nil .nil, staticRefs := [] }

/-- `x` is a `size`-byte `UInt` with the given attributes. -/
def exField (size : Int) (attrs : List Attr) : Field :=
  { name := "x", isVirtual := false, ty := .atomic 0 none, start := some 0, sizeConst := some size,
    sizeMin := .fin size, sizeMax := .fin size, attrs := attrs, vkind := .other }

def exStruct (fields : List Field) (attrs : List Attr) : TypeInfo :=
  { id := 1, name := "Foo", anonymous := false, unit := .byte, kind := .structure fields,
    attrs := attrs, params := [], isFlag := false }

/-- `[$default byte_order: "LittleEndian"]  struct Foo:  0 [+2]  UInt  x` -/
def exGoodMain : Module :=
  { attrs := [⟨"byte_order", "", true, .str "LittleEndian"⟩],
    types := .node (exStruct [exField 2 []] []) .nil .nil, staticRefs := [] }

def exGood : Program := [exGoodMain, exPrelude]

/-- `struct Foo:  0 [+2]  UInt  x` — no byte order anywhere. -/
def exNoByteOrder : Program :=
  [{ attrs := [], types := .node (exStruct [exField 2 []] []) .nil .nil, staticRefs := [] },
   exPrelude]

/-- `[expected_back_ends: "cpp, xx"]  struct Foo:  0 [+2]  UInt  x  [(xx) byte_order: "BigEndian"]` -/
def exQualified : Program :=
  [{ attrs := [⟨"expected_back_ends", "", false, .str "cpp, xx"⟩],
     types := .node (exStruct [exField 2 [⟨"byte_order", "xx", false, .str "BigEndian"⟩]] [])
       .nil .nil, staticRefs := [] }, exPrelude]

/-- `enum Ee:  [is_signed: 1 == 1]  AA = 1` -/
def exSignedNonLiteral : Program :=
  [{ attrs := [],
     types := .node { id := 1, name := "Ee", anonymous := false, unit := .bit,
                      kind := .enum [⟨"AA", 1, []⟩],
                      attrs := [⟨"is_signed", "", false, .bool (some true) false⟩],
                      params := [], isFlag := false } .nil .nil,
     staticRefs := [] }, exPrelude]

/-- `0 [+x] UInt y` where the bounds of `x` are unbounded (value of a dynamically sized `UInt`). -/
def exUnbounded : Program :=
  [{ attrs := [⟨"byte_order", "", true, .str "LittleEndian"⟩],
     types := .node (exStruct [{ exField 2 [] with sizeConst := none, sizeMin := .negInf,
                                                   sizeMax := .posInf }] []) .nil .nil,
     staticRefs := [] }, exPrelude]

/-! ### Main theorem -/

/-
FULL STATEMENT (kept visible):   `check p = [] ↔ Realisable p`   for every resolved,
type-correct module list `p`, where `Realisable` reads attributes with the DOCUMENTED lookup
(`declared`: the unqualified attribute of that name).

PROVED: the statement below.  What is missing from the full one:
 (1) nothing any more: `Realisable` reads attributes with `getAttr`, which IS the documented
     lookup `declared` (`C14_lookup_documented`) since `ir_util.get_attribute` honours the
     back-end qualifier.
 (2) the side conditions `TypeWF` ("resolved, type-correct"): structures are bit- or
     byte-addressed; scalar field sizes have finite bounds (otherwise the 64-bit gate rejects
     the module in the same pass; the model no longer raises there); `is_signed`, if present, is
     a constant boolean (what the attribute pass has established).
All rule families are inside: parameter rules, attribute table (scope / `$default` / duplicate /
value), expected back ends, `fixed_size_in_bits`, `maximum_bits`, `is_signed` and enum value
ranges, `addressable_unit_size`, byte order (needed / not allowed / `Null`, `$default`
propagation), `[requires]` placement, bits (fixed, ≤ 64, no byte-oriented members), arrays,
explicit sizes, width requirements (`static_requirements` evaluated), reserved words, static
references, and the 64-bit expression-range gate (C05's `Emboss.Bounds.gate` on the annotated
top-level expressions of each module, user-visible and deferred/synthetic ones).
`check` reports the errors in the front end's own order (pass by pass, traversal by traversal:
`Forest.walk`); the iff goes through the per-entity regrouping (`passConstraints_nil` & co. in
Lemmas/ConstraintsOrder.lean); the order itself is tied by the correspondence run.
-/
theorem C14_accept_iff_realisable_partial (p : Program)
    (wf : ∀ c ∈ allTypes p, TypeWF c.2) : check p = [] ↔ Realisable p :=
  check_iff_realisable p wf

/-- Non-vacuity: `exGood` satisfies the side conditions and is accepted (hence realisable);
`exNoByteOrder` satisfies them and is rejected with exactly "byte_order required". -/
theorem exGood_wf : ∀ c ∈ allTypes exGood, TypeWF c.2 := by
  intro c hc
  simp [allTypes, exGood, exGoodMain, exPrelude, Module.ctxs, Forest.ctxs] at hc
  rcases hc with rfl | rfl
  · refine ⟨fun fs h => Or.inr rfl, ?_, ?_⟩
    · intro f hf _ _
      simp [TypeInfo.fields, exStruct] at hf
      subst hf
      exact ⟨2, 2, rfl, rfl⟩
    · intro v hv; simp [getAttr, Attr.named, exStruct] at hv
  · refine ⟨fun fs h => by simp [exUInt] at h, ?_, ?_⟩
    · intro f hf; simp [TypeInfo.fields, exUInt] at hf
    · intro v hv; simp [getAttr, Attr.named, exUInt] at hv

example : check exGood = [] := by decide +kernel
example : Realisable exGood :=
  (C14_accept_iff_realisable_partial exGood exGood_wf).1 (by decide +kernel)
example : check exNoByteOrder = [.boRequired] := by decide +kernel

/-! ### Reporting order and the 64-bit gate (tests on the model; tied by the correspondence) -/

/-- `struct Aa: 0 [+2] UInt int` (reserved name) followed by `struct Bb: 0 [+9] UInt x`
(72-bit `UInt`). -/
def exOrder : Program :=
  [{ attrs := [⟨"byte_order", "", true, .str "LittleEndian"⟩],
     types := .node { exStruct [{ exField 2 [] with name := "int" }] [] with id := 1, name := "Aa" } .nil
       (.node { exStruct [exField 9 []] [] with id := 2, name := "Bb" } .nil .nil),
     staticRefs := [] }, exPrelude]

/-- The errors come traversal by traversal, not type by type: the width error of the LATER
struct (traversal `[Structure, Type]`) precedes the reserved name of the earlier one
(traversal `[Field]`). -/
example : check exOrder = [.reqNotMet "UInt", .reservedField] := by decide +kernel

/-- A module with one gated expression whose range is 0 .. 2^64 (`x + 1`, `x` a 64-bit `UInt`):
user-visible → reported by `check_constraints`; synthetic → deferred, still rejected. -/
def exGate (syn : Bool) : Program :=
  [{ exGoodMain with
     gated := [(syn, .node true (.int ⟨.fin 1, .fin 18446744073709551616, .fin 1, .fin 0⟩)
                 [.node false (.int ⟨.fin 0, .fin 18446744073709551615, .fin 1, .fin 0⟩) [],
                  .node false (.int ⟨.fin 1, .fin 1, .inf, .fin 1⟩) []])] }, exPrelude]

example : check (exGate false) = [.gate .rangeTooBig] ∧ check (exGate true) = [.gate .rangeTooBig] ∧
    passConstraints (exGate true) = [] := by decide +kernel

/-! ### The regenerated prelude requirements are the documented ranges -/

/-- Evaluating the `static_requirements` of the regenerated prelude with
`$is_statically_sized` / `$static_size_in_bits` bound as `_check_physical_type_requirements`
binds them yields exactly the ranges of the language reference: `UInt`, `Int`, `Bcd`
1..64 bits; `Flag` 1 bit; `Float` 32 or 64 bits; never a dynamically sized field. -/
theorem C14_prelude_requirements :
    (∀ size, reqMet reqUInt size = true ↔ ∃ n, size = some n ∧ 1 ≤ n ∧ n ≤ 64) ∧
    (∀ size, reqMet reqInt size = true ↔ ∃ n, size = some n ∧ 1 ≤ n ∧ n ≤ 64) ∧
    (∀ size, reqMet reqBcd size = true ↔ ∃ n, size = some n ∧ 1 ≤ n ∧ n ≤ 64) ∧
    (∀ size, reqMet reqFlag size = true ↔ size = some 1) ∧
    (∀ size, reqMet reqFloat size = true ↔ (size = some 32 ∨ size = some 64)) := by
  refine ⟨?_, ?_, ?_, ?_, ?_⟩ <;> intro size <;> cases size with
  | none => simp [reqUInt, reqInt, reqBcd, reqFlag, reqFloat, reqMet_none_isStatic_and]
  | some n =>
    simp only [reqUInt, reqInt, reqBcd, reqFlag, reqFloat, reqMet, evalS_and, evalS_or,
      evalS_isStatic_some, evalS_le_num_size, evalS_le_size_num, evalS_eq_size_num, and3_bools,
      or3_bools, Val.truthy]
    simp

/-- The regenerated prelude declares exactly the five documented scalar types, each with a
requirement (table obligation, re-checked when prelude.emb changes). -/
theorem C14_prelude_types :
    Prelude.externals.map (·.1) = ["UInt", "Int", "Bcd", "Flag", "Float"] ∧
    Prelude.externals.all (fun e => e.2.isSome) = true := by decide

/-- Non-vacuity / tests at the boundary widths. -/
example : reqMet reqUInt (some 64) = true ∧ reqMet reqUInt (some 65) = false ∧
    reqMet reqUInt (some 0) = false ∧ reqMet reqFloat (some 16) = false ∧
    reqMet reqFlag (some 2) = false ∧ reqMet reqBcd none = false := by decide

/-- A realisable module list whose `UInt` is the regenerated prelude's: every scalar `UInt`
field of constant size is 1..64 bits wide (corollary of the main theorem and
`C14_prelude_requirements`, stated for the width rule). -/
theorem C14_uint_width (rt : TypeInfo) (size : Option Int)
    (hreq : getAttr rt.attrs "static_requirements" = some (.req reqUInt))
    (h : WidthOK rt size) : ∃ n, size = some n ∧ 1 ≤ n ∧ n ≤ 64 := by
  obtain ⟨e, he, hm⟩ := h.2 _ hreq
  cases he
  exact (C14_prelude_requirements.1 size).1 hm

/-! ### `$default byte_order` propagation -/

/-- The traversal hands a type definition `t` the default `d` iff `t` sits at the end of a
chain of nested type definitions of the module and `d` is the NEAREST `$default byte_order`
among the module and the types of the chain (innermost wins; `none` if there is none) — so a
default reaches exactly the definitions below it that are not shadowed by a closer one. -/
theorem C14_defaults_propagate (m : Module) (d : Option AVal) (t : TypeInfo) :
    (d, t) ∈ m.ctxs ↔
      ∃ path, IsPath m.types path t ∧ d = nearestDefault (m.attrs :: path.map (·.attrs)) := by
  unfold Module.ctxs
  rw [ctxs_iff_path]
  constructor
  · rintro ⟨path, hp, hd⟩; exact ⟨path, hp, by rw [hd, chainDefault_eq_nearest]⟩
  · rintro ⟨path, hp, hd⟩; exact ⟨path, hp, by rw [hd, chainDefault_eq_nearest]⟩

/-- … and within a type definition it reaches exactly the fields that need a byte order and
lack their own: the byte order a field ends up with is its own if it has one; nothing if it is
not byte-order dependent; else the default in effect; else (no default) `"Null"` when the
field is one unit long or made of one-unit elements. -/
theorem C14_defaults_reach_fields (p : Program) (d : Option AVal) (t : TypeInfo) (f : Field) :
    (∀ v, getAttr f.attrs "byte_order" = some v → effByteOrder p d t f = some v) ∧
    (getAttr f.attrs "byte_order" = none → needsByteOrder p t f ≠ some true →
      effByteOrder p d t f = none) ∧
    (∀ v, getAttr f.attrs "byte_order" = none → needsByteOrder p t f = some true → d = some v →
      effByteOrder p d t f = some v) ∧
    (getAttr f.attrs "byte_order" = none → needsByteOrder p t f = some true → d = none →
      effByteOrder p d t f = if mayNull p t f then some (.str "Null") else none) := by
  refine ⟨?_, ?_, ?_, ?_⟩
  · intro v h; simp [effByteOrder, h]
  · intro h hn; simp [effByteOrder, h, hn]
  · intro v h hn hd; simp [effByteOrder, h, hn, hd]
  · intro h hn hd; simp [effByteOrder, h, hn, hd]

/-- Non-vacuity: in `exGood` the module default reaches `Foo` through the path `[Foo]`. -/
example : exGoodMain.ctxs.map (fun c => (c.1, c.2.name)) =
    [(some (AVal.str "LittleEndian"), "Foo")] := by decide +kernel

/-! ### Reserved words -/

/-- A name is rejected (as a field, enum value or type name) iff it is in the regenerated
reserved-word list. -/
theorem C14_reserved_words (n : String) (e : EK) :
    (if isReserved n = true then [e] else []) ≠ [] ↔ n ∈ Reserved.reservedWords.map (·.1) := by
  unfold isReserved
  rw [List.mem_map]
  constructor
  · intro h
    cases hl : Reserved.reservedWords.lookup n with
    | none => simp [hl] at h
    | some v =>
      have := List.lookup_eq_some_iff.1 hl
      obtain ⟨l1, l2, heq, _⟩ := this
      exact ⟨(n, v), by rw [heq]; simp, rfl⟩
  · rintro ⟨⟨w, l⟩, hm, rfl⟩
    cases hl : Reserved.reservedWords.lookup w with
    | none =>
      rw [List.lookup_eq_none_iff] at hl
      have := hl (w, l) hm
      simp at this
    | some v => simp

/-- Tests on the regenerated list: C / C++ / Python words are in, ordinary names are not. -/
example : isReserved "int" = true ∧ isReserved "class" = true ∧ isReserved "lambda" = true ∧
    isReserved "length" = false ∧ isReserved "Int" = false := by decide +kernel

/-! ### Error locations of the attribute-table rules -/

/-- **Where the attribute-table errors point.**  For every attribute list (of a module, type
definition, field or enum value) and scope table: the located check (`checkAttrListL`, tied to
the real error locations by the correspondence) reports exactly the kinds of `checkAttrList` —
so everything above about acceptance applies to it — and every error points into the list it
was given: at one of ITS attributes (index in range), a duplicate's note at an EARLIER
attribute of the same list; never at another definition. -/
theorem C14_attr_errors_located (specs : List (String × Bool)) (attrs : List Attr) :
    (checkAttrListL specs [] 0 attrs).map (·.k) = checkAttrList specs [] attrs ∧
    ∀ e ∈ checkAttrListL specs [] 0 attrs,
      e.idx < attrs.length ∧ ∀ j, e.note = some j → j < e.idx := by
  refine ⟨checkAttrListL_kinds specs attrs [] 0, fun e he => ?_⟩
  have h := checkAttrListL_where specs attrs [] 0 (by intro s hs; cases hs) e he
  exact ⟨by omega, h.2.2⟩

/-- non-vacuity: on a field, `[byte_order: 3] [(cpp) x: 1] [foo: 1] [byte_order: "Null"]
[$default byte_order: "Null"]` gives: wrong value at the VALUE of #0, unknown attribute at the
NAME of #2 (the qualified #1 is skipped), duplicate at the WHOLE of #3 with the note at #0, "may
not be defaulted" at the NAME of #4. -/
example :
    checkAttrListL AttrTable.physicalFieldAttrs [] 0
      [⟨"byte_order", "", false, .int (some 3)⟩, ⟨"x", "cpp", false, .int (some 1)⟩,
       ⟨"foo", "", false, .int (some 1)⟩, ⟨"byte_order", "", false, .str "Null"⟩,
       ⟨"byte_order", "", true, .str "Null"⟩]
    = [⟨.attrChoice "byte_order", 0, .value, none⟩, ⟨.unknownAttr "foo", 2, .name, none⟩,
       ⟨.dupAttr "byte_order", 3, .whole, some 0⟩, ⟨.noDefault "byte_order", 4, .name, none⟩] := by
  decide +kernel

/-- **Where the field-attribute errors point** (`_verify_field_attributes`).  The located
check reports exactly the kinds of `verifyByteOrder ++ verifyRequires`; "byte_order required" is
reported at the field itself; a `[requires]` placement error at the value of the field's OWN
`[requires]` attribute (an index into its attribute list) — never at another field or scope.
("not allowed" / "may only be 'Null'" point at the field's own byte_order attribute, or, for a
`Null` inherited from a `$default`, at that `$default`: `FieldAt.inherited`.) -/
theorem C14_field_errors_located (p : Program) (d : Option AVal) (t : TypeInfo) (f : Field) :
    (verifyFieldL p d t f).map (·.1) = verifyByteOrder p d t f ++ verifyRequires p f ∧
    (∀ e ∈ verifyFieldL p d t f, e.1 = .boRequired → e.2 = .field) ∧
    (∀ k ∈ verifyRequires p f, k = .requiresArray ∨ k = .requiresType →
      ∃ i, fieldErrAt f k = .attrValue i ∧ i < f.attrs.length) := by
  refine ⟨verifyFieldL_kinds p d t f, ?_, fun k hk hr => requires_located p f k hk hr⟩
  intro e he hb
  simp only [verifyFieldL, List.mem_map] at he
  obtain ⟨k, _, rfl⟩ := he
  simp only at hb
  subst hb
  rfl

/-- non-vacuity: `0 [+2] UInt x` without byte order → at the field; `[requires: …]` (attribute
#1) on an array → at the value of attribute #1; `[byte_order: "Null"]` (attribute #0) on a 2-byte
field → at the value of attribute #0; the same `Null` inherited from the module's `$default` →
`inherited`. -/
example :
    verifyFieldL exNoByteOrder none (exStruct [exField 2 []] []) (exField 2 []) = [(.boRequired, .field)] ∧
    verifyFieldL exGood (some (.str "LittleEndian")) (exStruct [] [])
      { exField 2 [⟨"text_output", "", false, .str "Emit"⟩, ⟨"requires", "", false, .bool none false⟩]
        with ty := .array (.atomic 0 (some 8)) (.const 2) } = [(.requiresArray, .attrValue 1)] ∧
    verifyFieldL exGood none (exStruct [] []) (exField 2 [⟨"byte_order", "", false, .str "Null"⟩])
      = [(.boNull, .attrValue 0)] ∧
    verifyFieldL exGood (some (.str "Null")) (exStruct [] []) (exField 2 []) = [(.boNull, .inherited)] := by
  decide +kernel

/-! ### Attribute lookups and the qualifier quirk -/

/-- On an attribute list without back-end-qualified attributes the front end's lookup is the
documented one. -/
theorem C14_lookup_unqualified (attrs : List Attr) (n : String) (h : UnqAttrs attrs) :
    getAttr attrs n = declared attrs n :=
  getAttr_eq_declared attrs n h

/-- The front end's lookup IS the documented one (since the repair of `ir_util.get_attribute`:
only unqualified attributes are considered), on every attribute list. -/
theorem C14_lookup_documented (attrs : List Attr) (n : String) :
    getAttr attrs n = declared attrs n := rfl

/-- Formerly a counterexample (fixed): a 2-byte `UInt` whose only byte order is the
back-end-qualified `[(xx) byte_order: "BigEndian"]` has no byte order and is rejected, exactly
like the field without any attribute. -/
example : check exQualified = [.boRequired] ∧ check exNoByteOrder = [.boRequired] := by
  decide +kernel

/-- Formerly raising inputs (fixed): `[is_signed: 1 == 1]` is read as `true` (the value 1 of
`AA` fits); a scalar field whose size has unbounded range is not an exception any more (the
module is rejected by the 64-bit gate on the size expression, which is outside this abstract
program: `gated = []`). -/
example : check exSignedNonLiteral = [] ∧ check exUnbounded = [.reqNotMet "UInt"] := by
  decide +kernel

end Emboss.Constraints
