/-
C17 — Compilation is a pure function of its input files.

Property theorems only.  Model: Emboss/Model/Purity.lean (cache + counter state machine,
import queue, import-directory search) and Emboss/Model/PurityPatterns.lean (idioms by
which set-ordered data is consumed).  Spec: Emboss/Spec/Purity.lean.
The iteration-site table Emboss/Generated/IterSites.lean is regenerated from the emboss
sources on every run; `C17_sites_discharged` is re-checked against it.
-/
import Emboss.Lemmas.PurityView
import Emboss.Lemmas.PurityPatterns
import Emboss.Generated.IterSites
namespace Emboss.Purity
open Spec

/-! ## repetition inside one process -/

/-- Whatever was compiled before in this process (`hist`), compiling the same files a
second time gives the identical outcome — module IRs including the anonymous numbers, or
the same diagnostic — and leaves the process state unchanged (every step is a cache hit
or the re-evaluation of a pure failing parse). -/
theorem C17_repeat_identical (P : Parser) (hist : List Job) (read : Reader) (fuel : Nat)
    (main : String) :
    let σ := runHistory P St.init hist
    let r₁ := compile P read fuel σ main
    compile P read fuel r₁.1 main = (r₁.1, r₁.2) := by
  intro σ r₁
  have hg : Genuine P σ := runHistory_genuine P hist _ (genuine_init P)
  obtain ⟨_, hg₁, hst⟩ := compileAux_stable P read fuel σ [main] [main] [] r₁.1 r₁.2 hg rfl
  exact hst r₁.1 hg₁ (Ext.refl _)

/-- Non-vacuity: a two-module program (main imports `b`, both with anonymous fields) after
an unrelated compilation; the first run misses, the second hits, outcomes are equal and
non-trivial. -/
def exParser : Parser := fun text _ =>
  if text = "M" then .ok ⟨["b"], [.lit "struct", .hole 0, .hole 1, .hole 0]⟩
  else if text = "B" then .ok ⟨[], [.hole 0]⟩
  else if text = "N" then .ok ⟨[], [.hole 0, .hole 1, .hole 2]⟩
  else .error ("syntax error in " ++ text)
def exRead : Reader := fun f =>
  if f = "m" then .ok "M" else if f = "b" then .ok "B" else if f = "n" then .ok "N"
  else if f = "bad" then .ok "?" else .error "no such file"
example :
    let σ := runHistory exParser St.init [⟨exRead, "n", 9⟩]
    let r := compile exParser exRead 9 σ "m"
    r.2 = .ok [⟨"M", "m", 3, ⟨["b"], [.lit "struct", .hole 0, .hole 1, .hole 0]⟩⟩,
               ⟨"B", "b", 5, ⟨[], [.hole 0]⟩⟩] ∧ r.1.counter = 6 ∧ σ.counter = 3 := by
  decide

/-! ## independence of what was compiled earlier in the process -/

/-- For every history of other compilations, the outcome of compiling `main` is the outcome
a fresh process gives, up to a renaming of the anonymous numbers that is injective on the
numbers that occur and a translation inside each module; diagnostics and fuel exhaustion
are identical.  (The counter is never reset in the real code, so exact equality does not
hold: `C17_exact_history_independence_counterexample`.) -/
theorem C17_history_independent (P : Parser) (hist : List Job) (read : Reader) (fuel : Nat)
    (main : String) :
    ∃ ρ : Nat → Nat,
      (∀ a ∈ anons (compile P read fuel St.init main).2.view,
        ∀ b ∈ anons (compile P read fuel St.init main).2.view, ρ a = ρ b → a = b) ∧
      (compile P read fuel (runHistory P St.init hist) main).2.view =
        rename ρ (compile P read fuel St.init main).2.view ∧
      TranslationPerModule ρ (compile P read fuel St.init main).2.view := by
  have hg : Genuine P (runHistory P St.init hist) := runHistory_genuine P hist _ (genuine_init P)
  have hn : Numbered (runHistory P St.init hist) :=
    runHistory_numbered P hist _ (genuine_init P) numbered_init
  have hsim := compileAux_similar P read fuel St.init (runHistory P St.init hist) [main] [main] [] []
    (genuine_init P) hg .nil
  have h₀ := compileAux_numbered P read fuel St.init [main] [main] [] _ _ (genuine_init P)
    numbered_init (by simp) rfl
  have h₁ := compileAux_numbered P read fuel (runHistory P St.init hist) [main] [main] [] _ _ hg hn
    (by simp) rfl
  unfold compile
  generalize (compileAux P read fuel St.init [main] [main] []) = r₀ at hsim h₀ ⊢
  generalize (compileAux P read fuel (runHistory P St.init hist) [main] [main] []) = r at hsim h₁ ⊢
  obtain ⟨σ₀', o₀⟩ := r₀
  obtain ⟨σ', o⟩ := r
  simp only at hsim h₀ h₁ ⊢
  cases hsim with
  | ok hp =>
    exact view_renaming σ₀' σ' h₀.1 h₁.1 _ _ hp (h₀.2 _ rfl) (h₁.2 _ rfl)
  | error d =>
    exact ⟨id, fun a ha => by simp [Outcome.view, anons] at ha, rfl, trivial⟩
  | outOfFuel =>
    exact ⟨id, fun a ha => by simp [Outcome.view, anons] at ha, rfl, trivial⟩

/-- `EqualUpToAnonymousNumbering` (the spec's wording) follows. -/
theorem C17_history_independent_spec (P : Parser) (hist : List Job) (read : Reader) (fuel : Nat)
    (main : String) :
    EqualUpToAnonymousNumbering (compile P read fuel St.init main).2.view
      (compile P read fuel (runHistory P St.init hist) main).2.view := by
  obtain ⟨ρ, h₁, h₂, _⟩ := C17_history_independent P hist read fuel main
  exact ⟨ρ, h₁, h₂⟩

/-- Non-vacuity of the renaming: after compiling `n` (3 anonymous fields) the modules of `m`
are numbered 4,5 / 6 instead of 1,2 / 3. -/
example :
    (compile exParser exRead 9 St.init "m").2.view =
      .ok [("m", "M", [.lit "struct", .anon 1, .anon 2, .anon 1]), ("b", "B", [.anon 3])] ∧
    (compile exParser exRead 9 (runHistory exParser St.init [⟨exRead, "n", 9⟩]) "m").2.view =
      .ok [("m", "M", [.lit "struct", .anon 4, .anon 5, .anon 4]), ("b", "B", [.anon 6])] := by
  decide

/-- The real code's counter leaks: *exact* history independence is false.  (Replayed on the
real front end by harness/corr/C17.py, scenario `leak`.) -/
theorem C17_exact_history_independence_counterexample :
    (compile exParser exRead 9 (runHistory exParser St.init [⟨exRead, "n", 9⟩]) "m").2.view ≠
      (compile exParser exRead 9 St.init "m").2.view := by
  decide

/-- The renaming need not preserve order *across* modules: if `b` was compiled earlier, it
keeps its old (smaller) numbers while `m` gets fresh ones — in a fresh process `m` is
numbered before `b`. -/
theorem C17_cross_module_order_counterexample :
    (compile exParser exRead 9 St.init "m").2.view =
      .ok [("m", "M", [.lit "struct", .anon 1, .anon 2, .anon 1]), ("b", "B", [.anon 3])] ∧
    (compile exParser exRead 9 (runHistory exParser St.init [⟨exRead, "b", 9⟩]) "m").2.view =
      .ok [("m", "M", [.lit "struct", .anon 2, .anon 3, .anon 2]), ("b", "B", [.anon 1])] := by
  decide

/-- Diagnostics are not cached and do not touch the counter: a failing compilation leaves
the state as it was. -/
theorem C17_failed_parse_leaves_state (P : Parser) (σ : St) (t f d : String)
    (h : (step P σ t f).2 = .error d) : (step P σ t f).1 = σ := by
  rcases step_cases P σ t f with ⟨m, _, hs⟩ | ⟨_, d', _, hs⟩ | ⟨_, sk, _, hs⟩
  · rw [hs]
  · rw [hs]
  · rw [hs] at h; cases h

example : (compile exParser exRead 9 St.init "bad").2 = .error "syntax error in ?" ∧
    (compile exParser exRead 9 St.init "bad").1.counter = 0 := by decide

/-! ## import directories -/

/-- If every import directory that has the file holds the same text, any order of the
directories reads that text. -/
theorem C17_import_dir_order (fs : String → String → Option String) (f t : String)
    (dirs dirs' : List String) (h : IdenticalCopies fs f dirs t) (p : dirs'.Perm dirs) :
    findInDirs fs f dirs' = some t := by
  obtain ⟨⟨d, hd, hf⟩, hall⟩ := h
  cases hr : findInDirs fs f dirs' with
  | some t' =>
    obtain ⟨d', hd', hf'⟩ := findInDirs_some fs f dirs' t' hr
    rw [hall d' (p.subset hd') t' hf']
  | none =>
    have := findInDirs_none fs f dirs' hr d (p.symm.subset hd)
    rw [hf] at this; cases this

example : IdenticalCopies (fun d f => if f = "x.emb" ∧ d ≠ "c" then some "T" else none) "x.emb"
    ["a", "b", "c"] "T" ∧
    findInDirs (fun d f => if f = "x.emb" ∧ d ≠ "c" then some "T" else none) "x.emb" ["c", "b", "a"]
      = some "T" := by
  refine ⟨⟨⟨"a", by simp, by simp⟩, ?_⟩, by decide⟩
  intro d _ t' h; simp only at h; split at h <;> simp_all

/-- Whether the file is found at all does not depend on the order either. -/
theorem C17_import_dir_order_missing (fs : String → String → Option String) (f : String)
    (dirs dirs' : List String) (p : dirs'.Perm dirs) (h : findInDirs fs f dirs = none) :
    findInDirs fs f dirs' = none := by
  cases hr : findInDirs fs f dirs' with
  | none => rfl
  | some t =>
    obtain ⟨d, hd, hf⟩ := findInDirs_some fs f dirs' t hr
    have := findInDirs_none fs f dirs h d (p.subset hd)
    rw [hf] at this; cases this

/-! ## order-independence of every pattern by which set-ordered data is consumed -/

/-- `sorted(S)` / `", ".join(sorted(S))` (F6 repair; ambiguity candidates; back ends). -/
theorem C17_order_independent_sortedFirst (le : α → α → Bool) (h : TotalLE le) :
    OrderIndependent (pySorted le) := fun _ _ p => pySorted_perm le h p

theorem C17_order_independent_joinSorted (le : String → String → Bool) (h : TotalLE le) (sep : String) :
    OrderIndependent (joinSorted le sep) := fun _ _ p => by
  unfold joinSorted; rw [pySorted_perm le h p]

/-- `sorted(S, key=k)` when `k` is injective on `S`. -/
theorem C17_order_independent_sortedByKey (le : κ → κ → Bool) (h : TotalLE le) (key : α → κ)
    (l₁ l₂ : List α) (p : l₁.Perm l₂) (inj : ∀ a ∈ l₁, ∀ b ∈ l₁, key a = key b → a = b) :
    pySortedBy le key l₁ = pySortedBy le key l₂ := pySortedBy_perm le h key p inj

/-- … and `key=sorted` on frozensets (both `sorted(cycles, key=sorted)` sites, F7 repair) is
injective: equal sorted element lists mean equal sets. -/
theorem C17_sortedKey_injective (le : α → α → Bool) (s₁ s₂ : List α)
    (h : pySorted le s₁ = pySorted le s₂) : s₁.Perm s₂ := sortedKey_injective le h

theorem C17_order_independent_anyAll (f : α → Bool) :
    OrderIndependent (fun l => l.any f) ∧ OrderIndependent (fun l => l.all f) :=
  ⟨fun _ _ p => p.any_eq, fun _ _ p => p.all_eq⟩

theorem C17_order_independent_minMax : OrderIndependent pyMin ∧ OrderIndependent pyMax :=
  ⟨fun _ _ p => pyMin_perm p, fun _ _ p => pyMax_perm p⟩

theorem C17_order_independent_lenOnly : OrderIndependent (List.length (α := α)) :=
  fun _ _ p => p.length_eq

theorem C17_order_independent_setBuild (f : α → List β) : OrderIndependentAsSet (setBuild f) :=
  fun _ _ p y => setBuild_perm f p y

theorem C17_order_independent_commFold (op : β → α → β)
    (comm : ∀ z x y, op (op z x) y = op (op z y) x) (init : β) :
    OrderIndependent (fold op init) := fun _ _ p => fold_perm op comm init p

theorem C17_order_independent_singleton : OrderIndependent (onlyElement (α := α)) :=
  fun _ _ p => onlyElement_perm p

/-- A memo table (or a lazily initialised constant) is transparent: whatever is already
stored, the value returned is the function's value, and the table stays correct. -/
theorem C17_memo_transparent [BEq κ] [LawfulBEq κ] (f : κ → ν) (cache : List (κ × ν))
    (h : MemoOk f cache) (k : κ) :
    (memoStep f cache k).2 = f k ∧ MemoOk f (memoStep f cache k).1 :=
  ⟨memoStep_value f cache h k, memoStep_ok f cache h k⟩

/-- Non-vacuity of the pattern theorems + what goes wrong without them: joining the raw
iteration order is *not* order independent (the shape of defect F6), taking the first
element of an unsorted multi-element set is not either. -/
def leNat : Nat → Nat → Bool := fun a b => decide (a ≤ b)
theorem leNat_total : TotalLE leNat :=
  ⟨fun a b c => by simp only [leNat, decide_eq_true_eq]; omega,
   fun a b => by simp only [leNat, Bool.or_eq_true, decide_eq_true_eq]; omega,
   fun a b => by simp only [leNat, decide_eq_true_eq]; omega⟩
example : pySorted leNat [3, 1, 2] = pySorted leNat [2, 3, 1] :=
  C17_order_independent_sortedFirst leNat leNat_total _ _
    ((List.Perm.swap 1 3 [2]).trans ((List.Perm.cons 1 (List.Perm.swap 2 3 [])).trans
      ((List.Perm.swap 2 1 [3]).trans (List.Perm.cons 2 (List.Perm.swap 3 1 [])))))

theorem C17_unsorted_join_counterexample :
    ¬ OrderIndependent (fun l : List String => ", ".intercalate l) := by
  intro h
  have := h ["a", "b"] ["b", "a"] (List.Perm.swap _ _ _)
  revert this; decide

theorem C17_first_of_unsorted_counterexample : ¬ OrderIndependent (fun l : List Nat => l.head?) := by
  intro h
  have := h [1, 2] [2, 1] (List.Perm.swap _ _ _)
  revert this; decide

/-! ## the regenerated site list -/

/-- Every site found in the current emboss sources is classified into one of the patterns
above, is process state the model contains, or is a reviewed exception. -/
theorem C17_sites_discharged :
    ∀ s ∈ Emboss.Generated.IterSites.sites, s.pattern.discharged = true := by
  decide

example : Emboss.Generated.IterSites.sites.length > 20 := by decide

end Emboss.Purity
