/-
C11 — The formatter preserves meaning, is idempotent, and never fails on valid input.

Property theorems only.  Model: Emboss/Model/Fmt.lean (format_emb.py + the fold of
parser_util.transform_parse_tree); table: Emboss/Generated/FmtTable.lean (regenerated
from module_ir.PRODUCTIONS and format_emb._formatters on every run); spec:
Emboss/Spec/Fmt.lean; lemmas: Emboss/Lemmas/Fmt*.lean.

The kernel evaluations over the regenerated tables are in Lemmas/FmtTableOK.lean,
FmtNormalOK.lean, FmtSeparableOK.lean (re-elaborated only when a generated file changes).

Round 3 adds the blank-line normal form (`C11_format_factors_blank`, `C11_idempotent_partial`;
Spec/FmtEquivB.lean, Lemmas/FmtBlank.lean) and the composition of the formatter model with
the tokenizer model of C10 (`C11_retokenize_partial`, `C11_retokenize_checked`,
`C11_retokenize_module_partial`, `C11_columnize_retokenizes_partial`,
`C11_row_retokenizes_partial`; Spec/FmtRetok.lean, Lemmas/FmtRetok*.lean).

What is *not* a theorem here (decided by the correspondence + oracle on the real code,
and labelled so in the manifest): fmt(fmt t) = fmt t in full (`C11_idempotent_partial`
needs the parse tree of the output to be the input tree up to layout texts, trailing
blanks and blank lines at the ends of comment blocks: evaluated per case by the harness),
and that the leaves the formatted text tokenizes to (`C11_retokenize_checked`: a theorem
instance per case) are the content leaves of the tree (`C11_tokens_preserved` +
`C11_render_separable` are its character-level and token-class-level parts).
-/
import Emboss.Lemmas.FmtSanity
import Emboss.Lemmas.FmtTableOK
import Emboss.Lemmas.FmtNormalOK
import Emboss.Lemmas.FmtSeparableOK
import Emboss.Lemmas.FmtIdem
import Emboss.Lemmas.FmtCommentOK
import Emboss.Lemmas.FmtBlank
import Emboss.Lemmas.FmtRetokCells
import Emboss.Lemmas.FmtRetokEx
import Emboss.Lemmas.FmtRetokCols
namespace Emboss.Fmt
open Emboss.Generated.FmtTable

/-! ## The regenerated table -/

/-- Tie T, decided in the kernel over the *whole* regenerated registry:
(1) every handler name is one the model knows and is registered through the decorator
that passes the arguments it declares (`_formats` vs `_formats_with_config`);
(2) at the kinds of its production's right-hand side every handler is typed by
`Handler.sig` and yields the kind of the left-hand side;
(3) every argument position a handler ignores holds a layout terminal in that production,
and no production rewrites a layout terminal;
(4) the registered productions are exactly `module_ir.PRODUCTIONS`, in the same order
(`_check_productions`; the translator emits the registry in grammar order);
(5) the start symbol yields a string.
Adding or changing a production or a handler re-opens this.

(Evaluated on the interned copy `formattersN` of the table — kinds and layout flags of the
symbols are computed once, the rest is arithmetic — and transported to the table of
strings by `tableTypedN_sound`; the interned copy is checked to decode to `formatters`.) -/
theorem C11_table_ok :
    tableTyped formatters = true ∧ formatters.map prodOf = grammar ∧ kindOf startSymbol = .str :=
  table_ok

/-! ## Totality -/

/-- For every parse tree over the grammar (`wf`: children match the production, tokens
are terminals, no comment after documentation on a doc line — which the tokenizer
guarantees — ) the fold is defined at every node: the handler of every production
exists, takes the number and kinds of arguments it is given, and none of the modelled
`assert`s (`not comment`, `len(row_types) < 3`, `len(row.columns) < 2`, non-empty `if`
body) fails; the module handler returns a text.  No assumption on token texts. -/
theorem C11_total (iw : Nat) (t : Tree)
    (hw : wf formatters t = true) (hroot : rootSym formatters t = startSymbol) :
    ∃ out, formatTree iw t = some (.str out) := by
  obtain ⟨v, hv, hk, _⟩ := fold_ok formatters iw C11_table_ok.1 t hw
  rw [hroot, C11_table_ok.2.2] at hk
  obtain ⟨s, rfl⟩ := hk
  exact ⟨s, hv⟩

/-- The same for every subtree, with the kind of value it yields. -/
theorem C11_total_subtree (iw : Nat) (t : Tree)
    (hw : wf formatters t = true) :
    ∃ v, fold formatters iw t = some v ∧ HasKind v (kindOf (rootSym formatters t)) := by
  obtain ⟨v, hv, hk, _⟩ := fold_ok formatters iw C11_table_ok.1 t hw
  exact ⟨v, hv, hk⟩

/-! ## Token preservation -/

/-- The formatted text, with every blank character (blank, tab, newline, …) erased,
is the concatenation of the blank-erased texts of the tree's non-layout leaves, in
order: no token is dropped, duplicated, reordered or altered, in any production, at
any indent width; trailing blanks of comments/documentation may go (they are blanks).

Hypothesis `layoutBlank`: Indent/Dedent/newline tokens carry only blanks (Indent = the
leading white space, Dedent = "", newline = "\n"), as in every tokenizer output; the
handlers drop exactly these tokens (`dropOK`, part of `tableTyped`).

(Stated on characters, not on token boundaries: that two adjacent tokens stay two
tokens is the `gluedOK` obligation of Spec/Fmt.lean + the correspondence.) -/
theorem C11_tokens_preserved (iw : Nat) (t : Tree)
    (hw : wf formatters t = true)
    (hl : layoutBlank t = true) (hroot : rootSym formatters t = startSymbol) :
    ∃ out, formatTree iw t = some (.str out) ∧
      despace out = despace (contentLeaves t).flatten := by
  obtain ⟨v, hv, hk, hc⟩ := fold_ok formatters iw C11_table_ok.1 t hw
  rw [hroot, C11_table_ok.2.2] at hk
  obtain ⟨s, rfl⟩ := hk
  exact ⟨s, hv, by rw [← leaves_content_eq t hl]; exact hc hl⟩

/-! Non-vacuity: the parse tree of "-- hi  \n# c \t\n" (a documentation line with trailing
blanks followed by a comment line with trailing blanks), built by looking the productions up in the live
table; it is well-formed, and the model formats it to "-- hi\n\n# c\n"?  No: the
comment line belongs to the doc line's `eol`, so the text is "-- hi\n# c\n". -/

def ix (lhs : String) (rhs : List String) : Nat :=
  formatters.findIdx (fun e => e.1 == lhs && e.2.1 == rhs)

def exTree : Tree :=
  .node (ix "module" ["comment-line*", "doc-line*", "import-line*", "attribute-line*", "type-definition*"]) [
    .node (ix "comment-line*" []) [],
    .node (ix "doc-line*" ["doc-line", "doc-line*"]) [
      .node (ix "doc-line" ["doc", "Comment?", "eol"]) [
        .node (ix "doc" ["Documentation"]) [.tok "Documentation" "-- hi  ".toList],
        .node (ix "Comment?" []) [],
        .node (ix "eol" ["\"\\n\"", "comment-line*"]) [
          .tok "\"\\n\"" "\n".toList,
          .node (ix "comment-line*" ["comment-line", "comment-line*"]) [
            .node (ix "comment-line" ["Comment?", "\"\\n\""]) [
              .node (ix "Comment?" ["Comment"]) [.tok "Comment" "# c \t".toList],
              .tok "\"\\n\"" "\n".toList],
            .node (ix "comment-line*" []) []]]],
      .node (ix "doc-line*" []) []],
    .node (ix "import-line*" []) [],
    .node (ix "attribute-line*" []) [],
    .node (ix "type-definition*" []) []]

example : wf formatters exTree = true ∧ layoutBlank exTree = true ∧
    rootSym formatters exTree = startSymbol ∧
    formatTree 3 exTree = some (.str "-- hi\n# c\n".toList) ∧
    contentLeaves exTree = ["-- hi  ".toList, "# c \t".toList] := by
  decide +kernel

/-! ## Token boundaries -/

open Emboss.Generated.FmtGlue in
/-- **Separability, as a certificate checked in the kernel** over the whole regenerated
registry (interned copy `formattersN`, which `C11_table_ok` shows to decode to
`formatters`) and the regenerated tables of Generated/FmtGlue.lean:

* `nsN` is closed under the nullable rule, `fsN`/`lsN` under the FIRST/LAST rules, and every
  symbol of `leadN` is a nonterminal all of whose productions render with a leading blank
  relative to `leadN` — so the tables contain every nullable symbol, FIRST and LAST of
  every nonterminal, and only symbols whose rendering (when non-empty) starts with a
  blank (see Spec/FmtGlueCert.lean for the argument; it is not formalised);
* **every pair of terminals** (LAST of one argument, FIRST of a later one, everything
  between nullable) that some handler prints with nothing in between (`glue`: per handler,
  between which arguments no blank is inserted; a symbol of `leadN` is never glued to its
  left neighbour; `-` `-` is kept apart by `_additive_expression_right`) **is in the audited
  list `allowedGlued`** — 239 pairs, no word–word pair, none that the tokenizer reads as one
  token or splits elsewhere (each sampled on the real tokenizer on every run): no unsplit
  pair.  Before commit 81a07e9 the pair `-` `-` was derived as well (`a - -b` → `a--b`).

The compiled checker evaluates the fixpoint formulation (`gluedOK`, op `GLUECHECK`) on the
table of strings on every run as well.  There is no theorem connecting `glue` to the
handlers' code (that link is the byte-identical correspondence), nor a model of the
tokenizer (sampling). -/
theorem C11_render_separable :
    symbols[minusN]? = some minusSym ∧
    nullableClosed ((resolvedN formattersN).map (fun e => (e.1, e.2.1))) nsN = true ∧
    edgeClosed ((resolvedN formattersN).map (fun e => (e.1, e.2.1))) nsN false fsN = true ∧
    edgeClosed ((resolvedN formattersN).map (fun e => (e.1, e.2.1))) nsN true lsN = true ∧
    leadSound (resolvedN formattersN) nsN leadN = true ∧
    ∀ p ∈ pairsFrom minusN (resolvedN formattersN) nsN fsN lsN leadN,
      ∃ a b, symbols[p.1]? = some a ∧ symbols[p.2]? = some b ∧ (a, b) ∈ allowedGlued :=
  render_separable

open Emboss.Generated.FmtGlue in
/-- Non-vacuity (tests on literals, evaluated in Lemmas/FmtSeparableOK.lean): pairs are
derived — e.g. `-` `Number` — and `-` `-` is not among them. -/
example : (minusN, symbols.idxOf "Number") ∈ pairsFrom minusN (resolvedN formattersN) nsN fsN lsN leadN ∧
    (minusN, minusN) ∉ pairsFrom minusN (resolvedN formattersN) nsN fsN lsN leadN :=
  render_separable_nonvacuous

/-! ## Normal form and fixed point -/

/-- Second table obligation, decided in the kernel over the whole regenerated registry: in
every registered production each right-hand-side position that holds a layout terminal
(Indent, Dedent, newline) is one the handler ignores, and a `Documentation` terminal is
only ever handed to `_doc` (which strips its trailing blanks before anything can measure
them — the repair of finding `inline-doc-trailing-blanks-widen-column`). -/
theorem C11_table_normal : tableNormal formatters = true := table_normal

/-- Third table obligation, decided in the kernel over the whole regenerated registry: in
every registered production the symbols `Comment` / `Comment?` stand exactly at the
handler's comment position (`Handler.commentPos`: where the text ends a row, so its
trailing blanks are stripped by the rendering and reach no column width that is used), and
`Comment?` itself is produced by `_identity` from a comment or by `_empty_string`. -/
theorem C11_table_comment : tableComment formatters = true := table_comment

/-- **Formatting factors through a normal form of the parse tree**: two trees with the same
productions and the same tokens, except for the *texts of layout tokens* (the source's
indentation, line ends) and *trailing blanks of Documentation and Comment tokens*
(`equivC`) — exactly what the property statement lets the formatter change, apart from
blank lines, which are tree structure — are formatted to the same text, for every
production and every indent width.  In particular the output never depends on how the
source was indented or spaced.

(`fold_equivC`: at every node the two folds give *related* values — rows and block headers
whose last column may differ in trailing blanks; `_columnize` never uses the width of a
last column, every other pass and `_render_row_to_text` strip or ignore it; uses
`C11_table_ok`, `C11_table_normal`, `C11_table_comment`.)

Still `_partial` with respect to idempotence: see the next theorem. -/
theorem C11_format_factors_partial (iw : Nat) (t t' : Tree)
    (hw : wf formatters t = true) (hroot : rootSym formatters t = startSymbol)
    (he : equivC t t' = true) :
    formatTree iw t' = formatTree iw t := by
  obtain ⟨v, hv, hk, _⟩ := fold_ok formatters iw C11_table_ok.1 t hw
  obtain ⟨v', hv', hr⟩ := fold_equivC formatters iw C11_table_ok.1 C11_table_normal C11_table_comment
    t t' hw he v hv
  rw [hroot, C11_table_ok.2.2] at hk
  obtain ⟨s, rfl⟩ := hk
  have hnc : isCommentSym startSymbol = false := by decide
  cases t with
  | node p cs =>
    simp only [Res3, hroot, hnc, Bool.false_eq_true, if_false] at hr
    cases v' <;> simp only [VRel] at hr
    subst hr
    unfold formatTree
    rw [hv, hv']
  | tok s0 x =>
    simp only [rootSym] at hroot
    subst hroot
    have h1 : isLayoutSym startSymbol = false := by decide
    have h2 : startSymbol ≠ docSym := by decide
    have h3 : startSymbol ≠ commentSym := by decide
    simp only [Res3, h1, h2, h3, Bool.false_eq_true, if_false] at hr
    obtain ⟨y, hy, rfl⟩ := hr
    unfold formatTree
    rw [hv, hv', hy]

/-- **Fixed point, partial**: if `t` is formatted to `out`, then every tree `t2` equivalent to
`t` is formatted to `out` as well.  With `t2` := the parse tree of `out` this is
`fmt (fmt t) = fmt t`.

Full statement wanted: `∀ t, fmt (parse (fmt t)) = fmt t`.  Missing, decided by the
oracle on the real code for every generated case: that the parse tree of the formatted
text *is* equivalent to `t` — same token sequence (`C11_tokens_preserved` +
`C11_render_separable` give it on the character level and per terminal-class pair) **and**
the same comment-line / blank-line structure (the formatter's own normalisation of blank
lines must be stable under re-parsing; needs tokenizer ∘ parser as one object).  The
harness counts on how many of its cases the hypothesis holds
(`fixed_point_theorem_applies`: there idempotence is a consequence of this theorem and the
byte-identical correspondence); for the others it is the oracle's verdict alone. -/
theorem C11_format_fixed_point_partial (iw : Nat) (t t2 : Tree) (out : Str)
    (hw : wf formatters t = true) (hroot : rootSym formatters t = startSymbol)
    (hfmt : formatTree iw t = some (.str out)) (he : equivC t t2 = true) :
    formatTree iw t2 = some (.str out) := by
  rw [C11_format_factors_partial iw t t2 hw hroot he]; exact hfmt

/-! Non-vacuity: `exTree` is the parse tree of "-- hi  \n# c \t\n" and is formatted to
"-- hi\n# c\n", whose parse tree is `exTree2` (documentation and comment without the
trailing blanks, other line-end texts); the two are equivalent, so `exTree2` is a fixed
point. -/

def exTree2 : Tree :=
  .node (ix "module" ["comment-line*", "doc-line*", "import-line*", "attribute-line*", "type-definition*"]) [
    .node (ix "comment-line*" []) [],
    .node (ix "doc-line*" ["doc-line", "doc-line*"]) [
      .node (ix "doc-line" ["doc", "Comment?", "eol"]) [
        .node (ix "doc" ["Documentation"]) [.tok "Documentation" "-- hi".toList],
        .node (ix "Comment?" []) [],
        .node (ix "eol" ["\"\\n\"", "comment-line*"]) [
          .tok "\"\\n\"" "\r\n".toList,
          .node (ix "comment-line*" ["comment-line", "comment-line*"]) [
            .node (ix "comment-line" ["Comment?", "\"\\n\""]) [
              .node (ix "Comment?" ["Comment"]) [.tok "Comment" "# c".toList],
              .tok "\"\\n\"" "\n".toList],
            .node (ix "comment-line*" []) []]]],
      .node (ix "doc-line*" []) []],
    .node (ix "import-line*" []) [],
    .node (ix "attribute-line*" []) [],
    .node (ix "type-definition*" []) []]

example : exTree ≠ exTree2 := by
  intro h; simp [exTree, exTree2] at h

theorem exTree_wf : wf formatters exTree = true := by decide +kernel
theorem exTree_root : rootSym formatters exTree = startSymbol := by decide +kernel
theorem exTree_fmt : formatTree 3 exTree = some (.str "-- hi\n# c\n".toList) := by decide +kernel
theorem exTree_equivC : equivC exTree exTree2 = true := by decide +kernel

example : formatTree 3 exTree2 = some (.str "-- hi\n# c\n".toList) :=
  C11_format_fixed_point_partial 3 exTree exTree2 _ exTree_wf exTree_root exTree_fmt exTree_equivC

/-! ## Blank lines (round 3) -/

/-- **Formatting factors through the blank-line normal form**: two parse trees that differ
only in the *blank lines at the two ends of a block of comment lines* — under an `eol` node
(`_eol`) or at the head of the module (`_module`); `EquivB`, Spec/FmtEquivB.lean — are
formatted to the same text (indeed every subtree folds to the same value), for every
production and indent width; no well-formedness is needed.  So the blank-line structure of
the output is a function of the remaining structure only: source blank lines other than
those between two comment lines of one block never reach the output, and every blank line
the formatter emits (section breaks, separators between types / fields / values, the blank
line at a dedent) is computed from the rows.  Blank lines *between* two comment lines of a
block are kept as they are (they are not blank-line policy; `equivC`/`EquivB` keep them). -/
theorem C11_format_factors_blank (iw : Nat) (t t' : Tree) (h : EquivB formatters t t') :
    formatTree iw t' = formatTree iw t :=
  fold_equivB formatters iw h

/-- **Idempotence, partial**: if `t` is formatted to `out`, then every tree `t2` that differs
from `t` only by (`equivC`) the texts of layout tokens and trailing blanks of
documentation / comments and (`EquivB`) blank lines at the ends of comment blocks is
formatted to `out` as well.  With `t2` := the parse tree of `out` this is
`fmt (fmt t) = fmt t`.

Full statement wanted: `∀ t, fmt (parse (fmt t)) = fmt t`.  The remaining hypothesis —
"the parse tree of `out` is `t` up to `equivC` and `EquivB`" — says: (a) `out` tokenizes to
the content tokens of `t`, line by line (`C11_retokenize_partial` below gives the
tokenizer-side half of this for rendered rows); (b) every blank line of `out` that is not
between two comment lines of a block stands directly after an end of line that the grammar
attaches to an `eol` (or at the head of the module), which is where the unique parse of
the token sequence (C08: the grammar is LR(1), hence unambiguous) must put it.  The harness
evaluates the hypothesis on every case (`idempotent_theorem_applies`: the parse trees of
source and output compared node by node, blank lines at the ends of comment blocks
ignored); where it holds idempotence is a consequence of this theorem and the
byte-identical correspondence. -/
theorem C11_idempotent_partial (iw : Nat) (t t1 t2 : Tree) (out : Str)
    (hw : wf formatters t = true) (hroot : rootSym formatters t = startSymbol)
    (hfmt : formatTree iw t = some (.str out))
    (hc : equivC t t1 = true) (hb : EquivB formatters t1 t2) :
    formatTree iw t2 = some (.str out) := by
  rw [C11_format_factors_blank iw t1 t2 hb]
  exact C11_format_fixed_point_partial iw t t1 out hw hroot hfmt hc

/-! Non-vacuity: `exTree3` is `exTree2` with a blank line in front (what a source with a
leading blank line parses to); it is `EquivB` to `exTree2`, not `equivC` to it, and the
theorem gives its formatted text from that of `exTree`. -/

def exTree3 : Tree :=
  .node (ix "module" ["comment-line*", "doc-line*", "import-line*", "attribute-line*", "type-definition*"]) [
    .node (ix "comment-line*" ["comment-line", "comment-line*"]) [
      .node (ix "comment-line" ["Comment?", "\"\\n\""]) [
        .node (ix "Comment?" []) [], .tok "\"\\n\"" "\n".toList],
      .node (ix "comment-line*" []) []],
    .node (ix "doc-line*" ["doc-line", "doc-line*"]) [
      .node (ix "doc-line" ["doc", "Comment?", "eol"]) [
        .node (ix "doc" ["Documentation"]) [.tok "Documentation" "-- hi".toList],
        .node (ix "Comment?" []) [],
        .node (ix "eol" ["\"\\n\"", "comment-line*"]) [
          .tok "\"\\n\"" "\r\n".toList,
          .node (ix "comment-line*" ["comment-line", "comment-line*"]) [
            .node (ix "comment-line" ["Comment?", "\"\\n\""]) [
              .node (ix "Comment?" ["Comment"]) [.tok "Comment" "# c".toList],
              .tok "\"\\n\"" "\n".toList],
            .node (ix "comment-line*" []) []]]],
      .node (ix "doc-line*" []) []],
    .node (ix "import-line*" []) [],
    .node (ix "attribute-line*" []) [],
    .node (ix "type-definition*" []) []]

theorem exTree23 : EquivB formatters exTree2 exTree3 := by
  have hnil : handlerAt formatters (ix "comment-line*" []) = some .emptyList := by decide +kernel
  have hcons : handlerAt formatters (ix "comment-line*" ["comment-line", "comment-line*"]) =
      some .concatenateLists := by decide +kernel
  refine .module _ _ _ _ _ (by decide +kernel) ⟨_, .trail (.atNil hnil (.nil hnil)), ?_⟩ rfl
    (fun i _ _ => .refl _)
  exact .lead hcons (by decide +kernel) (.trail (.atNil hnil (.nil hnil)))

example : equivC exTree2 exTree3 = false := by decide +kernel

example : formatTree 3 exTree3 = some (.str "-- hi\n# c\n".toList) :=
  C11_idempotent_partial 3 exTree exTree2 exTree3 _ exTree_wf exTree_root exTree_fmt exTree_equivC exTree23

/-! ## Re-tokenization of the output (round 3) -/

section Retokenize
open Emboss.FmtTok Emboss.Tok Emboss.Generated

/-- **The formatter's renderer composed with the tokenizer (C10's model), partial.**
`_module` renders the rows `moduleRows c d i a ty` (comment, documentation, import,
attribute rows and the rows of the type definitions, interspersed with the section breaks,
re-indented comments and dedent blanks of the global passes).  If every one of these rows
has fewer than two columns (what `_columnize` leaves) and its content — the columns
without trailing blanks — is tokenized by `_tokenize_line` to the leaves (symbol, text)
`x.2` (`LineToks`), then for every indent width ≥ 1 **`tokenize` accepts the text that
`_module` returns and yields exactly `E`**: per row its leaves and one end-of-line token;
rows without tokens or with comments only take no part in indentation; a row deeper than
the innermost open level opens one (`Indent` carrying `indent_width × difference`
blanks), a shallower one closes levels down to the one it sits on (`Dedent`s), and the end
of the text closes every open level — Indent / Dedent / end-of-line tokens are a function
of the block structure (`expectLeaves`) alone.  `expectLeaves = some E` excludes a dedent
to a level that was never opened (the tokenizer's "Bad indentation").

Full statement wanted: `tokenize (fmt t)` = the non-layout leaves of `t`, line by line.
Missing (decided by the oracle on the real code, which re-tokenizes every output): that the
rows the fold produces for a tree satisfy the hypothesis with the tree's leaves — the
cells' texts tokenize to the tokens they were built from.  `C11_row_retokenizes_partial`
below is the blank-separated half of that; the half for texts printed with nothing in
between is `C11_render_separable` (per pair of terminal classes, audited list, sampled on
the real tokenizer), which has no tokenizer-model counterpart yet. -/
theorem C11_retokenize_partial (iw : Nat) (hiw : 0 < iw) (c d i a : List Row) (ty : List (List Row))
    (rows : List (Row × List Leaf)) (hrows : rows.map Prod.fst = moduleRows c d i a ty)
    (hr : ∀ x ∈ rows, x.1.columns.length < 2 ∧ LineToks (rowText x.1) x.2) (E : List Leaf)
    (hE : expectLeaves iw 0 [] (rows.map (fun x => (x.1.indent, x.2))) = some E) :
    ∃ text toks, Handler.run iw .module [.rows c, .rows d, .rows i, .rows a, .sections ty] =
        some (.str text) ∧
      tokenize tokTable.pats text = .ok toks ∧ toks.map leafOf = E := by
  obtain ⟨text, toks, h1, h2, h3⟩ := tokenize_renderRows iw hiw rows hr E hE
  refine ⟨text, toks, ?_, h2, h3⟩
  rw [hModule_eq, ← hrows, h1]; rfl

/-- **Re-tokenization, as a certificate evaluated per parse tree.**  `retokTree iw t`
(Spec/FmtRetok.lean; evaluated by the compiled driver, op `RETOK`, on every case of the
check) folds the children of the module node, builds the rows `_module` renders, and
*evaluates* the hypotheses of `C11_retokenize_partial` row by row with the tokenizer model
(fewer than two columns; content without leading / trailing blank and line terminator;
`_tokenize_line` accepts it), then computes `expectLeaves`.  **Whenever it answers
`some E`, the model formats `t` to a text that the tokenizer model accepts with exactly
the leaves `E`** — the leaves of the rendered rows in order, one end-of-line token per row,
Indent / Dedent by the rows' levels.  The harness compares `E` with what the real tokenizer
makes of the real formatter's output (`retokenize_theorem_applies`).  What remains with the
oracle alone: that these leaves are the content leaves of `t`. -/
theorem C11_retokenize_checked (iw : Nat) (hiw : 0 < iw) (t : Tree) (E : List Leaf)
    (h : retokTree iw t = some E) :
    ∃ text toks, formatTree iw t = some (.str text) ∧
      tokenize tokTable.pats text = .ok toks ∧ toks.map leafOf = E :=
  retokTree_sound iw hiw t E h

/-! Non-vacuity (kernel-evaluated): `exTree` ("-- hi  " / "# c \t") is accepted, with the
leaves of `-- hi` / `# c`. -/
theorem exTree_retok : retokTree 3 exTree =
    some [("Documentation", "-- hi".toList), nlLeaf, ("Comment", "# c".toList), nlLeaf] := by
  decide +kernel

example : ∃ text toks, formatTree 3 exTree = some (.str text) ∧
    tokenize tokTable.pats text = .ok toks ∧
    toks.map leafOf = [("Documentation", "-- hi".toList), nlLeaf, ("Comment", "# c".toList), nlLeaf] :=
  C11_retokenize_checked 3 (by decide) exTree _ exTree_retok

/-- **…with the hypothesis moved in front of the global passes**: `_intersperse`,
`_indent_blanks_and_comments`, `_add_blank_rows_on_dedent` and
`_strip_empty_leading_trailing_comment_lines` only add rows without columns and change
indentation (`moduleRows_columns`), so it is enough that the rows *the module's parts
deliver* (comment, documentation, import, attribute rows, rows of the type definitions)
have fewer than two columns and tokenize to the leaves `lv` assigns to their columns. -/
theorem C11_retokenize_module_partial (iw : Nat) (hiw : 0 < iw) (c d i a : List Row) (ty : List (List Row))
    (lv : List Str → List Leaf) (hnil : lv [] = [])
    (hin : ∀ r ∈ c ++ d ++ i ++ a ++ ty.flatten, r.columns.length < 2 ∧ LineToks (rowText r) (lv r.columns))
    (E : List Leaf)
    (hE : expectLeaves iw 0 [] ((moduleRows c d i a ty).map (fun r => (r.indent, lv r.columns))) = some E) :
    ∃ text toks, Handler.run iw .module [.rows c, .rows d, .rows i, .rows a, .sections ty] =
        some (.str text) ∧
      tokenize tokTable.pats text = .ok toks ∧ toks.map leafOf = E :=
  tokenize_moduleRows iw hiw c d i a ty lv hnil hin E hE

/-- **The header row `_columnize` builds re-tokenizes to its cells' tokens, partial.**  `b`
one of the blocks handed to `_columnize(blocks, indent_width, indent_columns)`; every cell
of its header is empty (without leaves) or tokenizes to its leaves; a comment /
documentation token only in the last non-empty cell; the first cell not empty.  Then the
block is rendered as `prefix ++ [hdr] ++ body` where `hdr` has a single column, the header's
name and indentation, and its content tokenizes to the concatenation of the cells' leaves:
the column widths (`colWidth_ge`: a column is at least as wide as each of its cells, in
both `indent_columns` modes) leave at least one blank after every non-empty cell, and the
`ljust` loop is `cellsText`.  Still missing for the full clause: the cells' own
tokenizability from the handlers that build them (parts printed with nothing in between). -/
theorem C11_columnize_retokenizes_partial (blocks : List Block) (iw ic : Nat) (b : Block)
    (hb : b ∈ blocks) (Ls : List (List Leaf))
    (hcell : ∀ x ∈ colCells blocks iw ic b.header 0 b.header.columns Ls,
      (x.1 = [] ∧ x.2.2 = []) ∨ (x.1 ≠ [] ∧ LineToks x.1 x.2.2))
    (hopen : OpenLast (colCells blocks iw ic b.header 0 b.header.columns Ls))
    (hfirst : ∃ c rest, b.header.columns = c :: rest ∧ c ≠ []) :
    ∃ hdr : Row, columnizeBlock blocks iw ic b = b.pre ++ [hdr] ++ b.body ∧
      hdr.columns.length < 2 ∧ hdr.indent = b.header.indent ∧ hdr.name = b.header.name ∧
      LineToks (rowText hdr) (cellsLeaves (colCells blocks iw ic b.header 0 b.header.columns Ls)) :=
  columnize_header_lineToks blocks iw ic b hb Ls hcell hopen hfirst

/-! Non-vacuity (test on literals): a field header `0` / `[+1]` / `UInt` / `x` in a block
list of one; the cells tokenize (kernel-evaluated tokenizer model), so the columnized row
`0  [+1]  UInt  x` does. -/
example : ∃ hdr : Row, columnizeBlock [exBlock] 2 2 exBlock = [] ++ [hdr] ++ [] ∧
    hdr.columns.length < 2 ∧ hdr.indent = 0 ∧ hdr.name = .field ∧
    LineToks (rowText hdr) (cellsLeaves (colCells [exBlock] 2 2 exBlock.header 0 exBlock.header.columns exCellLeaves)) :=
  C11_columnize_retokenizes_partial [exBlock] 2 2 exBlock (by simp) exCellLeaves exBlock_cells
    exBlock_open ⟨_, _, rfl, by decide⟩

/-- **One rendered row re-tokenizes to its cells' tokens, partial.**
(1) Two texts that tokenize to `La` and `Lb`, the first without a comment / documentation
token, put side by side with `n + 1` blanks between them (`_concatenate_with_spaces`,
`"  " + comment`, a padded column followed by the next) tokenize to `La ++ Lb`.
(2) Cells laid out as `_columnize` does — every cell followed by blanks (`ljust`), at least
one after a non-empty cell, the whole right-stripped; a comment / documentation token only
in the last non-empty cell — tokenize to the concatenation of the cells' leaves, after `k`
leading blanks that only occur when the first cell is empty.
(C10: `C10_concat_with_blank`, `C10_leading_blanks`.)  Missing for the full statement: that
`_columnize`'s `ljust` widths do leave a blank after every non-empty cell (`colWidth ≥`
the cell's length), and cells whose parts are printed with nothing in between. -/
theorem C11_row_retokenizes_partial :
    (∀ (a b : Str) (La Lb : List Leaf) (n : Nat), LineToks a La → LineToks b Lb → a ≠ [] → b ≠ [] →
      (∀ l ∈ La, ¬ OpenEnded l.1) → LineToks (a ++ spaces (n + 1) ++ b) (La ++ Lb)) ∧
    (∀ cells : List (Str × Nat × List Leaf), (∀ x ∈ cells, CellOK x) → OpenLast cells →
      (rstrip (cellsText cells) = [] ∧ cellsLeaves cells = []) ∨
      ∃ k s, rstrip (cellsText cells) = spaces k ++ s ∧ s ≠ [] ∧ LineToks s (cellsLeaves cells) ∧
        (∀ x rest, cells = x :: rest → x.1 ≠ [] → k = 0)) :=
  ⟨fun _ _ _ _ n ha hb hane hbne ho => LineToks.join n ha hb hane hbne ho, cells_lineToks⟩

/-! Non-vacuity (tests on literals, kernel-evaluated in Lemmas/FmtRetokEx.lean): the rows of
`struct Foo:` / `  0  [+1]  UInt  x` (a type header and a columnized field at level 1). -/

example : ∃ toks, tokenize tokTable.pats "struct Foo:\n   0  [+1]  UInt  x\n".toList = .ok toks ∧
    toks.map leafOf = exLeaves := by
  obtain ⟨text, toks, h1, h2, h3⟩ := C11_retokenize_partial 3 (by decide) [] [] [] []
    [exRows.map Prod.fst] exRows exRows_module exRows_ok exLeaves exRows_expect
  have : text = "struct Foo:\n   0  [+1]  UInt  x\n".toList := by
    rw [exRows_text] at h1
    cases h1; rfl
  subst this
  exact ⟨toks, h2, h3⟩

end Retokenize

/-- **The global row passes are projections** (a necessary ingredient of idempotence that
needs no tokenizer): stripping leading/trailing empty comment rows, re-indenting blank and
comment rows to the following row, and inserting a blank row at a dedent each change
nothing when applied to their own result — for every list of rows; and every rendered
line is free of trailing blanks.  It does not follow that the whole pipeline is idempotent
(the rows of the second run come from re-parsing the text). -/
theorem C11_layout_passes_idempotent (iw : Nat) (rows : List Row) :
    stripEmptyRows (stripEmptyRows rows) = stripEmptyRows rows ∧
    indentBlanksAndComments (indentBlanksAndComments rows) = indentBlanksAndComments rows ∧
    addBlankRowsOnDedent (addBlankRowsOnDedent rows) = addBlankRowsOnDedent rows ∧
    ∀ r ∈ rows, ∀ t, renderRow iw r = some t → rstrip t = t :=
  ⟨stripEmptyRows_idem rows, indentBlanksAndComments_idem rows, addBlankRowsOnDedent_idem rows,
   fun r _ t h => renderRow_trimmed iw r t h⟩

/-- Non-vacuity (test on literals): on these rows every pass does change something. -/
example :
    let rows : List Row := [{ name := .comment }, { name := .comment, columns := ["# c  ".toList] },
      { name := .field, columns := ["x".toList], indent := 1 }, { name := .field, columns := ["y".toList] },
      { name := .comment }]
    stripEmptyRows rows ≠ rows ∧ indentBlanksAndComments rows ≠ rows ∧ addBlankRowsOnDedent rows ≠ rows ∧
    renderRow 2 { name := .comment, columns := ["# c  ".toList] } = some "# c".toList := by
  decide

/-! ## The self-check -/

/-- `sanity_check_format_result` (its comparison of the collapsed token streams) returns
`[]` **iff** the collapsed streams agree: same length, and at every position the same
symbol and the same text up to surrounding blanks.  (Before commit f3f855c only
"the original agrees with a *prefix* of the formatted stream" held.) -/
theorem C11_sanity_agrees (o f : List Tok) :
    sanityLoop 0 o f = .ok ↔ StreamsAgree o f :=
  sanityLoop_ok_iff o f 0

/-- … and when it reports "Symbol k differs", `k` is the first position at which the
streams differ (both have a token there and the streams agree before it): the length
comparison does not mask a differing symbol. -/
theorem C11_sanity_reports_first_difference (o f : List Tok) (k : Nat) :
    sanityLoop 0 o f = .differs k ↔ FirstDiff o f k := by
  rw [sanityLoop_differs_iff]
  constructor
  · rintro ⟨j, rfl, h⟩; simpa using h
  · intro h; exact ⟨k, by simp, h⟩

/-- Hence "Token count differs" is reported exactly when one collapsed stream agrees with
a proper prefix of the other. -/
theorem C11_sanity_count_differs (o f : List Tok) :
    sanityLoop 0 o f = .countDiffers ↔ ¬ StreamsAgree o f ∧ ∀ k, ¬ FirstDiff o f k := by
  rw [← C11_sanity_agrees]
  constructor
  · intro h
    refine ⟨?_, fun k hk => ?_⟩
    · rw [h]; intro h'; cases h'
    · rw [← C11_sanity_reports_first_difference, h] at hk; cases hk
  · rintro ⟨h1, h2⟩
    cases hr : sanityLoop 0 o f with
    | ok => exact absurd hr h1
    | differs k => exact absurd ((C11_sanity_reports_first_difference o f k).1 hr) (h2 k)
    | countDiffers => rfl

def tDoc : Tok := ⟨"Documentation", "-- doc".toList⟩
def tNl : Tok := ⟨nlSym, "\n".toList⟩
def tExtra : Tok := ⟨"Documentation", "-- extra".toList⟩

/-- Non-vacuity / tests on literals: extra newlines and trailing blanks are accepted; the
pinned probes of the repaired finding `sanity-check-ignores-length` (formatted
"-- doc\n-- extra\n" against original "-- doc\n", and the swapped pair) are reported as
a token-count difference; a differing symbol in front of a length difference is reported
as a differing symbol. -/
example : sanityCheck [tNl, ⟨"Documentation", "-- doc  ".toList⟩, tNl, tNl] [tDoc, tNl] = .ok := by decide
example : sanityCheck [tDoc, tNl, tExtra, tNl] [tDoc, tNl] = .countDiffers ∧
    sanityCheck [tDoc, tNl] [tDoc, tNl, tExtra, tNl] = .countDiffers ∧
    sanityCheck [] [tDoc, tNl] = .countDiffers ∧
    sanityCheck [tExtra, tNl, tDoc, tNl] [tDoc, tNl] = .differs 0 := by decide
example : StreamsAgree (collapseNewlines [tDoc, tNl])
    (collapseNewlines [tNl, ⟨"Documentation", "-- doc  ".toList⟩, tNl, tNl]) :=
  (C11_sanity_agrees _ _).1 (by decide)

end Emboss.Fmt
