/-
C11 — The formatter preserves meaning, is idempotent, and never fails on valid input.

Property theorems only.  Model: Emboss/Model/Fmt.lean (format_emb.py + the fold of
parser_util.transform_parse_tree); table: Emboss/Generated/FmtTable.lean (regenerated
from module_ir.PRODUCTIONS and format_emb._formatters on every run); spec:
Emboss/Spec/Fmt.lean; lemmas: Emboss/Lemmas/Fmt*.lean.

What is *not* a theorem here (decided by the correspondence + oracle on the real code,
and labelled so in the manifest): fmt(fmt t) = fmt t, and that the formatted text
re-tokenizes to the same tokens (needs tokenizer ∘ parser ∘ render as one object).
-/
import Emboss.Lemmas.FmtSanity
namespace Emboss.Fmt
open Emboss.Generated.FmtTable

/-! ## The regenerated table

`tableTyped formatters` (Spec/Fmt.lean) says, over the *whole* regenerated registry:
every handler name is known to the model and registered with the calling convention it
declares (`_formats` vs `_formats_with_config`); at the kinds of its production's
right-hand side every handler is typed and yields the kind of the left-hand side; every
argument a handler ignores is a layout terminal; no production rewrites a layout terminal.
`tableMatchesGrammar` is `_check_productions` (the registered productions are pairwise
distinct and are exactly `module_ir.PRODUCTIONS`).

Both are *decidable and executable*; deciding them in the kernel costs minutes (≈ 10⁵
string comparisons; kernel `String` equality re-encodes literals), so — as DESIGN §2
allows for tables that are not small — the theorems below take `tableTyped formatters`
as a hypothesis and every run evaluates it with the compiled checker (driver op
`TABLE`); a `false` there re-opens the obligation.  The cheap part (all handler names
resolve, with the right calling convention) is also decided in the kernel. -/

/-- Tie T (kernel part): every registered handler is one the model knows, registered
through the decorator that passes the arguments it declares. -/
theorem C11_table_resolves :
    formatters.all (fun e => (resolve e).isSome) = true ∧ kindOf startSymbol = .str := by
  decide +kernel

/-! ## Totality -/

/-- For every parse tree over the grammar (`wf`: children match the production, tokens
are terminals, no comment after documentation on a doc line — which the tokenizer
guarantees — ) the fold is defined at every node: the handler of every production
exists, takes the number and kinds of arguments it is given, and none of the modelled
`assert`s (`not comment`, `len(row_types) < 3`, `len(row.columns) < 2`, non-empty `if`
body) fails; the module handler returns a text.

Hypothesis `layoutBlank` (Indent/Dedent/newline tokens carry only blanks, true of every
token stream of the tokenizer) is an artefact of proving totality and content in one
induction; totality itself does not depend on token texts. -/
theorem C11_total (ht : tableTyped formatters = true) (iw : Nat) (t : Tree)
    (hw : wf formatters t = true) (hl : layoutBlank t = true)
    (hroot : rootSym formatters t = startSymbol) :
    ∃ out, formatTree iw t = some (.str out) := by
  obtain ⟨v, hv, hk, _⟩ := fold_ok formatters iw ht t hw hl
  rw [hroot, C11_table_resolves.2] at hk
  obtain ⟨s, rfl⟩ := hk
  exact ⟨s, hv⟩

/-- The same for every subtree, with the kind of value it yields. -/
theorem C11_total_subtree (ht : tableTyped formatters = true) (iw : Nat) (t : Tree)
    (hw : wf formatters t = true) (hl : layoutBlank t = true) :
    ∃ v, fold formatters iw t = some v ∧ HasKind v (kindOf (rootSym formatters t)) := by
  obtain ⟨v, hv, hk, _⟩ := fold_ok formatters iw ht t hw hl
  exact ⟨v, hv, hk⟩

/-! ## Token preservation -/

/-- The formatted text, with every blank character (blank, tab, newline, …) erased,
is the concatenation of the blank-erased texts of the tree's non-layout leaves, in
order: no token is dropped, duplicated, reordered or altered, in any production, at
any indent width; trailing blanks of comments/documentation may go (they are blanks).

(Stated on characters, not on token boundaries: that two adjacent tokens stay two
tokens is `C11_render_separable_partial` + the correspondence.) -/
theorem C11_tokens_preserved (ht : tableTyped formatters = true) (iw : Nat) (t : Tree)
    (hw : wf formatters t = true)
    (hl : layoutBlank t = true) (hroot : rootSym formatters t = startSymbol) :
    ∃ out, formatTree iw t = some (.str out) ∧
      despace out = despace (contentLeaves t).flatten := by
  obtain ⟨v, hv, hk, hc⟩ := fold_ok formatters iw ht t hw hl
  rw [hroot, C11_table_resolves.2] at hk
  obtain ⟨s, rfl⟩ := hk
  exact ⟨s, hv, by rw [← leaves_content_eq t hl]; exact hc⟩

/-! Non-vacuity: the parse tree of "-- hi  \n# c\n" (a documentation line with trailing
blanks followed by a comment line), built by looking the productions up in the live
table; it is well-formed, and the model formats it to "-- hi\n\n# c\n"?  No: the
comment line belongs to the doc line's `eol`, so the text is "-- hi\n# c\n". -/

def ix (lhs : String) (rhs : List String) : Nat :=
  formatters.findIdx (fun e => e.1 == lhs && e.2.1 == rhs)

def exTree : Tree :=
  .node (ix "module" ["comment-line*", "doc-line*", "import-line*", "attribute-line*", "type-definition*"]) [
    .node (ix "comment-line*" []) [],
    .node (ix "doc-line*" ["doc-line", "doc-line*"]) [
      .node (ix "doc-line" ["doc", "Comment?", "eol"]) [
        .node (ix "doc" ["Documentation"]) [.tok "Documentation" "-- hi  ".toList],
        .node (ix "Comment?" []) [],
        .node (ix "eol" ["\"\\n\"", "comment-line*"]) [
          .tok "\"\\n\"" "\n".toList,
          .node (ix "comment-line*" ["comment-line", "comment-line*"]) [
            .node (ix "comment-line" ["Comment?", "\"\\n\""]) [
              .node (ix "Comment?" ["Comment"]) [.tok "Comment" "# c".toList],
              .tok "\"\\n\"" "\n".toList],
            .node (ix "comment-line*" []) []]]],
      .node (ix "doc-line*" []) []],
    .node (ix "import-line*" []) [],
    .node (ix "attribute-line*" []) [],
    .node (ix "type-definition*" []) []]

example : wf formatters exTree = true ∧ layoutBlank exTree = true ∧
    rootSym formatters exTree = startSymbol ∧
    formatTree 3 exTree = some (.str "-- hi\n# c\n".toList) ∧
    contentLeaves exTree = ["-- hi  ".toList, "# c".toList] := by
  decide +kernel

/-! ## The self-check -/

/-- `sanity_check_format_result` (its comparison loop over the collapsed streams)
returns `[]` iff the original stream agrees with a *prefix* of the formatted stream.
Full statement wanted: `… = .ok ↔ StreamsAgree o f`; it is false (next theorem): the
loop never looks at `len(f_tokens)`. -/
theorem C11_sanity_agrees_partial (o f : List Tok) :
    sanityLoop 0 o f = .ok ↔ ∃ f1 f2, f = f1 ++ f2 ∧ StreamsAgree o f1 :=
  sanityLoop_ok_iff o f 0

/-- When the formatted stream is not longer than the original one (which
`C11_tokens_preserved` + the correspondence give for the real formatter output), the
self-check returns `[]` exactly when the streams agree. -/
theorem C11_sanity_agrees_of_length (o f : List Tok) (hlen : f.length ≤ o.length) :
    sanityLoop 0 o f = .ok ↔ StreamsAgree o f := by
  rw [C11_sanity_agrees_partial]
  constructor
  · rintro ⟨f1, f2, rfl, h⟩
    have := h.length_eq
    have : f2 = [] := by
      cases f2 with
      | nil => rfl
      | cons x xs => simp at hlen; omega
    subst this; simpa using h
  · intro h; exact ⟨f, [], by simp, h⟩

def tDoc : Tok := ⟨"Documentation", "-- doc".toList⟩
def tNl : Tok := ⟨nlSym, "\n".toList⟩
def tExtra : Tok := ⟨"Documentation", "-- extra".toList⟩

/-- Counterexample to the full statement (finding `sanity-check-ignores-length`):
formatted "-- doc\n-- extra\n" against original "-- doc\n" is accepted although the streams
differ; and with the texts swapped the loop indexes past the end (`IndexError`). -/
theorem C11_sanity_agrees_counterexample :
    sanityCheck [tDoc, tNl, tExtra, tNl] [tDoc, tNl] = .ok ∧
    ¬ StreamsAgree (collapseNewlines [tDoc, tNl]) (collapseNewlines [tDoc, tNl, tExtra, tNl]) ∧
    sanityCheck [tDoc, tNl] [tDoc, tNl, tExtra, tNl] = .indexError 2 := by
  refine ⟨by decide, ?_, by decide⟩
  intro h
  have := h.length_eq
  revert this
  decide

/-- Non-vacuity of `C11_sanity_agrees_of_length`: extra newlines and trailing blanks. -/
example : sanityCheck [tNl, ⟨"Documentation", "-- doc  ".toList⟩, tNl, tNl] [tDoc, tNl] = .ok := by decide

/-! ## Known defects, on the model -/

/-- Finding `minus-minus-juxtaposed`: the handler registered for
`additive-expression-right -> additive-operator times-expression` and for
`additive-expression -> times-expression additive-expression-right*` is `_concatenate`;
on `x`, `-`, `-5` it yields `x--5`, whose tail the tokenizer reads as documentation. -/
theorem C11_render_separable_counterexample (iw : Nat) :
    Handler.run iw .concatenate [.str "-".toList, .str "-5".toList] = some (.str "--5".toList) ∧
    Handler.run iw .concatenate [.str "x".toList, .str "--5".toList] = some (.str "x--5".toList) := by
  constructor <;> rfl

def evBlock (nm val doc cm : String) : Block :=
  { pre := [],
    header := { name := RowName.enumValue,
                columns := [nm.toList, "=".toList, val.toList, [], doc.toList, cm.toList],
                indent := 0 },
    body := [] }

/-- Finding `inline-doc-trailing-blanks-widen-column`: the documentation column is as
wide as the untrimmed token, so the trailing comment of the *other* row lands at a
column that depends on blanks the rendering then strips: after one formatting pass the
blanks are gone and a second pass moves the comment (13 → 10 blanks here). -/
theorem C11_idempotence_counterexample :
    (columnize [evBlock "AA" "1" "-- abc   " "", evBlock "BB" "2" "" "# c"] 2 1).map
        (fun s => s.map (fun l => l.map (fun r => r.columns.map String.ofList))) =
      some [[["AA = 1  -- abc"]], [["BB = 2             # c"]]] ∧
    (columnize [evBlock "AA" "1" "-- abc" "", evBlock "BB" "2" "" "# c"] 2 1).map
        (fun s => s.map (fun l => l.map (fun r => r.columns.map String.ofList))) =
      some [[["AA = 1  -- abc"]], [["BB = 2          # c"]]] := by
  decide +kernel

end Emboss.Fmt
