import Emboss.Model.Fmt
namespace Emboss.Fmt
open Emboss.Generated.FmtTable

/-- placeholder -/
theorem C11_table_resolves : formatters.all (fun e => (resolve e).isSome) = true := by decide +kernel

end Emboss.Fmt
