/-
C11 — The formatter preserves meaning, is idempotent, and never fails on valid input.

Property theorems only.  Model: Emboss/Model/Fmt.lean (format_emb.py + the fold of
parser_util.transform_parse_tree); table: Emboss/Generated/FmtTable.lean (regenerated
from module_ir.PRODUCTIONS and format_emb._formatters on every run); spec:
Emboss/Spec/Fmt.lean; lemmas: Emboss/Lemmas/Fmt*.lean.

What is *not* a theorem here (decided by the correspondence + oracle on the real code,
and labelled so in the manifest): fmt(fmt t) = fmt t, and that the formatted text
re-tokenizes to the same tokens (needs tokenizer ∘ parser ∘ render as one object).
-/
import Emboss.Lemmas.FmtSanity
import Emboss.Lemmas.FmtTable
namespace Emboss.Fmt
open Emboss.Generated.FmtTable

/-! ## The regenerated table -/

/-- Tie T, decided in the kernel over the *whole* regenerated registry:
(1) every handler name is one the model knows and is registered through the decorator
that passes the arguments it declares (`_formats` vs `_formats_with_config`);
(2) at the kinds of its production's right-hand side every handler is typed by
`Handler.sig` and yields the kind of the left-hand side;
(3) every argument position a handler ignores holds a layout terminal in that production,
and no production rewrites a layout terminal;
(4) the registered productions are exactly `module_ir.PRODUCTIONS`, in the same order
(`_check_productions`; the translator emits the registry in grammar order);
(5) the start symbol yields a string.
Adding or changing a production or a handler re-opens this.

(Evaluated on the interned copy `formattersN` of the table — kinds and layout flags of the
symbols are computed once, the rest is arithmetic — and transported to the table of
strings by `tableTypedN_sound`; the interned copy is checked to decode to `formatters`.) -/
theorem C11_table_ok :
    tableTyped formatters = true ∧ formatters.map prodOf = grammar ∧ kindOf startSymbol = .str :=
  ⟨tableTypedN_sound symbols formattersN formatters (by decide +kernel) (by decide +kernel),
   by decide +kernel, by decide +kernel⟩

/-! ## Totality -/

/-- For every parse tree over the grammar (`wf`: children match the production, tokens
are terminals, no comment after documentation on a doc line — which the tokenizer
guarantees — ) the fold is defined at every node: the handler of every production
exists, takes the number and kinds of arguments it is given, and none of the modelled
`assert`s (`not comment`, `len(row_types) < 3`, `len(row.columns) < 2`, non-empty `if`
body) fails; the module handler returns a text.  No assumption on token texts. -/
theorem C11_total (iw : Nat) (t : Tree)
    (hw : wf formatters t = true) (hroot : rootSym formatters t = startSymbol) :
    ∃ out, formatTree iw t = some (.str out) := by
  obtain ⟨v, hv, hk, _⟩ := fold_ok formatters iw C11_table_ok.1 t hw
  rw [hroot, C11_table_ok.2.2] at hk
  obtain ⟨s, rfl⟩ := hk
  exact ⟨s, hv⟩

/-- The same for every subtree, with the kind of value it yields. -/
theorem C11_total_subtree (iw : Nat) (t : Tree)
    (hw : wf formatters t = true) :
    ∃ v, fold formatters iw t = some v ∧ HasKind v (kindOf (rootSym formatters t)) := by
  obtain ⟨v, hv, hk, _⟩ := fold_ok formatters iw C11_table_ok.1 t hw
  exact ⟨v, hv, hk⟩

/-! ## Token preservation -/

/-- The formatted text, with every blank character (blank, tab, newline, …) erased,
is the concatenation of the blank-erased texts of the tree's non-layout leaves, in
order: no token is dropped, duplicated, reordered or altered, in any production, at
any indent width; trailing blanks of comments/documentation may go (they are blanks).

Hypothesis `layoutBlank`: Indent/Dedent/newline tokens carry only blanks (Indent = the
leading white space, Dedent = "", newline = "\n"), as in every tokenizer output; the
handlers drop exactly these tokens (`dropOK`, part of `tableTyped`).

(Stated on characters, not on token boundaries: that two adjacent tokens stay two
tokens is the `gluedOK` obligation of Spec/Fmt.lean + the correspondence.) -/
theorem C11_tokens_preserved (iw : Nat) (t : Tree)
    (hw : wf formatters t = true)
    (hl : layoutBlank t = true) (hroot : rootSym formatters t = startSymbol) :
    ∃ out, formatTree iw t = some (.str out) ∧
      despace out = despace (contentLeaves t).flatten := by
  obtain ⟨v, hv, hk, hc⟩ := fold_ok formatters iw C11_table_ok.1 t hw
  rw [hroot, C11_table_ok.2.2] at hk
  obtain ⟨s, rfl⟩ := hk
  exact ⟨s, hv, by rw [← leaves_content_eq t hl]; exact hc hl⟩

/-! Non-vacuity: the parse tree of "-- hi  \n# c\n" (a documentation line with trailing
blanks followed by a comment line), built by looking the productions up in the live
table; it is well-formed, and the model formats it to "-- hi\n\n# c\n"?  No: the
comment line belongs to the doc line's `eol`, so the text is "-- hi\n# c\n". -/

def ix (lhs : String) (rhs : List String) : Nat :=
  formatters.findIdx (fun e => e.1 == lhs && e.2.1 == rhs)

def exTree : Tree :=
  .node (ix "module" ["comment-line*", "doc-line*", "import-line*", "attribute-line*", "type-definition*"]) [
    .node (ix "comment-line*" []) [],
    .node (ix "doc-line*" ["doc-line", "doc-line*"]) [
      .node (ix "doc-line" ["doc", "Comment?", "eol"]) [
        .node (ix "doc" ["Documentation"]) [.tok "Documentation" "-- hi  ".toList],
        .node (ix "Comment?" []) [],
        .node (ix "eol" ["\"\\n\"", "comment-line*"]) [
          .tok "\"\\n\"" "\n".toList,
          .node (ix "comment-line*" ["comment-line", "comment-line*"]) [
            .node (ix "comment-line" ["Comment?", "\"\\n\""]) [
              .node (ix "Comment?" ["Comment"]) [.tok "Comment" "# c".toList],
              .tok "\"\\n\"" "\n".toList],
            .node (ix "comment-line*" []) []]]],
      .node (ix "doc-line*" []) []],
    .node (ix "import-line*" []) [],
    .node (ix "attribute-line*" []) [],
    .node (ix "type-definition*" []) []]

example : wf formatters exTree = true ∧ layoutBlank exTree = true ∧
    rootSym formatters exTree = startSymbol ∧
    formatTree 3 exTree = some (.str "-- hi\n# c\n".toList) ∧
    contentLeaves exTree = ["-- hi  ".toList, "# c".toList] := by
  decide +kernel

/-! ## The self-check -/

/-- `sanity_check_format_result` (its comparison loop over the collapsed streams)
returns `[]` iff the original stream agrees with a *prefix* of the formatted stream.
Full statement wanted: `… = .ok ↔ StreamsAgree o f`; it is false (next theorem): the
loop never looks at `len(f_tokens)`. -/
theorem C11_sanity_agrees_partial (o f : List Tok) :
    sanityLoop 0 o f = .ok ↔ ∃ f1 f2, f = f1 ++ f2 ∧ StreamsAgree o f1 :=
  sanityLoop_ok_iff o f 0

/-- When the formatted stream is not longer than the original one (which
`C11_tokens_preserved` + the correspondence give for the real formatter output), the
self-check returns `[]` exactly when the streams agree. -/
theorem C11_sanity_agrees_of_length (o f : List Tok) (hlen : f.length ≤ o.length) :
    sanityLoop 0 o f = .ok ↔ StreamsAgree o f := by
  rw [C11_sanity_agrees_partial]
  constructor
  · rintro ⟨f1, f2, rfl, h⟩
    have := h.length_eq
    have : f2 = [] := by
      cases f2 with
      | nil => rfl
      | cons x xs => simp at hlen; omega
    subst this; simpa using h
  · intro h; exact ⟨f, [], by simp, h⟩

/-- With the length comparison of fixes/C11-sanity-check-length.patch the intended
statement holds in full: `[]` iff the collapsed streams agree (and no `IndexError`). -/
theorem C11_sanity_agrees_fixed (o f : List Tok) :
    sanityLoopLen o f = .ok ↔ StreamsAgree o f := by
  unfold sanityLoopLen
  split
  · rename_i hne
    constructor
    · intro h; cases h
    · intro h; exact absurd h.length_eq hne
  · rename_i heq
    have : f.length ≤ o.length := by
      have : o.length = f.length := Decidable.of_not_not heq
      omega
    exact C11_sanity_agrees_of_length o f this

def tDoc : Tok := ⟨"Documentation", "-- doc".toList⟩
def tNl : Tok := ⟨nlSym, "\n".toList⟩
def tExtra : Tok := ⟨"Documentation", "-- extra".toList⟩

/-- Counterexample to the full statement (finding `sanity-check-ignores-length`):
formatted "-- doc\n-- extra\n" against original "-- doc\n" is accepted although the streams
differ; and with the texts swapped the loop indexes past the end (`IndexError`). -/
theorem C11_sanity_agrees_counterexample :
    sanityCheck [tDoc, tNl, tExtra, tNl] [tDoc, tNl] = .ok ∧
    ¬ StreamsAgree (collapseNewlines [tDoc, tNl]) (collapseNewlines [tDoc, tNl, tExtra, tNl]) ∧
    sanityCheck [tDoc, tNl] [tDoc, tNl, tExtra, tNl] = .indexError 2 := by
  refine ⟨by decide, ?_, by decide⟩
  intro h
  have := h.length_eq
  revert this
  decide

/-- Non-vacuity of `C11_sanity_agrees_of_length`: extra newlines and trailing blanks. -/
example : sanityCheck [tNl, ⟨"Documentation", "-- doc  ".toList⟩, tNl, tNl] [tDoc, tNl] = .ok := by decide

/-! ## Known defects, on the model -/

/-- Finding `minus-minus-juxtaposed`: the handler registered for
`additive-expression-right -> additive-operator times-expression` and for
`additive-expression -> times-expression additive-expression-right*` is `_concatenate`;
on `x`, `-`, `-5` it yields `x--5`, whose tail the tokenizer reads as documentation. -/
theorem C11_render_separable_counterexample (iw : Nat) :
    Handler.run iw .concatenate [.str "-".toList, .str "-5".toList] = some (.str "--5".toList) ∧
    Handler.run iw .concatenate [.str "x".toList, .str "--5".toList] = some (.str "x--5".toList) := by
  constructor <;> rfl

def evBlock (nm val doc cm : String) : Block :=
  { pre := [],
    header := { name := RowName.enumValue,
                columns := [nm.toList, "=".toList, val.toList, [], doc.toList, cm.toList],
                indent := 0 },
    body := [] }

/-- Finding `inline-doc-trailing-blanks-widen-column`: the documentation column is as
wide as the untrimmed token, so the trailing comment of the *other* row lands at a
column that depends on blanks the rendering then strips: after one formatting pass the
blanks are gone and a second pass moves the comment (13 → 10 blanks here). -/
theorem C11_idempotence_counterexample :
    (columnize [evBlock "AA" "1" "-- abc   " "", evBlock "BB" "2" "" "# c"] 2 1).map
        (fun s => s.map (fun l => l.map (fun r => r.columns.map String.ofList))) =
      some [[["AA = 1  -- abc"]], [["BB = 2             # c"]]] ∧
    (columnize [evBlock "AA" "1" "-- abc" "", evBlock "BB" "2" "" "# c"] 2 1).map
        (fun s => s.map (fun l => l.map (fun r => r.columns.map String.ofList))) =
      some [[["AA = 1  -- abc"]], [["BB = 2          # c"]]] := by
  decide +kernel

end Emboss.Fmt
