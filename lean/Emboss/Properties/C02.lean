/-
C02 — Scalar fields decode with the documented byte order, bit numbering and format.

Property theorems only (helper lemmas: Emboss/Lemmas/Bits, ScalarMem, ScalarBuf, ScalarView,
ScalarBcd, ScalarIsBcd, ScalarRead).  Model: Emboss/Model/{Bits,Scalar}.lean (mirrors
runtime/cpp/emboss_{bit_util,memory_util,prelude,enum_view}.h).  Spec: Emboss/Spec/Scalar.lean.

Every theorem is for an arbitrary placement `Placed bb o w`: any container size
c ∈ {8,…,64} (multiple of 8), any field width 1 ≤ w, any offset with o + w ≤ c, any byte
order (Null only for c = 8), either runtime code path, any contents — and for both kinds of
view buffers: `direct = true` (field of a struct: view over the BitBlock, o = 0, w = c) and
`direct = false` (field of a bits: view over OffsetBitBlock).
-/
import Emboss.Lemmas.ScalarRead
namespace Emboss.Scalar
open Emboss.Bits Emboss.Scalar.Spec

variable {bb : BitBlock} {o w : Nat}

/-- A concrete non-trivial placement used by the non-vacuity examples: 5-bit field at bit 9
of a 24-bit big-endian container `12 34 56`, portable code path. -/
def exBB : BitBlock := { order := .big, path := .noopt, c := 24, bytes := [0x12, 0x34, 0x56] }
theorem exPlaced : Placed exBB 9 5 :=
  { c_mult := by decide, c_lo := by decide, c_hi := by decide, w_pos := by decide,
    fits := by decide, len := by decide, bytes_ok := by decide, null_ok := by decide }

/-- **UInt**: `Read()` succeeds and returns exactly bits `[o, o+w)` of the container taken in
the field's byte order. -/
theorem C02_uint_read (h : Placed bb o w) (direct : Bool)
    (hd : direct = true → o = 0 ∧ w = bb.c) :
    (fieldView .uint direct bb o w).ok = true ∧
    (fieldView .uint direct bb o w).read = some (fieldBits bb o w : Int) := by
  refine ⟨fieldView_ok_of_ne_bcd h direct hd _ (by decide), ?_⟩
  rw [fieldView_read_of_ne_bcd h direct hd _ (by decide)]
  simp only [View.decode, fieldView, View.VW]
  rw [wrap_of_lt (lt_pow_of_lt_of_le (fieldBits_lt bb o w) (le_leastWidth (placed_w_le h)))]

-- non-vacuity (test): 0x123456 = …0011 0100 0101 0110; bits 9..13 = 0b11010 = 26
example : (fieldView .uint false exBB 9 5).read = some 26 ∧ fieldBits exBB 9 5 = 26 := by decide

/-- **Int**: `Read()` is the two's-complement value of the covered bits *at the field width*,
on both code paths (shift/cast/arithmetic-shift and the portable mask-and-subtract). -/
theorem C02_int_read_twos_complement (h : Placed bb o w) (direct : Bool)
    (hd : direct = true → o = 0 ∧ w = bb.c) :
    (fieldView .int direct bb o w).ok = true ∧
    (fieldView .int direct bb o w).read = some (twos w (fieldBits bb o w)) := by
  refine ⟨fieldView_ok_of_ne_bcd h direct hd _ (by decide), ?_⟩
  rw [fieldView_read_of_ne_bcd h direct hd _ (by decide)]
  simp only [View.decode, fieldView, fieldBuf_W]
  exact convertToSigned_eq _ h.w_pos (placed_w_le h) (placed_VW_le_W h) (fieldBits_lt bb o w)

example : (fieldView .int false exBB 9 5).read = some (-6) ∧ twos 5 26 = -6 := by decide

/-- **The SWAR test of `IsBcd` is exact** (kernel proof, nibble induction with the borrow of
`~x - 0x66…6` as invariant): for a `w`-bit value it holds iff each of the `⌈w/4⌉` nibbles is
at most 9.  `W` is the buffer's value type; the expression is evaluated at `unsigned`
when `W < 32`, as in the code. -/
theorem C02_isbcd_iff_nibbles_le_9 {W x : Nat} (hW : W = 8 ∨ W = 16 ∨ W = 32 ∨ W = 64)
    (hw : w ≤ W) (hx : x < 2 ^ w) : isBcd W x = true ↔ BcdOk (nibbles w) x :=
  isBcd_iff hW hw hx

example : isBcd 16 0x0999 = true ∧ isBcd 16 0x09a8 = false ∧ ¬ BcdOk (nibbles 12) 0x9a8 := by
  refine ⟨by decide, by decide, fun h => ?_⟩
  have := h 1 (by decide); revert this; decide

/-- **Bcd**: `Ok()` iff every nibble is a decimal digit; then `Read()` is `Σ nibbleᵢ·10ⁱ`
(high partial nibble zero-extended), computed without overflow of `ValueType`. -/
theorem C02_bcd_read (h : Placed bb o w) (direct : Bool)
    (hd : direct = true → o = 0 ∧ w = bb.c) :
    ((fieldView .bcd direct bb o w).ok = true ↔ BcdOk (nibbles w) (fieldBits bb o w)) ∧
    (BcdOk (nibbles w) (fieldBits bb o w) →
      (fieldView .bcd direct bb o w).read =
        some (bcdValue (nibbles w) (fieldBits bb o w) : Int)) ∧
    (¬ BcdOk (nibbles w) (fieldBits bb o w) → (fieldView .bcd direct bb o w).read = none) := by
  have hiff : isBcd bb.W (fieldBits bb o w) = true ↔ BcdOk (nibbles w) (fieldBits bb o w) :=
    isBcd_iff (leastWidth_cases bb.c) (placed_w_le_W h) (fieldBits_lt bb o w)
  rw [fieldView_bcd_ok h direct hd, fieldView_bcd_read h direct hd,
    bcdToBinary_eq (placed_w_le h) (fieldBits_lt bb o w)]
  refine ⟨hiff, fun hok => by rw [if_pos (hiff.mpr hok)], fun hbad => ?_⟩
  rw [if_neg (fun hc => hbad (hiff.mp hc))]

example : (fieldView .bcd false { exBB with bytes := [0x00, 0x32, 0x00] } 9 5).read = some 19 := by
  decide

/-- **Flag**: `Read()` is the covered bit. -/
theorem C02_flag_read (h : Placed bb o 1) (direct : Bool)
    (hd : direct = true → o = 0 ∧ 1 = bb.c) :
    (fieldView .flag direct bb o 1).ok = true ∧
    (fieldView .flag direct bb o 1).read = some (fieldBits bb o 1 : Int) := by
  refine ⟨fieldView_ok_of_ne_bcd h direct hd _ (by decide), ?_⟩
  rw [fieldView_read_of_ne_bcd h direct hd _ (by decide)]
  have := fieldBits_lt bb o 1
  simp only [View.decode, fieldView]
  have h01 : fieldBits bb o 1 = 0 ∨ fieldBits bb o 1 = 1 := by omega
  rcases h01 with h0 | h0 <;> simp [h0]

example : (fieldView .flag false exBB 10 1).read = some 1 := by decide

/-- **Float**: `Read()` delivers exactly the covered bit pattern to the IEEE-754 type
(`ConvertToFloat` is a `memcpy` of the `w`-bit unsigned value: bit-exactness is the claim). -/
theorem C02_float_bits (h : Placed bb o w) (_hw : w = 32 ∨ w = 64) (direct : Bool)
    (hd : direct = true → o = 0 ∧ w = bb.c) :
    (fieldView .float direct bb o w).ok = true ∧
    (fieldView .float direct bb o w).read = some (fieldBits bb o w : Int) := by
  refine ⟨fieldView_ok_of_ne_bcd h direct hd _ (by decide), ?_⟩
  rw [fieldView_read_of_ne_bcd h direct hd _ (by decide)]
  simp only [View.decode, fieldView]
  rw [wrap_of_lt (fieldBits_lt bb o w)]

def exBB64 : BitBlock :=
  { order := .little, path := .opt, c := 64, bytes := [0, 0, 0x80, 0x7f, 1, 2, 3, 4] }
example : (fieldView .float false exBB64 0 32).read = some 0x7f800000 := by decide

/-- **The value type is wide enough**: the documented value of every `w`-bit field fits
`LeastWidthInteger<w>` (unsigned, signed, and the decimal value of a Bcd), so the casts to
`ValueType` in the views never truncate. -/
theorem C02_value_type_wide_enough (hw : 1 ≤ w) (hw64 : w ≤ 64) (d : Nat) (hd : d < 2 ^ w) :
    d < 2 ^ leastWidth w ∧
    (-((2 ^ (leastWidth w - 1) : Nat) : Int) ≤ twos w d ∧
      twos w d < ((2 ^ (leastWidth w - 1) : Nat) : Int)) ∧
    bcdValue (nibbles w) d < 2 ^ leastWidth w := by
  have hle := le_leastWidth hw64
  refine ⟨lt_pow_of_lt_of_le hd hle, ?_, ?_⟩
  · have h1 : 2 ^ (w - 1) ≤ 2 ^ (leastWidth w - 1) := pow_le_pow (by omega)
    have h2 := pow_pred_double (W := w) (by omega)
    unfold twos
    split <;> omega
  · have hb := bcdValue_bound (nibbles w) d
    have hVW := leastWidth_cases w
    have h16 := pow10_le_pow16 _ hVW
    have hn : nibbles w ≤ leastWidth w / 4 := by
      unfold nibbles; rcases hVW with h | h | h | h <;> rw [h] at hle ⊢ <;> omega
    have := pow10_mono hn
    omega

example : bcdValue (nibbles 64) 0x9999999999999999 = 9999999999999999 := by decide

/-- **The two runtime code paths agree** (default memcpy + `ByteSwap`, including the
"copy into the last bytes, then swap" trick for 24/40/48/56-bit big-endian blocks, versus the
portable byte loops of `EMBOSS_NO_OPTIMIZATIONS`): both return the documented container
value, for loads; and both stores produce the same bytes. -/
theorem C02_le_be_paths_agree (h : Placed bb o w) (p q : Path) :
    loadLE p bb.c bb.bytes = loadLE q bb.c bb.bytes ∧
    loadBE p bb.c bb.bytes = loadBE q bb.c bb.bytes ∧
    loadLE p bb.c bb.bytes = containerValue .little bb.bytes ∧
    loadBE p bb.c bb.bytes = containerValue .big bb.bytes ∧
    (∀ v, v < 2 ^ bb.c → storeLE p bb.c v = storeLE q bb.c v ∧ storeBE p bb.c v = storeBE q bb.c v) := by
  have hb := placed_bytes h
  refine ⟨?_, ?_, ?_, ?_, fun v hv => ⟨?_, ?_⟩⟩
  · rw [loadLE_eq p hb h.len h.c_hi, loadLE_eq q hb h.len h.c_hi]
  · rw [loadBE_eq p hb h.len h.c_hi, loadBE_eq q hb h.len h.c_hi]
  · exact loadLE_eq p hb h.len h.c_hi
  · exact loadBE_eq p hb h.len h.c_hi
  · rw [storeLE_eq p h.c_hi, storeLE_eq q h.c_hi]
  · rw [storeBE_eq p h.c_hi h.c_mult hv, storeBE_eq q h.c_hi h.c_mult hv]

example : loadBE .opt 24 [0x12, 0x34, 0x56] = 0x123456 ∧ loadBE .noopt 24 [0x12, 0x34, 0x56] = 0x123456 := by
  decide

/-- **Unsigned enum**: `Read()` is the covered bits (for any underlying type at least as wide
as the field). -/
theorem C02_enum_read_unsigned (h : Placed bb o w) (uw : Nat) (huw : w ≤ uw) (direct : Bool)
    (hd : direct = true → o = 0 ∧ w = bb.c) :
    (fieldView (.enum uw false) direct bb o w).ok = true ∧
    (fieldView (.enum uw false) direct bb o w).read = some (fieldBits bb o w : Int) := by
  refine ⟨fieldView_ok_of_ne_bcd h direct hd _ (by simp), ?_⟩
  rw [fieldView_read_of_ne_bcd h direct hd _ (by simp)]
  simp only [View.decode, fieldView]
  rw [wrap_of_lt (lt_pow_of_lt_of_le (fieldBits_lt bb o w) huw)]

example : (fieldView (.enum 64 false) false exBB 9 5).read = some 26 := by decide

/-
Full statement (false on the real code, see the counterexample below):
  ∀ uw ≥ w, (fieldView (.enum uw true) direct bb o w).read = some (twos w (fieldBits bb o w))
-/
/-- **Signed enum**, partial: `Read()` is the two's-complement value at the field width
**provided the field is as wide as the enum's underlying type** (`w = uw`).  Missing: fields
narrower than the underlying type — there the code zero-extends (open finding
`signed-enum-in-field-narrower-than-underlying-type`; the proposed sign extension was
rejected upstream-side because `emboss_enum_view_test.cc` pins the zero-extending
behaviour, see `C02_enum_read_signed_actual` for what the code does there). -/
theorem C02_enum_read_signed_partial (h : Placed bb o w) (direct : Bool)
    (hd : direct = true → o = 0 ∧ w = bb.c) :
    (fieldView (.enum w true) direct bb o w).ok = true ∧
    (fieldView (.enum w true) direct bb o w).read = some (twos w (fieldBits bb o w)) := by
  refine ⟨fieldView_ok_of_ne_bcd h direct hd _ (by simp), ?_⟩
  rw [fieldView_read_of_ne_bcd h direct hd _ (by simp)]
  simp only [View.decode, fieldView]
  rw [toSigned_eq_twos (fieldBits_lt bb o w)]

/-- **Signed enum, the behaviour of the code for every `(w, uw, W)`** (`w ≤ uw` is the
`static_assert` of `EnumView`; the buffer's value type width `W ≥ w` is arbitrary):
`Read()` is `static_cast<Enum>(covered bits)`, i.e. the covered bits reinterpreted at the
width of the *underlying type* — two's complement at the field width when `w = uw`, and the
plain unsigned value of the bits (zero extension, never negative) when `w < uw`.  The gap
between the second case and the documented two's-complement value at the field width is
exactly the open finding `signed-enum-in-field-narrower-than-underlying-type`: the two
agree iff the top bit of the field is clear. -/
theorem C02_enum_read_signed_actual (h : Placed bb o w) (uw : Nat) (huw : w ≤ uw)
    (direct : Bool) (hd : direct = true → o = 0 ∧ w = bb.c) :
    (fieldView (.enum uw true) direct bb o w).ok = true ∧
    (fieldView (.enum uw true) direct bb o w).read = some (toSigned uw (fieldBits bb o w)) ∧
    (w = uw → toSigned uw (fieldBits bb o w) = twos w (fieldBits bb o w)) ∧
    (w < uw → toSigned uw (fieldBits bb o w) = (fieldBits bb o w : Int)) ∧
    (w < uw → (toSigned uw (fieldBits bb o w) = twos w (fieldBits bb o w) ↔
      fieldBits bb o w < 2 ^ (w - 1))) := by
  have hlt := fieldBits_lt bb o w
  have hzero : w < uw → toSigned uw (fieldBits bb o w) = (fieldBits bb o w : Int) := fun hw =>
    toSigned_of_lt (lt_pow_of_lt_of_le hlt (by omega)) (by omega)
  refine ⟨fieldView_ok_of_ne_bcd h direct hd _ (by simp), ?_, ?_, hzero, ?_⟩
  · rw [fieldView_read_of_ne_bcd h direct hd _ (by simp)]
    simp only [View.decode, fieldView]
  · intro he; subst he; exact toSigned_eq_twos hlt
  · intro hw
    rw [hzero hw]
    unfold twos
    have hp := two_pow_pos' w
    constructor
    · intro he; split at he <;> omega
    · intro hs; rw [if_pos hs]

-- non-vacuity (tests): `int16_t` enum in 5 bits of a 24-bit big-endian container: bits 26
-- read 26 (documented: 26 - 32 = -6); `int8_t` enum in a full byte reads two's complement
example : (fieldView (.enum 16 true) false exBB 9 5).read = some 26 ∧
    twos 5 (fieldBits exBB 9 5) = -6 := by decide

/-- **Summary**: for every view type meeting its static side conditions, `Read()` is the
documented decoding of the covered bits (`none` = not `Ok()`, only possible for `Bcd`). -/
theorem C02_read_eq_spec (h : Placed bb o w) (direct : Bool)
    (hd : direct = true → o = 0 ∧ w = bb.c) (ty : Ty) (hty : TypeFits ty w) :
    (fieldView ty direct bb o w).read = decodeSpec ty w (fieldBits bb o w) := by
  cases ty with
  | uint => exact (C02_uint_read h direct hd).2
  | int => exact (C02_int_read_twos_complement h direct hd).2
  | bcd =>
    obtain ⟨_, hok, hbad⟩ := C02_bcd_read h direct hd
    simp only [decodeSpec]
    by_cases hb : BcdOk (nibbles w) (fieldBits bb o w)
    · rw [if_pos hb]; exact hok hb
    · rw [if_neg hb]; exact hbad hb
  | flag =>
    simp only [TypeFits] at hty; subst hty
    exact (C02_flag_read h direct hd).2
  | float => exact (C02_float_bits h hty direct hd).2
  | enum uw s =>
    cases s with
    | false => exact (C02_enum_read_unsigned h uw hty direct hd).2
    | true =>
      simp only [TypeFits] at hty; subst hty
      exact (C02_enum_read_signed_partial h direct hd).2

example : TypeFits (.enum 8 true) 8 ∧ decodeSpec (.enum 8 true) 8 0x8f = some (-113) :=
  ⟨rfl, by decide⟩

def exBB8 : BitBlock := { order := .little, path := .opt, c := 8, bytes := [0x8f] }
example : (fieldView (.enum 8 true) true exBB8 0 8).read = some (-113) := by decide

/-- **Counterexample** (the real runtime agrees with the model here; replayed on every run):
an `int8_t` enum in a 4-bit field holding `0xF` reads `15`; the documented two's-complement
value at the field width is `-1`. -/
theorem C02_enum_signed_narrow_counterexample :
    (fieldView (.enum 8 true) false exBB8 0 4).read = some 15 ∧
    twos 4 (fieldBits exBB8 0 4) = -1 := by decide

end Emboss.Scalar
