/-
C02 — Scalar fields decode with the documented byte order, bit numbering and format.
(placeholder while the lemmas are being developed)
-/
import Emboss.Model.Scalar
namespace Emboss.Scalar
open Emboss.Bits

theorem C02_placeholder : leastWidth 8 = 8 := by decide

end Emboss.Scalar
