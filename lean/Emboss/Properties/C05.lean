/-
C05 — Inferred integer bounds and alignments are sound, and tight where documented.

Model: Emboss/Model/Bounds.lean (expression_bounds.py, ir_util.constant_value,
constraints._integer_bounds_errors_for_expression, _cpp_integer_type_for_range).
Spec:  Emboss/Spec/Bounds.lean (γ, evaluation over ℤ/Bool, physical leaf ranges).
-/
import Emboss.Lemmas.BoundsGate
namespace Emboss.Bounds
open ExtInt

/-- **Soundness.**  For every expression `e`, every environment whose leaves hold values
of their physical types, if the analysis attaches the type `ty` to `e` (it did not
raise) and `e` evaluates to `v`, then `v ∈ γ(ty)`: `min ≤ v ≤ max`,
`v ≡ modular_value (mod modulus)`; a boolean/enum type with a value is that value. -/
theorem C05_sound (ρ : Env) (e : Expr) (ty : AType) (v : CVal)
    (henv : EnvOk ρ e) (habs : abs e = some ty) (hev : eval ρ e = some v) : GammaT ty v :=
  (sound_aux ρ e henv).1 ty v habs hev

/-- non-vacuity: `(a0 * 12 + 7) * (a1 * 20 + 15)` over `UInt:12 a0`, `Int:9 a1` gets the
    var×var modulus 20 and remainder 5, and a concrete environment satisfies the hypotheses -/
example :
    let e : Expr := .bin .mul (.bin .add (.bin .mul (.ileaf 0 .uint (some 12)) (.const 12)) (.const 7))
                               (.bin .add (.bin .mul (.ileaf 1 .sint (some 9)) (.const 20)) (.const 15))
    let ρ : Env := ⟨fun i => if i = 0 then 4095 else -256, fun _ => false, fun _ => 0⟩
    abs e = some (.int ⟨.fin (-250895435), .fin 251386905, .fin 20, .fin 5⟩) ∧
    eval ρ e = some (.int (-250895435)) ∧ EnvOk ρ e := by
  refine ⟨by decide +kernel, by decide +kernel, ?_⟩
  simp [EnvOk, InPhys]

/-- **Constants are exact.**  An expression the compiler treats as constant
(`modulus = "infinity"`) has exactly the value `modular_value`. -/
theorem C05_constant_exact (ρ : Env) (e : Expr) (a : AVal) (v : Int)
    (henv : EnvOk ρ e) (habs : abs e = some (.int a)) (hconst : a.modulus = .inf)
    (hev : eval ρ e = some (.int v)) : a.mv = .fin v := by
  have h := C05_sound ρ e _ _ henv habs hev
  obtain ⟨-, -, c, hc, hd⟩ := h
  rw [hconst] at hd
  have := zero_dvd_sub hd
  subst this
  exact hc

example : abs (.bin .mul (.const 0) (.ileaf 0 .uint (some 8))) =
    some (.int ⟨.fin 0, .fin 0, .inf, .fin 0⟩) := by decide +kernel

/-- **`ir_util.constant_value` agrees with evaluation** (and therefore with the
annotation whenever both say "constant"). -/
theorem C05_constant_value_agrees (ρ : Env) (e : Expr) (x v : CVal)
    (henv : EnvOk ρ e) (hcv : cv e = .val x) (hev : eval ρ e = some v) : v = x :=
  (sound_aux ρ e henv).2 v hev x hcv

example : cv (.bin .and (.bconst false) (.bin .eq (.ileaf 0 .uint (some 8)) (.const 1))) =
    .val (.bool false) := by decide +kernel

/-- **`$upper_bound` / `$lower_bound` are true bounds.** -/
theorem C05_bounds_functions (ρ : Env) (e : Expr) (v u l : Int) (henv : EnvOk ρ e)
    (hev : eval ρ e = some (.int v)) :
    (eval ρ (.upper e) = some (.int u) → v ≤ u) ∧ (eval ρ (.lower e) = some (.int l) → l ≤ v) := by
  constructor
  · intro hu
    simp only [eval] at hu
    split at hu <;> try cases hu
    rename_i a ha
    have h := C05_sound ρ e _ _ henv ha hev
    obtain ⟨-, h2, -⟩ := h
    simp only [Option.map_eq_some_iff] at hu
    obtain ⟨c, hc, hcu⟩ := hu
    cases hcu
    cases hm : a.max <;> simp_all [ExtInt.toInt?, HighOk]
  · intro hl
    simp only [eval] at hl
    split at hl <;> try cases hl
    rename_i a ha
    have h := C05_sound ρ e _ _ henv ha hev
    obtain ⟨h1, -, -⟩ := h
    simp only [Option.map_eq_some_iff] at hl
    obtain ⟨c, hc, hcu⟩ := hl
    cases hcu
    cases hm : a.min <;> simp_all [ExtInt.toInt?, LowOk]

example : eval ⟨fun _ => 200, fun _ => false, fun _ => 0⟩
    (.upper (.bin .add (.ileaf 0 .uint (some 8)) (.const 1))) = some (.int 256) := by decide +kernel

/-- **The 64-bit gate implies one C++ type.**  If `_integer_bounds_errors_for_expression`
accepts a run-time (non-constant) function node, every integer clause (result and operands)
has finite bounds and one of int32/uint32/int64/uint64 — the one
`_cpp_integer_type_for_range` returns for the hull — holds all of them.  (Feeds
`C04_no_overflow`.) -/
theorem C05_gate_implies_one_type (ty : AType) (args : List ATree)
    (h : gate (.node true ty args) = some []) (hnc : isConstType ty = false) :
    ∃ rs, intRanges (ty :: argTys args) = some rs ∧
      (hullOf rs = none ∨
       ∃ lo hi it, hullOf rs = some (lo, hi) ∧ cppTypeForRange lo hi = some it ∧
         ∀ p ∈ rs, it.lo ≤ p.1 ∧ p.2 ≤ it.hi) :=
  (gate_one_type h hnc).2

/-- non-vacuity (and the gate is not trivially true): uint64 + small is accepted with one
    type; int64 compared with uint64 is rejected as mixed -/
example :
    gate (.node true (.int ⟨.fin 0, .fin 18446744073709551615, .fin 1, .fin 0⟩)
      [.node false (.int ⟨.fin 0, .fin 18446744073709551000, .fin 1, .fin 0⟩) [],
       .node false (.int ⟨.fin 0, .fin 615, .fin 1, .fin 0⟩) []]) = some [] ∧
    gate (.node true (.bool none)
      [.node false (.int ⟨.fin 0, .fin 18446744073709551615, .fin 1, .fin 0⟩) [],
       .node false (.int ⟨.fin (-9223372036854775808), .fin 9223372036854775807, .fin 1, .fin 0⟩) []])
      = some [.mixed] := by
  constructor <;> decide +kernel

/-!
### The invariant `_assert_integer_constraints`

Full statement (NOT proved; see notes/C05.md):
  `C05_inv_preserved : ∀ e ty, (every leaf has width ≥ 1 or unknown size) →
     (no $upper_bound/$lower_bound of an expression with an infinite bound feeds an operator) →
     abs e = some (.int a) → invPy a = some true`, and `abs e ≠ none`.
Proved below: the invariant at every leaf (all kinds, all sizes, unknown size),
constants and bound functions (`_partial`), and that the hypothesis about infinite bounds
is necessary: four model-level crashes, each replayed on the real code (open findings).
On every run the correspondence evaluates `invPy` on **every** annotation of every real
IR node (`INV` op), so a reachable annotation violating the invariant is reported.
-/

theorem two_pow_ge_two (n : Nat) (h : 1 ≤ n) : (2 : Int) ≤ 2 ^ n := by
  induction n with
  | zero => omega
  | succ k ih =>
    rcases Nat.eq_zero_or_pos k with rfl | hk
    · simp
    · have := ih hk
      rw [Int.pow_succ]; omega

/-- the invariant holds of the annotation of every physical leaf — any kind, any size
    (sizes < 1 and unknown sizes give the unbounded annotation since fix 0237141) -/
theorem C05_inv_preserved_partial (k : LeafKind) (size : Option Int) :
    invPy (leafRange k size) = some true ∧ invPy staticSizeRange = some true ∧
    (∀ v, invPy (constRange v) = some true) ∧
    (∀ a up, (∃ c, (if up then a.max else a.min) = .fin c) → invPy (boundFn up a) = some true) := by
  refine ⟨?_, by decide, fun v => by simp [invPy, constRange], ?_⟩
  · unfold leafRange
    cases size with
    | none => simp only; decide
    | some s =>
      simp only
      split
      · decide
      · rename_i hs
        have hn : 1 ≤ s.toNat := by omega
        have h2 := two_pow_ge_two s.toNat hn
        generalize s.toNat = n at *
        cases k
        · simp only [invPy]
          simp
          rw [if_neg (by omega)]; simp; omega
        · have h3 : (1 : Int) ≤ 2 ^ (n - 1) := Int.pow_pos (by omega)
          simp only [invPy]
          simp
          rw [if_neg (by omega)]; simp; omega
        · have h3 : (1 : Int) ≤ 10 ^ (n / 4) := Int.pow_pos (by omega)
          have h4 : (1 : Int) ≤ 2 ^ (n % 4) := Int.pow_pos (by omega)
          have h5 : (2 : Int) ≤ 10 ^ (n / 4) * 2 ^ (n % 4) := by
            rcases Nat.lt_or_ge n 4 with hlt | hge
            · have e1 : n / 4 = 0 := by omega
              have e2 : n % 4 = n := by omega
              rw [e1, e2]; simpa using h2
            · obtain ⟨j, hj⟩ : ∃ j, n / 4 = j + 1 := ⟨n / 4 - 1, by omega⟩
              have h6 : (1 : Int) ≤ 10 ^ j := Int.pow_pos (by omega)
              rw [hj, Int.pow_succ]
              have : (10 : Int) ≤ 10 ^ j * 10 := by omega
              calc (2 : Int) ≤ 10 * 1 := by omega
                _ ≤ 10 ^ j * 10 * 2 ^ (n % 4) := Int.mul_le_mul this h4 (by omega) (by omega)
          simp only [invPy]
          simp
          generalize (10 : Int) ^ (n / 4) * 2 ^ (n % 4) = q at *
          rw [if_neg (by omega)]; simp; omega
  · intro a up ⟨c, hc⟩
    simp [invPy, boundFn, hc]

/-- **F8: the invariant is not preserved without the finiteness hypothesis.**
`$upper_bound(x)` of an unbounded `x` is the "constant infinity"; it *passes*
`_assert_integer_constraints`, and then `* 2` raises (ValueError), `+ z` raises
(TypeError), `- $upper_bound(x)` trips the assert in `_add`, `?:` raises in
`_shared_modular_value`.  Replayed on the real code: findings.d/C05.json. -/
theorem C05_inv_preserved_counterexample :
    let inf := boundFn true unboundedLeaf
    let z := leafRange .uint (some 8)
    invPy inf = some true ∧ invPy z = some true ∧ invPy (constRange 2) = some true ∧
    multiplicative inf (constRange 2) = none ∧ additive false inf z = none ∧
    additive true inf inf = none ∧ choiceHull inf z = none := by
  decide +kernel

/-- the same on whole expressions, plus the KeyError of `ir_util.constant_value` for a
    `$upper_bound` with a constant operand inside a comparison -/
theorem C05_crash_counterexample :
    abs (.bin .mul (.upper (.ileaf 0 .uint none)) (.const 2)) = none ∧
    abs (.bin .eq (.upper (.const 3)) (.const 3)) = none ∧
    cv (.upper (.const 3)) = .crash := by
  decide +kernel

/-!
### Tightness

Full statement (NOT proved; tested on every run by corner enumeration, see
harness/corr/C05.py `oracle_expression`):
  `C05_tight_linear : ∀ e over {+,−,×,$max, constants, leaves of known size} in which every
     leaf occurs at most once, abs e = some (.int a) → a.min = .fin lo → a.max = .fin hi →
     (∃ ρ, EnvOk ρ e ∧ eval ρ e = some (.int lo)) ∧ (∃ ρ, EnvOk ρ e ∧ eval ρ e = some (.int hi))`.
Proved: the base case (every physical leaf attains both ends of its inferred range) and
the counterexample showing that the property's tightness clause as written ("for
expressions without repeated variables the interval is attained") is false for `?:`.
-/

theorem C05_tight_linear_partial (k : LeafKind) (s : Int) (hs : 1 ≤ s) (id : Nat) :
    ∃ lo hi, (leafRange k (some s)).min = .fin lo ∧ (leafRange k (some s)).max = .fin hi ∧
      InPhys k (some s) lo ∧ InPhys k (some s) hi := by
  have hn : ¬ s < 1 := by omega
  have h2 := two_pow_ge_two s.toNat (by omega)
  have h3 : (1 : Int) ≤ 2 ^ (s.toNat - 1) := Int.pow_pos (by omega)
  have h4 : (1 : Int) ≤ 10 ^ (s.toNat / 4) * 2 ^ (s.toNat % 4) :=
    Int.mul_pos (Int.pow_pos (by omega)) (Int.pow_pos (by omega))
  cases k <;> simp only [leafRange, InPhys, hn, if_false] <;>
    refine ⟨_, _, rfl, rfl, ?_, ?_⟩ <;> constructor <;> omega

/-- **F12: `?:` with a tautological, non-folded condition is not tight.**
`$upper_bound(x >= 0 ? 1 : 100)` over `UInt:8 x` is 100; `x` occurs once; the inner
expression only ever evaluates to 1. -/
theorem C05_tight_choice_counterexample :
    let inner : Expr := .choice (.bin .ge (.ileaf 0 .uint (some 8)) (.const 0)) (.const 1) (.const 100)
    abs (.upper inner) = some (.int ⟨.fin 100, .fin 100, .inf, .fin 100⟩) ∧
    ∀ ρ : Env, EnvOk ρ inner → eval ρ inner = some (.int 1) := by
  refine ⟨by decide +kernel, ?_⟩
  intro ρ h
  simp only [EnvOk, InPhys] at h
  have h0 : 0 ≤ ρ.i 0 := by
    have := h.1
    simp at this
    exact this.1
  simp [eval, evalBin, h0]

end Emboss.Bounds
