/-
C05 — Inferred integer bounds and alignments are sound, and tight where documented.

Model: Emboss/Model/Bounds.lean (expression_bounds.py, ir_util.constant_value,
constraints._integer_bounds_errors_for_expression, _cpp_integer_type_for_range).
Spec:  Emboss/Spec/Bounds.lean (γ, evaluation over ℤ/Bool, physical leaf ranges).
-/
import Emboss.Lemmas.BoundsGate
import Emboss.Lemmas.BoundsTight
import Emboss.Lemmas.BoundsSize
import Emboss.Lemmas.BoundsTotal
import Emboss.Lemmas.BoundsTyped
import Emboss.Lemmas.BoundsTightChoice
namespace Emboss.Bounds
open ExtInt

/-- **Soundness.**  For every expression `e`, every environment whose leaves hold values
of their physical types, if the analysis attaches the type `ty` to `e` (it did not
raise) and `e` evaluates to `v`, then `v ∈ γ(ty)`: `min ≤ v ≤ max`,
`v ≡ modular_value (mod modulus)`; a boolean/enum type with a value is that value. -/
theorem C05_sound (ρ : Env) (e : Expr) (ty : AType) (v : CVal)
    (henv : EnvOk ρ e) (habs : abs e = some ty) (hev : eval ρ e = some v) : GammaT ty v :=
  (sound_aux ρ e henv).1 ty v habs hev

/-- non-vacuity: `(a0 * 12 + 7) * (a1 * 20 + 15)` over `UInt:12 a0`, `Int:9 a1` gets the
    var×var modulus 20 and remainder 5, and a concrete environment satisfies the hypotheses -/
example :
    let e : Expr := .bin .mul (.bin .add (.bin .mul (.ileaf 0 .uint (some 12)) (.const 12)) (.const 7))
                               (.bin .add (.bin .mul (.ileaf 1 .sint (some 9)) (.const 20)) (.const 15))
    let ρ : Env := ⟨fun i => if i = 0 then 4095 else -256, fun _ => false, fun _ => 0⟩
    abs e = some (.int ⟨.fin (-250895435), .fin 251386905, .fin 20, .fin 5⟩) ∧
    eval ρ e = some (.int (-250895435)) ∧ EnvOk ρ e := by
  refine ⟨by decide +kernel, by decide +kernel, ?_⟩
  simp [EnvOk, InPhys]

/-- **Constants are exact.**  An expression the compiler treats as constant
(`modulus = "infinity"`) has exactly the value `modular_value`. -/
theorem C05_constant_exact (ρ : Env) (e : Expr) (a : AVal) (v : Int)
    (henv : EnvOk ρ e) (habs : abs e = some (.int a)) (hconst : a.modulus = .inf)
    (hev : eval ρ e = some (.int v)) : a.mv = .fin v := by
  have h := C05_sound ρ e _ _ henv habs hev
  obtain ⟨-, -, c, hc, hd⟩ := h
  rw [hconst] at hd
  have := zero_dvd_sub hd
  subst this
  exact hc

example : abs (.bin .mul (.const 0) (.ileaf 0 .uint (some 8))) =
    some (.int ⟨.fin 0, .fin 0, .inf, .fin 0⟩) := by decide +kernel

/-- **`ir_util.constant_value` agrees with evaluation** (and therefore with the
annotation whenever both say "constant"). -/
theorem C05_constant_value_agrees (ρ : Env) (e : Expr) (x v : CVal)
    (henv : EnvOk ρ e) (hcv : cv e = .val x) (hev : eval ρ e = some v) : v = x :=
  (sound_aux ρ e henv).2 v hev x hcv

example : cv (.bin .and (.bconst false) (.bin .eq (.ileaf 0 .uint (some 8)) (.const 1))) =
    .val (.bool false) := by decide +kernel

/-- **`$upper_bound` / `$lower_bound` are true bounds.** -/
theorem C05_bounds_functions (ρ : Env) (e : Expr) (v u l : Int) (henv : EnvOk ρ e)
    (hev : eval ρ e = some (.int v)) :
    (eval ρ (.upper e) = some (.int u) → v ≤ u) ∧ (eval ρ (.lower e) = some (.int l) → l ≤ v) := by
  constructor
  · intro hu
    simp only [eval] at hu
    split at hu <;> try cases hu
    rename_i a ha
    have h := C05_sound ρ e _ _ henv ha hev
    obtain ⟨-, h2, -⟩ := h
    simp only [Option.map_eq_some_iff] at hu
    obtain ⟨c, hc, hcu⟩ := hu
    cases hcu
    cases hm : a.max <;> simp_all [ExtInt.toInt?, HighOk]
  · intro hl
    simp only [eval] at hl
    split at hl <;> try cases hl
    rename_i a ha
    have h := C05_sound ρ e _ _ henv ha hev
    obtain ⟨h1, -, -⟩ := h
    simp only [Option.map_eq_some_iff] at hl
    obtain ⟨c, hc, hcu⟩ := hl
    cases hcu
    cases hm : a.min <;> simp_all [ExtInt.toInt?, LowOk]

example : eval ⟨fun _ => 200, fun _ => false, fun _ => 0⟩
    (.upper (.bin .add (.ileaf 0 .uint (some 8)) (.const 1))) = some (.int 256) := by decide +kernel

/-- references to virtual fields (`vref`): `let c = 3`, `let v0 = (c == 3)`,
    `let v1 = ((c * a0) + c)` over `UInt:8 a0` — the comparison is **not** folded
    (`constant_value` of a field reference is unknown) while the arithmetic uses the copied
    constant annotation; exactly what the front end does -/
example :
    let c : Expr := .vref (.const 3)
    abs (.bin .eq c (.const 3)) = some (.bool none) ∧ cv (.bin .eq c (.const 3)) = .unknown ∧
    abs (.bin .add (.bin .mul c (.ileaf 0 .uint (some 8))) c) =
      some (.int ⟨.fin 3, .fin 768, .fin 3, .fin 0⟩) := by
  decide +kernel

/-- **`$max_size_in_*` / `$min_size_in_*` bound the run-time size, which bounds every
present field.**  `sizeExpr fs` is the expression `synthetics._add_size_virtuals` builds for
`$size_in_bits`/`$size_in_bytes` (`$max(0, cond ? start + size : 0, …)` over the physical
fields; the harness checks that shape on every structure of every compiled module), and
`$max_size_in_*`/`$min_size_in_*` are `$upper_bound`/`$lower_bound` of it.  For every
environment: the size is ≥ 0, every field whose existence condition holds ends at or before
the size, and `$min_size ≤ size ≤ $max_size`; hence every present field ends at or before
`$max_size_in_*` (`MaxSizeInBytes()`). -/
theorem C05_size_bounds (ρ : Env) (fs : List PField) (v : Int)
    (henv : EnvOk ρ (sizeExpr fs)) (hev : eval ρ (sizeExpr fs) = some (.int v)) :
    0 ≤ v ∧
    (∀ f ∈ fs, ∀ s z : Int, eval ρ f.cond = some (.bool true) →
      eval ρ f.start = some (.int s) → eval ρ f.size = some (.int z) → s + z ≤ v) ∧
    (∀ u, eval ρ (.upper (sizeExpr fs)) = some (.int u) → v ≤ u) ∧
    (∀ l, eval ρ (.lower (sizeExpr fs)) = some (.int l) → l ≤ v) := by
  obtain ⟨h0, h1⟩ := sizeExpr_ge hev
  refine ⟨h0, h1, fun u hu => ?_, fun l hl => ?_⟩
  · exact (C05_bounds_functions ρ _ v u 0 henv hev).1 hu
  · exact (C05_bounds_functions ρ _ v 0 l henv hev).2 hl

/-- non-vacuity: `0 [+1] UInt n; if n > 3: 1 [+n] UInt:8[] payload` — the size is
    `$max(0, true ? 0+1 : 0, n > 3 ? 1+n : 0)`, `$max_size` is 256, `$min_size` is 1, and
    for n = 200 the size is 201 -/
example :
    let n : Expr := .ileaf 0 .uint (some 8)
    let fs : List PField := [⟨.bconst true, .const 0, .const 1⟩, ⟨.bin .gt n (.const 3), .const 1, n⟩]
    let ρ : Env := ⟨fun _ => 200, fun _ => false, fun _ => 0⟩
    eval ρ (sizeExpr fs) = some (.int 201) ∧
    eval ρ (.upper (sizeExpr fs)) = some (.int 256) ∧
    eval ρ (.lower (sizeExpr fs)) = some (.int 1) ∧ EnvOk ρ (sizeExpr fs) := by
  refine ⟨by decide +kernel, by decide +kernel, by decide +kernel, ?_⟩
  simp [sizeExpr, sizeClause, EnvOk, EnvOkList, InPhys]

/-- **The 64-bit gate implies one C++ type.**  If `_integer_bounds_errors_for_expression`
accepts a run-time (non-constant) function node, every integer clause (result and operands)
has finite bounds and one of int32/uint32/int64/uint64 — the one
`_cpp_integer_type_for_range` returns for the hull — holds all of them.  (Feeds
`C04_no_overflow`.) -/
theorem C05_gate_implies_one_type (ty : AType) (args : List ATree)
    (h : gate (.node true ty args) = some []) (hnc : isConstType ty = false) :
    ∃ rs, intRanges (ty :: argTys args) = some rs ∧
      (hullOf rs = none ∨
       ∃ lo hi it, hullOf rs = some (lo, hi) ∧ cppTypeForRange lo hi = some it ∧
         ∀ p ∈ rs, it.lo ≤ p.1 ∧ p.2 ≤ it.hi) :=
  (gate_one_type h hnc).2

/-- non-vacuity (and the gate is not trivially true): uint64 + small is accepted with one
    type; int64 compared with uint64 is rejected as mixed -/
example :
    gate (.node true (.int ⟨.fin 0, .fin 18446744073709551615, .fin 1, .fin 0⟩)
      [.node false (.int ⟨.fin 0, .fin 18446744073709551000, .fin 1, .fin 0⟩) [],
       .node false (.int ⟨.fin 0, .fin 615, .fin 1, .fin 0⟩) []]) = some [] ∧
    gate (.node true (.bool none)
      [.node false (.int ⟨.fin 0, .fin 18446744073709551615, .fin 1, .fin 0⟩) [],
       .node false (.int ⟨.fin (-9223372036854775808), .fin 9223372036854775807, .fin 1, .fin 0⟩) []])
      = some [.mixed] := by
  constructor <;> decide +kernel

/-!
### The invariant `_assert_integer_constraints`

`invPy` is the assert block of `_assert_integer_constraints` as written.  The inductive
invariant is `InvOk a := invPy a = some true ∧ CanonMv a ∧ FiniteConst a`
(Spec/BoundsInv.lean, a decidable `Bool`):
* `FiniteConst` — no "constant infinity" (`modulus = modular_value = "infinity"`), which
  passes the asserts and crashes `+ - * ?:`; since the fix of F8 (`$upper_bound` /
  `$lower_bound` of an infinite bound yield the unbounded annotation) no transfer
  function produces it;
* `CanonMv` — `0 ≤ modular_value < modulus`: what every transfer function produces
  (`% modulus`) and what the asserts force whenever one bound is finite; needed because the
  asserts never look at `modular_value` of a value without finite bounds
  (`C05_inv_needs_canonical_counterexample`).
Proved: every transfer function maps `InvOk` arguments to a result — it does **not raise** —
that is `InvOk` again (`C05_inv_transfer`, `C05_inv_transfer_max`), leaves and literals
satisfy it (`C05_inv_leaves`), hence **every** annotation `abs` attaches passes
`_assert_integer_constraints` (`C05_inv_preserved`, no side condition on the expression).
Totality: `abs` (and `ir_util.constant_value`) return on every well-typed expression,
comparisons, `&&`, `||` and `?:` on arbitrary conditions included (`C05_no_crash`; the typing
discipline `tyOf` is Model/ExprType.lean); `C05_no_crash_arith` is the earlier statement for the
arithmetic fragment, kept because it does not need `tyOf`.
-/

/-- **Every transfer function preserves the invariant and does not raise.**
`+`, `-`, `*` (const×const, const×var, var×var), `?:` with an unknown condition,
`$upper_bound`/`$lower_bound`. -/
theorem C05_inv_transfer (l r : AVal) (hl : InvOk l = true) (hr : InvOk r = true) :
    (∀ isSub, ∃ a, additive isSub l r = some a ∧ InvOk a = true) ∧
    (∃ a, multiplicative l r = some a ∧ InvOk a = true) ∧
    (∃ a, choiceHull l r = some a ∧ InvOk a = true) ∧
    (∀ up, InvOk (boundFn up l) = true) := by
  have hl' := InvS_of_InvOk hl
  have hr' := InvS_of_InvOk hr
  refine ⟨fun s => ?_, ?_, ?_, ?_⟩
  · obtain ⟨a, h1, h2⟩ := additive_inv s hl' hr'
    exact ⟨a, h1, InvOk_of_InvS h2⟩
  · obtain ⟨a, h1, h2⟩ := multiplicative_inv hl' hr'
    exact ⟨a, h1, InvOk_of_InvS h2⟩
  · obtain ⟨a, h1, h2⟩ := choiceHull_inv hl' hr'
    exact ⟨a, h1, InvOk_of_InvS h2⟩
  · intro up
    exact InvOk_of_InvS (boundFn_invS up l)

/-- non-vacuity: the var×var example of the soundness theorem, on the annotations -/
example :
    let l : AVal := ⟨.fin 7, .fin 49147, .fin 12, .fin 7⟩
    let r : AVal := ⟨.fin (-5105), .fin 5115, .fin 20, .fin 15⟩
    InvOk l = true ∧ InvOk r = true ∧
    multiplicative l r = some ⟨.fin (-250895435), .fin 251386905, .fin 20, .fin 5⟩ := by
  decide +kernel

/-- **`$max` preserves the invariant and does not raise** (any positive number of arguments). -/
theorem C05_inv_transfer_max (args : List AVal) (hne : args ≠ [])
    (h : ∀ a ∈ args, InvOk a = true) : ∃ r, maxFn args = some r ∧ InvOk r = true := by
  obtain ⟨r, h1, h2⟩ := maxFn_inv hne (fun a ha => InvS_of_InvOk (h a ha))
  exact ⟨r, h1, InvOk_of_InvS h2⟩

example : maxFn [⟨.fin 7, .fin 247, .fin 12, .fin 7⟩, constRange 500] = some (constRange 500) ∧
    maxFn [⟨.fin 7, .fin 247, .fin 12, .fin 7⟩, ⟨.fin 15, .fin 95, .fin 20, .fin 15⟩] =
      some ⟨.fin 15, .fin 247, .fin 4, .fin 3⟩ := by decide +kernel

/-- **The invariant holds at the leaves**: every physical leaf — any kind, any size, sizes
< 1 and unknown sizes included (unbounded annotation since fix 0237141) —,
`$static_size_in_bits`, integer literals. -/
theorem C05_inv_leaves (k : LeafKind) (size : Option Int) (v : Int) :
    InvOk (leafRange k size) = true ∧ InvOk staticSizeRange = true ∧
    InvOk (constRange v) = true :=
  ⟨leafRange_invOk k size, by decide, InvOk_const v⟩

/-- **`_assert_integer_constraints` holds of every annotation** the analysis attaches to an
expression whose preset `$logical_value` annotations satisfy the invariant (`GivenOk`); by
`abs`'s recursion the same holds at every subexpression.  The conclusion is the
strengthened, inductive invariant. -/
theorem C05_inv_preserved (e : Expr) (hg : GivenOk e = true)
    (a : AVal) (h : abs e = some (.int a)) : invPy a = some true ∧ InvOk a = true := by
  have h1 : InvOk a = true := InvOk_of_InvS (inv_aux e hg _ h)
  refine ⟨?_, h1⟩
  simp only [InvOk, Bool.and_eq_true, beq_iff_eq] at h1
  exact h1.1.1

/-- non-vacuity: the hypotheses hold of a non-trivial expression with `$upper_bound`,
    `?:`, `$max` and a var×var product, and `abs` returns -/
example :
    let e : Expr := .bin .mul
      (.bin .add (.bin .mul (.ileaf 0 .uint (some 12)) (.const 12)) (.upper (.ileaf 2 .bcd (some 7))))
      (.max [.choice (.bleaf 0) (.ileaf 1 .sint (some 9)) (.const 15), .const 3])
    GivenOk e = true ∧
    abs e = some (.int ⟨.fin 237, .fin 12550845, .fin 1, .fin 0⟩) := by
  decide +kernel

/-- **The analysis never raises on the arithmetic fragment.**  For every integer expression
over literals, integer leaves of any kind/size, `$static_size_in_bits`, `$logical_value`,
references to virtual fields, `+ - *`, `$max`, `$upper_bound`, `$lower_bound` and `?:` on a
boolean field or literal (`ArithOnly`): `compute_constraints_of_expression` returns — no
assert fails, no `int("infinity")`, no `"infinity" % n` — an integer annotation satisfying
the invariant.  (Comparisons are outside the fragment only because the model has no type
checker for their operands.) -/
theorem C05_no_crash_arith (e : Expr) (h : ArithOnly e = true) (hg : GivenOk e = true) :
    ∃ a, abs e = some (.int a) ∧ InvOk a = true := by
  obtain ⟨a, h1, h2⟩ := total_aux e h hg
  exact ⟨a, h1, InvOk_of_InvS h2⟩

/-- non-vacuity; the former F8 input is in the fragment -/
example :
    let e : Expr := .choice (.bleaf 0)
      (.bin .sub (.vref (.bin .mul (.ileaf 0 .sint (some 16)) (.const (-6)))) (.upper (.ileaf 2 .bcd (some 12))))
      (.max [.given 3 ⟨.fin 4, .posInf, .fin 8, .fin 4⟩, .lower (.ileaf 4 .uint (some 3))])
    ArithOnly e = true ∧ GivenOk e = true ∧
    ArithOnly (.bin .mul (.upper (.ileaf 0 .uint none)) (.const 2)) = true := by
  decide +kernel

/-- **The analysis never raises on a well-typed expression.**  For every expression that is
well typed with type `τ` (`tyOf e = some τ`: `+ - *` on integers, `< <= > >=` on integers,
`== !=` on two integers / two booleans / two enum values, `&& ||` on booleans, `?:` on a boolean
and two operands of one type, `$max` of ≥ 1 integers, `$upper_bound`/`$lower_bound` of an
integer, literals, fields, parameters, references to virtual fields) whose preset annotations
satisfy the invariant: `compute_constraints_of_expression` returns an annotation of type `τ`
that satisfies the invariant, and `ir_util.constant_value` does not raise and, when it knows
a value, the value has type `τ`.  No assert fails, no `int("infinity")`, no `"infinity" % n`,
no `KeyError`. -/
theorem C05_no_crash (e : Expr) (τ : Ty) (ht : tyOf e = some τ) (hg : GivenOk e = true) :
    (∃ ty, abs e = some ty ∧ ty.tag = τ ∧ InvOkT ty = true) ∧
    cv e ≠ .crash ∧ (∀ x, cv e = .val x → x.tag = τ) := by
  obtain ⟨⟨ty, habs, htag⟩, hc1, hc2⟩ := typed_aux e τ ht hg
  exact ⟨⟨ty, habs, htag, InvT_iff.mpr (inv_aux e hg ty habs)⟩, hc1, hc2⟩

/-- non-vacuity: `((a0 + 1 > $upper_bound(a1)) && (en == En.AA || fl)) ? $max(a0, 3) : a0 * dyn`
    (with `dyn` of unknown size) is well typed; an ill-typed comparison is not, and there the
    model's `abs` has no answer (type_check.py rejects such input before bounds are computed) -/
example :
    let a0 : Expr := .ileaf 0 .uint (some 8)
    let e : Expr := .choice
      (.bin .and (.bin .gt (.bin .add a0 (.const 1)) (.upper (.ileaf 1 .sint (some 16))))
                 (.bin .or (.bin .eq (.eleaf 0) (.econst 1)) (.bleaf 0)))
      (.max [a0, .const 3]) (.bin .mul a0 (.ileaf 2 .uint none))
    tyOf e = some .int ∧ GivenOk e = true ∧
    tyOf (.bin .lt (.bleaf 0) (.const 1)) = none ∧ abs (.bin .lt (.bconst true) (.const 1)) = none := by
  decide +kernel

/-- **`invPy` alone is not inductive**: an annotation without finite bounds passes the
asserts whatever its `modular_value` is; `+` then raises.  (Never produced by the code:
`CanonMv` is part of `InvOk`, which is what `C05_inv_preserved` proves.) -/
theorem C05_inv_needs_canonical_counterexample :
    let a : AVal := ⟨.negInf, .posInf, .fin 3, .posInf⟩
    invPy a = some true ∧ FiniteConst a = true ∧ additive false a (constRange 1) = none := by
  decide +kernel

/-- F8 repaired: `$upper_bound` of an unbounded argument is the unbounded annotation, and
    arithmetic on it returns (the 64-bit gate then rejects the expression as unbounded);
    `ir_util.constant_value` of a bound function is read from the annotation -/
example :
    abs (.bin .mul (.upper (.ileaf 0 .uint none)) (.const 2)) =
      some (.int ⟨.negInf, .posInf, .fin 2, .fin 0⟩) ∧
    abs (.bin .eq (.upper (.const 3)) (.const 3)) = some (.bool (some true)) ∧
    cv (.upper (.const 3)) = .val (.int 3) ∧
    cv (.upper (.ileaf 0 .uint none)) = .unknown := by
  decide +kernel

/-!
### Tightness

`LinOnce` (Spec/BoundsInv.lean) is the fragment of the property statement's tightness
clause: expressions over `+`, `-`, `*`, `$max`, integer literals and physical integer leaves
of known size ≥ 1 in which every leaf occurs at most once (operands of every operator
mention disjoint leaves).  It contains the linear forms `c0 + c1*x1 + … + cn*xn`; products of
distinct leaves are included because the four-corner extrema are attained when the factors
vary independently.  `?:` is *not* in the fragment, and cannot be:
`C05_tight_choice_counterexample`.
-/

/-- **Tightness.**  For every expression of the single-occurrence fragment the analysis
returns (does not raise), both inferred bounds are finite, and each is attained: there is
an environment whose leaves hold values of their physical types under which the
expression evaluates to the inferred minimum, and one for the inferred maximum. -/
theorem C05_tight_linear (e : Expr) (h : LinOnce e = true) :
    ∃ a lo hi, abs e = some (.int a) ∧ a.min = .fin lo ∧ a.max = .fin hi ∧
      (∃ ρ, EnvOk ρ e ∧ eval ρ e = some (.int lo)) ∧
      (∃ ρ, EnvOk ρ e ∧ eval ρ e = some (.int hi)) := by
  obtain ⟨a, habs, _, lo, hi, h1, h2, h3, h4⟩ := tight_aux e h
  exact ⟨a, lo, hi, habs, h1, h2, h3, h4⟩

/-- non-vacuity: `$max(3*a0 - a1, a2*a3 + 7, 100)` over `UInt:8 a0`, `Int:8 a1`, `Bcd:8 a2`,
    `Int:4 a3` is in the fragment; its inferred range is 100 … 893 -/
example :
    let e : Expr := .max [
      .bin .sub (.bin .mul (.const 3) (.ileaf 0 .uint (some 8))) (.ileaf 1 .sint (some 8)),
      .bin .add (.bin .mul (.ileaf 2 .bcd (some 8)) (.ileaf 3 .sint (some 4))) (.const 7),
      .const 100]
    LinOnce e = true ∧ abs e = some (.int ⟨.fin 100, .fin 893, .fin 1, .fin 0⟩) := by
  decide +kernel

/-- a repeated variable leaves the fragment (and `x - x` is indeed not tight: inferred
    −255 … 255, value always 0) -/
example : LinOnce (.bin .sub (.ileaf 0 .uint (some 8)) (.ileaf 0 .uint (some 8))) = false ∧
    abs (.bin .sub (.ileaf 0 .uint (some 8)) (.ileaf 0 .uint (some 8))) =
      some (.int ⟨.fin (-255), .fin 255, .fin 1, .fin 0⟩) := by
  decide +kernel

/-- **Tightness of `?:` with an independent, non-constant condition.**  If both branches are in
the single-occurrence fragment and mention disjoint leaves, the condition mentions none of the
branches' leaves, the analysis does not fold the condition (`abs c` is a boolean without value)
and the condition can evaluate to `true` as well as to `false`, then the analysis returns, both
ends of the inferred interval are finite and each is attained.  The last hypothesis is what F12
(`C05_tight_choice_counterexample`: a tautological condition) violates. -/
theorem C05_tight_choice_independent (c t f : Expr)
    (ht : LinOnce t = true) (hf : LinOnce f = true)
    (hdtf : disjoint (ivars t) (ivars f) = true)
    (hdtc : disjoint (ivars t) (ivars c) = true) (hdfc : disjoint (ivars f) (ivars c) = true)
    (hc : abs c = some (.bool none))
    (hT : ∃ ρ, EnvOk ρ c ∧ eval ρ c = some (.bool true))
    (hF : ∃ ρ, EnvOk ρ c ∧ eval ρ c = some (.bool false)) :
    ∃ a lo hi, abs (.choice c t f) = some (.int a) ∧ a.min = .fin lo ∧ a.max = .fin hi ∧
      (∃ ρ, EnvOk ρ (.choice c t f) ∧ eval ρ (.choice c t f) = some (.int lo)) ∧
      (∃ ρ, EnvOk ρ (.choice c t f) ∧ eval ρ (.choice c t f) = some (.int hi)) := by
  obtain ⟨a, habs, _, lo, hi, h1, h2, h3, h4⟩ := choice_tight ht hf hdtf hdtc hdfc hc hT hF
  exact ⟨a, lo, hi, habs, h1, h2, h3, h4⟩

/-- non-vacuity: `(a0 > 3 || fl) ? a1 + 1 : 2 * a2` over `UInt:8 a0, a1`, `Int:4 a2`, `Flag fl`
    meets every hypothesis; the inferred interval is −16 … 256 -/
example :
    let c : Expr := .bin .or (.bin .gt (.ileaf 0 .uint (some 8)) (.const 3)) (.bleaf 0)
    let t : Expr := .bin .add (.ileaf 1 .uint (some 8)) (.const 1)
    let f : Expr := .bin .mul (.const 2) (.ileaf 2 .sint (some 4))
    LinOnce t = true ∧ LinOnce f = true ∧ disjoint (ivars t) (ivars f) = true ∧
    disjoint (ivars t) (ivars c) = true ∧ disjoint (ivars f) (ivars c) = true ∧
    abs c = some (.bool none) ∧
    (∃ ρ, EnvOk ρ c ∧ eval ρ c = some (.bool true)) ∧
    (∃ ρ, EnvOk ρ c ∧ eval ρ c = some (.bool false)) ∧
    abs (.choice c t f) = some (.int ⟨.fin (-16), .fin 256, .fin 1, .fin 0⟩) := by
  refine ⟨by decide +kernel, by decide +kernel, by decide +kernel, by decide +kernel,
    by decide +kernel, by decide +kernel,
    ⟨⟨fun _ => 4, fun _ => false, fun _ => 0⟩, ?_, by decide +kernel⟩,
    ⟨⟨fun _ => 0, fun _ => false, fun _ => 0⟩, ?_, by decide +kernel⟩, by decide +kernel⟩ <;>
  simp [EnvOk, InPhys]

/-- **F12: `?:` with a tautological, non-folded condition is not tight.**
`$upper_bound(x >= 0 ? 1 : 100)` over `UInt:8 x` is 100; `x` occurs once; the inner
expression only ever evaluates to 1. -/
theorem C05_tight_choice_counterexample :
    let inner : Expr := .choice (.bin .ge (.ileaf 0 .uint (some 8)) (.const 0)) (.const 1) (.const 100)
    abs (.upper inner) = some (.int ⟨.fin 100, .fin 100, .inf, .fin 100⟩) ∧
    ∀ ρ : Env, EnvOk ρ inner → eval ρ inner = some (.int 1) := by
  refine ⟨by decide +kernel, ?_⟩
  intro ρ h
  simp only [EnvOk, InPhys] at h
  have h0 : 0 ≤ ρ.i 0 := by
    have := h.1
    simp at this
    exact this.1
  simp [eval, evalBin, h0]

end Emboss.Bounds
