/-
C05 — Inferred integer bounds and alignments are sound, and tight where documented.

Model: Emboss/Model/Bounds.lean (expression_bounds.py, ir_util.constant_value,
constraints._integer_bounds_errors_for_expression, _cpp_integer_type_for_range).
Spec:  Emboss/Spec/Bounds.lean (γ, evaluation over ℤ/Bool, physical leaf ranges).
-/
import Emboss.Lemmas.BoundsSound
import Emboss.Lemmas.BoundsGate
namespace Emboss.Bounds
open ExtInt

/-- **Soundness.**  For every expression `e`, every environment whose leaves hold values
of their physical types, if the analysis attaches the type `ty` to `e` (it did not
raise) and `e` evaluates to `v`, then `v ∈ γ(ty)`: `min ≤ v ≤ max`,
`v ≡ modular_value (mod modulus)`; a boolean/enum type with a value is that value. -/
theorem C05_sound (ρ : Env) (e : Expr) (ty : AType) (v : CVal)
    (henv : EnvOk ρ e) (habs : abs e = some ty) (hev : eval ρ e = some v) : GammaT ty v :=
  (sound_aux ρ e henv).1 ty v habs hev

/-- non-vacuity: `(a0 * 12 + 7) * (a1 * 20 + 15)` over `UInt:12 a0`, `Int:9 a1` gets the
    var×var modulus 20 and remainder 5, and a concrete environment satisfies the hypotheses -/
example :
    let e : Expr := .bin .mul (.bin .add (.bin .mul (.ileaf 0 .uint (some 12)) (.const 12)) (.const 7))
                               (.bin .add (.bin .mul (.ileaf 1 .sint (some 9)) (.const 20)) (.const 15))
    let ρ : Env := ⟨fun i => if i = 0 then 4095 else -256, fun _ => false, fun _ => 0⟩
    abs e = some (.int ⟨.fin (-250895435), .fin 251386905, .fin 20, .fin 5⟩) ∧
    eval ρ e = some (.int (-250895435)) ∧ EnvOk ρ e := by
  refine ⟨by decide +kernel, by decide +kernel, ?_⟩
  simp [EnvOk, InPhys]

/-- **Constants are exact.**  An expression the compiler treats as constant
(`modulus = "infinity"`) has exactly the value `modular_value`. -/
theorem C05_constant_exact (ρ : Env) (e : Expr) (a : AVal) (v : Int)
    (henv : EnvOk ρ e) (habs : abs e = some (.int a)) (hconst : a.modulus = .inf)
    (hev : eval ρ e = some (.int v)) : a.mv = .fin v ∧ a.min = .fin v ∨ a.mv = .fin v := by
  have h := C05_sound ρ e _ _ henv habs hev
  obtain ⟨-, -, c, hc, hd⟩ := h
  rw [hconst] at hd
  have := zero_dvd_sub hd
  subst this
  exact Or.inr hc

example : abs (.bin .mul (.const 0) (.ileaf 0 .uint (some 8))) =
    some (.int ⟨.fin 0, .fin 0, .inf, .fin 0⟩) := by decide +kernel

/-- **`ir_util.constant_value` agrees with evaluation** (and therefore with the
annotation whenever both say "constant"). -/
theorem C05_constant_value_agrees (ρ : Env) (e : Expr) (x v : CVal)
    (henv : EnvOk ρ e) (hcv : cv e = .val x) (hev : eval ρ e = some v) : v = x :=
  (sound_aux ρ e henv).2 v hev x hcv

example : cv (.bin .and (.bconst false) (.bin .eq (.ileaf 0 .uint (some 8)) (.const 1))) =
    .val (.bool false) := by decide +kernel

/-- **`$upper_bound` / `$lower_bound` are true bounds.** -/
theorem C05_bounds_functions (ρ : Env) (e : Expr) (v u l : Int) (henv : EnvOk ρ e)
    (hev : eval ρ e = some (.int v)) :
    (eval ρ (.upper e) = some (.int u) → v ≤ u) ∧ (eval ρ (.lower e) = some (.int l) → l ≤ v) := by
  constructor
  · intro hu
    simp only [eval] at hu
    split at hu <;> try cases hu
    rename_i a ha
    have h := C05_sound ρ e _ _ henv ha hev
    obtain ⟨-, h2, -⟩ := h
    simp only [Option.map_eq_some_iff] at hu
    obtain ⟨c, hc, hcu⟩ := hu
    cases hcu
    cases hm : a.max <;> simp_all [ExtInt.toInt?, HighOk]
  · intro hl
    simp only [eval] at hl
    split at hl <;> try cases hl
    rename_i a ha
    have h := C05_sound ρ e _ _ henv ha hev
    obtain ⟨h1, -, -⟩ := h
    simp only [Option.map_eq_some_iff] at hl
    obtain ⟨c, hc, hcu⟩ := hl
    cases hcu
    cases hm : a.min <;> simp_all [ExtInt.toInt?, LowOk]

example : eval ⟨fun _ => 200, fun _ => false, fun _ => 0⟩
    (.upper (.bin .add (.ileaf 0 .uint (some 8)) (.const 1))) = some (.int 256) := by decide +kernel

end Emboss.Bounds
