/-
C04, layer 1 (arithmetic) — delivered by the C05 builder for `Properties/C04.lean` to import.

Model: Emboss/Model/CppArith.lean (`_render_expression`, `_render_builtin_operation`,
`emboss_arithmetic.h::MaybeDo/Choice`, `_cpp_integer_type_for_range`).
-/
import Emboss.Lemmas.CppArithSound
namespace Emboss.Bounds

/-- **No overflow, no truncation, exact result.**  For every expression `e` whose
annotated IR `t` (the bounds of C05) passes the 64-bit gate
`_integer_bounds_errors_for_expression`, in which every referenced virtual field's own
definition passes it too (`vrefsGated`: a reference is a leaf of the referring tree; the
definition is a top-level expression of the same accepted module), and every environment
whose leaves hold values of their physical types: evaluating `e` the way the generated C++ does — every operand
cast to `IntermediateT`, the operation computed in that fixed-width type, the result cast
to `ResultT`, constant-typed nodes emitted as literals, all operands evaluated eagerly —
never leaves the range of a type it is cast to or computed in (`overflow`), never finds
`_cpp_integer_type_for_range` returning None (`notype`), never gets stuck, and yields
exactly the unbounded-ℤ value `v` — *or* the header does not compile because the
`Choice` static_assert `IntermediateT == ResultT` fails (`staticAssert`; see the
counterexample below: that outcome is real). -/
theorem C04_no_overflow (ρ : Env) (e : Expr) (t : ATree) (v : CVal)
    (hann : annot e = some t) (hgate : gate t = some [])
    (henv : EnvOk ρ e) (hev : eval ρ e = some v) (hvref : vrefsGated e = true) :
    cppEval ρ e = .ok v ∨ cppEval ρ e = .staticAssert :=
  no_overflow_aux ρ e t v hann hgate henv hev hvref

/-- non-vacuity: `a0 + a1 * 3` over `UInt:8 a0`, `Int:16 a1` passes the gate and is
    evaluated exactly; int32 arithmetic throughout -/
example :
    let e : Expr := .bin .add (.ileaf 0 .uint (some 8)) (.bin .mul (.ileaf 1 .sint (some 16)) (.const 3))
    let ρ : Env := ⟨fun i => if i = 0 then 255 else -32768, fun _ => false, fun _ => 0⟩
    (∃ t, annot e = some t ∧ gate t = some []) ∧ eval ρ e = some (.int (-98049)) ∧
      cppEval ρ e = .ok (.int (-98049)) := by
  refine ⟨⟨_, rfl, by decide +kernel⟩, by decide +kernel, by decide +kernel⟩

/-- non-vacuity with a reference to a virtual field: `let v0 = a0 * 300` (`UInt:8 a0`),
    `let v1 = v0 + 7`: the reference is a leaf of `v1`'s annotated tree, `vrefsGated` holds
    because `v0`'s own definition passes the gate, and the C++ evaluation is exact.
    The hypothesis is not vacuous either: `vrefsGated` fails for a reference to the
    rejected `a0 + 1` over `UInt:64 a0`. -/
example :
    let v0 : Expr := .bin .mul (.ileaf 0 .uint (some 8)) (.const 300)
    let e : Expr := .bin .add (.vref v0) (.const 7)
    let ρ : Env := ⟨fun _ => 255, fun _ => false, fun _ => 0⟩
    (∃ t, annot e = some t ∧ gate t = some []) ∧ vrefsGated e = true ∧
      cppEval ρ e = .ok (.int 76507) ∧
      vrefsGated (.vref (.bin .add (.ileaf 0 .uint (some 64)) (.const 1))) = false := by
  refine ⟨⟨_, rfl, by decide +kernel⟩, by decide +kernel, by decide +kernel, by decide +kernel⟩

/-- the gate is what makes it true: `a0 + 1` over `UInt:64 a0` is rejected, and with the
    gate ignored the C++ evaluation overflows (`notype`: no C++ type holds 0 … 2^64) -/
example :
    let e : Expr := .bin .add (.ileaf 0 .uint (some 64)) (.const 1)
    (∃ t, annot e = some t ∧ gate t = some [.rangeTooBig]) ∧
      cppEval ⟨fun _ => 18446744073709551615, fun _ => false, fun _ => 0⟩ e = .notype := by
  refine ⟨⟨_, rfl, by decide +kernel⟩, by decide +kernel⟩

/-- **The `staticAssert` outcome is reachable** (genuine defect, replayed on the real
code): `true ? a0 : a1` with `UInt:8 a0`, `UInt:64 a1` is accepted; expression_bounds
copies the selected side's range (ResultT = int32_t) while the back end takes
IntermediateT over the result and *all* operands (uint64_t):
`Choice<uint64_t, int32_t, bool, int32_t, uint64_t>` fails
`static_assert(is_same<IntermediateT, ResultT>)` in emboss_arithmetic.h. -/
theorem C04_choice_static_assert_counterexample :
    let e : Expr := .choice (.bconst true) (.ileaf 0 .uint (some 8)) (.ileaf 1 .uint (some 64))
    (∃ t, annot e = some t ∧ gate t = some []) ∧
      ∀ ρ : Env, cppEval ρ e = .staticAssert := by
  refine ⟨⟨_, rfl, by decide +kernel⟩, ?_⟩
  intro ρ
  simp only [cppEval, withType]
  have h1 : abs (.choice (.bconst true) (.ileaf 0 .uint (some 8)) (.ileaf 1 .uint (some 64))) =
      some (.int ⟨.fin 0, .fin 255, .fin 1, .fin 0⟩) := by decide +kernel
  have h2 : abs (.ileaf 0 .uint (some 8)) = some (.int ⟨.fin 0, .fin 255, .fin 1, .fin 0⟩) := by
    decide +kernel
  have h3 : abs (.ileaf 1 .uint (some 64)) =
      some (.int ⟨.fin 0, .fin 18446744073709551615, .fin 1, .fin 0⟩) := by decide +kernel
  have h4 : abs (.bconst true) = some (.bool (some true)) := rfl
  rw [h1, h2, h3, h4]
  simp [isConstType, cppChoice, intRanges, rangeOf, hullOf, cppTypeForRange, resultType, two63, two64]

/-- **The template arguments printed in the header are the types the evaluation model computes
in.**  `nodeSig tys` is what `model_c05 SIG` answers and what the harness compares with the
`<IntermediateT, ResultT, ArgTs…>` of every `Sum/Difference/Product/Maximum/Equal/…` call found in
the generated header text.  If it names the integer type `it` as `IntermediateT`, then `it` is
`_cpp_integer_type_for_range` of the hull of all integer clauses, the remaining names are the
`_cpp_basic_type_for_expression` of result and operands, and `cppOp` — the evaluation step of
`C04_no_overflow` — casts every operand to exactly that `it`, computes in it and casts to the
result type. -/
theorem C04_header_types (ty : AType) (args : List AType) (it : CType) (ns : List TName)
    (h : nodeSig (ty :: args) = some (.int it, ns)) :
    (∃ rs lo hi, intRanges (ty :: args) = some rs ∧ hullOf rs = some (lo, hi) ∧
      cppTypeForRange lo hi = some it) ∧
    argTNames (ty :: args) = some ns ∧
    (∀ vs res, cppOp (ty :: args) vs res =
      if !(vs.all (castOk it)) then .overflow
      else match res with
        | none => .stuck
        | some v => if !(castOk it v) then .overflow else castResult ty v) := by
  unfold nodeSig at h
  split at h
  · rename_i rs names hr hn
    split at h
    · rename_i lo hi hh
      split at h
      · cases h
      · simp only [Option.some.injEq, Prod.mk.injEq] at h
        obtain ⟨h1, h2⟩ := h
        subst h2
        have ht : cppTypeForRange lo hi = some it := by
          unfold tnameOfRange at h1
          split at h1
          · rename_i t ht; cases h1; exact ht
          · cases h1
        refine ⟨⟨rs, lo, hi, hr, hh, ht⟩, hn, ?_⟩
        intro vs res
        cases res <;> simp [cppOp, hr, hh, ht]
    · simp only [Option.some.injEq, Prod.mk.injEq] at h
      obtain ⟨h1, _⟩ := h
      split at h1 <;> cases h1
  · cases h

/-- non-vacuity: `Sum<int64_t, int64_t, int32_t, int32_t>` for `a0 + a1` over `UInt:8 a0`,
    `Int:32 a1` (the call found in the generated header) -/
example :
    nodeSig [.int ⟨.fin (-2147483648), .fin 2147483902, .fin 1, .fin 0⟩,
             .int ⟨.fin 0, .fin 255, .fin 1, .fin 0⟩,
             .int ⟨.fin (-2147483648), .fin 2147483647, .fin 1, .fin 0⟩] =
      some (.int .i64, [.int .i64, .int .i32, .int .i32]) := by decide +kernel

end Emboss.Bounds
