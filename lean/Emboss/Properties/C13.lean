import Emboss.Model.Types
namespace Emboss.Types
theorem C13_stub : (tc (.num ⟨0, false⟩)).ty = .int := rfl
end Emboss.Types
