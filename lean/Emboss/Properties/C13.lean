/-
C13 — Expression typing: well-typed modules are accepted, ill-typed ones rejected with an
error pointing into the offending definition, never a crash.

Property theorems only.  Model: Emboss/Model/Types.lean (type_check.py, attribute_util.py as
coded, after the round-1 `fix:` commits).  Spec: Emboss/Spec/Types.lean (`HasType false` =
language reference; `HasType true` = reference + the coded enum-ordering rule),
Emboss/Lemmas/TypesMod.lean (`PositionsOk`, `AttrOk`).
-/
import Emboss.Lemmas.TypesIff
import Emboss.Lemmas.TypesLoc
import Emboss.Lemmas.TypesSub
import Emboss.Lemmas.TypesMod
import Emboss.Lemmas.TypesNat
import Emboss.Lemmas.BoundsSound
namespace Emboss.Types

private def L (n : Nat) : Loc := ⟨n, false⟩

/-! ### Expression level -/

/- FULL STATEMENT (false on the current tree, see `C13_enum_ordering_counterexample`):
     theorem C13_typecheck_iff (file e τ) : Ok (tc file e) τ ↔ HasType false e τ
   Proved: the same equivalence with the ordering rule as coded (`HasType true` = documented
   rules + "ordering on two values of one enum"). -/
/-- The checker accepts `e` (written in any module `file`) with type `τ` — reports nothing —
exactly when `e` has type `τ` under the documented rules plus the coded enum-ordering rule.
Two enums are the same type only if they are the same definition (module file and path). -/
theorem C13_typecheck_iff_partial (file : FileId) (e : Expr) (τ : Ty) :
    Ok (tc file e) τ ↔ HasType true e τ :=
  tc_iff e file τ

/-- non-vacuity: `$max(x, 3) + (b ? 1 : 2)` with `x : UInt`, `b : Flag` is accepted as integer;
`x + b` is not accepted at any type; nor is `ea == eb` for values of two different enums. -/
example :
    Ok (tc 0 (.bin (L 1) .add (.fn (L 2) .max [.lphys (L 3) .int, .num (L 4)])
          (.choice (L 5) (.lphys (L 6) .bool) (.num (L 7)) (.num (L 8))))) .int ∧
    (¬ ∃ τ, Ok (tc 0 (.bin (L 1) .add (.lphys (L 2) .int) (.lphys (L 3) .bool))) τ) ∧
    (¬ ∃ τ, Ok (tc 0 (.bin (L 1) .eq (.lphys (L 2) (.enum 0)) (.enumv (L 3) 1))) τ) := by
  refine ⟨by decide, ?_, ?_⟩
  · rintro ⟨τ, h⟩; revert h; simp [Ok, tc, Res.pure, argErr, BinOp.isCmp, BinOp.mono, DTy.toTy]
  · rintro ⟨τ, h⟩; revert h
    simp [Ok, tc, Res.pure, BinOp.isCmp, cmpAcceptable, BinOp.isEquality, Ty.isValue, DTy.toTy]

theorem hasType_mono {e : Expr} {τ : Ty} (h : HasType false e τ) : HasType true e τ := by
  induction h with
  | num => exact .num
  | boolc => exact .boolc
  | enumv => exact .enumv
  | lparam => exact .lparam
  | lphys => exact .lphys
  | lparamArr => exact .lparamArr
  | lvirt _ ih => exact .lvirt ih
  | cvirt _ ih => exact .cvirt ih
  | builtinB => exact .builtinB
  | builtinI => exact .builtinI
  | arith ho _ _ iha ihb => exact .arith ho iha ihb
  | logic ho _ _ iha ihb => exact .logic ho iha ihb
  | equal ho hv _ _ iha ihb => exact .equal ho hv iha ihb
  | order ho _ _ iha ihb => exact .order ho iha ihb
  | orderEnum hc => cases hc
  | choice _ hv _ _ ihc iht ihf => exact .choice ihc hv iht ihf
  | max hne _ ih => exact .max hne ih
  | present hf _ ih => exact .present hf ih
  | upper _ ih => exact .upper ih
  | lower _ ih => exact .lower ih

/-- Every expression that is well-typed by the *documented* rules is accepted, with that type. -/
theorem C13_documented_accepted (file : FileId) (e : Expr) (τ : Ty) (h : HasType false e τ) :
    Ok (tc file e) τ :=
  (tc_iff e file τ).2 (hasType_mono h)

example : HasType false (.bin (L 1) .lt (.num (L 2)) (.lphys (L 3) .int)) .bool :=
  .order (.inl rfl) .num .lphys

theorem hasType_false_ord_enum {l op a b n τ} (ho : op.isOrd) (ha : HasType false a (.enum n)) :
    ¬ HasType false (.bin l op a b) τ := by
  intro h
  have hfun : ∀ {e τ1 τ2}, HasType true e τ1 → HasType true e τ2 → τ1 = τ2 := by
    intro e τ1 τ2 h1 h2
    exact ((tc_iff e 0 τ1).2 h1).2.symm.trans ((tc_iff e 0 τ2).2 h2).2
  cases h with
  | arith ho' => rcases ho with rfl | rfl | rfl | rfl <;> rcases ho' with h | h | h <;> cases h
  | logic ho' => rcases ho with rfl | rfl | rfl | rfl <;> rcases ho' with h | h <;> cases h
  | equal ho' => rcases ho with rfl | rfl | rfl | rfl <;> rcases ho' with h | h <;> cases h
  | order _ ha' _ => exact absurd (hfun (hasType_mono ha) (hasType_mono ha')) (by simp)
  | orderEnum hc => cases hc

/-- FINDING (F11, open): `Ee.AA < x` with `x : Ee` is accepted as a boolean although the
reference restricts `<` to integers.  Replayed on the real compiler by the check
(findings.d/C13.json, key enum-operands-to-ordering-comparison-accepted). -/
theorem C13_enum_ordering_counterexample :
    Ok (tc 0 (.bin (L 1) .lt (.enumv (L 2) 0) (.lphys (L 3) (.enum 0)))) .bool ∧
    ¬ HasType false (.bin (L 1) .lt (.enumv (L 2) 0) (.lphys (L 3) (.enum 0))) .bool :=
  ⟨by decide, hasType_false_ord_enum (.inl rfl) .enumv⟩

/-- An expression the checker leaves without a type has been reported: "no type" never
travels silently to a later pass. -/
theorem C13_untyped_is_reported (file : FileId) (e : Expr) (h : (tc file e).ty = .none) :
    (tc file e).errs ≠ [] :=
  tc_none_err e file h

example : (tc 0 (.bin (L 1) .lt (.boolc (L 2)) (.num (L 3)))).ty = .none := by decide

/-- Whatever is reported for a part of an expression — a syntactic sub-expression, or the
definition of a virtual field it refers to, each checked under the file it is written in —
is reported for the expression itself. -/
theorem C13_subexpression_errors_reported (file : FileId) (e : Expr) (p : FExpr)
    (hp : p ∈ parts file e) (er : Err) (h : er ∈ (tc p.1 p.2).errs) : er ∈ (tc file e).errs :=
  parts_errs e file p hp er h

/-- The parts of an accepted expression are accepted, each with a proper type. -/
theorem C13_subexpression_accepted (file : FileId) (e : Expr) (τ : Ty) (h : Ok (tc file e) τ)
    (p : FExpr) (hp : p ∈ parts file e) : ∃ σ, σ ≠ .none ∧ Ok (tc p.1 p.2) σ := by
  have he : (tc p.1 p.2).errs = [] := by
    cases hl : (tc p.1 p.2).errs with
    | nil => rfl
    | cons er rest =>
      have := parts_errs e file p hp er (by simp [hl])
      rw [h.1] at this; cases this
  exact ⟨_, fun hn => tc_none_err p.2 p.1 hn he, he, rfl⟩

/-- non-vacuity: the boolean condition of an accepted integer `?:` is among its parts -/
example : ((0 : FileId), Expr.lphys (L 2) .bool) ∈
    parts 0 (.choice (L 1) (.lphys (L 2) .bool) (.num (L 3)) (.num (L 4))) := by simp [parts]

/-- Every error names the offending construct and the file it is written in: its location is
that of the expression or of one of its sub-expressions, reported under the expression's
own file name — or, through a reference to a `let` field, a location inside that field's
definition, reported under the file name of the module that defines it. -/
theorem C13_error_located (file : FileId) (e : Expr) (er : Err) (h : er ∈ (tc file e).errs) :
    LocIn er.l er.file file e :=
  tc_loc e file er h

/-- non-vacuity: `1 + true` in file 0; `other.bad + 1` in file 0 where `bad = true < 1` is
defined in file 7: the first error lies in file 7, the second in file 0. -/
example : (tc 0 (.bin (L 1) .add (.num (L 2)) (.boolc (L 3)))).errs = [⟨L 3, 0, .mustInt 1, []⟩] ∧
    (tc 0 (.bin (L 1) .add (.lvirt (L 2) 7 (.bin (L 3) .lt (.boolc (L 4)) (.num (L 5)))) (.num (L 6)))).errs
      = [⟨L 4, 7, .cmpArg 0, []⟩, ⟨L 2, 0, .mustInt 0, []⟩] := by
  decide

/-! ### Module level: `check_types` -/

private def exMod : Module :=
  { exprs := [(0, .num (L 2)), (0, .lparam (L 3) .int), (0, .num (L 4)), (0, .boolc (L 5)),
              (0, .num (L 9)), (0, .num (L 10))],
    params := [⟨0, L 1, .atomic .int⟩], locations := [(0, .num (L 2), .lparam (L 3) .int)],
    arrays := [(0, .num (L 4))], conds := [(0, .boolc (L 5))], enumValues := [(0, .num (L 10))],
    passed := [⟨0, L 6, 0, L 7, [(.int, L 8)], [.num (L 9)]⟩], attrs := [] }

/- FULL STATEMENT (false on the current tree): with `PositionsOk false` (documented typing
   inside the expressions, enum values integers only).  Proved for `PositionsOk true`; the
   differences are F11 (above) and `C13_enum_value_counterexample`. -/
/-- Given that `annotate_types` accepted the inspected expressions (the pipeline runs
`check_types` only then), `check_types` reports nothing and does not raise exactly when every
position holds an expression of the demanded type: integer starts, sizes and array lengths,
boolean conditions, numeric enum values, integer-or-enum parameters, and arguments of exactly
the declared parameter type (for enums: the very same enum). -/
theorem C13_check_iff_positions_ok_partial (m : Module) (ht : ∀ e ∈ inspected m, Typed e) :
    ((checkTypes m).errs = [] ∧ (checkTypes m).crash = none) ↔ PositionsOk true m :=
  checkTypes_ok m ht

example : (∀ e ∈ inspected exMod, Typed e) ∧ (checkTypes exMod).errs = [] := by decide
example : (checkTypes { exMod with conds := [(0, .num (L 5))] }).errs = [⟨L 5, 0, .posExist, []⟩] := by decide

/-- the repaired behaviours (formerly counterexamples): an integer array length with a boolean
sub-expression is accepted; a boolean enum value, an argument of another enum and a boolean
argument for an integer parameter are reported. -/
example :
    (checkTypes { exMod with arrays := [(0, .choice (L 1) (.bin (L 2) .eq (.lphys (L 3) .int) (.num (L 4)))
        (.num (L 5)) (.num (L 6)))] }).errs = [] ∧
    (checkTypes { exMod with enumValues := [(0, .boolc (L 9))] }).errs = [⟨L 9, 0, .posEnumValue, []⟩] ∧
    (checkTypes { exMod with passed := [⟨0, L 6, 3, L 7, [(.enum 0, L 8)], [.enumv (L 9) 1]⟩] }).errs
      = [⟨L 9, 0, .passKind 0, [(3, L 8)]⟩] ∧
    (checkTypes { exMod with passed := [⟨0, L 6, 3, L 7, [(.int, L 8)], [.boolc (L 9)]⟩] }).errs
      = [⟨L 9, 0, .passKind 0, [(3, L 8)]⟩] := by decide

/-- FINDING (open, pinned by expression_bounds_test): an enum value given by an expression of
enum type (`BB = Foo.AA`) is accepted although enum values are documented as integers. -/
theorem C13_enum_value_counterexample :
    (checkTypes { exMod with enumValues := [(0, .enumv (L 9) 1)] }).errs = [] ∧
    ¬ PositionsOk false { exMod with enumValues := [(0, .enumv (L 9) 1)] } := by
  refine ⟨by decide, fun h => ?_⟩
  rcases h.enumValues (0, .enumv (L 9) 1) (by simp) with h' | ⟨h', _⟩
  · cases h'
  · cases h'

/-! ### Attribute values -/

/-- Given that `annotate_types` accepted the value, an attribute validator is silent exactly
when the value is what the attribute's kind demands: `[requires]`/`[static_requirements]` a
boolean expression; `[is_signed]`/`[is_integer]` a constant boolean expression;
`[addressable_unit_size]`/`[maximum_bits]`/`[fixed_size_in_bits]` a constant integer
expression (constant = `Attr.constOk`: C05's `constant_value` / bounds verdict when the value is
given in C05's language, closedness otherwise); `[byte_order]`/`[text_output]` a listed string; `[expected_back_ends]` a
well-formed list.  A value of any other kind (string for expression, expression for string)
is reported, never raised on. -/
theorem C13_attr_value_ok (a : Attr) (ht : ∀ e, a.val = .expr e → Typed (a.file, e)) :
    ((attrOne a).errs = [] ∧ (attrOne a).crash = none) ↔ AttrOk a :=
  attrOne_ok a ht

example : (attrOne ⟨0, L 1, .bool, false, .expr (.num (L 2)), none⟩).errs = [⟨L 1, 0, .attrBool, []⟩] ∧
    (attrOne ⟨0, L 1, .boolConst, true, .expr (.num (L 2)), none⟩).errs = [⟨L 1, 0, .attrConstBool, []⟩] ∧
    (attrOne ⟨0, L 1, .backEnds, false, .expr (.num (L 2)), none⟩).errs = [⟨L 1, 0, .attrString, []⟩] ∧
    (attrOne ⟨0, L 1, .intConst, false, .expr (.bin (L 2) .add (.num (L 3)) (.num (L 4))), none⟩).errs = [] := by
  decide

/-- Attribute constancy, syntactic half (the value is judged by closedness, `a.cst = none`): an
accepted value of a constant-demanding attribute (`[is_signed]`, `[is_integer]`,
`[addressable_unit_size]`, `[maximum_bits]`, `[fixed_size_in_bits]`) mentions no field,
parameter or builtin — not in any sub-expression, nor inside the definition of any `let` field
it refers to, in whatever module. -/
theorem C13_constant_attr_mentions_no_field (a : Attr) (e : Expr)
    (ht : Typed (a.file, e)) (hv : a.val = .expr e) (hk : a.kind = .boolConst ∨ a.kind = .intConst)
    (hcst : a.cst = none)
    (hok : (attrOne a).errs = [] ∧ (attrOne a).crash = none) :
    ∀ p ∈ parts a.file e, (∀ l t, p.2 ≠ .lphys l t) ∧ (∀ l t, p.2 ≠ .lparam l t) ∧
      (∀ l, p.2 ≠ .lparamArr l) ∧ (∀ l b, p.2 ≠ .builtin l b) := by
  have h := (attrOne_ok a (fun e' he' => by rw [hv] at he'; cases he'; exact ht)).1 hok
  have hc : closed e = true := by
    unfold AttrOk at h
    have hq : a.constOk e = true := by
      rcases hk with hk | hk <;> rw [hk, hv] at h <;> exact h.2
    simpa [Attr.constOk, hcst] using hq
  intro p hp
  exact closed_not_ref (parts_closed e a.file hc p hp)

/-- Attribute constancy, semantic half (the value is judged by C05's model, `a.cst = some b`):
an accepted value of a constant-demanding attribute has ONE value — whatever the fields,
parameters and `$static_size_in_bits` it mentions hold (every environment `ρ` whose leaves are
values of their physical types), `b` evaluates to the same `v` (`normB b` is `b` with static
references to non-constant fields read as plain references: same evaluation).  This covers the values that
fold to a constant although they mention a field (`false && x == 1`, `$upper_bound(x)`, a
static reference to `let v = x * 0`), which closedness rejects and the compiler accepts.
(Through C05's soundness theorems: `constant_value` agrees with evaluation; an annotated
boolean value is the value.) -/
theorem C13_constant_attr_has_one_value (a : Attr) (e : Expr) (b : Emboss.Bounds.Expr)
    (ht : Typed (a.file, e)) (hv : a.val = .expr e) (hk : a.kind = .boolConst ∨ a.kind = .intConst)
    (hcst : a.cst = some b)
    (hok : (attrOne a).errs = [] ∧ (attrOne a).crash = none) :
    ∃ v, ∀ ρ w, Emboss.Bounds.EnvOk ρ (normB b) → Emboss.Bounds.eval ρ (normB b) = some w → w = v := by
  have h := (attrOne_ok a (fun e' he' => by rw [hv] at he'; cases he'; exact ht)).1 hok
  unfold AttrOk at h
  rcases hk with hk | hk
  · rw [hk, hv] at h
    have hq : constBoolB (normB b) = true := by simpa [Attr.constOk, hcst, hk] using h.2
    unfold constBoolB at hq
    split at hq
    · rename_i x hx
      refine ⟨.bool x, fun ρ w henv hev => ?_⟩
      have hg := (Emboss.Bounds.sound_aux ρ (normB b) henv).1 _ w hx hev
      cases w with
      | bool y => simp only [Emboss.Bounds.GammaT] at hg; rw [hg x rfl]
      | int _ => exact absurd hg (by simp [Emboss.Bounds.GammaT])
      | enum _ => exact absurd hg (by simp [Emboss.Bounds.GammaT])
    · cases hq
  · rw [hk, hv] at h
    have hq : constIntB (normB b) = true := by simpa [Attr.constOk, hcst, hk] using h.2
    unfold constIntB at hq
    split at hq
    · rename_i x hx
      exact ⟨x, fun ρ w henv hev => (Emboss.Bounds.sound_aux ρ (normB b) henv).2 w hev x hx⟩
    · cases hq

/-- non-vacuity / the folding shapes: `[maximum_bits: (false && x == 1) ? 4 : 8]` (three-valued
`&&`, then `?:`), `[maximum_bits: $upper_bound(x)]` with `x` an 8-bit `UInt` (the bound is the
constant 255), `[fixed_size_in_bits: Foo.v + 8]` with `let v = x * 0` (the bounds of `v` are
0…0) and `[is_signed: $upper_bound(x) == 255]` are accepted when the value is given in C05's
language; judged by closedness alone each is "not constant".  `[maximum_bits: x]` is not
constant either way, and neither is `[is_signed: false && x == 1]`: the bounds pass gives a
boolean a value only when *all* operands are constant, although `constant_value` folds it. -/
example :
    let x : Emboss.Bounds.Expr := .ileaf 0 .uint (some 8)
    let a1 : Attr := ⟨0, L 1, .intConst, false,
      .expr (.choice (L 2) (.bin (L 3) .and (.boolc (L 4)) (.bin (L 5) .eq (.lphys (L 6) .int) (.num (L 7))))
        (.num (L 8)) (.num (L 9))),
      some (.choice (.bin .and (.bconst false) (.bin .eq x (.const 1))) (.const 4) (.const 8))⟩
    let a2 : Attr := ⟨0, L 1, .intConst, false, .expr (.fn (L 2) .upper [.lphys (L 3) .int]),
      some (.upper x)⟩
    let a3 : Attr := ⟨0, L 1, .intConst, false,
      .expr (.bin (L 2) .add (.cvirt (L 3) 0 (.bin (L 7) .mul (.lphys (L 8) .int) (.num (L 9)))) (.num (L 4))),
      some (.bin .add (.cref (.bin .mul x (.const 0))) (.const 8))⟩
    let a4 : Attr := ⟨0, L 1, .intConst, false, .expr (.lphys (L 3) .int), some x⟩
    let a5 : Attr := ⟨0, L 1, .boolConst, true,
      .expr (.bin (L 2) .and (.boolc (L 3)) (.bin (L 4) .eq (.lphys (L 5) .int) (.num (L 6)))),
      some (.bin .and (.bconst false) (.bin .eq x (.const 1)))⟩
    let a6 : Attr := ⟨0, L 1, .boolConst, true,
      .expr (.bin (L 2) .eq (.fn (L 3) .upper [.lphys (L 5) .int]) (.num (L 6))),
      some (.bin .eq (.upper x) (.const 255))⟩
    (attrOne a1).errs = [] ∧ (attrOne a2).errs = [] ∧ (attrOne a3).errs = [] ∧ (attrOne a6).errs = [] ∧
    (attrOne { a1 with cst := none }).errs = [⟨L 1, 0, .attrConst, []⟩] ∧
    (attrOne { a2 with cst := none }).errs = [⟨L 1, 0, .attrConst, []⟩] ∧
    (attrOne { a3 with cst := none }).errs = [⟨L 1, 0, .attrConst, []⟩] ∧
    (attrOne { a6 with cst := none }).errs = [⟨L 1, 0, .attrConstBool, []⟩] ∧
    (attrOne a4).errs = [⟨L 1, 0, .attrConst, []⟩] ∧
    (attrOne a5).errs = [⟨L 1, 0, .attrConstBool, []⟩] := by decide +kernel

/-- non-vacuity: `[fixed_size_in_bits: 8 + 8]` is accepted; `[fixed_size_in_bits: x]` and
`[is_integer: $is_statically_sized]` are reported as not constant. -/
example :
    (attrOne ⟨0, L 1, .intConst, false, .expr (.bin (L 2) .add (.num (L 3)) (.num (L 4))), none⟩).errs = [] ∧
    (attrOne ⟨0, L 1, .intConst, false, .expr (.lphys (L 2) .int), none⟩).errs = [⟨L 1, 0, .attrConst, []⟩] ∧
    (attrOne ⟨0, L 1, .boolConst, false, .expr (.builtin (L 2) .isStaticallySized), none⟩).errs
      = [⟨L 1, 0, .attrConstBool, []⟩] := by decide

/-! ### The pipeline (`annotate_types`, `check_types`, attribute validators) -/

/-- what the three passes demand of a module, as coded -/
structure ModuleOk (m : Module) : Prop where
  exprs : ∀ e ∈ m.exprs, ∃ τ, HasType true e.2 τ
  noArrayParam : ∀ p ∈ m.params, p.pty ≠ .array
  positions : PositionsOk true m
  attrs : ∀ a ∈ m.attrs, AttrOk a
  signedLiteral : attrLate m.attrs = none

/- FULL STATEMENT: the same with `HasType false` / `PositionsOk false` and without
   `signedLiteral`; false because of the three open findings (F11, enum-typed enum values,
   non-literal `[is_signed]`). -/
/-- A module is accepted by the three modelled passes iff all its expressions are well-typed,
no parameter is an array, every position holds the demanded type and every attribute value
the demanded kind (+ as coded: `[is_signed]` is a literal). -/
theorem C13_module_accepted_iff_partial (m : Module) (wf : m.wf) :
    run m = .accepted ↔ ModuleOk m := by
  rw [run_accepted]
  constructor
  · rintro ⟨ha, hc, ht, hl⟩
    have ⟨hte, hpa⟩ := (annotate_nil m).1 ha
    have hti : ∀ e ∈ inspected m, Typed e := fun e he => hte e (wf e (by simp [he]))
    have hta : ∀ e ∈ attrExprs m.attrs, Typed e := fun e he => hte e (wf e (by simp [he]))
    exact ⟨fun e he => ⟨_, typed_hasType (hte e he)⟩, hpa, (checkTypes_ok m hti).1 hc,
      (attrAll_ok m.attrs hta).1 ht, hl⟩
  · intro h
    have hte : ∀ e ∈ m.exprs, Typed e := fun e he => by
      obtain ⟨τ, hτ⟩ := h.exprs e he
      exact ((tc_iff e.2 e.1 τ).2 hτ).1
    have hti : ∀ e ∈ inspected m, Typed e := fun e he => hte e (wf e (by simp [he]))
    have hta : ∀ e ∈ attrExprs m.attrs, Typed e := fun e he => hte e (wf e (by simp [he]))
    exact ⟨(annotate_nil m).2 ⟨hte, h.noArrayParam⟩, (checkTypes_ok m hti).2 h.positions,
      (attrAll_ok m.attrs hta).2 h.attrs, h.signedLiteral⟩

example : exMod.wf ∧ run exMod = .accepted := by
  refine ⟨?_, by decide⟩
  simp [Module.wf, inspected, attrExprs, exMod]

/- FULL STATEMENT (false on the current tree): `∀ m, m.wf → ∀ k, run m ≠ .crashed k`. -/
/-- The three passes raise only (a) the open `[is_signed: <non-literal>]` finding, or (b) in one
of the three places that still read `.type.which_type` unguarded — and then `annotate_types`
has reported errors before, every one of them at a synthetic location (which glue.py itself
calls a compiler bug; for user-written constructs the errors are visible and the pipeline
stops before the raising pass). -/
theorem C13_total_partial (m : Module) (wf : m.wf) (k : Crash) (h : run m = .crashed k) :
    k = .attrSignedNotLiteral ∨ (annotate m ≠ [] ∧ ∀ er ∈ annotate m, er.hidden = true) :=
  run_crashed m wf k h

/-- For a user-written module (no synthetic location in its expressions and parameter
declarations) every error of `annotate_types` is visible, the pipeline stops there, and the
unguarded reads are never reached: the only exception that can escape is the open
`[is_signed: <non-literal>]` finding. -/
theorem C13_total_natural_partial (m : Module) (wf : m.wf) (hn : m.natural) (k : Crash)
    (h : run m = .crashed k) : k = .attrSignedNotLiteral :=
  run_crashed_natural m wf hn k h

/-- … and with literal `[is_signed]` attributes (what `attrLate` asks) none does: the full
totality statement for the modelled passes, on user-written input. -/
theorem C13_total_natural (m : Module) (wf : m.wf) (hn : m.natural) (hl : attrLate m.attrs = none)
    (k : Crash) : run m ≠ .crashed k :=
  run_total_natural m wf hn hl k

/-- non-vacuity: the example module is well-formed, user-written, has no `[is_signed]`; so is its
ill-typed variant (`if 5:`), which is rejected in pass 2 -/
example : exMod.wf ∧ exMod.natural ∧ attrLate exMod.attrs = none ∧
    run { exMod with conds := [(0, .num (L 5))], exprs := exMod.exprs ++ [(0, .num (L 5))] }
      = .rejected 2 [⟨L 5, 0, .posExist, []⟩] := by
  refine ⟨?_, ?_, by decide, by decide⟩
  · simp [Module.wf, inspected, attrExprs, exMod]
  · simp [Module.natural, exMod, natural, L]

/-- `[is_signed: 1 == 1]` is accepted (formerly: "Duplicate attribute" assertion, fixed); the
array-parameter read is still reachable when the location is synthetic (model only:
user-written parameters never are). -/
theorem C13_total_counterexample :
    run { exMod with
      exprs := exMod.exprs ++ [(0, .bin (L 12) .eq (.num (L 13)) (.num (L 14)))],
      attrs := [⟨0, L 11, .boolConst, true, .expr (.bin (L 12) .eq (.num (L 13)) (.num (L 14))), none⟩] }
      = .accepted ∧
    run { exMod with params := [⟨0, ⟨1, true⟩, .array⟩] } = .crashed .paramTypeNone := by decide

/-- `$present(p)` of a runtime parameter is reported ("must be a field"; formerly accepted by
the type checker and raising in expression_bounds, fixed); of a field it is a boolean. -/
example :
    (tc 0 (.fn (L 1) .present [.lparam (L 2) .int])).errs = [⟨L 2, 0, .mustField 0, []⟩] ∧
    (tc 0 (.fn (L 1) .present [.lphys (L 2) .opaque])).errs = [] ∧
    (tc 0 (.fn (L 1) .present [.lphys (L 2) .opaque])).ty = .bool := by decide

/-- The formerly raising inputs are now reported (pass 1, visible): `Foo.p` for a parameter,
an array parameter used in arithmetic, `(true < 1) == true`, `$next` in a `[requires]`. -/
example :
    (tc 0 (.cother (L 1))).errs = [⟨L 1, 0, .staticOther, []⟩] ∧
    (tc 0 (.bin (L 1) .add (.lparamArr (L 2)) (.num (L 3)))).errs = [⟨L 2, 0, .mustInt 0, []⟩] ∧
    (tc 0 (.bin (L 1) .eq (.bin (L 2) .lt (.boolc (L 3)) (.num (L 4))) (.boolc (L 5)))).errs
      = [⟨L 3, 0, .cmpArg 0, []⟩, ⟨L 2, 0, .cmpArg 0, []⟩] ∧
    (tc 0 (.bin (L 1) .eq (.builtin (L 2) .other) (.num (L 3)))).errs
      = [⟨L 2, 0, .builtinCtx, []⟩, ⟨L 2, 0, .cmpArg 0, []⟩] := by decide

/-- Whatever any of the three passes reports lies — location *and* file name — at one of the
module's own items: inside a top-level expression (through a reference: inside the referred
definition, under the file name of the module that holds it), at a parameter declaration, at
an inspected expression (start, size, array length, condition, enum value, passed argument), at
a parameterised type use, or at an attribute value. -/
theorem C13_module_errors_located (m : Module) (er : Err)
    (h : er ∈ annotate m ∨ er ∈ (checkTypes m).errs ∨ er ∈ (attrAll m.attrs).errs) : ErrAt m er := by
  rcases h with h | h | h
  · exact annotate_at m er h
  · exact checkTypes_at m er h
  · exact attrAll_at m m.attrs (fun _ ha => ha) er h

example : (checkTypes { exMod with conds := [(3, .num (L 5))] }).errs = [⟨L 5, 3, .posExist, []⟩] := by decide

/-- The pipeline model never reports a hidden (synthetic) error when a pass has visible ones:
what `run` reports for passes 1–3 is non-synthetic. -/
theorem C13_reported_errors_visible (m : Module) (p : Nat) (es : List Err) (hp : p ≠ 9)
    (h : run m = .rejected p es) : ∀ er ∈ es, er.hidden = false := by
  unfold run at h
  simp only at h
  have vis : ∀ (l : List Err), ∀ er ∈ l.filter (fun x => !x.hidden), er.hidden = false := by
    intro l er her; simp only [List.mem_filter] at her; simpa using her.2
  split at h
  · injection h with h1 h2; subst h2; exact vis _
  split at h
  · cases h
  split at h
  · injection h with h1 h2; subst h2; exact vis _
  split at h
  · cases h
  split at h
  · injection h with h1 h2; subst h2; exact vis _
  split at h
  · cases h
  split at h
  · injection h with h1 h2; exact absurd h1.symm hp
  · cases h

end Emboss.Types
