/-
C13 — Expression typing: well-typed modules are accepted, ill-typed ones rejected with an
error pointing into the offending definition, never a crash.

Property theorems only.  Model: Emboss/Model/Types.lean (type_check.py, attribute_util.py as
coded).  Spec: Emboss/Spec/Types.lean (`HasType false` = language reference; `HasType true` =
reference + the coded enum-ordering rule), Emboss/Lemmas/TypesMod.lean (`PositionsOk`).
-/
import Emboss.Lemmas.TypesIff
import Emboss.Lemmas.TypesLoc
import Emboss.Lemmas.TypesCrash
import Emboss.Lemmas.TypesMod
namespace Emboss.Types

private def L (n : Nat) : Loc := ⟨n, false⟩

/-! ### Expression level -/

/- FULL STATEMENT (false on the current tree, see `C13_enum_ordering_counterexample`):
     theorem C13_typecheck_iff (e τ) : Ok (tc e) τ ↔ HasType false e τ
   Proved: the same equivalence with the ordering rule as coded (`HasType true` = documented
   rules + "ordering on two values of one enum"). -/
/-- The checker accepts `e` with type `τ` (no error, no crash) exactly when `e` has type `τ`
under the documented rules plus the coded enum-ordering rule. -/
theorem C13_typecheck_iff_partial (e : Expr) (τ : Ty) : Ok (tc e) τ ↔ HasType true e τ :=
  tc_iff e τ

/-- non-vacuity: `$max(x, 3) + (b ? 1 : 2)` with `x : UInt`, `b : Flag` is accepted as integer;
`x + b` is not accepted at any type. -/
example :
    Ok (tc (.bin (L 1) .add (.fn (L 2) .max [.lphys (L 3) .int, .num (L 4)])
          (.choice (L 5) (.lphys (L 6) .bool) (.num (L 7)) (.num (L 8))))) .int ∧
    ¬ ∃ τ, Ok (tc (.bin (L 1) .add (.lphys (L 2) .int) (.lphys (L 3) .bool))) τ := by
  constructor
  · decide
  · rintro ⟨τ, h⟩; revert h; simp [Ok, tc, Res.pure, argErr, BinOp.isCmp, BinOp.mono, DTy.toTy]

theorem hasType_mono {e : Expr} {τ : Ty} (h : HasType false e τ) : HasType true e τ := by
  induction h with
  | num => exact .num
  | boolc => exact .boolc
  | enumv => exact .enumv
  | lparam => exact .lparam
  | lphys => exact .lphys
  | lvirt _ ih => exact .lvirt ih
  | cvirt _ ih => exact .cvirt ih
  | builtinB => exact .builtinB
  | builtinI => exact .builtinI
  | arith ho _ _ iha ihb => exact .arith ho iha ihb
  | logic ho _ _ iha ihb => exact .logic ho iha ihb
  | equal ho hv _ _ iha ihb => exact .equal ho hv iha ihb
  | order ho _ _ iha ihb => exact .order ho iha ihb
  | orderEnum hc => cases hc
  | choice _ hv _ _ ihc iht ihf => exact .choice ihc hv iht ihf
  | max hne _ ih => exact .max hne ih
  | present hf _ ih => exact .present hf ih
  | upper _ ih => exact .upper ih
  | lower _ ih => exact .lower ih

/-- Every expression that is well-typed by the *documented* rules is accepted, with that type. -/
theorem C13_documented_accepted (e : Expr) (τ : Ty) (h : HasType false e τ) : Ok (tc e) τ :=
  (tc_iff e τ).2 (hasType_mono h)

example : HasType false (.bin (L 1) .lt (.num (L 2)) (.lphys (L 3) .int)) .bool :=
  .order (.inl rfl) .num .lphys

theorem hasType_false_ord_enum {l op a b n τ} (ho : op.isOrd) (ha : HasType false a (.enum n)) :
    ¬ HasType false (.bin l op a b) τ := by
  intro h
  have hfun : ∀ {e τ1 τ2}, HasType true e τ1 → HasType true e τ2 → τ1 = τ2 := by
    intro e τ1 τ2 h1 h2
    exact ((tc_iff e τ1).2 h1).2.2.symm.trans ((tc_iff e τ2).2 h2).2.2
  cases h with
  | arith ho' => rcases ho with rfl | rfl | rfl | rfl <;> rcases ho' with h | h | h <;> cases h
  | logic ho' => rcases ho with rfl | rfl | rfl | rfl <;> rcases ho' with h | h <;> cases h
  | equal ho' => rcases ho with rfl | rfl | rfl | rfl <;> rcases ho' with h | h <;> cases h
  | order _ ha' _ => exact absurd (hfun (hasType_mono ha) (hasType_mono ha')) (by simp)
  | orderEnum hc => cases hc

/-- FINDING (F11, open): `Ee.AA < x` with `x : Ee` is accepted as a boolean although the
reference restricts `<` to integers.  Replayed on the real compiler by the check
(findings.d/C13.json, key enum-operands-to-ordering-comparison-accepted). -/
theorem C13_enum_ordering_counterexample :
    Ok (tc (.bin (L 1) .lt (.enumv (L 2) 0) (.lphys (L 3) (.enum 0)))) .bool ∧
    ¬ HasType false (.bin (L 1) .lt (.enumv (L 2) 0) (.lphys (L 3) (.enum 0))) .bool :=
  ⟨by decide, hasType_false_ord_enum (.inl rfl) .enumv⟩

/- FULL STATEMENT (false on the current tree): `∀ e, (tc e).crash = none`. -/
/-- The checker raises only on the listed forms: a static reference to something that is
neither an enum value nor a field, a reference to an array-typed parameter, or a comparison /
`?:` one of whose operands failed its own check (`.type is None`). -/
theorem C13_total_partial (e : Expr) (k : Crash) (h : (tc e).crash = some k) : CrashForm e :=
  tc_crash e k h

/-- non-vacuity / witnesses replayed on the real compiler (all four are open findings):
`Foo.p`; `p + 1` with `p: UInt:8[2]`; `(true < 1) == true`; `true ? false : (true < 1)`. -/
theorem C13_total_counterexample :
    (tc (.cother (L 1))).crash = some .constRefOther ∧
    (tc (.bin (L 1) .add (.lparamArr (L 2)) (.num (L 3)))).crash = some .arrayParamRef ∧
    (tc (.bin (L 1) .eq (.bin (L 2) .lt (.boolc (L 3)) (.num (L 4))) (.boolc (L 5)))).crash = some .cmpNone ∧
    (tc (.choice (L 1) (.boolc (L 2)) (.boolc (L 3)) (.bin (L 4) .lt (.boolc (L 5)) (.num (L 6))))).crash
      = some .compatNone := by decide

/-- Every error names the offending sub-expression: its location is that of the expression
or of one of its sub-expressions (through references to `let` fields, whose definition the
error then lies in). -/
theorem C13_error_located (e : Expr) (er : Err) (h : er ∈ (tc e).errs) : LocIn er.l e :=
  tc_loc e er h

example : (tc (.bin (L 1) .add (.num (L 2)) (.boolc (L 3)))).errs = [⟨L 3, .mustInt 1, [], false⟩] := by
  decide

/-- FINDING (open): an error re-reported through a reference to an ill-typed `let` field does
not carry a file name (`bad`): `let a = true < 1` referenced as `a + 1`. -/
theorem C13_error_file_counterexample :
    ∃ er ∈ (tc (.bin (L 1) .add (.lvirt (L 2) (.bin (L 3) .lt (.boolc (L 4)) (.num (L 5)))) (.num (L 6)))).errs,
      er.bad = true := by decide

/-! ### Module level: `check_types` -/

/- FULL STATEMENT (false on the current tree): with `PositionsOkDoc` requiring only the array
   *length* to be an integer, enum values to be integers, and passed enum parameters to be of
   the declared enum.  Proved for the positional relation as coded (`PositionsOk`); the three
   differences are the counterexamples below. -/
/-- Given that `annotate_types` accepted the inspected expressions, `check_types` reports
nothing and does not raise exactly when every position holds an expression of the demanded
type. -/
theorem C13_check_iff_positions_ok_partial (m : Module) (ht : ∀ e ∈ inspected m, Typed e) :
    ((checkTypes m).errs = [] ∧ (checkTypes m).crash = none) ↔ PositionsOk m :=
  checkTypes_ok m ht

private def exMod : Module :=
  { exprs := [], params := [⟨L 1, .atomic .int⟩], locations := [(.num (L 2), .lparam (L 3) .int)],
    arrays := [.num (L 4)], conds := [.boolc (L 5)],
    passed := [⟨L 6, L 7, [(.int, L 8)], [.num (L 9)]⟩], enumValues := [], attrs := [] }
example : (∀ e ∈ inspected exMod, Typed e) ∧ (checkTypes exMod).errs = [] := by decide
example : (checkTypes { exMod with conds := [.num (L 5)] }).errs = [⟨L 5, .posExist, [], false⟩] := by decide

private def exLen : Expr :=
  .choice (L 1) (.bin (L 2) .eq (.lphys (L 3) .int) (.num (L 4))) (.num (L 5)) (.num (L 6))

/-- FINDING (open): a well-typed integer array length with a boolean sub-expression
(`UInt:8[a == 1 ? 1 : 2]`) is rejected: 'Array size must be an integer.' at `a == 1`. -/
theorem C13_array_length_counterexample :
    Ok (tc exLen) .int ∧
    (checkTypes { exMod with arrays := [exLen] }).errs = [⟨L 2, .posArray, [], false⟩] := by decide

/-- FINDING (open): enum values are not inspected: `AA = true` passes all three modelled passes. -/
theorem C13_enum_value_counterexample :
    run { exMod with exprs := [.boolc (L 9)], enumValues := [.boolc (L 9)] } = .accepted := by decide

/-- FINDING (open): a value of enum 1 passed for a parameter of enum 0 is accepted; a boolean
passed for an integer parameter raises instead of being reported. -/
theorem C13_passed_parameter_counterexample :
    (checkTypes { exMod with passed := [⟨L 6, L 7, [(.enum 0, L 8)], [.enumv (L 9) 1]⟩] }).errs = [] ∧
    (checkTypes { exMod with passed := [⟨L 6, L 7, [(.int, L 8)], [.boolc (L 9)]⟩] }).crash
      = some .passedTypeName := by decide

/-! ### Attribute values -/

/-- `[requires]`/`[static_requirements]` accept exactly boolean expressions; integer-constant
attributes exactly closed integer expressions; string attributes exactly listed strings. -/
theorem C13_attr_value_ok (a : Attr) (hk : a.kind = .bool ∨ a.kind = .intConst ∨ a.kind = .strList) :
    ((attrOne a).errs = [] ∧ (attrOne a).crash = none) ↔
      match a.kind, a.val with
      | .bool, .expr e => (tc e).ty = .bool
      | .intConst, .expr e => (tc e).ty = .int ∧ closed e = true
      | .strList, .str v => v = true
      | _, _ => False := by
  rcases a with ⟨l, k, v⟩
  rcases hk with h | h | h <;> simp only at h <;> subst h <;> cases v <;> simp [attrOne] <;> grind

example : (attrOne ⟨L 1, .bool, .expr (.num (L 2))⟩).errs = [⟨L 1, .attrBool, [], false⟩] := by decide

/-- FINDINGS (open): `[is_signed: 1]` and `[expected_back_ends: 5]` raise; `[is_signed: 1 == 1]`
is accepted by the validator and raises later. -/
theorem C13_attr_crash_counterexample :
    (attrOne ⟨L 1, .boolConstSigned, .expr (.num (L 2))⟩).crash = some .attrConstBoolExpr ∧
    (attrOne ⟨L 1, .backEnds, .expr (.num (L 2))⟩).crash = some .attrBackEnds ∧
    run { exMod with attrs := [⟨L 1, .boolConstSigned, .expr (.bin (L 2) .eq (.num (L 3)) (.num (L 4)))⟩] }
      = .crashed .attrSignedNotLiteral := by decide

/-- The pipeline model never reports a hidden (synthetic) error when a pass has visible ones:
what `run` reports for passes 1–3 is non-synthetic. -/
theorem C13_reported_errors_visible (m : Module) (p : Nat) (es : List Err) (hp : p ≠ 9)
    (h : run m = .rejected p es) : ∀ er ∈ es, er.hidden = false := by
  unfold run at h
  simp only at h
  have vis : ∀ (l : List Err), ∀ er ∈ l.filter (fun x => !x.hidden), er.hidden = false := by
    intro l er her; simp only [List.mem_filter] at her; simpa using her.2
  split at h
  · cases h
  split at h
  · injection h with h1 h2; subst h2; exact vis _
  split at h
  · cases h
  split at h
  · injection h with h1 h2; subst h2; exact vis _
  split at h
  · cases h
  split at h
  · injection h with h1 h2; subst h2; exact vis _
  split at h
  · cases h
  split at h
  · injection h with h1 h2; exact absurd h1.symm hp
  · cases h

end Emboss.Types
