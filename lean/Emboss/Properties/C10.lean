/-
C10 — Tokenization is lossless, position-accurate and classifies as documented.

Property theorems only.  Models: Emboss/Model/Regex.lean (Python `re.match` on the
fragment used), Emboss/Model/Tok.lean (`_tokenize_line`, `tokenize`).  Specs:
Emboss/Spec/Regex.lean (`Lang`), Emboss/Spec/Tok.lean (`IsBest`, `Covers`, `IndentStep`,
`FileCover`).  Lemmas: Emboss/Lemmas/{Regex,Tok,TokFile,TokTable}.lean.

Theorems that do not mention `Generated.tokTable` hold for *every* pattern list.
-/
import Emboss.Lemmas.TokFile
import Emboss.Lemmas.TokTable
import Emboss.Generated.TokTable
namespace Emboss.Tok
open Emboss.Regex Emboss.Generated

/-! ## The regex engine model -/

/-- The fuel given to repetitions (input length + 1) is never exhausted. -/
theorem C10_regex_fuel_sufficient (r : Regex) (s : List Char) : matchLen r s ≠ .fuel :=
  matchLen_no_fuel r s

/-- … and neither is the fuel of the line loop: `tokenize` never answers "out of fuel". -/
theorem C10_tokenize_fuel_sufficient (pats : List Pat) (text : List Char) :
    tokenize pats text ≠ .fuel :=
  tokLines_no_fuel pats _ _ _

/-- What the backtracking matcher reports is a match of the pattern's language, no
longer than the input. -/
theorem C10_regex_sound (r : Regex) (s : List Char) (n : Nat) (h : matchLen r s = .ok n) :
    n ≤ s.length ∧ Lang r (s.take n) (s.drop n) :=
  matchLen_sound r s n h

example : matchLen (.seq (.rep (.chr ⟨false, [.range 97 122]⟩) 0 none) (.chr ⟨false, [.range 98 98]⟩))
    "abbc".toList = .ok 3 := by decide

/-! ## Lossless, position-accurate, longest match (any pattern list) -/

/-- **Structure of every successful tokenization.**  The output is, line by line (line
numbers 1, 2, …, lines as `str.splitlines` cuts them): the synthetic Indent/Dedent
tokens, then the tokens of a `Covers` of that line (consecutive non-empty pieces, each
the longest match at its position with ties to the earlier pattern; pieces without a
symbol are dropped), then one end-of-line token at column `len + 1`; finally one Dedent
per open level at `(last line + 1, 1)`. -/
theorem C10_lossless (pats : List Pat) (text : List Char) (toks : List Token)
    (h : tokenize pats text = .ok toks) :
    FileCover pats (splitLines text) 1 ⟨[], []⟩ toks :=
  tokLines_cover pats _ _ _ _ h

/-- What a cover of one line means, spelled out: the pieces concatenate to the line;
every token sits on that line, is non-empty, its text is the slice
`line[sc-1 : ec-1]`, `ec - sc = len(text)`, it ends inside the line; tokens are
disjoint and in order (each ends no later than the next starts, so start columns
strictly increase). -/
theorem C10_lossless_line (pats : List Pat) (ln : Nat) (line : List Char) (segs : List Seg)
    (h : Covers pats ln line 0 segs) :
    (segs.map Seg.text).flatten = line ∧
    (∀ t ∈ tokensOf segs, t.sl = ln ∧ t.el = ln ∧ 1 ≤ t.sc ∧ t.text ≠ [] ∧
      t.ec = t.sc + t.text.length ∧ t.ec ≤ line.length + 1 ∧
      t.text = (line.drop (t.sc - 1)).take (t.ec - t.sc)) ∧
    (tokensOf segs).Pairwise (fun a b => a.ec ≤ b.sc ∧ a.sc < b.sc) := by
  refine ⟨h.concat, ?_, ?_⟩
  · intro t ht
    obtain ⟨h1, h2, h3, h4, h5, h6, h7, _⟩ := h.token_facts t ht
    exact ⟨h1, h2, by omega, h4, h5, by omega, by simpa using h7⟩
  · refine List.Pairwise.imp_of_mem ?_ h.ordered
    intro a b ha _ hab
    obtain ⟨_, _, _, h4, h5, _⟩ := h.token_facts a ha
    have : 0 < a.text.length := List.length_pos_iff.mpr h4
    omega

/-- Every token is the longest match of any pattern at its position, and among
patterns matching that length it carries the symbol of the earliest. -/
theorem C10_longest_match (pats : List Pat) (ln : Nat) (line : List Char) (segs : List Seg)
    (h : Covers pats ln line 0 segs) :
    ∀ t ∈ tokensOf segs, ∃ pre p post, pats = pre ++ p :: post ∧ p.sym = some t.sym ∧
      matchLen p.re (line.drop (t.sc - 1)) = .ok t.text.length ∧
      (∀ q ∈ pre, ∀ m, matchLen q.re (line.drop (t.sc - 1)) = .ok m → m < t.text.length) ∧
      (∀ q ∈ post, ∀ m, matchLen q.re (line.drop (t.sc - 1)) = .ok m → m ≤ t.text.length) := by
  intro t ht
  obtain ⟨_, _, _, _, _, _, _, pre, p, post, h1, h2, h3, h4, h5⟩ := h.token_facts t ht
  simp only [Nat.sub_zero] at h2 h4 h5
  exact ⟨pre, p, post, h1, h3, h2, h4, h5⟩

/-- Line numbers: every token's line is between 1 and (number of lines + 1), tokens never
span lines, and line numbers never decrease along the output. -/
theorem C10_line_numbers (pats : List Pat) (text : List Char) (toks : List Token)
    (h : tokenize pats text = .ok toks) :
    (∀ t ∈ toks, 1 ≤ t.sl ∧ t.sl ≤ 1 + (splitLines text).length ∧ t.el = t.sl) ∧
      toks.Pairwise (fun a b => a.sl ≤ b.sl) :=
  (C10_lossless pats text toks h).line_numbers

/-! ## End-of-line tokens -/

/-- Exactly as many end-of-line tokens as lines; the one of line `i` (1-based) is
`"\n"` at column `len(line) + 1` (zero width). -/
theorem C10_newlines (pats : List Pat) (hres : ReservedSyms pats) (text : List Char)
    (toks : List Token) (h : tokenize pats text = .ok toks) :
    countSym nlSym toks = (splitLines text).length ∧
    ∀ i (hi : i < (splitLines text).length),
      (⟨nlSym, ['\n'], i + 1, ((splitLines text)[i]).length + 1, i + 1,
        ((splitLines text)[i]).length + 1⟩ : Token) ∈ toks := by
  have hc := C10_lossless pats text toks h
  refine ⟨(hc.balance hres).2, ?_⟩
  intro i hi
  have := hc.newline_mem i hi
  rw [Nat.add_comm 1 i] at this
  exact this

/-! ## Indentation -/

/-- Indent and Dedent tokens balance; and at every line boundary the tokens so far have
`#Indent − #Dedent = stack length − 1`, the stack is a chain of strict prefixes ending in
the empty string, and the remaining output is again a cover from that state.  (That an
Indent/Dedent is emitted exactly when a non-comment line's leading whitespace differs
from the stack top, and that Dedents close exactly the popped levels, is the content of
`IndentStep` inside `FileCover`; see `C10_indent_step`.) -/
theorem C10_indent_balanced (pats : List Pat) (hres : ReservedSyms pats) (text : List Char)
    (toks : List Token) (h : tokenize pats text = .ok toks) :
    countSym "Indent" toks = countSym "Dedent" toks ∧
    ∀ l1 l2, splitLines text = l1 ++ l2 →
      ∃ t1 t2 stm, toks = t1 ++ t2 ∧ FileCover pats l2 (1 + l1.length) stm t2 ∧ stm.Ok ∧
        countSym "Indent" t1 = countSym "Dedent" t1 + stm.depth := by
  have hc := C10_lossless pats text toks h
  refine ⟨by simpa [IStack.depth] using (hc.balance hres).1, ?_⟩
  intro l1 l2 hl
  rw [hl] at hc
  obtain ⟨t1, t2, stm, h1, h2, h3, h4, _⟩ := FileCover.split hres l1 l2 _ _ _ hc
  exact ⟨t1, t2, stm, h1, h2, h3 (by simp [IStack.Ok, ChainOk]), by simpa [IStack.depth] using h4⟩

/-- One line's effect, spelled out: no synthetic token and no stack change iff the line
is blank/comment-only or its leading whitespace equals the stack top; otherwise the new
top is the line's leading whitespace, reached by exactly one Indent (proper extension)
or by `k ≥ 1` Dedents popping `k` levels none of which equals it. -/
theorem C10_indent_step (ln : Nat) (line : List Char) (lts : List Token) (st st' : IStack)
    (synth : List Token) (h : IndentStep ln line lts st synth st') :
    (synth = [] ↔ (isBlankLine lts = true ∨ leadingWs line = st.top)) ∧
    (isBlankLine lts = false → st'.top = leadingWs line) ∧
    (st.Ok → st'.Ok) ∧
    (∀ t ∈ synth, (t.sym = "Indent" ∨ t.sym = "Dedent") ∧ t.sl = ln) ∧
    countSym "Indent" synth + st.depth = countSym "Dedent" synth + st'.depth := by
  refine ⟨?_, h.top, h.chain, ?_, h.balance.1⟩
  · cases h with
    | blank hb => simp [hb]
    | same hb heq => simp [heq]
    | indent hb hne _ => simp [hb, hne]
    | dedent popped hb hne hpre heq _ _ =>
      have : popped ≠ [] := by
        intro hp; subst hp
        simp only [List.nil_append, List.cons.injEq] at heq
        rename_i htop _
        exact hne (by rw [← htop, heq.1])
      simp [hb, hne, this]
  · intro t ht
    cases h with
    | blank => simp at ht
    | same => simp at ht
    | indent => simp only [List.mem_singleton] at ht; subst ht; exact ⟨.inl rfl, rfl⟩
    | dedent popped => rw [List.mem_replicate] at ht; rw [ht.2]; exact ⟨.inr rfl, rfl⟩

/-! ## Table-level obligations (re-elaborated whenever the table is regenerated) -/

/-- The token table printed in doc/grammar.md is, row by row, the pattern list the
tokenizer uses (literals first, then the regexes). -/
theorem C10_doc_table_is_code_table : docPats = tokTable.pats := by decide +kernel

/-- No repetition in the table has a body that can match the empty string (so the
zero-width-iteration corner of sre is never exercised). -/
theorem C10_table_wf : tokTable.pats.all (fun p => wf p.re) = true := by decide +kernel

/-- No pattern of the table can produce the symbols reserved for the indentation /
end-of-line logic: the hypotheses of `C10_newlines` / `C10_indent_balanced` hold. -/
theorem C10_table_reserved_syms : ReservedSyms tokTable.pats := by
  have : tokTable.pats.all (fun p => p.sym != some "Indent" && p.sym != some "Dedent" &&
      p.sym != some nlSym) = true := by decide +kernel
  intro p hp
  have := List.all_eq_true.mp this p hp
  simp only [Bool.and_eq_true, bne_iff_ne, ne_eq] at this
  exact ⟨this.1.1, this.1.2, this.2⟩

end Emboss.Tok
