import Emboss.Model.Tok
import Emboss.Generated.TokTable
namespace Emboss.Tok
open Emboss.Regex Emboss.Generated

/-- The token table printed in doc/grammar.md is, row by row, the pattern list the
tokenizer uses (literals first, then the regexes). -/
theorem C10_doc_table_is_code_table : docPats = tokTable.pats := by decide +kernel

/-- No repetition in the table has a body that can match the empty string. -/
theorem C10_table_wf : tokTable.pats.all (fun p => wf p.re) = true := by decide +kernel

end Emboss.Tok
