/-
C10 — Tokenization is lossless, position-accurate and classifies as documented.

Property theorems only.  Models: Emboss/Model/Regex.lean (Python `re.match` on the
fragment used), Emboss/Model/Tok.lean (`_tokenize_line`, `tokenize`).  Specs:
Emboss/Spec/Regex.lean (`Lang`), Emboss/Spec/Tok.lean (`IsBest`, `Covers`, `IndentStep`,
`FileCover`).  Lemmas: Emboss/Lemmas/{Regex,Tok,TokFile,TokTable}.lean.

Theorems that do not mention `Generated.tokTable` hold for *every* pattern list.
-/
import Emboss.Lemmas.TokFile
import Emboss.Lemmas.TokTable
import Emboss.Lemmas.TokBoundary
import Emboss.Lemmas.TokLongest
import Emboss.Lemmas.TokSplit
import Emboss.Lemmas.TokLineSpec
import Emboss.Lemmas.TokFileSpec
import Emboss.Lemmas.TokBlankJoin
import Emboss.Generated.TokTable
namespace Emboss.Tok
open Emboss.Regex Emboss.Generated

/-! ## The regex engine model -/

/-- The fuel given to repetitions (input length + 1) is never exhausted. -/
theorem C10_regex_fuel_sufficient (r : Regex) (s : List Char) : matchLen r s ≠ .fuel :=
  matchLen_no_fuel r s

/-- … and neither is the fuel of the line loop: `tokenize` never answers "out of fuel". -/
theorem C10_tokenize_fuel_sufficient (pats : List Pat) (text : List Char) :
    tokenize pats text ≠ .fuel :=
  tokLines_no_fuel pats _ _ _

/-- What the backtracking matcher reports is a match of the pattern's language, no
longer than the input. -/
theorem C10_regex_sound (r : Regex) (s : List Char) (n : Nat) (h : matchLen r s = .ok n) :
    n ≤ s.length ∧ Lang r (s.take n) (s.drop n) :=
  matchLen_sound r s n h

example : matchLen (.seq (.rep (.chr ⟨false, [.range 97 122]⟩) 0 none) (.chr ⟨false, [.range 98 98]⟩))
    "abbc".toList = .ok 3 := by decide

/-! ## Lossless, position-accurate, longest match (any pattern list) -/

/-- **Structure of every successful tokenization.**  The output is, line by line (line
numbers 1, 2, …, lines as `str.splitlines` cuts them): the synthetic Indent/Dedent
tokens, then the tokens of a `Covers` of that line (consecutive non-empty pieces, each
the longest match at its position with ties to the earlier pattern; pieces without a
symbol are dropped), then one end-of-line token at column `len + 1`; finally one Dedent
per open level at `(last line + 1, 1)`. -/
theorem C10_lossless (pats : List Pat) (text : List Char) (toks : List Token)
    (h : tokenize pats text = .ok toks) :
    FileCover pats (splitLines text) 1 ⟨[], []⟩ toks :=
  tokLines_cover pats _ _ _ _ h

/-- Non-vacuity (a test, by evaluation): the real table tokenizes a two-line text with an
Indent, a skipped gap, a comment and a trailing Dedent; `ReservedSyms` holds for it
(`C10_table_reserved_syms`). -/
example : tokenize tokTable.pats "a:\n  0x_1 # c\n".toList =
    .ok [⟨"SnakeWord", ['a'], 1, 1, 1, 2⟩, ⟨"\":\"", [':'], 1, 2, 1, 3⟩, newlineTok 1 2,
      ⟨"Indent", [' ', ' '], 2, 1, 2, 3⟩, ⟨"Number", "0x_1".toList, 2, 3, 2, 7⟩,
      ⟨"Comment", "# c".toList, 2, 8, 2, 11⟩, newlineTok 2 10, dedentTok 3 1] := by decide +kernel

/-- … and errors are reachable: bad indentation and an unrecognized character. -/
example : tokenize tokTable.pats "a\n  b\n c".toList = .err "Bad indentation" 3 1 3 2 ∧
    tokenize tokTable.pats "a ~".toList = .err "Unrecognized token" 1 3 1 4 := by
  constructor <;> decide +kernel

/-- What a cover of one line means, spelled out: the pieces concatenate to the line;
every token sits on that line, is non-empty, its text is the slice
`line[sc-1 : ec-1]`, `ec - sc = len(text)`, it ends inside the line; tokens are
disjoint and in order (each ends no later than the next starts, so start columns
strictly increase). -/
theorem C10_lossless_line (pats : List Pat) (ln : Nat) (line : List Char) (segs : List Seg)
    (h : Covers pats ln line 0 segs) :
    (segs.map Seg.text).flatten = line ∧
    (∀ t ∈ tokensOf segs, t.sl = ln ∧ t.el = ln ∧ 1 ≤ t.sc ∧ t.text ≠ [] ∧
      t.ec = t.sc + t.text.length ∧ t.ec ≤ line.length + 1 ∧
      t.text = (line.drop (t.sc - 1)).take (t.ec - t.sc)) ∧
    (tokensOf segs).Pairwise (fun a b => a.ec ≤ b.sc ∧ a.sc < b.sc) := by
  refine ⟨h.concat, ?_, ?_⟩
  · intro t ht
    obtain ⟨h1, h2, h3, h4, h5, h6, h7, _⟩ := h.token_facts t ht
    exact ⟨h1, h2, by omega, h4, h5, by omega, by simpa using h7⟩
  · refine List.Pairwise.imp_of_mem ?_ h.ordered
    intro a b ha _ hab
    obtain ⟨_, _, _, h4, h5, _⟩ := h.token_facts a ha
    have : 0 < a.text.length := List.length_pos_iff.mpr h4
    omega

/-- Every token is the longest match of any pattern at its position, and among
patterns matching that length it carries the symbol of the earliest. -/
theorem C10_longest_match (pats : List Pat) (ln : Nat) (line : List Char) (segs : List Seg)
    (h : Covers pats ln line 0 segs) :
    ∀ t ∈ tokensOf segs, ∃ pre p post, pats = pre ++ p :: post ∧ p.sym = some t.sym ∧
      matchLen p.re (line.drop (t.sc - 1)) = .ok t.text.length ∧
      (∀ q ∈ pre, ∀ m, matchLen q.re (line.drop (t.sc - 1)) = .ok m → m < t.text.length) ∧
      (∀ q ∈ post, ∀ m, matchLen q.re (line.drop (t.sc - 1)) = .ok m → m ≤ t.text.length) := by
  intro t ht
  obtain ⟨_, _, _, _, _, _, _, pre, p, post, h1, h2, h3, h4, h5⟩ := h.token_facts t ht
  simp only [Nat.sub_zero] at h2 h4 h5
  exact ⟨pre, p, post, h1, h3, h2, h4, h5⟩

/-- Line splitting (`str.splitlines`) is lossless up to the terminators: the lines, in order,
concatenate to the text with exactly the line-boundary characters removed, and no line
contains one.  (Together with `C10_lossless_line`: every character of the text other than a
line terminator lies in exactly one token or whitespace gap.) -/
theorem C10_splitlines_lossless (text : List Char) :
    (splitLines text).flatten = text.filter (fun c => !isBreakChar c) ∧
    ∀ l ∈ splitLines text, ∀ c ∈ l, isBreakChar c = false :=
  ⟨splitLines_flatten text, splitLines_no_break text⟩

example : splitLines ['a', '\r', '\n', 'b', '\n', '\n', 'c', '\r'] = [['a'], ['b'], [], ['c']] := by
  decide +kernel

/-- Line numbers: every token's line is between 1 and (number of lines + 1), tokens never
span lines, and line numbers never decrease along the output. -/
theorem C10_line_numbers (pats : List Pat) (text : List Char) (toks : List Token)
    (h : tokenize pats text = .ok toks) :
    (∀ t ∈ toks, 1 ≤ t.sl ∧ t.sl ≤ 1 + (splitLines text).length ∧ t.el = t.sl) ∧
      toks.Pairwise (fun a b => a.sl ≤ b.sl) :=
  (C10_lossless pats text toks h).line_numbers

/-! ## End-of-line tokens -/

/-- Exactly as many end-of-line tokens as lines; the one of line `i` (1-based) is
`"\n"` at column `len(line) + 1` (zero width). -/
theorem C10_newlines (pats : List Pat) (hres : ReservedSyms pats) (text : List Char)
    (toks : List Token) (h : tokenize pats text = .ok toks) :
    countSym nlSym toks = (splitLines text).length ∧
    ∀ i (hi : i < (splitLines text).length),
      (⟨nlSym, ['\n'], i + 1, ((splitLines text)[i]).length + 1, i + 1,
        ((splitLines text)[i]).length + 1⟩ : Token) ∈ toks := by
  have hc := C10_lossless pats text toks h
  refine ⟨(hc.balance hres).2, ?_⟩
  intro i hi
  have := hc.newline_mem i hi
  rw [Nat.add_comm 1 i] at this
  exact this

/-! ## Indentation -/

/-- Indent and Dedent tokens balance; and at every line boundary the tokens so far have
`#Indent − #Dedent = stack length − 1`, the stack is a chain of strict prefixes ending in
the empty string, and the remaining output is again a cover from that state.  (That an
Indent/Dedent is emitted exactly when a non-comment line's leading whitespace differs
from the stack top, and that Dedents close exactly the popped levels, is the content of
`IndentStep` inside `FileCover`; see `C10_indent_step`.) -/
theorem C10_indent_balanced (pats : List Pat) (hres : ReservedSyms pats) (text : List Char)
    (toks : List Token) (h : tokenize pats text = .ok toks) :
    countSym "Indent" toks = countSym "Dedent" toks ∧
    ∀ l1 l2, splitLines text = l1 ++ l2 →
      ∃ t1 t2 stm, toks = t1 ++ t2 ∧ FileCover pats l2 (1 + l1.length) stm t2 ∧ stm.Ok ∧
        countSym "Indent" t1 = countSym "Dedent" t1 + stm.depth := by
  have hc := C10_lossless pats text toks h
  refine ⟨by simpa [IStack.depth] using (hc.balance hres).1, ?_⟩
  intro l1 l2 hl
  rw [hl] at hc
  obtain ⟨t1, t2, stm, h1, h2, h3, h4, _⟩ := FileCover.split hres l1 l2 _ _ _ hc
  exact ⟨t1, t2, stm, h1, h2, h3 (by simp [IStack.Ok, ChainOk]), by simpa [IStack.depth] using h4⟩

/-- One line's effect, spelled out: no synthetic token and no stack change iff the line
is blank/comment-only or its leading whitespace equals the stack top; otherwise the new
top is the line's leading whitespace, reached by exactly one Indent (proper extension)
or by `k ≥ 1` Dedents popping `k` levels none of which equals it. -/
theorem C10_indent_step (ln : Nat) (line : List Char) (lts : List Token) (st st' : IStack)
    (synth : List Token) (h : IndentStep ln line lts st synth st') :
    (synth = [] ↔ (isBlankLine lts = true ∨ leadingWs line = st.top)) ∧
    (isBlankLine lts = false → st'.top = leadingWs line) ∧
    (st.Ok → st'.Ok) ∧
    (∀ t ∈ synth, (t.sym = "Indent" ∨ t.sym = "Dedent") ∧ t.sl = ln) ∧
    countSym "Indent" synth + st.depth = countSym "Dedent" synth + st'.depth := by
  refine ⟨?_, h.top, h.chain, ?_, h.balance.1⟩
  · cases h with
    | blank hb => simp [hb]
    | same hb heq => simp [heq]
    | indent hb hne _ => simp [hb, hne]
    | dedent popped hb hne hpre heq _ _ =>
      have : popped ≠ [] := by
        intro hp; subst hp
        simp only [List.nil_append, List.cons.injEq] at heq
        rename_i htop _
        exact hne (by rw [← htop, heq.1])
      simp [hb, hne, this]
  · intro t ht
    cases h with
    | blank => simp at ht
    | same => simp at ht
    | indent => simp only [List.mem_singleton] at ht; subst ht; exact ⟨.inl rfl, rfl⟩
    | dedent popped => rw [List.mem_replicate] at ht; rw [ht.2]; exact ⟨.inr rfl, rfl⟩

/-! ## Table-level obligations (re-elaborated whenever the table is regenerated) -/

/-- The token table printed in doc/grammar.md is, row by row, the pattern list the
tokenizer uses (literals first, then the regexes). -/
theorem C10_doc_table_is_code_table : docPats = tokTable.pats := by decide +kernel

/-- No repetition in the table has a body that can match the empty string (so the
zero-width-iteration corner of sre is never exercised). -/
theorem C10_table_wf : tokTable.pats.all (fun p => wf p.re) = true := by decide +kernel

/-- No pattern of the table can produce the symbols reserved for the indentation /
end-of-line logic: the hypotheses of `C10_newlines` / `C10_indent_balanced` hold. -/
theorem C10_table_reserved_syms : ReservedSyms tokTable.pats := by
  have : tokTable.pats.all (fun p => p.sym != some "Indent" && p.sym != some "Dedent" &&
      p.sym != some nlSym) = true := by decide +kernel
  intro p hp
  have := List.all_eq_true.mp this p hp
  simp only [Bool.and_eq_true, bne_iff_ne, ne_eq] at this
  exact ⟨this.1.1, this.1.2, this.2⟩

/-- Text skipped between tokens (a `Covers` gap) was matched by the one pattern without a
symbol, `\\s+`: it consists of `str.isspace` characters only. -/
theorem C10_gaps_are_whitespace (s : List Char) (n : Nat) (h : IsBest tokTable.pats s n none) :
    (s.take n).all isSpaceChar = true :=
  gap_is_whitespace h

/-- **Backtracking = longest** (DESIGN: `C10_priority_is_longest`), for every one of the 65
patterns of the regenerated table and every input: what Python's leftmost-greedy
backtracking `re.match` returns is the greatest length of a match of the pattern's
declarative language at that position, and it fails only when the language has no match.
So "longest match of the documented patterns" is meaningful for the code. -/
theorem C10_priority_is_longest (p : Pat) (hp : p ∈ tokTable.pats) (s : List Char) :
    (∀ n, matchLen p.re s = .ok n → MatchesLen p.re s n ∧ ∀ m, MatchesLen p.re s m → m ≤ n) ∧
    (matchLen p.re s = .fail → ∀ m, ¬ MatchesLen p.re s m) := by
  have := priority_is_longest_all p hp s
  constructor
  · intro n hn; rw [hn] at this; exact this
  · intro hf; rw [hf] at this; exact this

/-- Consequently every token of a tokenization with the regenerated table is the longest
match of the *documented patterns as languages*, ties to the earlier row: its text is a
match of a pattern `p` carrying its symbol, no pattern of the table has any match longer
than the token at that position, and no earlier pattern has one as long. -/
theorem C10_longest_match_documented (ln : Nat) (line : List Char) (segs : List Seg)
    (h : Covers tokTable.pats ln line 0 segs) :
    ∀ t ∈ tokensOf segs, ∃ pre p post, tokTable.pats = pre ++ p :: post ∧ p.sym = some t.sym ∧
      MatchesLen p.re (line.drop (t.sc - 1)) t.text.length ∧
      (∀ q ∈ pre, ∀ m, MatchesLen q.re (line.drop (t.sc - 1)) m → m < t.text.length) ∧
      (∀ q ∈ tokTable.pats, ∀ m, MatchesLen q.re (line.drop (t.sc - 1)) m → m ≤ t.text.length) := by
  intro t ht
  obtain ⟨pre, p, post, hp, hs, hm, hpre, hpost⟩ := C10_longest_match _ ln line segs h t ht
  have key : ∀ q ∈ tokTable.pats, ∀ m, MatchesLen q.re (line.drop (t.sc - 1)) m →
      ∃ n, matchLen q.re (line.drop (t.sc - 1)) = .ok n ∧ m ≤ n := by
    intro q hq m hmq
    have hl := priority_is_longest_all q hq (line.drop (t.sc - 1))
    cases hr : matchLen q.re (line.drop (t.sc - 1)) with
    | ok n => rw [hr] at hl; exact ⟨n, rfl, hl.2 m hmq⟩
    | fail => rw [hr] at hl; exact absurd hmq (hl m)
    | fuel => rw [hr] at hl; exact hl.elim
  refine ⟨pre, p, post, hp, hs, matchLen_sound _ _ _ hm, ?_, ?_⟩
  · intro q hq m hmq
    obtain ⟨n, hn, hle⟩ := key q (by rw [hp]; simp [hq]) m hmq
    have := hpre q hq n hn
    omega
  · intro q hq m hmq
    obtain ⟨n, hn, hle⟩ := key q hq m hmq
    rw [hp, List.mem_append, List.mem_cons] at hq
    rcases hq with hq | rfl | hq
    · have := hpre q hq n hn; omega
    · rw [hm] at hn; cases hn; exact hle
    · have := hpost q hq n hn; omega

/-! ## `_tokenize_line` *equals* the declarative maximal-munch specification -/

/-- **Any pattern list.**  The model of `_tokenize_line` and the declarative specification
(`Covers` = the line cut into consecutive non-empty best matches; `StuckAt k` = such a cut
reaches offset `k` where a non-empty rest has no non-empty match) determine each other:
it answers `ok ts` iff `ts` are the tokens of a cover, "Unrecognized token" at `k` iff the
cut is stuck at `k`; covers are unique; and every line has a cover or a stuck position
(never "out of fuel").  `C10_lossless` is the `→` direction of the first part, lifted to files. -/
theorem C10_tokenize_line_eq_spec (pats : List Pat) (ln : Nat) (line : List Char) :
    (∀ ts, tokLine pats ln line.length line 0 = .ok ts ↔
      ∃ segs, Covers pats ln line 0 segs ∧ ts = tokensOf segs) ∧
    (∀ k, tokLine pats ln line.length line 0 = .err k ↔ StuckAt pats line 0 k) ∧
    (∀ segs₁ segs₂, Covers pats ln line 0 segs₁ → Covers pats ln line 0 segs₂ → segs₁ = segs₂) ∧
    ((∃ segs, Covers pats ln line 0 segs) ∨ (∃ k, StuckAt pats line 0 k)) := by
  refine ⟨?_, ?_, fun _ _ h₁ h₂ => h₁.unique h₂, ?_⟩
  · intro ts
    constructor
    · exact tokLine_covers pats ln _ _ _ ts
    · rintro ⟨segs, hc, rfl⟩
      exact hc.tokLine_eq _ (Nat.le_refl _)
  · intro k
    exact ⟨tokLine_err_stuck pats ln _ _ _ k, fun h => h.tokLine_eq ln _ (Nat.le_refl _)⟩
  · cases h : tokLine pats ln line.length line 0 with
    | fuel => exact absurd h (tokLine_no_fuel pats ln _ _ _ (Nat.le_refl _))
    | err k => exact .inr ⟨k, tokLine_err_stuck pats ln _ _ _ k h⟩
    | ok ts =>
      obtain ⟨segs, hc, _⟩ := tokLine_covers pats ln _ _ _ ts h
      exact .inl ⟨segs, hc⟩

/-- **`tokenize` equals its declarative specification** (any pattern list): it answers
`ok toks` iff `toks` is the `FileCover` of the text's lines (so `C10_lossless` is an
equivalence, and the cover is unique); it answers an error iff the text `FileFails` with
exactly that message and location — the lines before the failing one have covers and
indentation steps, and the failing line is stuck at offset `k` ("Unrecognized token",
columns `k+1`–`k+2`) or is a non-blank line whose leading whitespace neither extends the
innermost open level nor equals an open one ("Bad indentation", over the leading whitespace);
and one of the two always holds. -/
theorem C10_tokenize_eq_spec (pats : List Pat) (text : List Char) :
    (∀ toks, tokenize pats text = .ok toks ↔ FileCover pats (splitLines text) 1 ⟨[], []⟩ toks) ∧
    (∀ msg a b c d, tokenize pats text = .err msg a b c d ↔
      FileFails pats (splitLines text) 1 ⟨[], []⟩ msg a b c d) ∧
    (∀ t₁ t₂, FileCover pats (splitLines text) 1 ⟨[], []⟩ t₁ →
      FileCover pats (splitLines text) 1 ⟨[], []⟩ t₂ → t₁ = t₂) ∧
    ((∃ toks, FileCover pats (splitLines text) 1 ⟨[], []⟩ toks) ∨
      (∃ msg a b c d, FileFails pats (splitLines text) 1 ⟨[], []⟩ msg a b c d)) := by
  refine ⟨fun toks => ⟨tokLines_cover pats _ _ _ _, fun h => h.tokLines_eq⟩,
    fun msg a b c d => ⟨tokLines_err_fails pats _ _ _ _ _ _ _ _, fun h => h.tokLines_eq⟩, ?_, ?_⟩
  · intro t₁ t₂ h₁ h₂
    have e₁ := h₁.tokLines_eq
    rw [h₂.tokLines_eq] at e₁
    cases e₁; rfl
  · cases h : tokenize pats text with
    | fuel => exact absurd h (C10_tokenize_fuel_sufficient pats text)
    | ok toks => exact .inl ⟨toks, tokLines_cover pats _ _ _ _ h⟩
    | err msg a b c d => exact .inr ⟨msg, a, b, c, d, tokLines_err_fails pats _ _ _ _ _ _ _ _ h⟩

/-- Non-vacuity (tests by evaluation): both kinds of declared failure occur. -/
example : FileFails tokTable.pats (splitLines "a\n  b\n c".toList) 1 ⟨[], []⟩ "Bad indentation" 3 1 3 2 ∧
    FileFails tokTable.pats (splitLines "a\n b ~".toList) 1 ⟨[], []⟩ "Unrecognized token" 2 4 2 5 :=
  ⟨((C10_tokenize_eq_spec _ _).2.1 _ _ _ _ _).mp (by decide +kernel),
   ((C10_tokenize_eq_spec _ _).2.1 _ _ _ _ _).mp (by decide +kernel)⟩

/-- **The regenerated table.**  The same with the specification phrased through the
documented patterns' *languages* only (no matcher, no backtracking order): `MunchCovers` /
`MunchStuck` use `IsBestLang` — the greatest length any pattern's language matches at that
position, the earliest pattern among those reaching it. -/
theorem C10_tokenize_line_eq_documented_spec (ln : Nat) (line : List Char) :
    (∀ ts, tokLine tokTable.pats ln line.length line 0 = .ok ts ↔
      ∃ segs, MunchCovers tokTable.pats ln line 0 segs ∧ ts = tokensOf segs) ∧
    (∀ k, tokLine tokTable.pats ln line.length line 0 = .err k ↔ MunchStuck tokTable.pats line 0 k) := by
  obtain ⟨h1, h2, _, _⟩ := C10_tokenize_line_eq_spec tokTable.pats ln line
  constructor
  · intro ts
    rw [h1 ts]
    constructor
    · rintro ⟨segs, hc, e⟩; exact ⟨segs, (covers_iff_munch priority_is_longest_all _ _ _ _).mp hc, e⟩
    · rintro ⟨segs, hc, e⟩; exact ⟨segs, (covers_iff_munch priority_is_longest_all _ _ _ _).mpr hc, e⟩
  · intro k
    rw [h2 k]
    exact stuck_iff_munch priority_is_longest_all _ _ _

/-- Non-vacuity (tests by evaluation): a line with a cover, a line that gets stuck. -/
example : (∃ segs, MunchCovers tokTable.pats 1 "a  0x_1".toList 0 segs ∧
      tokensOf segs = [⟨"SnakeWord", ['a'], 1, 1, 1, 2⟩, ⟨"Number", "0x_1".toList, 1, 4, 1, 8⟩]) ∧
    MunchStuck tokTable.pats "a ~".toList 0 2 := by
  constructor
  · obtain ⟨segs, h, e⟩ := ((C10_tokenize_line_eq_documented_spec 1 "a  0x_1".toList).1 _).mp
      (by decide +kernel : tokLine tokTable.pats 1 _ "a  0x_1".toList 0 = .ok
        [⟨"SnakeWord", ['a'], 1, 1, 1, 2⟩, ⟨"Number", "0x_1".toList, 1, 4, 1, 8⟩])
    exact ⟨segs, h, e.symm⟩
  · exact ((C10_tokenize_line_eq_documented_spec 1 "a ~".toList).2 2).mp (by decide +kernel)

/-! ## Tokens separated by a blank are tokenized independently -/

/-- **Concatenation with a blank** (regenerated table; what a renderer that separates tokens
by blanks needs).  Let the line `a` tokenize to `ta`, none of them a Comment / Documentation /
BadDocumentation (those run to the end of the line by definition), `a` not ending in a blank,
and let `c` be any blank (`str.isspace`).  Then for every `b` the line `a ++ c :: b`
tokenizes to `ta` followed by the tokens of `c :: b` with their columns shifted by `|a|` —
and if `c :: b` has an unrecognized character at offset `k`, the whole line reports it at
`|a| + k`.  In particular no token of `a` changes its text, symbol or position because of
what follows the blank, and no token spans the blank.  (Proof: at every position of `a`
where a token or inner gap starts, no pattern of the table changes its answer when
`c :: b` is appended — `table_local`.) -/
theorem C10_concat_with_blank (ln : Nat) (a b : List Char) (c : Char) (ta : List Token)
    (ha : tokLine tokTable.pats ln a.length a 0 = .ok ta)
    (hopen : ∀ t ∈ ta, t.sym ≠ "Comment" ∧ t.sym ≠ "Documentation" ∧ t.sym ≠ "BadDocumentation")
    (hlast : ∀ y, a.getLast? = some y → isSpaceChar y = false)
    (hc : isSpaceChar c = true) :
    (∀ tb, tokLine tokTable.pats ln (c :: b).length (c :: b) 0 = .ok tb →
      tokLine tokTable.pats ln (a ++ c :: b).length (a ++ c :: b) 0 =
        .ok (ta ++ tb.map (Token.shift a.length))) ∧
    (∀ k, tokLine tokTable.pats ln (c :: b).length (c :: b) 0 = .err k →
      tokLine tokTable.pats ln (a ++ c :: b).length (a ++ c :: b) 0 = .err (k + a.length)) := by
  have hopen' : ∀ t ∈ ta, ¬ OpenEnded t.sym := by
    intro t ht ho
    obtain ⟨h1, h2, h3⟩ := hopen t ht
    rcases ho with h | h | h
    · exact h1 h
    · exact h2 h
    · exact h3 h
  exact tokLine_concat_blank ln a b c ta ha hopen' hlast hc

/-- **Leading blanks are one gap** (regenerated table): a non-empty run of blanks `c :: ws`
in front of `b` (which is empty or starts with a non-blank) only shifts the columns of `b`'s
tokens (or of its "Unrecognized token" position) by the length of the run.  Together with
`C10_concat_with_blank`: `a ++ blanks ++ b` tokenizes to the tokens of `a` and the shifted
tokens of `b`. -/
theorem C10_leading_blanks (ln : Nat) (c : Char) (ws b : List Char)
    (hws : (c :: ws).all isSpaceChar = true) (hb : ∀ y, b.head? = some y → isSpaceChar y = false) :
    (∀ tb, tokLine tokTable.pats ln b.length b 0 = .ok tb →
      tokLine tokTable.pats ln (c :: ws ++ b).length (c :: ws ++ b) 0 =
        .ok (tb.map (Token.shift (c :: ws).length))) ∧
    (∀ k, tokLine tokTable.pats ln b.length b 0 = .err k →
      tokLine tokTable.pats ln (c :: ws ++ b).length (c :: ws ++ b) 0 = .err (k + (c :: ws).length)) :=
  tokLine_blank_prefix ln hws hb

/-- **Pieces joined by single blanks tokenize piecewise** (the separability fact a formatter
needs).  `ps` = pieces with their own tokenizations: each piece non-empty, starting and ending
with a non-blank, `tokLine piece = ok toks` (`GoodPiece`); no piece but the last contains an
open-ended token.  Then the pieces joined by the blank `c` tokenize to the concatenation of the
pieces' token lists, each shifted to the column where its piece starts (`joinToks`). -/
theorem C10_join_with_blanks (ln : Nat) (c : Char) (hc : isSpaceChar c = true)
    (ps : List (List Char × List Token)) (hg : ∀ p ∈ ps, GoodPiece ln p)
    (ho : ∀ p ∈ ps.dropLast, ∀ t ∈ p.2, t.sym ≠ "Comment" ∧ t.sym ≠ "Documentation" ∧
      t.sym ≠ "BadDocumentation") :
    tokLine tokTable.pats ln (joinWith c (ps.map Prod.fst)).length (joinWith c (ps.map Prod.fst)) 0 =
      .ok (joinToks ps) := by
  apply tokLine_join ln c hc ps hg
  intro p hp t ht hopen
  obtain ⟨h1, h2, h3⟩ := ho p hp t ht
  rcases hopen with h | h | h
  · exact h1 h
  · exact h2 h
  · exact h3 h

/-- Non-vacuity of `C10_join_with_blanks` (by evaluation): three good pieces, the last one a comment. -/
example : GoodPiece 1 ("x+1".toList, [⟨"SnakeWord", ['x'], 1, 1, 1, 2⟩, ⟨"\"+\"", ['+'], 1, 2, 1, 3⟩,
      ⟨"Number", ['1'], 1, 3, 1, 4⟩]) ∧
    GoodPiece 1 ("\"s t\"".toList, [⟨"String", "\"s t\"".toList, 1, 1, 1, 6⟩]) ∧
    GoodPiece 1 ("# c".toList, [⟨"Comment", "# c".toList, 1, 1, 1, 4⟩]) ∧
    joinWith ' ' ["x+1".toList, "\"s t\"".toList, "# c".toList] = "x+1 \"s t\" # c".toList := by
  refine ⟨⟨by decide, by decide, by decide, by decide +kernel⟩, ⟨by decide, by decide, by decide, by decide +kernel⟩,
    ⟨by decide, by decide, by decide, by decide +kernel⟩, by decide⟩

/-- Non-vacuity (tests by evaluation): `x+1` and ` "s" y` are tokenized independently; so are
`1` and ` ~`, the error moving from offset 1 to offset 2. -/
example :
    tokLine tokTable.pats 1 3 "x+1".toList 0 = .ok [⟨"SnakeWord", ['x'], 1, 1, 1, 2⟩,
      ⟨"\"+\"", ['+'], 1, 2, 1, 3⟩, ⟨"Number", ['1'], 1, 3, 1, 4⟩] ∧
    tokLine tokTable.pats 1 6 " \"s\" y".toList 0 = .ok [⟨"String", "\"s\"".toList, 1, 2, 1, 5⟩,
      ⟨"SnakeWord", ['y'], 1, 6, 1, 7⟩] ∧
    tokLine tokTable.pats 1 9 "x+1 \"s\" y".toList 0 = .ok [⟨"SnakeWord", ['x'], 1, 1, 1, 2⟩,
      ⟨"\"+\"", ['+'], 1, 2, 1, 3⟩, ⟨"Number", ['1'], 1, 3, 1, 4⟩,
      ⟨"String", "\"s\"".toList, 1, 5, 1, 8⟩, ⟨"SnakeWord", ['y'], 1, 9, 1, 10⟩] ∧
    tokLine tokTable.pats 1 2 " ~".toList 0 = .err 1 ∧
    tokLine tokTable.pats 1 3 "1 ~".toList 0 = .err 2 := by
  refine ⟨?_, ?_, ?_, ?_, ?_⟩ <;> decide +kernel

/-- … and the hypotheses of `C10_concat_with_blank` are satisfiable: an instance (`a = "x+1"`, `c = ' '`, any `b`). -/
example (b : List Char) (tb : List Token)
    (hb : tokLine tokTable.pats 1 (' ' :: b).length (' ' :: b) 0 = .ok tb) :
    tokLine tokTable.pats 1 ("x+1".toList ++ ' ' :: b).length ("x+1".toList ++ ' ' :: b) 0 =
      .ok ([⟨"SnakeWord", ['x'], 1, 1, 1, 2⟩, ⟨"\"+\"", ['+'], 1, 2, 1, 3⟩, ⟨"Number", ['1'], 1, 3, 1, 4⟩] ++
        tb.map (Token.shift 3)) :=
  (C10_concat_with_blank 1 "x+1".toList b ' ' _ (by decide +kernel) (by decide) (by decide) (by decide)).1 tb hb

/-- The hypothesis about open-ended tokens is needed: a comment swallows what follows. -/
example : tokLine tokTable.pats 1 4 "#c x".toList 0 = .ok [⟨"Comment", "#c x".toList, 1, 1, 1, 5⟩] := by
  decide +kernel

/-! ## Classification of names and numbers (table-specific)

`WordRun w rest`: the tokenizer stands at the start of `w ++ rest`, `w` is a non-empty run
of `[A-Za-z0-9_$]` and `rest` does not continue it.  `bestMatch … 0 none` is the pattern
loop of `_tokenize_line` at that position; its result is (token length, symbol). -/

open Emboss.Tok.Class

/-- The token is the whole run, whatever it is. -/
theorem C10_word_run (w rest : List Char) (h : WordRun w rest) :
    ∃ sy, bestMatch tokTable.pats (w ++ rest) 0 none = some (w.length, sy) ∧
      IsBest tokTable.pats (w ++ rest) w.length sy :=
  word_run_best h

/-- **Names.**  A run starting with a letter, `_` or `$` is: the keyword / `$`-word literal
it equals; else BadWord if it has a reserved prefix (`EmbossReserved…`, `emboss_reserved…`,
`EMBOSS_RESERVED…` in the matching case style); else BooleanConstant for `true`/`false`;
else SnakeWord / ShoutyWord / CamelWord exactly per the reference's name rules
(`Class.isSnake`, `isShouty`, `isCamel`); else BadWord. -/
theorem C10_word_classes (w rest : List Char) (h : WordRun w rest)
    (hd : ∀ x t, w = x :: t → isDigit x = false) :
    bestMatch tokTable.pats (w ++ rest) 0 none = some (w.length, some (classifyWord w)) :=
  bestMatch_word h hd

example : WordRun "ab_1".toList " x".toList ∧ classifyWord "ab_1".toList = "SnakeWord" ∧
    classifyWord "AB_1".toList = "ShoutyWord" ∧ classifyWord "Ab1".toList = "CamelWord" ∧
    classifyWord "A1".toList = "BadWord" ∧ classifyWord "struct".toList = "\"struct\"" ∧
    classifyWord "structure".toList = "SnakeWord" ∧ classifyWord "emboss_reserved_x".toList = "BadWord" ∧
    classifyWord "true".toList = "BooleanConstant" ∧ classifyWord "$max".toList = "\"$max\"" ∧
    classifyWord "a$".toList = "BadWord" :=
  ⟨⟨by decide, by decide, by intro c hc; cases hc; decide⟩, by decide, by decide, by decide, by decide,
    by decide, by decide, by decide, by decide, by decide, by decide⟩

/-- **Numbers.**  A run starting with a digit is `Number` **iff** it is a numeric constant as
doc/language-reference.md ("Numeric Constant Formats") describes them (`IsNumberDoc`: decimal /
`0x` / `0b`, without separators or with 3-digit resp. consistent 4- or 8-digit groups,
optionally — for `0x`/`0b` — with a single `_` directly after the prefix before the first
group); otherwise it is `BadNumber` iff it has the catch-all number shape, else `BadWord`.
All strings, full statement (round 1 had `_partial`: the reference did not describe the
`0x_…` form until /repo commit 1c861f8). -/
theorem C10_number_classes (w rest : List Char) (h : WordRun w rest) (x : Char) (t : List Char)
    (hw : w = x :: t) (hx : isDigit x = true) :
    ∃ sym, bestMatch tokTable.pats (w ++ rest) 0 none = some (w.length, some sym) ∧
      (sym = "Number" ↔ IsNumberDoc w) ∧
      (sym = "BadNumber" ↔ ¬ IsNumberDoc w ∧ isBadNumberShape w = true) ∧
      (sym = "BadWord" ↔ ¬ IsNumberDoc w ∧ isBadNumberShape w = false) := by
  obtain ⟨sym, hb, h1, h2, h3⟩ := bestMatch_digit h x t hw hx
  refine ⟨sym, hb, ?_⟩
  by_cases hn : IsNumberDoc w
  · have := h1 hn; subst this
    exact ⟨⟨fun _ => hn, fun _ => rfl⟩, ⟨(fun hc => absurd hc (by decide)), fun hc => absurd hn hc.1⟩,
      ⟨(fun hc => absurd hc (by decide)), fun hc => absurd hn hc.1⟩⟩
  · cases hs : isBadNumberShape w with
    | true =>
      have := h2 hn hs; subst this
      exact ⟨⟨(fun hc => absurd hc (by decide)), fun hc => absurd hc hn⟩, ⟨fun _ => ⟨hn, rfl⟩, fun _ => rfl⟩,
        ⟨(fun hc => absurd hc (by decide)), (fun hc => by cases hc.2)⟩⟩
    | false =>
      have := h3 hn hs; subst this
      exact ⟨⟨(fun hc => absurd hc (by decide)), fun hc => absurd hc hn⟩, ⟨(fun hc => absurd hc (by decide)), (fun hc => by cases hc.2)⟩,
        ⟨fun _ => ⟨hn, rfl⟩, fun _ => rfl⟩⟩

/-- The classification theorems apply to every token of a real tokenization: a token of a
cover (of the regenerated table) that starts where a maximal word run `w` starts is exactly
`w`, with the symbol `C10_word_classes` / `C10_number_classes` give for `w`. -/
theorem C10_word_tokens (ln : Nat) (line : List Char) (segs : List Seg)
    (h : Covers tokTable.pats ln line 0 segs) (t : Token) (ht : t ∈ tokensOf segs)
    (w rest : List Char) (hs : line.drop (t.sc - 1) = w ++ rest) (hr : WordRun w rest) :
    t.text = w ∧
    ((∀ x u, w = x :: u → isDigit x = false) → t.sym = classifyWord w) ∧
    (∀ x u, w = x :: u → isDigit x = true →
      (t.sym = "Number" ↔ IsNumberDoc w) ∧
      (t.sym = "BadNumber" ↔ ¬ IsNumberDoc w ∧ isBadNumberShape w = true) ∧
      (t.sym = "BadWord" ↔ ¬ IsNumberDoc w ∧ isBadNumberShape w = false)) := by
  obtain ⟨htext, hb⟩ := cover_word_token h ht hs hr
  refine ⟨htext, ?_, ?_⟩
  · intro hd
    have := bestMatch_word hr hd
    rw [hb] at this
    simpa using this
  · intro x u hw hx
    obtain ⟨sym, hb', h1, h2, h3⟩ := C10_number_classes w rest hr x u hw hx
    rw [hb] at hb'
    have : t.sym = sym := by simpa using hb'
    rw [this]
    exact ⟨h1, h2, h3⟩

/-- Every token of a real tokenization that begins with a word character is a *maximal*
word run of its line: not preceded by a word character (no token of the table ends inside
a run) and extending to the end of the run — so `C10_word_tokens` applies to it with
`w = takeWhile isWordChar (line from its column)`. -/
theorem C10_word_tokens_are_maximal_runs (ln : Nat) (line : List Char) (segs : List Seg)
    (h : Covers tokTable.pats ln line 0 segs) (t : Token) (ht : t ∈ tokensOf segs)
    (c : Char) (hc : t.text.head? = some c) (hw : isWordChar c = true) :
    (t.sc = 1 ∨ ∃ a, line[t.sc - 2]? = some a ∧ isWordChar a = false) ∧
    t.text = (line.drop (t.sc - 1)).takeWhile isWordChar ∧
    WordRun ((line.drop (t.sc - 1)).takeWhile isWordChar) ((line.drop (t.sc - 1)).dropWhile isWordChar) := by
  obtain ⟨i1, i2⟩ := covers_run_starts h none (by intro a b ha; cases ha) t ht c hc hw
  have hrun : WordRun ((line.drop (t.sc - 1)).takeWhile isWordChar)
      ((line.drop (t.sc - 1)).dropWhile isWordChar) := by
    obtain ⟨_, _, _, h4, _, _, h7, _⟩ := h.token_facts t ht
    simp only [Nat.sub_zero] at h7
    refine ⟨?_, all_takeWhile _ _, fun b hb => head_dropWhile_not _ b hb⟩
    generalize line.drop (t.sc - 1) = u at h7
    cases u with
    | nil => rw [h7] at h4; simp at h4
    | cons x u' =>
      have : t.ec - t.sc ≠ 0 := by
        intro h0; rw [h0] at h7; simp at h7; exact h4 h7
      rw [h7, show t.ec - t.sc = (t.ec - t.sc - 1) + 1 by omega, List.take_succ_cons] at hc
      simp only [List.head?_cons, Option.some.injEq] at hc
      subst hc
      simp [hw]
  refine ⟨?_, (cover_word_token h ht (List.takeWhile_append_dropWhile).symm hrun).1, hrun⟩
  by_cases h1 : t.sc = 1
  · exact .inl h1
  · right
    obtain ⟨a, ha, hwa⟩ := i2 (by omega)
    exact ⟨a, by simpa using ha, hwa⟩

/-- Non-vacuity of `C10_number_classes`: documented forms (every kind the reference lists,
among them its own examples `0x_ff`, `0b_1010_0101`) and rejected ones. -/
example : IsNumberDoc "1_000".toList ∧ IsNumberDoc "0x1234_5678".toList ∧ IsNumberDoc "012".toList ∧
    IsNumberDoc "0b_1010_0101".toList ∧ IsNumberDoc "0x_ff".toList ∧
    isBadNumberShape "1000_000".toList = true := by
  refine ⟨.inl (.inl (.inr ⟨['1'], [['0', '0', '0']], by decide, by decide, by decide, by decide, by decide⟩)),
    .inl (.inr (.inl ⟨"1234_5678".toList, by decide, .inr (.inl
      ⟨['1', '2', '3', '4'], [['5', '6', '7', '8']], by decide, by decide, by decide, by decide, by decide⟩)⟩)),
    .inl (.inl (.inl (by decide))),
    .inr (.inr ⟨"1010_0101".toList, by decide, .inl
      ⟨['1', '0', '1', '0'], [['0', '1', '0', '1']], by decide, by decide, by decide, by decide, by decide⟩⟩),
    .inr (.inl ⟨"ff".toList, by decide, .inl
      ⟨['f', 'f'], [], by decide, by decide, by decide, by decide, by simp⟩⟩),
    by decide⟩

/-- Tests (by evaluation on the regenerated table) at the boundary of the new form: the
reference's examples are Numbers; two `_`, a 9-digit run after `0x_`, and mixed 4/8 groups
after `0x_` are BadNumber (and, by `C10_number_classes`, not `IsNumberDoc`). -/
example : bestMatch tokTable.pats "0x_ff".toList 0 none = some (5, some "Number") ∧
    bestMatch tokTable.pats "0x_1234_5678".toList 0 none = some (12, some "Number") ∧
    bestMatch tokTable.pats "0x__1".toList 0 none = some (5, some "BadNumber") ∧
    bestMatch tokTable.pats "0x_123456789".toList 0 none = some (12, some "BadNumber") ∧
    bestMatch tokTable.pats "0x_1234_5678_9abcdef0".toList 0 none = some (21, some "BadNumber") := by
  refine ⟨?_, ?_, ?_, ?_, ?_⟩ <;> decide +kernel

end Emboss.Tok
