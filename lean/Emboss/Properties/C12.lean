/-
C12 — Names resolve to the one lexically visible definition, or the module is rejected.

Property theorems only (helper lemmas: Emboss/Lemmas/Scope.lean, Emboss/Lemmas/ScopeTable.lean).
Model: Emboss/Model/Scope.lean (mirrors compiler/front_end/symbol_resolver.py and
ir_util.find_object).  Spec: Emboss/Spec/Scope.lean.
-/
import Emboss.Lemmas.Scope
import Emboss.Lemmas.ScopeTable
import Emboss.Lemmas.ScopeVisible
import Emboss.Lemmas.ScopeMembers
import Emboss.Lemmas.ScopeSyntax
namespace Emboss.Scope

/-! ## The visible scopes -/

/-- The scopes searched for a reference — (the field's own scope for a field attribute,) the
enclosing types innermost first, the module, the anonymously imported files — are pairwise
distinct **iff** the anonymous imports are distinct files other than the module itself.
(Round 1 carried `visible.Nodup` as a hypothesis; the theorems about references below now
assume only this condition on the import list.) -/
theorem C12_visible_nodup (c : Ctx) : c.visible.Nodup ↔ c.WellFormed :=
  visible_nodup_iff c

/-! ## The search over the visible scopes -/

/-- A (user-written) name is bound to scope `s` without complaint iff `s` is the *only*
visible scope that offers it. -/
theorem C12_head_unique (T : Table) (cur : Path) (name : String) (vis : List Path)
    (hn : vis.Nodup) (s : Path) :
    searchLoop T cur name false vis none = (some s, []) ↔ UniqueCandidate T cur vis name s := by
  rw [searchLoop_false, ← filter_eq_singleton_iff T cur name vis hn]
  cases h : vis.filter (isHit T cur name) with
  | nil => simp
  | cons a r =>
    cases r with
    | nil => simp
    | cons b r => simp

/-- Nothing is found iff no visible scope offers the name. -/
theorem C12_head_missing (T : Table) (cur : Path) (name : String) (isLocal : Bool)
    (vis : List Path) :
    (searchLoop T cur name isLocal vis none).1 = none ↔ NoCandidate T cur vis name := by
  rw [← filter_eq_nil_iff]
  cases isLocal with
  | false =>
    rw [searchLoop_false]
    cases h : vis.filter (isHit T cur name) with
    | nil => simp
    | cons a r => simp
  | true =>
    rw [searchLoop_true]
    simp [List.find?_eq_none, List.filter_eq_nil_iff]

/-- An `Ambiguous name` error is recorded iff at least two visible scopes offer the name:
the reference is never resolved by precedence (inner scope, declaration order, …). -/
theorem C12_head_ambiguous (T : Table) (cur : Path) (name : String) (vis : List Path)
    (hn : vis.Nodup) :
    (searchLoop T cur name false vis none).2 ≠ [] ↔ TwoCandidates T cur vis name := by
  rw [searchLoop_false, ← filter_two_iff T cur name vis hn]
  cases h : vis.filter (isHit T cur name) with
  | nil => simp
  | cons a r =>
    cases r with
    | nil => simp
    | cons b r => simp

/-- The `is_local_name` exception (compiler-made reference from an inline field to its own,
possibly hoisted, type): the innermost offering scope, and never an ambiguity error. -/
theorem C12_head_local (T : Table) (cur : Path) (name : String) (vis : List Path) (s : Path) :
    (searchLoop T cur name true vis none = (some s, []) ↔ Innermost T cur vis name s) ∧
      (searchLoop T cur name true vis none).2 = [] := by
  rw [searchLoop_true, ← find_eq_some_iff_innermost]
  simp

/-! ## One reference -/

theorem resolveRef_ok_iff (T : Table) (r : Ref) (n : String) (l : Nat) (rest : List (String × Nat))
    (hnames : r.names = (n, l) :: rest) (hn : r.ctx.visible.Nodup) (d : Path) :
    resolveRef T true r = (some d, []) ↔
      ∃ s e, HeadScope T r n s ∧ Walks T s (r.names.map (·.1)) e ∧ e.canon = d := by
  unfold resolveRef HeadScope
  rw [hnames]
  simp only
  cases hl : r.isLocal with
  | true =>
    rw [searchLoop_true]
    simp only [Bool.true_and]
    cases hf : r.ctx.visible.find? (isHit T r.ctx.cur n) with
    | none =>
      simp only [reduceCtorEq, Prod.mk.injEq, false_and, if_true, false_iff, not_exists]
      intro s e ⟨hi, _⟩
      rw [← find_eq_some_iff_innermost, hf] at hi
      cases hi
    | some s =>
      simp only [List.map_nil, List.isEmpty_nil, if_true]
      constructor
      · intro h
        cases hw : walk T s none ((n, l) :: rest) with
        | ok e =>
          rw [hw] at h
          simp only [Prod.mk.injEq, Option.some.injEq, and_true] at h
          exact ⟨s, e, (find_eq_some_iff_innermost ..).1 hf, (walk_ok_iff ..).1 hw, h⟩
        | missing m k => rw [hw] at h; simp at h
        | badAlias m k => rw [hw] at h; simp at h
      · intro ⟨s', e, hi, hw, hd⟩
        rw [← find_eq_some_iff_innermost, hf] at hi
        cases hi
        rw [(walk_ok_iff T s none (n, l) rest e).2 hw]
        simp only [hd]
  | false =>
    rw [searchLoop_false]
    simp only [Bool.true_and, Bool.false_eq_true, if_false]
    cases hf : r.ctx.visible.filter (isHit T r.ctx.cur n) with
    | nil =>
      simp only [reduceCtorEq, Prod.mk.injEq, false_and, false_iff, not_exists]
      intro s e ⟨hu, _⟩
      rw [← filter_eq_singleton_iff T _ _ _ hn, hf] at hu
      cases hu
    | cons s more =>
      cases more with
      | nil =>
        simp only [List.map_nil, List.isEmpty_nil, if_true]
        constructor
        · intro h
          cases hw : walk T s none ((n, l) :: rest) with
          | ok e =>
            rw [hw] at h
            simp only [Prod.mk.injEq, Option.some.injEq, and_true] at h
            exact ⟨s, e, (filter_eq_singleton_iff T _ _ _ hn s).1 hf, (walk_ok_iff ..).1 hw, h⟩
          | missing m k => rw [hw] at h; simp at h
          | badAlias m k => rw [hw] at h; simp at h
        · intro ⟨s', e, hu, hw, hd⟩
          rw [← filter_eq_singleton_iff T _ _ _ hn, hf] at hu
          cases hu
          rw [(walk_ok_iff T s none (n, l) rest e).2 hw]
          simp only [hd]
      | cons b more =>
        simp only [List.map_cons, List.isEmpty_cons, Bool.false_eq_true, if_false, reduceCtorEq,
          Prod.mk.injEq, false_and, false_iff, not_exists]
        intro s' e ⟨hu, _⟩
        rw [← filter_eq_singleton_iff T _ _ _ hn, hf] at hu
        cases hu

/-- **Main theorem.**  A reference is bound to `d` (no error recorded) iff `d` is what the
scoping rules designate: the head name is offered by exactly one visible scope (for
compiler-made `is_local_name` references: the innermost offering scope), and the dotted tail
walks the member tables from there.  `hw`: the anonymous imports are distinct files other than
the module (⇔ the visible scopes are pairwise distinct, `C12_visible_nodup`). -/
theorem C12_resolve_iff_unique (T : Table) (r : Ref) (hw : r.ctx.WellFormed) (d : Path) :
    resolveRef T true r = (some d, []) ↔ Resolves T r d := by
  have hn : r.ctx.visible.Nodup := (C12_visible_nodup r.ctx).2 hw
  unfold Resolves
  cases hnames : r.names with
  | nil =>
    constructor
    · intro h
      unfold resolveRef at h
      rw [hnames] at h
      simp at h
    · intro ⟨n, l, rest, s, e, h, _⟩
      cases h
  | cons nl rest =>
    obtain ⟨n, l⟩ := nl
    rw [← hnames, resolveRef_ok_iff T r n l rest hnames hn d]
    constructor
    · intro ⟨s, e, h1, h2, h3⟩
      exact ⟨n, l, rest, s, e, hnames, h1, h2, h3⟩
    · intro ⟨n', l', rest', s, e, h0, h1, h2, h3⟩
      rw [hnames] at h0
      cases h0
      exact ⟨s, e, h1, h2, h3⟩

/-- No visible scope offers the head name ⇒ `No candidate for …`, nothing bound. -/
theorem C12_resolve_missing (T : Table) (clean : Bool) (r : Ref) (n : String) (l : Nat)
    (rest : List (String × Nat)) (hnames : r.names = (n, l) :: rest)
    (h : NoCandidate T r.ctx.cur r.ctx.visible n) :
    resolveRef T clean r = (none, [Err.missing n l]) := by
  have := (C12_head_missing T r.ctx.cur n r.isLocal r.ctx.visible).2 h
  unfold resolveRef
  rw [hnames]
  simp only [this]

/-- Two visible scopes offer the head name of a user-written reference ⇒ nothing is bound and
an `Ambiguous name` error is recorded — whatever the order of the scopes. -/
theorem C12_resolve_ambiguous (T : Table) (clean : Bool) (r : Ref) (n : String) (l : Nat)
    (rest : List (String × Nat)) (hnames : r.names = (n, l) :: rest) (hloc : r.isLocal = false)
    (hw : r.ctx.WellFormed) (h : TwoCandidates T r.ctx.cur r.ctx.visible n) :
    ∃ a b es, resolveRef T clean r = (none, Err.ambiguous n r.loc a b :: es) := by
  have hn : r.ctx.visible.Nodup := (C12_visible_nodup r.ctx).2 hw
  obtain ⟨a, b, more, hf⟩ := (filter_two_iff T r.ctx.cur n r.ctx.visible hn).2 h
  unfold resolveRef
  rw [hnames]
  simp only [hloc, searchLoop_false, hf, List.map_cons, List.isEmpty_cons, Bool.and_false,
    Bool.false_eq_true, if_false]
  exact ⟨_, _, _, rfl⟩

/-! ## A whole pass -/

theorem resolveRefs_errs_prefix (T : Table) (refs : List Ref) (errs : List Err) :
    ∃ more, (resolveRefs T refs errs).2 = errs ++ more := by
  induction refs generalizing errs with
  | nil => exact ⟨[], by simp [resolveRefs]⟩
  | cons r rs ih =>
    obtain ⟨more, hm⟩ := ih (errs ++ (resolveRef T errs.isEmpty r).2)
    exact ⟨(resolveRef T errs.isEmpty r).2 ++ more, by simp [resolveRefs, hm]⟩

theorem resolveRef_clean_ok (T : Table) (r : Ref) (hne : r.names ≠ []) (x : Option Path)
    (h : resolveRef T true r = (x, [])) : ∃ d, x = some d := by
  unfold resolveRef at h
  cases hnames : r.names with
  | nil => exact absurd hnames hne
  | cons nl rest =>
    obtain ⟨n, l⟩ := nl
    rw [hnames] at h
    simp only at h
    split at h
    · simp at h
    · split at h
      · split at h
        · simp only [Prod.mk.injEq] at h
          exact ⟨_, h.1.symm⟩
        · simp at h
        · simp at h
      · rename_i hc
        simp only [Bool.true_and, Bool.not_eq_true, List.isEmpty_eq_false_iff] at hc
        simp only [Prod.mk.injEq] at h
        exact absurd h.2 hc

/-- If a pass over the references of a module records no error, then **every** reference was
bound, and bound to exactly what the scoping rules designate (accepted ⇒ all resolved).
`hne`: references have at least one name component (the parser never builds an empty one);
`hnd`: anonymous imports distinct and other than the module (`C12_visible_nodup`). -/
theorem C12_accepted_all_resolved (T : Table) (refs : List Ref) (os : List (Option Path))
    (hne : ∀ r ∈ refs, r.names ≠ []) (hnd : ∀ r ∈ refs, r.ctx.WellFormed)
    (h : resolveRefs T refs [] = (os, [])) : AllResolved T refs os := by
  induction refs generalizing os with
  | nil =>
    simp only [resolveRefs, Prod.mk.injEq] at h
    rw [← h.1]
    exact AllResolved.nil
  | cons r rs ih =>
    simp only [resolveRefs, List.isEmpty_nil, List.nil_append, Prod.mk.injEq] at h
    obtain ⟨h1, h2⟩ := h
    obtain ⟨more, hm⟩ := resolveRefs_errs_prefix T rs (resolveRef T true r).2
    rw [h2] at hm
    have hx : (resolveRef T true r).2 = [] := (List.append_eq_nil_iff.1 hm.symm).1
    have hpair : resolveRef T true r = ((resolveRef T true r).1, []) := by
      rw [← hx]
    obtain ⟨d, hd⟩ := resolveRef_clean_ok T r (hne r (by simp)) _ hpair
    rw [hd] at hpair
    have hres := (C12_resolve_iff_unique T r (hnd r (by simp)) d).1 hpair
    rw [hx] at h2
    have := ih (resolveRefs T rs []).1 (fun r hr => hne r (List.mem_cons_of_mem _ hr))
      (fun r hr => hnd r (List.mem_cons_of_mem _ hr)) (Prod.ext rfl h2)
    rw [← h1, hd, hx]
    exact AllResolved.cons hres this

/-- The converse: if every reference of a pass is resolvable per the scoping rules (each to the
`d` listed in `os`), the pass records no error and binds exactly those — a module is never
rejected by the reference passes without a reason. -/
theorem C12_all_resolved_accepted (T : Table) (refs : List Ref) (os : List (Option Path))
    (hnd : ∀ r ∈ refs, r.ctx.WellFormed) (h : AllResolved T refs os) :
    resolveRefs T refs [] = (os, []) := by
  induction h with
  | nil => simp [resolveRefs]
  | @cons r rs d os hres _ ih =>
    have h1 := (C12_resolve_iff_unique T r (hnd r (by simp)) d).2 hres
    have h2 := ih (fun r hr => hnd r (List.mem_cons_of_mem _ hr))
    simp [resolveRefs, h1, h2]

/-- Accepted ⇔ all resolved, with the bindings the rules designate. -/
theorem C12_accepted_iff_all_resolved (T : Table) (refs : List Ref) (os : List (Option Path))
    (hne : ∀ r ∈ refs, r.names ≠ []) (hnd : ∀ r ∈ refs, r.ctx.WellFormed) :
    resolveRefs T refs [] = (os, []) ↔ AllResolved T refs os :=
  ⟨C12_accepted_all_resolved T refs os hne hnd, C12_all_resolved_accepted T refs os hnd⟩

/-! ## `resolve_symbols` as a whole -/

theorem allSome_eq_some (l : List (Option Path)) (ps : List Path) :
    allSome l = some ps ↔ l = ps.map some := by
  induction l generalizing ps with
  | nil =>
    cases ps <;> simp [allSome]
  | cons x xs ih =>
    cases x with
    | none => cases ps <;> simp [allSome]
    | some p =>
      cases ps with
      | nil => simp [allSome]
      | cons q qs =>
        simp only [allSome, Option.map_eq_some_iff, List.map_cons, List.cons.injEq,
          Option.some.injEq]
        constructor
        · intro ⟨a, ha, hpq⟩
          obtain ⟨rfl, rfl⟩ := hpq
          exact ⟨rfl, (ih _).1 ha⟩
        · intro ⟨hpq, hxs⟩
          exact ⟨qs, (ih _).2 hxs, by rw [hpq]; exact ⟨rfl, rfl⟩⟩

theorem resolveHeads_errs_prefix (T : Table) (refs : List Ref) (errs : List Err) :
    ∃ more, (resolveHeads T refs errs).2 = errs ++ more := by
  induction refs generalizing errs with
  | nil => exact ⟨[], by simp [resolveHeads]⟩
  | cons r rs ih =>
    obtain ⟨more, hm⟩ := ih (errs ++ (resolveHead T errs.isEmpty r).2)
    exact ⟨(resolveHead T errs.isEmpty r).2 ++ more, by simp [resolveHeads, hm]⟩

/-- what `resolveHead` adds to `resolveRef`: nothing, unless the head is bound to a module -/
theorem resolveHead_nil_iff (T : Table) (r : Ref) (o : Option Path) :
    resolveHead T true r = (o, []) ↔
      resolveRef T true r = (o, []) ∧ ∀ d, o = some d → d.length ≠ 1 := by
  unfold resolveHead
  cases hx : resolveRef T true r with
  | mk x1 x2 =>
    simp only
    cases x1 with
    | none =>
      simp only [Prod.mk.injEq]
      constructor
      · rintro ⟨rfl, rfl⟩; exact ⟨⟨rfl, rfl⟩, fun d h => by cases h⟩
      · rintro ⟨⟨rfl, rfl⟩, _⟩; exact ⟨rfl, rfl⟩
    | some d =>
      cases hn : r.names with
      | nil =>
        simp only [Prod.mk.injEq]
        constructor
        · rintro ⟨rfl, rfl⟩
          simp [resolveRef, hn] at hx
        · rintro ⟨⟨rfl, rfl⟩, _⟩; exact ⟨rfl, rfl⟩
      | cons nl rest =>
        obtain ⟨n, l⟩ := nl
        simp only
        by_cases hd : d.length = 1
        · simp only [hd, if_true, Prod.mk.injEq]
          constructor
          · rintro ⟨_, h⟩; simp at h
          · rintro ⟨⟨rfl, _⟩, h⟩; exact absurd hd (h d rfl)
        · simp only [hd, if_false, Prod.mk.injEq]
          constructor
          · rintro ⟨rfl, rfl⟩; exact ⟨⟨rfl, rfl⟩, fun d' h => by cases h; exact hd⟩
          · rintro ⟨⟨rfl, rfl⟩, _⟩; exact ⟨rfl, rfl⟩

theorem resolveHeads_nil_iff (T : Table) (refs : List Ref) (os : List (Option Path)) :
    resolveHeads T refs [] = (os, []) ↔
      resolveRefs T refs [] = (os, []) ∧ ∀ d, some d ∈ os → d.length ≠ 1 := by
  induction refs generalizing os with
  | nil =>
    simp only [resolveHeads, resolveRefs, Prod.mk.injEq, and_true]
    constructor
    · rintro rfl; exact ⟨rfl, fun d h => nomatch h⟩
    · rintro ⟨rfl, _⟩; rfl
  | cons r rs ih =>
    simp only [resolveHeads, resolveRefs, List.isEmpty_nil, List.nil_append, Prod.mk.injEq]
    constructor
    · rintro ⟨ho, he⟩
      obtain ⟨more, hm⟩ := resolveHeads_errs_prefix T rs (resolveHead T true r).2
      rw [he] at hm
      have h2 : (resolveHead T true r).2 = [] := (List.append_eq_nil_iff.1 hm.symm).1
      have hh := (resolveHead_nil_iff T r (resolveHead T true r).1).1 (Prod.ext rfl h2)
      rw [h2] at ho he
      have hrest := (ih (resolveHeads T rs []).1).1 (Prod.ext rfl he)
      have h1 : (resolveRef T true r).2 = [] := by rw [hh.1]
      have h1' : (resolveRef T true r).1 = (resolveHead T true r).1 := by rw [hh.1]
      rw [h1]
      refine ⟨⟨by rw [h1', hrest.1]; exact ho, by rw [hrest.1]⟩, ?_⟩
      intro d hd
      rw [← ho] at hd
      rcases List.mem_cons.1 hd with hd | hd
      · exact hh.2 d hd.symm
      · exact hrest.2 d hd
    · rintro ⟨⟨ho, he⟩, hlen⟩
      obtain ⟨more, hm⟩ := resolveRefs_errs_prefix T rs (resolveRef T true r).2
      rw [he] at hm
      have h2 : (resolveRef T true r).2 = [] := (List.append_eq_nil_iff.1 hm.symm).1
      rw [h2] at ho he
      have hmem : ∀ d, some d ∈ (resolveRef T true r).1 :: (resolveRefs T rs []).1 → d.length ≠ 1 := by
        rw [ho]; exact hlen
      have hh := (resolveHead_nil_iff T r (resolveRef T true r).1).2
        ⟨Prod.ext rfl h2, fun d hd => hmem d (by rw [hd]; exact List.mem_cons_self ..)⟩
      have hrest := (ih (resolveRefs T rs []).1).2
        ⟨Prod.ext rfl he, fun d hd => hmem d (List.mem_cons_of_mem _ hd)⟩
      rw [hh]
      simp only [hrest]
      exact ⟨ho, trivial⟩

/-- **End to end.**  `resolve_symbols` (table construction, imports, the pass over the plain
references, the pass over the heads of the field references — sharing one error list) accepts a
module set and binds the references to `ra` / the heads to `rb` (none of them to a whole module:
an import alias is no field) **iff** no scope is given a name
twice (`fullTable` reports no error) and every
reference — those in module-level attributes included, whose current scope is the module — is resolvable per the scoping rules, to exactly these definitions.  So an accepted
module has every name bound to the one lexically visible definition, and a module is rejected
only if a name is defined twice, undefined, or visible from two scopes. -/
theorem C12_resolve_symbols_iff (M : ModuleDesc) (refs : List Ref) (frefs : List FRef)
    (ra rb : List Path)
    (hne : ∀ r ∈ refs, r.names ≠ []) (hne' : ∀ f ∈ frefs, f.path ≠ [])
    (hnd : ∀ r ∈ refs, r.ctx.WellFormed) (hnd' : ∀ f ∈ frefs, f.ctx.WellFormed) :
    (match resolveSymbols M refs frefs with
      | .resolved a b => a = ra ∧ b = rb
      | _ => False) ↔
      ((fullTable M).2 = [] ∧
       AllResolved (fullTable M).1 refs (ra.map some) ∧
       AllResolved (fullTable M).1 (frefs.map headRef) (rb.map some) ∧
       ∀ d ∈ rb, d.length ≠ 1) := by
  have hneH : ∀ r ∈ frefs.map headRef, r.names ≠ [] := by
    intro r hr
    obtain ⟨f, hf, rfl⟩ := List.mem_map.1 hr
    have := hne' f hf
    unfold headRef
    cases hp : f.path with
    | nil => exact absurd hp this
    | cons p ps => simp
  have hndH : ∀ r ∈ frefs.map headRef, r.ctx.WellFormed := by
    intro r hr
    obtain ⟨f, hf, rfl⟩ := List.mem_map.1 hr
    have := hnd' f hf
    unfold headRef
    cases hp : f.path <;> exact this
  have hlen : ∀ (l : List Path), (∀ d, some d ∈ l.map some → d.length ≠ 1) ↔ ∀ d ∈ l, d.length ≠ 1 := by
    intro l
    constructor
    · intro h d hd; exact h d (List.mem_map.2 ⟨d, hd, rfl⟩)
    · intro h d hd
      obtain ⟨d', hd', he⟩ := List.mem_map.1 hd
      cases he
      exact h d hd'
  unfold resolveSymbols
  simp only
  by_cases h1 : (fullTable M).2 = []
  · simp only [h1, ne_eq, not_true_eq_false, if_false, true_and]
    obtain ⟨more, hm⟩ := resolveHeads_errs_prefix (fullTable M).1 (frefs.map headRef)
      (resolveRefs (fullTable M).1 refs []).2
    by_cases h3 : (resolveHeads (fullTable M).1 (frefs.map headRef)
        (resolveRefs (fullTable M).1 refs []).2).2 = []
    · simp only [h3, not_true_eq_false, if_false]
      rw [h3] at hm
      have ha2 : (resolveRefs (fullTable M).1 refs []).2 = [] :=
        (List.append_eq_nil_iff.1 hm.symm).1
      rw [ha2] at h3 ⊢
      have hA := C12_accepted_iff_all_resolved (fullTable M).1 refs
        (resolveRefs (fullTable M).1 refs []).1 hne hnd
      have hH := (resolveHeads_nil_iff (fullTable M).1 (frefs.map headRef)
        (resolveHeads (fullTable M).1 (frefs.map headRef) []).1).1 (Prod.ext rfl h3)
      have hB := C12_accepted_iff_all_resolved (fullTable M).1 (frefs.map headRef)
        (resolveHeads (fullTable M).1 (frefs.map headRef) []).1 hneH hndH
      have hA' := hA.1 (Prod.ext rfl ha2)
      have hB' := hB.1 hH.1
      constructor
      · intro h
        cases hxa : allSome (resolveRefs (fullTable M).1 refs []).1 with
        | none => simp [hxa] at h
        | some xa =>
          cases hxb : allSome (resolveHeads (fullTable M).1 (frefs.map headRef) []).1 with
          | none => simp [hxa, hxb] at h
          | some xb =>
            simp only [hxa, hxb] at h
            obtain ⟨rfl, rfl⟩ := h
            rw [allSome_eq_some] at hxa hxb
            rw [← hxa, ← hxb]
            refine ⟨hA', hB', ?_⟩
            rw [← hlen, ← hxb]
            exact hH.2
      · intro ⟨hRa, hRb, hL⟩
        have e1 := C12_all_resolved_accepted _ _ _ hnd hRa
        have e2 := C12_all_resolved_accepted _ _ _ hndH hRb
        have e3 := (resolveHeads_nil_iff _ _ _).2 ⟨e2, (hlen rb).2 hL⟩
        rw [e1, e3]
        simp only [(allSome_eq_some _ _).2 rfl, and_self]
    · simp only [h3, not_false_eq_true, if_true, false_iff, not_and]
      intro hRa hRb hL
      have e1 := C12_all_resolved_accepted _ _ _ hnd hRa
      have e2 := C12_all_resolved_accepted _ _ _ hndH hRb
      have e3 := (resolveHeads_nil_iff _ _ _).2 ⟨e2, (hlen rb).2 hL⟩
      rw [e1] at h3
      rw [e3] at h3
      exact h3 rfl
  · simp [h1]

/-! ## Duplicate definitions -/

/-- `_construct_symbol_tables` accepts a module set iff no scope is given the same name twice
(type names, enum values, fields, abbreviations, parameters, `this`); in particular two
definitions of one name in one scope always reject the module. -/
theorem C12_duplicates_rejected (M : ModuleDesc) :
    (construct M).2 = [] ↔ ((stage1 M ++ stage2 M).map Decl.key).Nodup :=
  construct_ok_iff M

/-- … stated for two concrete definitions. -/
theorem C12_duplicates_rejected_pair (M : ModuleDesc) (i j : Nat) (hij : i < j)
    (hj : j < (stage1 M ++ stage2 M).length)
    (hk : ((stage1 M ++ stage2 M)[i]'(Nat.lt_trans hij hj)).key = ((stage1 M ++ stage2 M)[j]'hj).key) :
    (construct M).2 ≠ [] := by
  intro h
  have hnd := (construct_ok_iff M).1 h
  rw [List.nodup_iff_pairwise_ne, List.pairwise_iff_getElem] at hnd
  have := hnd i j (by simpa using Nat.lt_trans hij hj) (by simpa using hj) hij
  simp only [List.getElem_map] at this
  exact this hk

/-! ## Canonical names -/

/-- In an accepted module set the canonical names of all definitions (modules, types, enum
values, fields, parameters) are pairwise distinct, and `find_object` applied to the
canonical name of a definition returns that definition. -/
theorem C12_canonical_roundtrip (M : ModuleDesc) (h : (construct M).2 = []) :
    ((objects M).map (·.canon)).Nodup ∧
      ∀ o ∈ objects M, findObject (objects M) o.canon = some o := by
  have hnd : ((objects M).map (·.canon)).Nodup :=
    ((construct_ok_iff M).1 h).sublist (objects_canon_sublist M)
  exact ⟨hnd, fun o ho => find_of_nodup _ hnd o ho⟩

/-! ## Abbreviations (and every other non-searchable name) -/

/-- A LOCAL or PRIVATE entry — a field, an abbreviation, `this`, a parameter, an enum value —
is found by the scope search only from the very scope it is defined in: whatever the search
returns as first hit or as ambiguity candidate, if the entry there is not SEARCHABLE then that
scope is the scope the reference was written in.  In particular an abbreviation is never the
head target of a reference from outside its structure. -/
theorem C12_abbreviation_private (T : Table) (cur : Path) (name : String) (isLocal : Bool)
    (vis : List Path) (f : Option Path) (more : List Path)
    (h : searchLoop T cur name isLocal vis none = (f, more)) (s : Path)
    (hs : f = some s ∨ s ∈ more) (e : Entry) (he : lookup T (s ++ [name]) = some e)
    (hv : e.vis ≠ Vis.search) : s = cur := by
  have hit : isHit T cur name s = true := by
    cases isLocal with
    | true =>
      rw [searchLoop_true] at h
      cases h
      rcases hs with hs | hs
      · exact List.find?_some hs
      · cases hs
    | false =>
      rw [searchLoop_false] at h
      cases hf : vis.filter (isHit T cur name) with
      | nil =>
        rw [hf] at h
        cases h
        rcases hs with hs | hs <;> cases hs
      | cons a r =>
        rw [hf] at h
        cases h
        have : s ∈ vis.filter (isHit T cur name) := by
          rw [hf]
          rcases hs with hs | hs
          · cases hs; simp
          · exact List.mem_cons_of_mem _ hs
        exact (List.mem_filter.1 this).2
  unfold isHit at hit
  rw [he] at hit
  simp only [Bool.or_eq_true, decide_eq_true_eq] at hit
  rcases hit with h1 | h1
  · exact h1
  · exact absurd h1 hv

/-! ## Member lookup -/

/-- **The alias-following loop terminates by itself** (fix 22b80e8 of /repo: the loop keeps the
list of fields it has visited).  `fuel` — the answer of the model when the iteration budget of
`while ir_util.field_is_virtual(previous_field)` is used up — is *never* the answer for any
field reference of any module, whatever the nesting budget: the budget the model gives the loop
(one iteration per definition of the module, and one more) always suffices, because the visited
fields are pairwise distinct definitions.  Before the fix the loop did not end on a renaming
that leads back to itself (`let g = f.g`), and the model answered `fuel` there for every
budget. -/
theorem C12_member_lookup_total (E : FEnv) (depth i : Nat) : resolveFRef E depth i ≠ .fuel :=
  resolveFRef_ne_fuel E depth i

/-- The same for the loop alone, started (nothing visited yet) at any definition of the
module, with whatever the nested calls answer — as long as those do not answer `fuel`. -/
theorem C12_member_lookup_total_loop (E : FEnv) (res : Nat → FRes) (hres : ∀ i, res i ≠ .fuel)
    (o : Obj) (ho : o ∈ E.objs) (prev : PathElem) : physical E res o prev ≠ .inl .fuel :=
  physLoop_ne_fuel E.objs res hres _ o prev [] (LoopInv.init _) ho

/-- **Member lookup, full statement.**  Whenever `_resolve_field_reference` comes to an answer
for the `i`-th field reference (`hF`: the nesting budget given was enough — `recursion` is a
distinct output of the model, the Python raises RecursionError, and the harness reports it), it
binds the path to `cs` **iff** the member rules of the spec derive `cs`: the head as bound by
the scope search, every further element looked up in the type of the physical field behind the
previous element, renaming virtual fields (`let a = x.y`) followed — through pairwise distinct
fields — to what they rename, and in nothing else. -/
theorem C12_member_lookup (E : FEnv) (F i : Nat) (hF : resolveFRef E F i ≠ .recursion)
    (cs : List Path) : resolveFRef E F i = .ok cs ↔ PathBound E i cs := by
  constructor
  · exact (resolveFRef_sound E F).1 i cs
  · intro h
    obtain ⟨f, hf⟩ := member_complete E _ h
    have h1 := resolveFRef_mono E F (max F f) i (Nat.le_max_left ..) hF
    rw [← h1]
    exact hf _ (Nat.le_max_right ..)

/-- The answer does not depend on the nesting budget once it is not `recursion`. -/
theorem C12_member_lookup_depth (E : FEnv) (F F' i : Nat) (hle : F ≤ F')
    (hF : resolveFRef E F i ≠ .recursion) : resolveFRef E F' i = resolveFRef E F i :=
  resolveFRef_mono E F F' i hle hF

/-- **Member lookup, the rejections.**  Under the same proviso, the path is rejected with
error `e` **iff** the spec's failure rules derive `e`: the renamings from the definition reached
end in something that is not a field, in a virtual field that is not a plain renaming, or in a
renaming field already passed (`noncomposite`, located at the element naming it), the physical
field behind it is an array (`arrayMember`), or its type has no member of that name (`missing`,
located at the member name).  Together with `C12_member_lookup`: a field path is bound exactly
when it is right and rejected exactly when it is wrong in one of these ways; the only other
answers are the silent `bail` (the renamed reference is itself rejected — its own error is
reported where it stands), `crash` (internal inconsistency, never observed) and `recursion`. -/
theorem C12_member_lookup_rejects (E : FEnv) (F i : Nat) (hF : resolveFRef E F i ≠ .recursion)
    (e : Err) : resolveFRef E F i = .err e ↔ PathRejected E i e := by
  constructor
  · exact (resolveFRef_sound E F).2 i e
  · intro h
    obtain ⟨f, hf⟩ := member_fail_complete E _ h
    have h1 := resolveFRef_mono E F (max F f) i (Nat.le_max_left ..) hF
    rw [← h1]
    exact hf _ (Nat.le_max_right ..)

/-- The only errors the member loop reports are `Cannot access member of array`,
`Cannot access member of noncomposite field` and `No candidate for`. -/
theorem C12_member_lookup_errors (E : FEnv) (F i : Nat) (e : Err)
    (h : resolveFRef E F i = .err e) :
    (∃ n l, e = .arrayMember n l) ∨ (∃ n l, e = .noncomposite n l) ∨ (∃ n l, e = .missing n l) := by
  have := member_err_kinds E F i e h
  cases e with
  | arrayMember n l => exact Or.inl ⟨n, l, rfl⟩
  | noncomposite n l => exact Or.inr (Or.inl ⟨n, l, rfl⟩)
  | missing n l => exact Or.inr (Or.inr ⟨n, l, rfl⟩)
  | duplicate _ _ _ => exact absurd this (by simp [MemberErrKind])
  | ambiguous _ _ _ _ => exact absurd this (by simp [MemberErrKind])
  | badAlias _ _ => exact absurd this (by simp [MemberErrKind])
  | moduleAsField _ _ => exact absurd this (by simp [MemberErrKind])

/-- Corollary in the round-1 form: every bound path element is named `… ++ [its own name]` and
is an existing definition. -/
theorem C12_member_lookup_names (E : FEnv) (depth : Nat) (o : Obj) (prev : PathElem)
    (rs : List PathElem) (acc cs : List Path)
    (h : members E (resolveFRef E depth) o prev rs acc = .ok cs) :
    ∃ ms, cs = acc ++ ms ∧ MembersBound E.objs rs ms := by
  obtain ⟨ms, hcs, hm⟩ :=
    (members_sound E _ (resolveFRef_sound E depth).1 rs o prev acc).1 cs h
  refine ⟨ms, hcs, ?_⟩
  clear hcs h
  generalize hj : MemberJudgement.mem o rs ms = j at hm
  induction hm generalizing o rs ms with
  | memNil => cases hj; exact MembersBound.nil
  | memCons _ _ _ _ hf _ _ ih2 =>
    cases hj
    exact MembersBound.cons (by simp) (by simp [hf]) (ih2 _ _ _ rfl)
  | _ => cases hj

/-! ## Non-vacuity, tests and counterexamples (concrete instances, by evaluation) -/

/-- `struct Bar` at module level and `struct Bar` nested in `Foo`, a field `x` of type `Foo.Bar`
with abbreviation `a`; `UInt` from the prelude. -/
def exM : ModuleDesc :=
  { modules := ["m.emb", ""],
    types := [⟨["m.emb"], "Bar", 1⟩, ⟨["m.emb"], "Foo", 2⟩, ⟨["m.emb", "Foo"], "Bar", 3⟩,
              ⟨["m.emb", "Foo"], "Qux", 4⟩, ⟨[""], "UInt", 5⟩],
    values := [],
    fields := [⟨["m.emb", "Foo"], "long_name", 6, some ("ln", 7), 8, .atomic 0⟩,
               ⟨["m.emb", "Bar"], "y", 9, none, 10, .atomic 1⟩],
    params := [],
    imports := [⟨"m.emb", "", "", 0⟩] }

def exT : Table := (fullTable exM).1
def ctxFoo : Ctx := { module := "m.emb", types := ["Foo"], attrField := none, anon := [""] }
def ctxBar : Ctx := { module := "m.emb", types := ["Bar"], attrField := none, anon := [""] }

/-- Non-vacuity of `C12_duplicates_rejected` / `C12_canonical_roundtrip`: `exM` is accepted. -/
example : (construct exM).2 = [] ∧ (fullTable exM).2 = [] := by decide

/-- Non-vacuity of `C12_resolve_iff_unique`: the visible scopes are distinct, `Qux` (only in
`Foo`) and `UInt` (only in the prelude) resolve, inside `Foo`. -/
example :
    ctxFoo.visible.Nodup ∧
    resolveRef exT true ⟨ctxFoo, [("Qux", 20)], 20, false⟩ = (some ["m.emb", "Foo", "Qux"], []) ∧
    resolveRef exT true ⟨ctxFoo, [("UInt", 21)], 21, false⟩ = (some ["", "UInt"], []) ∧
    resolveRef exT true ⟨ctxBar, [("Foo", 22), ("Qux", 23)], 22, false⟩ =
      (some ["m.emb", "Foo", "Qux"], []) := by decide

/-- Non-vacuity of `C12_resolve_ambiguous` (and a test that there is no precedence): inside
`Foo`, `Bar` is offered by `Foo` and by the module ⇒ ambiguity error, nothing bound; the same
reference marked `is_local_name` binds innermost (`C12_head_local`). -/
example :
    resolveRef exT true ⟨ctxFoo, [("Bar", 20)], 20, false⟩ = (none, [Err.ambiguous "Bar" 20 3 1]) ∧
    resolveRef exT true ⟨ctxFoo, [("Bar", 20)], 20, true⟩ = (some ["m.emb", "Foo", "Bar"], []) ∧
    resolveRef exT true ⟨ctxFoo, [("Nope", 20)], 20, false⟩ = (none, [Err.missing "Nope" 20]) := by
  decide

/-- Non-vacuity of `C12_visible_nodup` and of the hypothesis `WellFormed` used above: the
contexts of `exM` satisfy it.  The prelude's *own* context does not (the prelude imports itself
anonymously): there the same scope is searched twice and a name defined once is reported as
ambiguous with itself — which is why the condition cannot be dropped (the real prelude contains
no reference that needs resolving; the harness counts such contexts). -/
example :
    ctxFoo.WellFormed ∧ ctxBar.WellFormed ∧
    ¬ ({ module := "", types := ["UInt"], attrField := none, anon := [""] } : Ctx).WellFormed ∧
    resolveRef exT true ⟨{ module := "", types := ["UInt"], attrField := none, anon := [""] },
      [("UInt", 20)], 20, false⟩ = (none, [Err.ambiguous "UInt" 20 5 5]) := by
  unfold Ctx.WellFormed
  decide

/-- Non-vacuity of `C12_accepted_iff_all_resolved`: a pass over three references of `exM` that
records no error. -/
example :
    resolveRefs exT [⟨ctxFoo, [("Qux", 20)], 20, false⟩, ⟨ctxFoo, [("UInt", 21)], 21, false⟩,
                     ⟨ctxBar, [("Foo", 22), ("Qux", 23)], 22, false⟩] [] =
      ([some ["m.emb", "Foo", "Qux"], some ["", "UInt"], some ["m.emb", "Foo", "Qux"]], []) := by
  decide

/-- Non-vacuity of `C12_resolve_symbols_iff`: `exM` with the type references of its two fields
and one field reference (`ln`, the abbreviation, inside `Foo`) is accepted as a whole. -/
example :
    (match resolveSymbols exM [⟨ctxFoo, [("UInt", 21)], 21, false⟩, ⟨ctxBar, [("Foo", 22), ("Qux", 23)], 22, false⟩]
        [⟨ctxFoo, [⟨"ln", 30, 31⟩]⟩] with
      | .resolved a b => decide (a = [["", "UInt"], ["m.emb", "Foo", "Qux"]] ∧ b = [["m.emb", "Foo", "long_name"]])
      | _ => false) = true := by decide

/-- `struct Foo: x`, `struct Bar: Foo f; let g = f; … g.x …, … g.y …, … x.z …` -/
def exE : FEnv :=
  { objs := [⟨["m.emb", "Foo", "x"], .field (.atomic 0)⟩, ⟨["m.emb", "Bar", "f"], .field (.atomic 1)⟩,
             ⟨["m.emb", "Bar", "g"], .field (.virtAlias 0)⟩, ⟨["m.emb", "Bar", "h"], .field .virtOther⟩],
    typeCanon := fun i => if i = 0 then some ["", "UInt"] else some ["m.emb", "Foo"],
    headCanon := fun i => if i = 0 then some ["m.emb", "Bar", "f"] else if i = 3 then some ["m.emb", "Bar", "h"]
                          else some ["m.emb", "Bar", "g"],
    frefs := fun i =>
      if i = 0 then some ⟨ctxBar, [⟨"f", 1, 2⟩]⟩
      else if i = 1 then some ⟨ctxBar, [⟨"g", 3, 4⟩, ⟨"x", 5, 6⟩]⟩
      else if i = 2 then some ⟨ctxBar, [⟨"g", 7, 8⟩, ⟨"y", 9, 10⟩]⟩
      else some ⟨ctxBar, [⟨"h", 11, 12⟩, ⟨"x", 13, 14⟩]⟩ }

/-- Non-vacuity of `C12_member_lookup` (+ `_rejects`, `_depth`, `_errors`, `_total`): `g.x` through the renaming field
`g` is bound to `Foo.x` (enough nesting budget; with too little the answer is the distinct `recursion`);
`g.y` is `No candidate for 'y'`, `h.x` (`h` an arithmetic virtual field) is noncomposite. -/
example :
    (match resolveFRef exE 10 1 with
      | .ok [["m.emb", "Bar", "g"], ["m.emb", "Foo", "x"]] => true | _ => false) = true ∧
    (match resolveFRef exE 1 1 with | .recursion => true | _ => false) = true ∧
    (match resolveFRef exE 10 2 with | .err (.missing "y" 9) => true | _ => false) = true ∧
    (match resolveFRef exE 10 3 with | .err (.noncomposite "h" 12) => true | _ => false) = true := by
  decide

/-- Non-vacuity of `C12_abbreviation_private`: inside `Foo` the abbreviation `ln` is bound to
the field; from `Bar` it is not a candidate. -/
example :
    resolveRef exT true ⟨ctxFoo, [("ln", 20)], 20, false⟩ = (some ["m.emb", "Foo", "long_name"], []) ∧
    resolveRef exT true ⟨ctxBar, [("ln", 20)], 20, false⟩ = (none, [Err.missing "ln" 20]) := by
  decide

/-- Non-vacuity of `C12_duplicates_rejected_pair`: a second `Bar` at module level is rejected. -/
example : (construct { exM with types := exM.types ++ [⟨["m.emb"], "Bar", 30⟩] }).2 =
    [Err.duplicate "Bar" 30 1] := by decide

/-- The dotted tail does **not** consult visibility: the (grammatically possible) static
reference `Foo.ln`, written in `Bar`, is bound through the PRIVATE abbreviation entry of
`Foo`.  `symbol_resolver` therefore does not by itself keep abbreviations invisible outside
their structure; such a reference is a static reference to a physical field and is rejected
by a later pass (`Static references to physical fields are not allowed`), which the harness
checks on the real code for every such case it generates. -/
theorem C12_abbreviation_tail_counterexample :
    resolveRef exT true ⟨ctxBar, [("Foo", 20), ("ln", 21)], 20, false⟩ =
      (some ["m.emb", "Foo", "long_name"], []) ∧
    (lookup exT ["m.emb", "Foo", "ln"]).map (·.vis) = some Vis.priv := by decide

/-- Test (fix 8da3027 of /repo): `p.x` where `p` is a runtime parameter is answered with
`Cannot access member of noncomposite field 'p'` located at the reference `p` (it used to be an
AttributeError, model outcome `crash`); the same through a virtual alias `let q = p` … `q.x`
(error names `q`). -/
example :
    let objs : List Obj := [⟨["m.emb", "Foo", "p"], .param⟩, ⟨["m.emb", "Foo", "q"], .field (.virtAlias 1)⟩]
    let E : FEnv := { objs := objs, typeCanon := fun _ => none,
                      headCanon := fun i => if i = 2 then some ["m.emb", "Foo", "q"] else some ["m.emb", "Foo", "p"],
                      frefs := fun i =>
                        if i = 0 then some ⟨ctxFoo, [⟨"p", 1, 2⟩, ⟨"x", 3, 4⟩]⟩
                        else if i = 1 then some ⟨ctxFoo, [⟨"p", 5, 6⟩]⟩
                        else some ⟨ctxFoo, [⟨"q", 7, 8⟩, ⟨"x", 9, 10⟩]⟩ }
    (match resolveFRef E 10 0 with | .err (.noncomposite "p" 2) => true | _ => false) = true ∧
    (match resolveFRef E 10 2 with | .err (.noncomposite "q" 8) => true | _ => false) = true := by
  decide

/-! ### A renaming that leads back to itself (fixed finding `hang:…:_resolve_field_reference`) -/

def objF : Obj := ⟨["m.emb", "Foo", "f"], .field (.atomic 0)⟩
def objG : Obj := ⟨["m.emb", "Foo", "g"], .field (.virtAlias 0)⟩

/-- `struct Foo:  0 [+1] Foo f;  let g = f.g;  let h = g.x` — field reference 0 is `f.g`,
field reference 1 is `g.x`. -/
def exH : FEnv :=
  { objs := [objF, objG, ⟨["m.emb", "Foo", "h"], .field (.virtAlias 1)⟩],
    typeCanon := fun _ => some ["m.emb", "Foo"],
    headCanon := fun i => if i = 0 then some ["m.emb", "Foo", "f"] else some ["m.emb", "Foo", "g"],
    frefs := fun i => if i = 0 then some ⟨ctxFoo, [⟨"f", 1, 2⟩, ⟨"g", 3, 4⟩]⟩
                      else some ⟨ctxFoo, [⟨"g", 5, 6⟩, ⟨"x", 7, 8⟩]⟩ }

/-- **The self-renaming field is rejected** (fix 22b80e8 of /repo; this replaces
`C12_self_renaming_counterexample`, where the model answered `fuel` for every amount of fuel as
the real loop never ended).  In `struct Foo: 0 [+1] Foo f; let g = f.g; let h = g.x` the
renaming field `g` renames … itself.  For `g.x` the model now answers — with every nesting
budget from 3 on — `Cannot access member of noncomposite field 'g'` located at `g`, which is
what the spec's rule `physCycle` derives, and the spec binds the path to nothing.  (Also the
non-vacuity example for `C12_member_lookup_total`: this is the input on which `fuel` used to be
the answer.) -/
theorem C12_self_renaming_rejected :
    (∀ F, 3 ≤ F → resolveFRef exH F 1 = .err (.noncomposite "g" 6)) ∧
    PathRejected exH 1 (.noncomposite "g" 6) ∧ (∀ cs, ¬ PathBound exH 1 cs) := by
  have h3 : resolveFRef exH 3 1 = .err (.noncomposite "g" 6) := by decide
  have hall : ∀ F, 3 ≤ F → resolveFRef exH F 1 = .err (.noncomposite "g" 6) := by
    intro F hF
    rw [resolveFRef_mono exH 3 F 1 hF (by rw [h3]; exact fun h => by cases h), h3]
  refine ⟨hall, ?_, ?_⟩
  · exact (C12_member_lookup_rejects exH 3 1 (by rw [h3]; exact fun h => by cases h) _).1 h3
  · intro cs h
    have := (C12_member_lookup exH 3 1 (by rw [h3]; exact fun h => by cases h) cs).2 h
    rw [h3] at this
    cases this

/-! ### A renaming whose own reference passes through itself (open finding
`crash:symbol_resolver.py:_resolve_field_reference:RecursionError`) -/

/-- `struct Foo:  0 [+1] Foo f;  let g = f.g.x` — the only field reference is `f.g.x`. -/
def exR : FEnv :=
  { objs := [objF, objG],
    typeCanon := fun _ => some ["m.emb", "Foo"],
    headCanon := fun _ => some ["m.emb", "Foo", "f"],
    frefs := fun _ => some ⟨ctxFoo, [⟨"f", 1, 2⟩, ⟨"g", 3, 4⟩, ⟨"x", 5, 6⟩]⟩ }

/-- **Counterexample (the model mirrors the unbounded recursion of the real code).**  In
`struct Foo: 0 [+1] Foo f; let g = f.g.x` the reference `f.g.x` needs the members of `g`, `g`
renames the last element of … `f.g.x`, the very reference being resolved:
`_resolve_field_reference` calls itself for it (the "already done" test only looks at the last
element, which is bound last) and so on without end — the visited list of fix 22b80e8 is local
to one call and does not see this.  *No* nesting budget makes the model answer (the real code:
RecursionError, replayed by the harness: findings.d/C12.json).  The spec neither binds nor
rejects the path (its rules are inductive: no finite derivation), so `C12_member_lookup` /
`C12_member_lookup_rejects` say nothing here — their hypothesis `hF` is exactly what fails. -/
theorem C12_self_recursion_counterexample :
    (∀ F i, resolveFRef exR F i = .recursion) ∧
    (∀ cs, ¬ PathBound exR 0 cs) ∧ (∀ e, ¬ PathRejected exR 0 e) := by
  have hall : ∀ F i, resolveFRef exR F i = .recursion := by
    intro F
    induction F with
    | zero => intro i; rfl
    | succ d ih =>
      intro i
      have hres : resolveFRef exR d = fun _ => FRes.recursion := funext ih
      have : resolveFRef exR (d + 1) i =
          members exR (resolveFRef exR d) objF ⟨"f", 1, 2⟩ [⟨"g", 3, 4⟩, ⟨"x", 5, 6⟩]
            [["m.emb", "Foo", "f"]] := rfl
      rw [this, hres]
      decide
  refine ⟨hall, ?_, ?_⟩
  · intro cs h
    obtain ⟨f, hf⟩ := member_complete exR _ h
    have := hf f (Nat.le_refl _)
    rw [hall f] at this
    cases this
  · intro e h
    obtain ⟨f, hf⟩ := member_fail_complete exR _ h
    have := hf f (Nat.le_refl _)
    rw [hall f] at this
    cases this

/-! ## Where `module_ir` puts the types written inline (input of everything above) -/

/-- **Placing of inline and anonymous types.**  For every list of type definitions as written
(any nesting of definitions, inline `struct`/`bits`/`enum` fields and anonymous `bits:`), the
IR `module_ir` builds — read the way the resolver reads it: every type under the scope made of
the names of the types it is nested in, every field under the name of its type — is the closed
form of the spec: a type written as a definition lives where it is written and opens a scope; a
type written inline lives in the scope its field is written in and opens none, so that
everything written inside it lives in the nearest enclosing type *written as a definition*;
fields live in the type they are written in, inline or not.  Order included (it is the order
`_construct_symbol_tables` meets the names in, which decides which of two duplicates is "the
original"). -/
theorem C12_inline_placing (types : List Syn) (host : Path) :
    flatTypes host (buildModule types) = placedTypesAll host types ∧
    flatFields host (buildModule types) = placedFieldsAll host types :=
  ⟨buildAll_types types host, buildAll_fields types host⟩

/-- Corollary: the scope of every type of the IR consists of names of types *written as
definitions* only — an inline or anonymous type never is the scope of another type (so a
compiler-made name like `EmbossReservedAnonymousField3` never is part of the canonical name of a
type). -/
theorem C12_inline_scopes_explicit (types : List Syn) (host : Path) :
    ∀ x ∈ flatTypes host (buildModule types),
      ∃ es, x.1 = host ++ es ∧ ∀ e ∈ es, e ∈ explicitNamesAll types := by
  rw [(C12_inline_placing types host).1]
  exact placedAll_scope types host

/-- **Agreement with the language reference, partial.**  The reference describes an inline type
as *equivalent to* the same type written as a definition in the body of the structure
(`docTypesAll`).  Full statement: `flatTypes host (buildModule types) = docTypesAll host types`
for all `types` — **false** (`C12_inline_nesting_counterexample`).  Proved: it holds when no
inline type contains a type of its own (`ShallowAll`: inline and anonymous types have only plain
fields; definitions may nest at will). -/
theorem C12_inline_doc_partial (types : List Syn) (host : Path) (h : ShallowAll types) :
    flatTypes host (buildModule types) = docTypesAll host types := by
  rw [(C12_inline_placing types host).1]
  exact shallowAll_doc types host h

/-- **The anonymous `bits:` of a file get consecutive numbers**, starting after the value the
counter has, in the order `transform_parse_tree` reaches them (children from the last to the
first, then the construct): in particular they are pairwise distinct, and so are the numbers of
different files parsed one after the other (the counter is never reset). -/
theorem C12_anonymous_numbers (types : List Syn) (c : Nat) :
    anonNumsAll (numberAll types c).1 = List.range' (c + 1) ((numberAll types c).2 - c) ∧
    c ≤ (numberAll types c).2 ∧ (anonNumsAll (numberAll types c).1).Nodup := by
  obtain ⟨h1, h2⟩ := numberAll_nums types c
  refine ⟨h1, h2, ?_⟩
  rw [h1]
  exact List.nodup_range'

/-- `struct Msg:` with an inline `struct  aa:` that contains an inline `enum  kind:` -/
def exNested : List Syn :=
  [.node .typeDef "Msg" 0 []
    [.node .inline "aa" 0 [] [.node .inline "kind" 0 [] [.node .plain "ON" 0 [] []]],
     .node .plain "zz" 0 [] []]]

/-- **Counterexample to the equivalence the language reference states.**  In
`struct Msg:  0 [+1]  struct  aa:  0 [+1]  enum  kind:  ON = 1` the rewriting of the reference
(inline type = definition in the body of the structure its field is in) puts `Kind` into `Aa`:
`Msg.Aa.Kind`.  `module_ir` puts it into `Msg` (`Msg.Kind`), next to `Aa` — which is why two
inline structures of one structure cannot both have an inline type of the same name (replayed
on the real code by the harness, corpus entry "same inline type name in two inline structs").
The resolver then works on what `module_ir` built; C12's reference theorems are about that. -/
theorem C12_inline_nesting_counterexample :
    flatTypes ["m.emb"] (buildModule exNested) =
      [(["m.emb"], "Msg"), (["m.emb", "Msg"], "Aa"), (["m.emb", "Msg"], "Kind")] ∧
    docTypesAll ["m.emb"] exNested =
      [(["m.emb"], "Msg"), (["m.emb", "Msg"], "Aa"), (["m.emb", "Msg", "Aa"], "Kind")] ∧
    ¬ ShallowAll exNested := by
  refine ⟨by decide, by decide, ?_⟩
  simp [exNested, ShallowAll, Shallow, PlainAll]

/-- `struct Foo:` anonymous bits (`a`); `struct  inl:` containing `struct Ex:` (anonymous bits
`q`), anonymous bits with inline `enum  en:`, field `e`; anonymous bits (`c`).  `struct Bar:`
anonymous bits (`d`). -/
def exSyn : List Syn :=
  [.node .typeDef "Foo" 0 []
    [.node .anon "" 0 [] [.node .plain "a" 0 [] []],
     .node .inline "inl" 0
       [.node .typeDef "Ex" 0 [] [.node .anon "" 0 [] [.node .plain "q" 0 [] []]]]
       [.node .anon "" 0 [] [.node .inline "en" 0 [] [.node .plain "AA" 0 [] []]],
        .node .plain "e" 0 [] []],
     .node .anon "" 0 [] [.node .plain "c" 0 [] []]],
   .node .typeDef "Bar" 0 [] [.node .anon "" 0 [] [.node .plain "d" 0 [] []]]]

/-- Non-vacuity of `C12_inline_placing`, `C12_inline_scopes_explicit`, `C12_anonymous_numbers`
(and a test against what the real `module_ir` was observed to build for this text with the
counter at 0): the last anonymous bits gets number 1, the first one 5; `Inl`, `Ex`, the
anonymous type 3 and `En` all are direct subtypes of `Foo`; the anonymous type 4 is a subtype of
`Ex`. -/
example :
    (numberAll exSyn 0).2 = 5 ∧
    flatTypes ["m.emb"] (buildModule (numberAll exSyn 0).1) =
      [(["m.emb"], "Foo"), (["m.emb", "Foo"], "EmbossReservedAnonymousField5"),
       (["m.emb", "Foo"], "Inl"), (["m.emb", "Foo"], "Ex"),
       (["m.emb", "Foo", "Ex"], "EmbossReservedAnonymousField4"),
       (["m.emb", "Foo"], "EmbossReservedAnonymousField3"), (["m.emb", "Foo"], "En"),
       (["m.emb", "Foo"], "EmbossReservedAnonymousField2"),
       (["m.emb"], "Bar"), (["m.emb", "Bar"], "EmbossReservedAnonymousField1")] ∧
    (flatFields ["m.emb"] (buildModule (numberAll exSyn 0).1)).take 4 =
      [(["m.emb", "Foo"], "emboss_reserved_anonymous_field_5"), (["m.emb", "Foo"], "inl"),
       (["m.emb", "Foo"], "emboss_reserved_anonymous_field_2"),
       (["m.emb", "Foo", "EmbossReservedAnonymousField5"], "a")] := by
  decide

/-- Non-vacuity of `C12_inline_doc_partial`: `struct Msg:` with a nested definition `Sub` and an
inline `enum  kind:` is shallow, and both readings give `Msg`, `Msg.Sub`, `Msg.Kind`. -/
example :
    let t : List Syn := [.node .typeDef "Msg" 0 [.node .typeDef "Sub" 0 [] []]
      [.node .inline "kind" 0 [] [.node .plain "ON" 0 [] []]]]
    ShallowAll t ∧ docTypesAll ["m.emb"] t =
      [(["m.emb"], "Msg"), (["m.emb", "Msg"], "Sub"), (["m.emb", "Msg"], "Kind")] := by
  refine ⟨by simp [ShallowAll, Shallow, PlainAll], by decide⟩

end Emboss.Scope
