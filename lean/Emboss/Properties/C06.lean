import Emboss.Model.Text
namespace Emboss.Text
theorem C06_placeholder : True := trivial
end Emboss.Text
