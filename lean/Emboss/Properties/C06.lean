/-
C06 — Text format output reads back to the same structure.

Property theorems only.  Models: Emboss/Model/Text.lean (integer codec, tokenizer),
Emboss/Model/TextTree.lean (value/struct/array writer and reader);
spec: Emboss/Spec/Text.lean; helper lemmas: Emboss/Lemmas/Text*.lean.
-/
import Emboss.Lemmas.TextIntWrite
import Emboss.Lemmas.TextWrite
namespace Emboss.Text
open Spec

/-! ## Integer text encoding and decoding are mutually inverse -/

/-- For each of the eight integer types, every value of the type, every base the writer
supports and both grouping settings: `DecodeInteger` applied to what
`WriteIntegerToTextStream` wrote yields the value.  (All values: induction over the
writer's digit recursion, `writeLoop_value`; includes `lowest()`.) -/
theorem C06_int_roundtrip (T : IntTy) (x : Int) (base : Base) (grouping : Bool)
    (hx : T.InRange x) : decodeInt T (writeInt T x base grouping) = some x := by
  obtain ⟨h1, h2⟩ := writeInt_textValue T x base grouping hx
  rw [decodeInt_eq, if_neg h1, h2]
  simp [inRangeOnly, hx]

/-- Non-vacuity / tests (`decide` over literals): INT64_MIN in binary with grouping, and
its text. -/
example : IntTy.i64.InRange (-9223372036854775808) ∧
    String.ofList (writeInt .i64 (-9223372036854775808) .b10 true) = "-9_223_372_036_854_775_808" ∧
    String.ofList (writeInt .i8 (-128) .b2 true) = "-0b10000000" ∧
    String.ofList (writeInt .u16 65535 .b16 true) = "0xffff" ∧
    String.ofList (writeInt .u32 65536 .b16 true) = "0x1_0000" := by decide +kernel

/-! ## Malformed numbers are rejected rather than wrapped -/

/-- Whatever `DecodeInteger` accepts, it returns the mathematical value denoted by the
text's digits (`Spec.textValue`: sign, base prefix, digits most-significant first,
`_` ignored), and that value is in the range of the type: no wrap-around. -/
theorem C06_decode_no_wrap (T : IntTy) (s : List Char) (v : Int)
    (h : decodeInt T s = some v) : textValue T.signed s = some v ∧ T.InRange v := by
  rw [decodeInt_eq] at h
  split at h
  · cases h
  · cases hv : textValue T.signed s with
    | none => rw [hv] at h; cases h
    | some w =>
      rw [hv] at h
      simp only [Option.bind_some, inRangeOnly] at h
      split at h
      · cases h; exact ⟨rfl, by assumption⟩
      · cases h

/-- Texts that are not numbers (`textValue = none`: nothing after sign/prefix, a
character that is not a digit of the base, a `-` for an unsigned type) and numbers
outside the range of the type are rejected. -/
theorem C06_decode_rejects (T : IntTy) (s : List Char)
    (h : textValue T.signed s = none ∨ ∃ v, textValue T.signed s = some v ∧ ¬ T.InRange v) :
    decodeInt T s = none := by
  rw [decodeInt_eq]
  split
  · rfl
  · rcases h with h | ⟨v, h, hr⟩
    · rw [h]; rfl
    · rw [h]; simp [inRangeOnly, hr]

/-- Conversely every in-range number text is accepted, unless its very first character
is `_` (the only placement of `_` the code refuses). -/
theorem C06_decode_accepts (T : IntTy) (s : List Char) (v : Int)
    (h : textValue T.signed s = some v) (hr : T.InRange v) (h0 : s.head? ≠ some '_') :
    decodeInt T s = some v := by
  rw [decodeInt_eq, if_neg h0, h]
  simp [inRangeOnly, hr]

/-- Non-vacuity / tests: one past the range, sign on an unsigned type, empty after the
prefix, foreign digit, leading `_` are rejected; odd but harmless `_` placements and
upper-case prefixes are accepted with the exact value (observed leniency). -/
example :
    decodeInt .u8 "256".toList = none ∧ decodeInt .i8 "-129".toList = none ∧
    decodeInt .u8 "-1".toList = none ∧ decodeInt .u8 "0x".toList = none ∧
    decodeInt .i8 "-".toList = none ∧ decodeInt .u8 "0b12".toList = none ∧
    decodeInt .u8 "_1".toList = none ∧ decodeInt .u64 "18446744073709551616".toList = none ∧
    decodeInt .u8 "0x_".toList = some 0 ∧ decodeInt .u8 "1__2_".toList = some 12 ∧
    decodeInt .i8 "-_1".toList = some (-1) ∧ decodeInt .u8 "0XfF".toList = some 255 ∧
    decodeInt .i8 "-128".toList = some (-128) ∧
    textValue true "-128".toList = some (-128) ∧ textValue false "-1".toList = none := by
  decide +kernel

/-! ## The writer's output is read back token for token -/

/-- For every value tree (structs, arrays, integers, enums, booleans, float texts; read-only
fields as comments) and every *re-readable* option set — `O_rr` = {single-line, comments off}
∪ {multi-line, comments on|off}, any base, any digit grouping, any blank indentation —
`ReadToken` applied repeatedly to `WriteToString`'s text yields exactly the tokens the writer
emitted (names, `:`, `{`, `}`, `[`, `]`, `,`, numbers, enum names, …), comments and white
space dropped.  Single-line output *with* comments is excluded (`Opts.Rereadable`): a `#`
comment swallows the rest of the line, see `C06_single_line_comments_counterexample`. -/
theorem C06_tokens_roundtrip (o : Opts) (v : TVal) (ho : o.Rereadable) (hv : v.WF) :
    tokens (writeToString o v) = some (toks (writeVal o v)) := by
  have := tokens_of_wellSep (writeVal o v) .other ((render (writeVal o v)).length + 1)
    (wellSep_val v o ho hv).1 (Nat.lt_succ_self _)
  simpa [tokens, writeToString] using this

def exTree : TVal :=
  .struct (.cons "n".toList false (.scalar (.int .u8 2))
    (.cons "v".toList true (.scalar (.int .u32 4))
    (.cons "e".toList false (.scalar (.enumV (some "RED".toList) .u8 1))
    (.cons "xs".toList false (.arr true (.cons (.scalar (.int .u8 72)) (.cons (.scalar (.int .u8 105)) .nil)))
    (.cons "f".toList false (.scalar (.bool true)) .nil)))))

def exOptsML : Opts := ⟨true, true, .b10, true, "  ".toList, []⟩
def exOptsSL : Opts := ⟨false, false, .b16, false, [], []⟩
def exOptsBad : Opts := ⟨false, true, .b10, false, [], []⟩

example : exOptsML.Rereadable ∧ exOptsSL.Rereadable ∧ exTree.WF := by
  refine ⟨⟨by decide, by decide, by decide⟩, ⟨by decide, by decide, by decide⟩, ?_⟩
  simp [exTree, TVal.WF, TFields.WF, TVals.WF, Scalar.WF, ValidWord, isDelim, isSpace, isPunct]

example : String.ofList (writeToString exOptsSL exTree) =
    "{ n: 0x2, e: RED, xs: { [0x0]: 0x48, 0x69 }, f: true }" := by decide +kernel

example : String.ofList (writeToString exOptsML exTree) =
    "{\n  n: 2  # 0x2\n  # v: 4  # 0x4\n  e: RED  # 1\n  xs: {\n    # Hi\n    [0]: 72  # 0x48\n    [1]: 105  # 0x69\n  }\n  f: true\n}" := by
  decide +kernel

theorem C06_single_line_comments_counterexample :
    ¬ exOptsBad.Rereadable ∧
      tokens (writeToString exOptsBad exTree) ≠ some (toks (writeVal exOptsBad exTree)) := by
  constructor
  · intro h; exact absurd (h.comments_need_multiline rfl) (by decide)
  · decide +kernel

end Emboss.Text
