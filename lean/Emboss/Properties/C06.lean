/-
C06 — Text format output reads back to the same structure.

Property theorems only.  Models: Emboss/Model/Text.lean (integer codec, tokenizer),
Emboss/Model/TextTree.lean (value/struct/array writer), Emboss/Model/TextRead.lean (reader),
Emboss/Model/TextStruct.lean, TextLayout.lean (abstract structure round trip);
spec: Emboss/Spec/Text*.lean; helper lemmas: Emboss/Lemmas/Text*.lean.
-/
import Emboss.Lemmas.TextIntWrite
import Emboss.Lemmas.TextWrite
import Emboss.Lemmas.TextStruct
import Emboss.Lemmas.TextLayout
import Emboss.Lemmas.TextRoundNeg
import Emboss.Model.TextRead
namespace Emboss.Text
open Spec Emboss.Deps

/-! ## Integer text encoding and decoding are mutually inverse -/

/-- For each of the eight integer types, every value of the type, every base the writer
supports and both grouping settings: `DecodeInteger` applied to what
`WriteIntegerToTextStream` wrote yields the value.  (All values: induction over the
writer's digit recursion, `writeLoop_value`; includes `lowest()`.) -/
theorem C06_int_roundtrip (T : IntTy) (x : Int) (base : Base) (grouping : Bool)
    (hx : T.InRange x) : decodeInt T (writeInt T x base grouping) = some x :=
  decodeInt_writeInt T x base grouping hx

/-- Non-vacuity / tests (`decide` over literals): INT64_MIN in binary with grouping, and
its text. -/
example : IntTy.i64.InRange (-9223372036854775808) ∧
    String.ofList (writeInt .i64 (-9223372036854775808) .b10 true) = "-9_223_372_036_854_775_808" ∧
    String.ofList (writeInt .i8 (-128) .b2 true) = "-0b10000000" ∧
    String.ofList (writeInt .u16 65535 .b16 true) = "0xffff" ∧
    String.ofList (writeInt .u32 65536 .b16 true) = "0x1_0000" := by decide +kernel

/-! ## Malformed numbers are rejected rather than wrapped -/

/-- Whatever `DecodeInteger` accepts, it returns the mathematical value denoted by the
text's digits (`Spec.textValue`: sign, base prefix, digits most-significant first,
`_` ignored), and that value is in the range of the type: no wrap-around. -/
theorem C06_decode_no_wrap (T : IntTy) (s : List Char) (v : Int)
    (h : decodeInt T s = some v) : textValue T.signed s = some v ∧ T.InRange v := by
  rw [decodeInt_eq] at h
  split at h
  · cases h
  · cases hv : textValue T.signed s with
    | none => rw [hv] at h; cases h
    | some w =>
      rw [hv] at h
      simp only [Option.bind_some, inRangeOnly] at h
      split at h
      · cases h; exact ⟨rfl, by assumption⟩
      · cases h

/-- Texts that are not numbers (`textValue = none`: nothing after sign/prefix, a
character that is not a digit of the base, a `-` for an unsigned type) and numbers
outside the range of the type are rejected. -/
theorem C06_decode_rejects (T : IntTy) (s : List Char)
    (h : textValue T.signed s = none ∨ ∃ v, textValue T.signed s = some v ∧ ¬ T.InRange v) :
    decodeInt T s = none := by
  rw [decodeInt_eq]
  split
  · rfl
  · rcases h with h | ⟨v, h, hr⟩
    · rw [h]; rfl
    · rw [h]; simp [inRangeOnly, hr]

/-- Conversely every in-range number text is accepted, unless its very first character
is `_` (the only placement of `_` the code refuses). -/
theorem C06_decode_accepts (T : IntTy) (s : List Char) (v : Int)
    (h : textValue T.signed s = some v) (hr : T.InRange v) (h0 : s.head? ≠ some '_') :
    decodeInt T s = some v := by
  rw [decodeInt_eq, if_neg h0, h]
  simp [inRangeOnly, hr]

/-- Non-vacuity / tests: one past the range, sign on an unsigned type, empty after the
prefix, foreign digit, leading `_` are rejected; odd but harmless `_` placements and
upper-case prefixes are accepted with the exact value (observed leniency). -/
example :
    decodeInt .u8 "256".toList = none ∧ decodeInt .i8 "-129".toList = none ∧
    decodeInt .u8 "-1".toList = none ∧ decodeInt .u8 "0x".toList = none ∧
    decodeInt .i8 "-".toList = none ∧ decodeInt .u8 "0b12".toList = none ∧
    decodeInt .u8 "_1".toList = none ∧ decodeInt .u64 "18446744073709551616".toList = none ∧
    decodeInt .u8 "0x_".toList = some 0 ∧ decodeInt .i8 "-_".toList = some 0 ∧
    decodeInt .u8 "1__2_".toList = some 12 ∧
    decodeInt .i8 "-_1".toList = some (-1) ∧ decodeInt .u8 "0XfF".toList = some 255 ∧
    decodeInt .i8 "-128".toList = some (-128) ∧
    textValue true "-128".toList = some (-128) ∧ textValue false "-1".toList = none := by
  decide +kernel

/-! ## The writer's output is read back token for token -/

/-- For every value tree (structs, arrays, integers, enums, booleans, float texts; read-only
fields as comments) and every *re-readable* option set — `O_rr` = {single-line, comments off}
∪ {multi-line, comments on|off}, any base, any digit grouping, any blank indentation —
`ReadToken` applied repeatedly to `WriteToString`'s text yields exactly the tokens the writer
emitted (names, `:`, `{`, `}`, `[`, `]`, `,`, numbers, enum names, …), comments and white
space dropped.  Single-line output *with* comments is excluded (`Opts.Rereadable`): a `#`
comment swallows the rest of the line, see `C06_single_line_comments_counterexample`.
The value tree may hold unreadable atomic fields / elements (`skip` nodes: the text of a view
that is not `Ok`, written with `allow_partial_output`): they contribute no tokens, only
`UNREADABLE` comments. -/
theorem C06_tokens_roundtrip (o : Opts) (v : TVal) (ho : o.Rereadable) (hv : v.WF) :
    tokens (writeToString o v) = some (toks (writeVal o v)) := by
  have := tokens_of_wellSep (writeVal o v) .other ((render (writeVal o v)).length + 1)
    (wellSep_val v o ho hv).1 (Nat.lt_succ_self _)
  simpa [tokens, writeToString] using this

def exTree : TVal :=
  .struct (.cons "n".toList false (.scalar (.int .u8 2))
    (.cons "v".toList true (.scalar (.int .u32 4))
    (.cons "e".toList false (.scalar (.enumV (some "RED".toList) .u8 1))
    (.cons "xs".toList false (.arr true (.cons (.scalar (.int .u8 72)) (.cons (.scalar (.int .u8 105)) .nil)))
    (.cons "f".toList false (.scalar (.bool true)) .nil)))))

def exOptsML : Opts := ⟨true, true, .b10, true, "  ".toList, []⟩
def exOptsSL : Opts := ⟨false, false, .b16, false, [], []⟩
def exOptsBad : Opts := ⟨false, true, .b10, false, [], []⟩

example : exOptsML.Rereadable ∧ exOptsSL.Rereadable ∧ exTree.WF := by
  refine ⟨⟨by decide, by decide, by decide⟩, ⟨by decide, by decide, by decide⟩, ?_⟩
  simp [exTree, TVal.WF, TFields.WF, TVals.WF, Scalar.WF, ValidWord, isDelim, isSpace, isPunct]

example : String.ofList (writeToString exOptsSL exTree) =
    "{ n: 0x2, e: RED, xs: { [0x0]: 0x48, 0x69 }, f: true }" := by decide +kernel

example : String.ofList (writeToString exOptsML exTree) =
    "{\n  n: 2  # 0x2\n  # v: 4  # 0x4\n  e: RED  # 1\n  xs: {\n    # Hi\n    [0]: 72  # 0x48\n    [1]: 105  # 0x69\n  }\n  f: true\n}" := by
  decide +kernel

theorem C06_single_line_comments_counterexample :
    ¬ exOptsBad.Rereadable ∧
      tokens (writeToString exOptsBad exTree) ≠ some (toks (writeVal exOptsBad exTree)) := by
  constructor
  · intro h; exact absurd (h.comments_need_multiline rfl) (by decide)
  · decide +kernel

/-! ## Structure round trip, emission order, Skip / Emit -/

/-- FULL STATEMENT (false, see `C06_struct_roundtrip_counterexample`): for every field list
and every buffer, `update zeroBuf (writeText fs b)` succeeds and every emitted field reads
back equal.  Proved here under `DepOk [] fs`: the fields are in dependency order and no
skipped (or otherwise unwritten) field determines the location of an emitted one. -/
theorem C06_struct_roundtrip_partial (fs : List FieldSem) (b : Buf) (h : DepOk [] fs) :
    ∃ b1, update zeroBuf (writeText fs b) = some b1 ∧
      ∀ f ∈ fs, f.emitted = true → ∀ l, f.loc b = some l →
        f.loc b1 = some l ∧ l.map b1 = l.map b := by
  obtain ⟨b1, h1, h2⟩ := update_roundtrip fs [] b zeroBuf h (by intro g hg; cases hg)
  refine ⟨b1, h1, ?_⟩
  intro f hf hem l hl
  have h2' : AgreeOn fs b b1 := by simpa using h2
  constructor
  · rw [depOk_loc fs [] h f hf hem b b1 (by simpa using h2), hl]
  · exact List.map_congr_left (fun a ha => h2' f hf hem l hl a ha)

/-! Non-vacuity: `n` (8 bits, emitted) sizes `data` (present iff n ≠ 0): the hypothesis holds. -/
def exN (emitted : Bool) : FieldSem := ⟨fun _ => some [0, 1, 2, 3, 4, 5, 6, 7], emitted⟩
def exData : FieldSem :=
  ⟨fun b => if (b 0 || b 1 || b 2 || b 3 || b 4 || b 5 || b 6 || b 7) then some [8, 9, 10, 11, 12, 13, 14, 15] else none, true⟩
/-- n = 2, data[0] = 7 -/
def exBuf : Buf := fun a => a == 1 || a == 8 || a == 9 || a == 10

example : DepOk [] [exN true, exData] := by
  refine ⟨fun _ _ _ _ => rfl, ?_, trivial⟩
  intro _ b b' hag
  have h := hag (exN true) (by simp) rfl [0, 1, 2, 3, 4, 5, 6, 7] rfl
  simp only [exData]
  rw [h 0 (by simp), h 1 (by simp), h 2 (by simp), h 3 (by simp), h 4 (by simp), h 5 (by simp),
    h 6 (by simp), h 7 (by simp)]

/-- The excluded case is a real failure (finding `skip-field-determines-layout-of-emitted-field`):
with `n` marked Skip the text holds only `data`, and updating a zeroed buffer fails because
`data` does not exist there (`n` reads 0). -/
theorem C06_struct_roundtrip_counterexample :
    update zeroBuf (writeText [exN false, exData] exBuf) = none ∧ ¬ DepOk [] [exN false, exData] := by
  constructor
  · decide
  · intro h
    have := h.2.1 rfl exBuf zeroBuf (by
      intro g hg hge
      simp at hg; subst hg; cases hge)
    simp [exData, exBuf, zeroBuf] at this

/-- The round trip for *described* structures — leaves with layout expressions
(Emboss/Model/TextLayout.lean): conditional fields (`present`), dynamically placed fields and
arrays with a dynamic element count (one leaf per index, present iff the index is below the
count), `let` fields inlined.  If the syntactic check `depCheck` passes (everything an emitted
leaf's condition / location reads lies in bytes covered by emitted, unconditional, statically
placed leaves that stand earlier in the text), then for every buffer of `size` bits
`UpdateFromText(WriteToString(·))` into the zeroed buffer succeeds and every emitted leaf that
exists in the original exists at the same place with the same bits afterwards.  The same
`update`/`writeText` on the same descriptions is compared with the real code byte for byte
on every run (driver op `SRT`). -/
theorem C06_struct_roundtrip_described (size : Nat) (ls : List Leaf) (b : Buf)
    (h : depCheck size [] ls = true) :
    ∃ b1, update zeroBuf (writeText (ls.map (Leaf.sem size)) b) = some b1 ∧
      ∀ l ∈ ls, l.emitted = true → ∀ a, l.loc size b = some a →
        l.loc size b1 = some a ∧ a.map b1 = a.map b := by
  have hd : DepOk [] (ls.map (Leaf.sem size)) := by simpa using depCheck_sound size ls [] h
  obtain ⟨b1, h1, h2⟩ := C06_struct_roundtrip_partial (ls.map (Leaf.sem size)) b hd
  exact ⟨b1, h1, fun l hl hem a ha => h2 (Leaf.sem size l) (List.mem_map_of_mem hl) hem a ha⟩

/-! Non-vacuity: `struct Foo: let big = n > 1; let at = n * 2; if big: 1 [+1] UInt flag;
3+at [+n] UInt:8[] data (≤ 2 elements shown); 0 [+1] UInt n` in the text order `n, flag, data[0],
data[1]`, buffer of 9 bytes. -/
def exLeaves (nEmitted : Bool) : List Leaf :=
  [ ⟨.const 1, .const 0, 8, nEmitted⟩,
    ⟨.gt (.byte 0) (.const 1), .const 8, 8, true⟩,
    ⟨.gt (.byte 0) (.const 0), .mul (.const 8) (.add (.const 3) (.mul (.byte 0) (.const 2))), 8, true⟩,
    ⟨.gt (.byte 0) (.const 1), .mul (.const 8) (.add (.const 4) (.mul (.byte 0) (.const 2))), 8, true⟩ ]

/-- n = 2, flag = 9, data at 3 + 4 = 7: 5, 6 -/
def exBytes : List Nat := [2, 9, 0, 0, 0, 0, 0, 5, 6]

example : depCheck 72 [] (exLeaves true) = true ∧
    structRoundTrip (exLeaves true) exBytes = some exBytes := by decide +kernel

/-- With `n` not written (Skip) the check fails — and so does the update of the zeroed buffer
(open finding `skip-field-determines-layout-of-emitted-field`). -/
example : depCheck 72 [] (exLeaves false) = false ∧
    structRoundTrip (exLeaves false) exBytes = none := by decide +kernel

/-- Emission order, presence and absence: the write clauses are the fields of
`fields_in_dependency_order`, in that order, minus those whose `text_output` attribute is
present and different from `"Emit"`; so `Skip` ⇒ absent, `Emit` or no attribute ⇒ present.
At run time the names in the text are those clauses whose field exists, read-only ones
excepted (comments). -/
theorem C06_emission_order (decl : Nat → FieldDecl) (present : Nat → Bool) (order : List Nat) :
    (writeClauses decl order).Sublist order ∧
    (∀ i, i ∈ writeClauses decl order ↔
      i ∈ order ∧ ((decl i).textOutput = none ∨ (decl i).textOutput = some "Emit")) ∧
    (∀ i, (decl i).textOutput = some "Skip" → i ∉ writeClauses decl order) ∧
    (textNames decl present order).Sublist (writeClauses decl order) := by
  refine ⟨List.filter_sublist, ?_, ?_, List.filter_sublist⟩
  · intro i
    simp only [writeClauses, List.mem_filter, FieldDecl.hasWriteClause]
    constructor
    · rintro ⟨h1, h2⟩
      refine ⟨h1, ?_⟩
      cases hd : (decl i).textOutput with
      | none => exact Or.inl rfl
      | some s =>
        rw [hd] at h2
        exact Or.inr (by simpa using h2)
    · rintro ⟨h1, h2 | h2⟩ <;> simp [h1, h2]
  · intro i hi hmem
    simp only [writeClauses, List.mem_filter, FieldDecl.hasWriteClause, hi] at hmem
    exact absurd hmem.2 (by decide)

/-- Fields are emitted after the fields they depend on: with the ordering of C15
(`C15_order_topological`), every dependency of a field `f` is a runtime parameter or stands
before `f` in the order, and the text lists names in that order — so a dependency that is
written at all is written before `f`. -/
theorem C06_emission_after_dependencies (deps : DepFn) (params order l1 l2 : List Nat) (f : Nat)
    (decl : Nat → FieldDecl) (present : Nat → Bool)
    (h : TopoFrom deps params order) (hs : order = l1 ++ f :: l2) :
    textNames decl present order =
        textNames decl present l1 ++ (textNames decl present [f] ++ textNames decl present l2) ∧
      ∀ d ∈ deps f, d ∈ params ∨ d ∈ l1 := by
  subst hs
  refine ⟨?_, topoFrom_split deps l1 params f l2 h⟩
  have hcons : f :: l2 = [f] ++ l2 := rfl
  simp only [textNames, writeClauses]
  rw [hcons, List.filter_append, List.filter_append, List.filter_append, List.filter_append]

/-- The same for dependencies *through other fields* (`DependsOn` = transitive closure of the
mention relation, virtual fields included — they hold no data, so a physical field located
through `let off = n * 2` really depends on `n`): in the ordering of C15 every field `d` that
`f` depends on, directly or indirectly, is a runtime parameter or stands before `f`, hence is
written before `f` if it is written at all (`textNames` keeps the order, first conjunct of
`C06_emission_after_dependencies`).  An ordering that treats virtual fields as always available
(seeded change C06-m2) is not `TopoFrom` and is refuted by the harness on the real code. -/
theorem C06_emission_after_transitive_dependencies (deps : DepFn) (params order l1 l2 : List Nat)
    (f d : Nat) (h : TopoFrom deps params order) (hp : ∀ p ∈ params, deps p = [])
    (hs : order = l1 ++ f :: l2) (hd : DependsOn deps f d) : d ∈ params ∨ d ∈ l1 := by
  subst hs
  exact topoFrom_transitive deps params hp hd l1 l2 h

/-- Non-vacuity: field 0 (`payload`) is located through the virtual field 1 (`let off = n * 2`),
whose input is field 2 (`n`), declared last; parameter 7 has no dependencies.  C15's ordering
puts `n`, `off`, `payload`; `payload` depends on `n` only through `off`. -/
def exVDeps : DepFn := fun f => if f = 0 then [1] else if f = 1 then [2, 7] else []
example : order exVDeps [7] [0, 1, 2] = [2, 1, 0] ∧ TopoFrom exVDeps [7] [2, 1, 0] ∧
    (∀ p ∈ [7], exVDeps p = []) ∧ DependsOn exVDeps 0 2 ∧ 2 ∉ exVDeps 0 ∧
    ¬ TopoFrom exVDeps [7] [0, 2, 1] := by
  refine ⟨by decide, by decide, by decide, ?_, by decide, by decide⟩
  exact .step (m := 1) (by decide) (.direct (by decide))

/-! ## Reader ∘ tokenizer ∘ writer at the text level

`updateFromText` (= `ReadToken`/`DiscardWhitespace` + the integer/enum/boolean/array/struct
readers) applied to `writeToString`'s characters.  Composition of `C06_tokens_roundtrip`'s two
halves (the writer's pieces are well separated, `wellSep_val`; well separated pieces are read
token by token, here step by step: `At.word`, `At.punct`, `At.skip`), of `C06_int_roundtrip`
(every number token decodes to the value written, also through the enum reader's
`uint64_t`/`int64_t` detour) and of the reader model, by mutual structural induction over the
value tree along the reader's success path (`read_val`, `read_elemsSL`, `read_elemsML`,
`read_fields` in Emboss/Lemmas/TextRound.lean). -/

/-- FULL STATEMENT (false, see `C06_array_multiline_counterexample`): for every value tree `v`
of static shape `s` (struct of integers / enums / booleans / float texts / nested structs /
fixed-size arrays; `Matches s v`) and every re-readable option set, `UpdateFromText` applied to
`WriteToString`'s text succeeds, and its `TryToWrite` calls are exactly the emitted leaves of
`v` — each path with its own value, in text order (`writesVal`); only white space and comments
are left unread.
Proved here under `noMultilineArray o v`: in multi-line mode no array has two or more elements
(open finding `multiline-array-elements-not-comma-separated`: the multi-line writer puts no `,`
between elements, the array reader insists on one).  Single-line arrays of any length, and
multi-line arrays with at most one written element, are covered; nothing else is excluded.
Trees with unreadable atomic leaves (`skip` nodes; `allow_partial_output` on a view that is not
`Ok`) are included: their text is re-read too and yields exactly the *readable* leaves, each at
its own path — an array element after a skipped one keeps its index because the single-line
writer then emits an explicit `[i]:` (`skipped_unreadable`), the multi-line writer always. -/
theorem C06_text_roundtrip_partial (o : Opts) (v : TVal) (s : RShape) (ho : o.Rereadable)
    (hv : v.WF) (hm : Matches s v) (hml : noMultilineArray o v) :
    ∃ rest, updateFromText s (writeToString o v) = .ok (writesVal [] v) rest ∧
      discardWs false rest = [] :=
  updateFromText_writeToString o v s ho hv hm hml

/-- The hypothesis of `C06_text_roundtrip_partial` is exact, and outside it the failure is a
clean rejection: for a well-formed tree of static shape and re-readable options the reader model
applied to the writer model's text either returns the emitted leaves (iff `noMultilineArray o v`)
or *fails* (`UpdateFromText` returns false: iff some array with two or more elements is written
in multi-line mode) — it never returns other values and never runs out of fuel.  The failing
side is the open finding `multiline-array-elements-not-comma-separated`; the same induction as
the positive part, up to the first element of the first such array, where `afterElem` meets the
`[` of the next index marker (`neg_val`, `neg_elemsML`, `neg_fields`). -/
theorem C06_text_roundtrip_hypothesis_exact (o : Opts) (v : TVal) (s : RShape) (ho : o.Rereadable)
    (hv : v.WF) (hm : Matches s v) :
    (noMultilineArray o v ↔
      ∃ rest, updateFromText s (writeToString o v) = .ok (writesVal [] v) rest ∧
        discardWs false rest = []) ∧
    (¬ noMultilineArray o v ↔ updateFromText s (writeToString o v) = .fail) := by
  have hpos := updateFromText_writeToString o v s ho hv hm
  have hneg := updateFromText_writeToString_fail o v s ho hv hm
  constructor
  · constructor
    · exact hpos
    · intro ⟨rest, h, _⟩
      apply Classical.byContradiction
      intro hn
      rw [hneg hn] at h
      cases h
  · constructor
    · exact hneg
    · intro h hml
      obtain ⟨rest, h', _⟩ := hpos hml
      rw [h] at h'
      cases h'

/-! Non-vacuity: `exTree` (integer, read-only virtual field, enum by name, two-element `UInt:8`
array, boolean) has the static shape `exShape`; single-line, base 16: the hypotheses hold and the
reader model returns the five emitted leaves.  `exTreeML`: an enum by number (negative, signed
16-bit type), a one-element array and a nested struct, multi-line with comments. -/
def exShape : RShape :=
  .struct (.cons "f".toList (.scalar .bool)
    (.cons "xs".toList (.arr 2 (.scalar (.int .u8 0 255)))
    (.cons "e".toList (.scalar (.enumR [("RED".toList, 1), ("BLUE".toList, 2)] .u8 0 255))
    (.cons "n".toList (.scalar (.int .u8 0 255)) .nil))))

example : exOptsSL.Rereadable ∧ exTree.WF ∧ Matches exShape exTree ∧ noMultilineArray exOptsSL exTree := by
  refine ⟨⟨by decide, by decide, by decide⟩, ?_, ?_, by intro h; cases h⟩
  · simp [exTree, TVal.WF, TFields.WF, TVals.WF, Scalar.WF, ValidWord, isDelim, isSpace, isPunct]
  · exact ⟨⟨_, rfl, rfl, by decide, by decide, by decide⟩,
      ⟨_, rfl, rfl, ⟨by decide, by decide⟩, rfl, by decide, by decide⟩,
      ⟨_, rfl, rfl, by decide, ⟨rfl, by decide, by decide, by decide⟩,
        ⟨rfl, by decide, by decide, by decide⟩, trivial⟩,
      ⟨_, rfl, trivial⟩, trivial⟩

example : updateFromText exShape (writeToString exOptsSL exTree) =
    .ok [("n".toList, .int 2), ("e".toList, .int 1), ("xs[0]".toList, .int 72),
      ("xs[1]".toList, .int 105), ("f".toList, .bool true)] [] ∧
    writesVal [] exTree = [("n".toList, .int 2), ("e".toList, .int 1), ("xs[0]".toList, .int 72),
      ("xs[1]".toList, .int 105), ("f".toList, .bool true)] := by decide +kernel

def exTreeML : TVal :=
  .struct (.cons "k".toList false (.scalar (.enumV none .i16 (-5)))
    (.cons "xs".toList false (.arr true (.cons (.scalar (.int .u8 72)) .nil))
    (.cons "s".toList false (.struct (.cons "b".toList false (.scalar (.bool false)) .nil)) .nil)))
def exShapeML : RShape :=
  .struct (.cons "k".toList (.scalar (.enumR [("POS".toList, 7)] .i16 (-32768) 32767))
    (.cons "xs".toList (.arr 1 (.scalar (.int .u8 0 255)))
    (.cons "s".toList (.struct (.cons "b".toList (.scalar .bool) .nil)) .nil)))

example : exOptsML.Rereadable ∧ exTreeML.WF ∧ Matches exShapeML exTreeML ∧
    noMultilineArray exOptsML exTreeML := by
  refine ⟨⟨by decide, by decide, by decide⟩, ?_, ?_, ?_⟩
  · simp [exTreeML, TVal.WF, TFields.WF, TVals.WF, Scalar.WF, ValidWord, isDelim, isSpace, isPunct]
  · exact ⟨⟨_, rfl, rfl, by decide, by decide, by decide⟩,
      ⟨_, rfl, rfl, by decide, ⟨rfl, by decide, by decide, by decide⟩, trivial⟩,
      ⟨_, rfl, ⟨_, rfl, trivial⟩, trivial⟩, trivial⟩
  · intro _
    exact ⟨trivial, ⟨by decide, trivial, trivial⟩, ⟨trivial, trivial⟩, trivial⟩

/-! Non-vacuity with unreadable leaves (a view that is not `Ok`, written with
`allow_partial_output`): `exTreeP` = `{ n, bad (unreadable), xs = [1, unreadable, 3, unreadable] }`.
Single-line: the element after a skipped one carries its index, the text is re-read and yields
exactly the readable leaves at their own paths.  Multi-line with comments: the unreadable
element / field are mentioned in comments only. -/
def exTreeP : TVal :=
  .struct (.cons "n".toList false (.scalar (.int .u8 2))
    (.skip "bad".toList
    (.cons "xs".toList false (.arr false (.cons (.scalar (.int .u16 1)) (.skip
      (.cons (.scalar (.int .u16 3)) (.skip .nil))))) .nil)))
def exShapeP : RShape :=
  .struct (.cons "n".toList (.scalar (.int .u8 0 255))
    (.cons "bad".toList (.scalar (.int .u8 0 9))
    (.cons "xs".toList (.arr 4 (.scalar (.int .u16 0 65535))) .nil)))

example : exOptsSL.Rereadable ∧ exTreeP.WF ∧ Matches exShapeP exTreeP ∧
    noMultilineArray exOptsSL exTreeP ∧ ¬ noMultilineArray exOptsML exTreeP := by
  refine ⟨⟨by decide, by decide, by decide⟩, ?_, ?_, (by intro h; cases h), ?_⟩
  · simp [exTreeP, TVal.WF, TFields.WF, TVals.WF, Scalar.WF, ValidWord, isDelim, isSpace, isPunct]
  · exact ⟨⟨_, rfl, rfl, by decide, by decide, by decide⟩,
      ⟨_, rfl, rfl, by decide, ⟨rfl, by decide, by decide, by decide⟩,
        ⟨rfl, by decide, by decide, by decide⟩, trivial⟩, trivial⟩
  · intro h
    have h2 : (2 : Nat) ≤ 1 := (h rfl).2.1.1
    exact absurd h2 (by decide)

example : String.ofList (writeToString exOptsSL exTreeP) = "{ n: 0x2, xs: { [0x0]: 0x1, [0x2]: 0x3, } }" ∧
    updateFromText exShapeP (writeToString exOptsSL exTreeP) =
      .ok [("n".toList, .int 2), ("xs[0]".toList, .int 1), ("xs[2]".toList, .int 3)] [] ∧
    String.ofList (writeToString exOptsML exTreeP) =
      "{\n  n: 2  # 0x2\n  # bad: UNREADABLE\n  xs: {\n    [0]: 1  # 0x1\n    # [1]: UNREADABLE\n    [2]: 3  # 0x3\n    # [3]: UNREADABLE\n  }\n}" := by
  decide +kernel

example : String.ofList (writeToString exOptsML exTreeML) =
      "{\n  k: -5\n  xs: {\n    # H\n    [0]: 72  # 0x48\n  }\n  s: {\n    b: false\n  }\n}" ∧
    updateFromText exShapeML (writeToString exOptsML exTreeML) =
      .ok [("k".toList, .int (-5)), ("xs[0]".toList, .int 72), ("s.b".toList, .bool false)] [] := by
  decide +kernel

/-! The writer model on the two views the repository's own tests pin for `allow_partial_output`
(compiler/back_end/cpp/testcode/requires_test.cc, `WriteToString.NotOkFieldsAreNotWritten` and
`NotOkArrayElementsAreNotWritten`; tests over literals): the model's text is the pinned text. -/
def exPinnedFields : TVal :=
  .struct (.cons "zero_through_nine".toList false (.scalar (.int .u8 0))
    (.skip "ten_through_twenty".toList
    (.cons "disjoint".toList false (.scalar (.int .u8 0))
    (.skip "ztn_plus_ttt".toList
    (.skip "alias_of_zero_through_nine".toList
    (.cons "zero_through_nine_plus_five".toList false (.scalar (.int .i32 5)) .nil))))))
def exPinnedElems : TVal :=
  .struct (.cons "xs".toList false (.arr false
    (.cons (.struct (.skip "x".toList .nil))
    (.cons (.struct (.cons "x".toList false (.scalar (.int .u8 0)) .nil))
    (.cons (.struct (.skip "x".toList .nil))
    (.cons (.struct (.cons "x".toList false (.scalar (.int .u8 5)) .nil)) .nil))))) .nil)
def exOptsDefault : Opts := ⟨false, false, .b10, false, [], []⟩

example :
    String.ofList (writeToString exOptsML exPinnedFields) =
      "{\n  zero_through_nine: 0  # 0x0\n  # ten_through_twenty: UNREADABLE\n  disjoint: 0  # 0x0\n  # ztn_plus_ttt: UNREADABLE\n  # alias_of_zero_through_nine: UNREADABLE\n  zero_through_nine_plus_five: 5  # 0x5\n}" ∧
    String.ofList (writeToString exOptsDefault exPinnedFields) =
      "{ zero_through_nine: 0, disjoint: 0, zero_through_nine_plus_five: 5 }" ∧
    String.ofList (writeToString exOptsML exPinnedElems) =
      "{\n  xs: {\n    [0]: {\n      # x: UNREADABLE\n    }\n    [1]: {\n      x: 0  # 0x0\n    }\n    [2]: {\n      # x: UNREADABLE\n    }\n    [3]: {\n      x: 5  # 0x5\n    }\n  }\n}" ∧
    String.ofList (writeToString exOptsDefault exPinnedElems) =
      "{ xs: { [0]: { }, { x: 0 }, { }, { x: 5 } } }" := by
  decide +kernel

/-! ## The array reader refuses the multi-line writer's own output (open finding) -/

def exArrShape : RShape := .struct (.cons "xs".toList (.arr 2 (.scalar (.int .u8 0 255))) .nil)
def exArrVal : TVal :=
  .struct (.cons "xs".toList false
    (.arr true (.cons (.scalar (.int .u8 1)) (.cons (.scalar (.int .u8 2)) .nil))) .nil)
def exArrML : Opts := ⟨true, false, .b10, false, "  ".toList, []⟩
def exArrSL : Opts := ⟨false, false, .b10, false, [], []⟩

/-- The boundary of `C06_text_roundtrip_partial`: `struct Foo: 0 [+2] UInt:8[2] xs`, buffer
01 02.  Every hypothesis of the round-trip theorem holds except `noMultilineArray` (re-readable
options, well-formed tree of the static shape), and the conclusion fails: the multi-line text
`{\n  xs: {\n    [0]: 1\n    [1]: 2\n  }\n}` is rejected by the reader model
(`ReadArrayFromTextStream` wants `,` or `}` after an element; the multi-line writer puts a
line break), although its tokens are read back exactly (`C06_tokens_roundtrip`); the
single-line text is accepted and yields the values.  Replayed on the real code on every run
(finding `multiline-array-elements-not-comma-separated`). -/
theorem C06_array_multiline_counterexample :
    exArrML.Rereadable ∧ exArrVal.WF ∧ Matches exArrShape exArrVal ∧
    ¬ noMultilineArray exArrML exArrVal ∧
    updateFromText exArrShape (writeToString exArrML exArrVal) = .fail ∧
    updateFromText exArrShape (writeToString exArrSL exArrVal) =
      .ok [("xs[0]".toList, .int 1), ("xs[1]".toList, .int 2)] [] := by
  refine ⟨⟨by decide, by decide, by decide⟩, ?_, ?_, ?_, by decide +kernel, by decide +kernel⟩
  · simp [exArrVal, TVal.WF, TFields.WF, TVals.WF, Scalar.WF, ValidWord, isDelim, isSpace, isPunct]
  · exact ⟨⟨_, rfl, rfl, by decide, ⟨rfl, by decide, by decide, by decide⟩,
      ⟨rfl, by decide, by decide, by decide⟩, trivial⟩, trivial⟩
  · intro h
    have h2 : (2 : Nat) ≤ 1 := (h rfl).1.1
    exact absurd h2 (by decide)

end Emboss.Text
