/-
C18 — The IR survives serialization; split and in-process pipelines agree.

Property theorems only.  Model: Emboss/Model/Json.lean (mirrors ir_data_utils.IrDataSerializer,
ir_data_fields, ir_data.Message, parser_types.SourceLocation).  Spec: Emboss/Spec/Json.lean.
Lemmas: Emboss/Lemmas/Json{Loc,Rt,RtMain,Wf,TextStr,Text}.lean (text layer: Model/JsonText.lean).  Regenerated schema + `SchemaOk` obligation:
Emboss/Generated/IrSchema{,Ok}.lean.

All theorems are generic over every schema `S` with `SchemaOk S` (decidable) and every
message `m` with `WfMsg S c m` (decidable); the `_ir` variants instantiate them with the
schema extracted from the current `ir_data.py`.
-/
import Emboss.Spec.Json
import Emboss.Lemmas.JsonRtMain
import Emboss.Lemmas.JsonWf
import Emboss.Lemmas.JsonText
import Emboss.Generated.IrSchemaOk
namespace Emboss.Json

/-- `from_dict(to_dict(m)) == m` for every well-formed message of every admissible schema:
every node, every set/unset distinction (`None` vs `False`/`0`/`""`, which are *set*),
empty lists, enums, integers of any size, locations with flags. -/
theorem C18_roundtrip (S : Schema) (hS : SchemaOk S) (c : String) (m : Val) (h : WfMsg S c m) :
    Spec.RoundTrips (toDict S) (fromDict S c) m := by
  obtain ⟨d, he, hd, _, _⟩ := (rtAny S hS m).1 (.msg c) h
  refine ⟨d, ?_, hd⟩
  cases m with
  | msg c' vs => exact he
  | _ => simp [WfMsg, wfVal] at h

/-- The same, for the schema of the IR as it is in the tree now. -/
theorem C18_roundtrip_ir (c : String) (m : Val) (h : WfMsg Generated.schema c m) :
    Spec.RoundTrips (toDict Generated.schema) (fromDict Generated.schema c) m :=
  C18_roundtrip _ Generated.schema_ok c m h

/-- Serializing the re-read IR gives the same dict, hence (the text being a function of
the dict) the same JSON text. -/
theorem C18_to_json_idempotent (S : Schema) (hS : SchemaOk S) (c : String) (m : Val)
    (h : WfMsg S c m) :
    Spec.Idempotent (toDict S) (fromDict S c) m ∧
      ∃ d m', toDict S m = some d ∧ fromDict S c d = some m' ∧ toJson S m' = toJson S m := by
  have hr := C18_roundtrip S hS c m h
  refine ⟨Spec.idempotent_of_roundTrips hr, ?_⟩
  obtain ⟨d, h1, h2⟩ := hr
  exact ⟨d, m, h1, h2, rfl⟩

/-- TEXT level (round 2): reading back what `json.dumps` wrote gives the same JSON value —
for *every* value of the generic `Dv` type: all strings (quotes, backslashes, control
characters, non-ASCII, non-BMP characters written as `\\uD8xx\\uDCxx` surrogate pairs), all
integers of any magnitude and sign, `null`/`true`/`false`, lists and dicts of any nesting and
any keys.  The reader (`parseJson`, a model of `json.loads` on the language of `json.dumps`)
consumes the whole text and never runs out of its fuel `2·|text| + 2`. -/
theorem C18_json_text_roundtrip (d : Dv) : parseJson d.render = .ok d [] :=
  parseJson_render d

/-- `C18_to_json_idempotent` at the level of the JSON **text**: `to_json(m)` produces a text `t`,
`from_json(t)` (= `json.loads` then `_from_dict`) gives back exactly `m`, and serializing
whatever `from_json(t)` returns gives the identical text `t` again. -/
theorem C18_to_json_idempotent_text (S : Schema) (hS : SchemaOk S) (c : String) (m : Val)
    (h : WfMsg S c m) :
    ∃ t, toJson S m = some t ∧ fromJson S c t = some m ∧
      ∀ m', fromJson S c t = some m' → toJson S m' = some t := by
  obtain ⟨d, h1, h2⟩ := C18_roundtrip S hS c m h
  have hj : toJson S m = some d.render := by simp [toJson, h1]
  have hf : fromJson S c d.render = some m := by
    simp only [fromJson, parseJson_render d, h2]
  refine ⟨d.render, hj, hf, ?_⟩
  intro m' hm'
  rw [hf] at hm'
  cases hm'
  exact hj

/-- The same for the schema of the IR as it is in the tree now. -/
theorem C18_to_json_idempotent_text_ir (c : String) (m : Val) (h : WfMsg Generated.schema c m) :
    ∃ t, toJson Generated.schema m = some t ∧ fromJson Generated.schema c t = some m ∧
      ∀ m', fromJson Generated.schema c t = some m' → toJson Generated.schema m' = some t :=
  C18_to_json_idempotent_text _ Generated.schema_ok c m h

/-- `SourceLocation.from_str(str(l)) == l` for every location the constructor admits
(start ≤ end; line/column both zero or both positive; start, end both falsy or both
truthy), for all four flag combinations. -/
theorem C18_location_roundtrip (l : Loc) (h : l.ok = true) : Loc.fromStr l.toStr = some l :=
  Loc.fromStr_toStr l h

/-- Whatever `from_str` accepts satisfies the constructor's invariants. -/
theorem C18_location_from_str_ok (s : String) (l : Loc) (h : Loc.fromStr s = some l) : l.ok = true :=
  Loc.ok_of_fromChars h

/-- Integers are never narrowed: an `int` value of any magnitude passes through
`to_dict`/`_from_dict` and the text layer as its exact decimal form, and the decimal-string
form used by `NumericConstant.value`/`IntegerType.*` denotes the same integer and passes
through unchanged. -/
theorem C18_bigint (S : Schema) (i : Int) :
    (∃ d, encVal S (.int i) = some d ∧ decVal S .int d = some (.int i) ∧ d.renderChars = intChars i) ∧
    parseInt (intChars i) = some i ∧
    (∃ d, encVal S (.str (String.ofList (intChars i))) = some d ∧
      decVal S .str d = some (.str (String.ofList (intChars i)))) := by
  refine ⟨⟨.int i, by simp [encVal], by simp [decVal], by simp [Dv.renderChars]⟩,
    parseInt_intChars i, ⟨.str (String.ofList (intChars i)), by simp [encVal], by simp [decVal]⟩⟩

/-- `has_field` answers are the same on the re-read message, for every field name. -/
theorem C18_set_unset (S : Schema) (hS : SchemaOk S) (c : String) (m : Val) (h : WfMsg S c m) :
    Spec.Indistinguishable (toDict S) (fromDict S c) (hasField S) m :=
  Spec.indistinguishable_of_roundTrips _ (C18_roundtrip S hS c m h)

/-- Header generation — *any* function of the message value — gives the same result on the
re-read IR as on the in-memory IR. -/
theorem C18_header_equal {α : Type} (gen : Val → α) (S : Schema) (hS : SchemaOk S) (c : String)
    (m : Val) (h : WfMsg S c m) :
    Spec.Indistinguishable (toDict S) (fromDict S c) gen m :=
  Spec.indistinguishable_of_roundTrips _ (C18_roundtrip S hS c m h)

/-- Whatever `_from_dict` builds — from *any* dict, not only from `to_dict` output — is a
well-formed message: the back end of the split pipeline only ever sees well-formed IR
(values of the declared types, constructor invariants of locations, at most one member per
oneof group).  Needs, beyond `SchemaOk`, that constructor defaults are values of their
field's type (`SchemaOkStrict`, decidable). -/
theorem C18_from_dict_wf (S : Schema) (hS : SchemaOkStrict S) (c : String) (d : Dv) (m : Val)
    (h : fromDict S c d = some m) : WfMsg S c m :=
  (wfDecAny S hS d).1 (.msg c) m h

/-- Hence the re-read IR itself round-trips: json → IR → json → IR is stable from the first
re-read on, for any input text the back end accepts. -/
theorem C18_reread_stable (S : Schema) (hS : SchemaOkStrict S) (c : String) (d : Dv) (m : Val)
    (h : fromDict S c d = some m) : Spec.RoundTrips (toDict S) (fromDict S c) m := by
  have hS' : SchemaOk S := by
    simp only [SchemaOkStrict, schemaOkStrict, Bool.and_eq_true] at hS
    exact hS.1
  exact C18_roundtrip S hS' c m (C18_from_dict_wf S hS c d m h)

theorem C18_from_dict_wf_ir (c : String) (d : Dv) (m : Val)
    (h : fromDict Generated.schema c d = some m) : WfMsg Generated.schema c m :=
  C18_from_dict_wf _ Generated.schema_ok_strict c d m h

/-! ### non-vacuity -/

section Examples
open Generated

/-- `Expression { constant: NumericConstant{ value: "340282366920938463463374607431768211456" (2^128),
source_location: 3:5-3:44 }, type: ExpressionType{ integer: IntegerType{ modulus: "infinity", … } },
source_location: 0:0-0:0^* }` over the regenerated IR schema. -/
def exExpr : Val :=
  .msg "Expression" [
    .msg "NumericConstant" [.str "340282366920938463463374607431768211456", .loc ⟨⟨3, 5⟩, ⟨3, 44⟩, false, false⟩],
    .none, .none, .none, .none, .none,
    .msg "ExpressionType" [.none,
      .msg "IntegerType" [.str "infinity", .str "340282366920938463463374607431768211456", .none, .str ""],
      .none, .none],
    .loc ⟨⟨0, 0⟩, ⟨0, 0⟩, true, true⟩]

example : SchemaOk schema := schema_ok
example : WfMsg schema "Expression" exExpr := by decide +kernel
example : toJson schema exExpr = some
    "{\"constant\": {\"value\": \"340282366920938463463374607431768211456\", \"source_location\": \"3:5-3:44\"}, \"type\": {\"integer\": {\"modulus\": \"infinity\", \"modular_value\": \"340282366920938463463374607431768211456\", \"maximum_value\": \"\"}}, \"source_location\": \"0:0-0:0^*\"}" := by
  decide +kernel

/-- Set-but-falsy values: `WriteMethod{physical: False}`, `CanonicalName{module_file: "", object_path: []}`,
`Structure{fields_in_dependency_order: [0]}`. -/
def exFalsy : Val :=
  .msg "Field" [.none, .none, .none,
    .msg "WriteMethod" [.bool false, .none, .none, .none],
    .msg "NameDefinition" [.none, .msg "CanonicalName" [.str "", .list []], .bool false, .none],
    .none, .list [], .list [], .none, .none]

example : WfMsg schema "Field" exFalsy := by decide +kernel
example : toJson schema exFalsy = some
    "{\"write_method\": {\"physical\": false}, \"name\": {\"canonical_name\": {\"module_file\": \"\"}, \"is_anonymous\": false}}" := by
  decide +kernel
example : hasField schema (.msg "WriteMethod" [.bool false, .none, .none, .none]) "physical" = true
    ∧ hasField schema (.msg "WriteMethod" [.bool false, .none, .none, .none]) "read_only" = false := by
  decide +kernel

/-- Text layer, non-vacuity: a value with every escape class, a non-BMP character, a number
beyond 64 bits, nesting and an empty list/dict — rendered and read back (evaluated). -/
def exText : Dv :=
  .dict [("k\"\\\n\t", .list [.int (-18446744073709551617), .str "é\u0001😀/", .null, .bool true, .list [], .dict []]),
         ("", .str "")]

example : exText.render =
    "{\"k\\\"\\\\\\n\\t\": [-18446744073709551617, \"\\u00e9\\u0001\\ud83d\\ude00/\", null, true, [], {}], \"\": \"\"}" := by
  decide +kernel
example : parseJson exText.render = .ok exText [] := C18_json_text_roundtrip exText
/-- the reader is strict: trailing text, a lone surrogate, a raw control character are rejected. -/
example : (match parseJson "[1, 2] " with | .err => true | _ => false) = true := by decide +kernel
example : (match parseJson "\"\\ud83d\"" with | .err => true | _ => false) = true := by decide +kernel
example : (match parseJson "\"a\nb\"" with | .err => true | _ => false) = true := by decide +kernel
example : fromJson schema "Expression" ((toJson schema exExpr).getD "") = some exExpr := by
  obtain ⟨t, h1, h2, _⟩ := C18_to_json_idempotent_text_ir "Expression" exExpr (by decide +kernel)
  simp [h1, h2]

/-- A dict that `to_dict` never produces (two members of oneof `type`, an enum by name, a
`null`, an unknown key, explicit empty list): `_from_dict` accepts it, the constructor keeps
the later oneof member, and the result is well-formed. -/
def exOddDict : Dv :=
  .dict [("opaque", .dict []), ("boolean", .dict [("value", .bool false)]), ("zzz", .int 1), ("integer", .null)]

example : fromDict schema "ExpressionType" exOddDict
    = some (.msg "ExpressionType" [.none, .none, .msg "BooleanType" [.bool false], .none]) := by rfl
example : fromDict schema "Function" (.dict [("function", .str "ADDITION"), ("args", .list [])])
    = some (.msg "Function" [.enum 1, .list [], .none, .none]) := by rfl

/-- All flag combinations, including the falsy `0:0-0:0`. -/
example : (Loc.mk ⟨0, 0⟩ ⟨0, 0⟩ false false).toStr = "0:0-0:0"
    ∧ (Loc.mk ⟨0, 0⟩ ⟨0, 0⟩ true false).toStr = "0:0-0:0^"
    ∧ (Loc.mk ⟨12, 3⟩ ⟨14, 1⟩ false true).toStr = "12:3-14:1*"
    ∧ (Loc.mk ⟨12, 3⟩ ⟨14, 1⟩ true true).toStr = "12:3-14:1^*"
    ∧ (Loc.mk ⟨12, 3⟩ ⟨14, 1⟩ true true).ok = true ∧ (Loc.mk ⟨0, 0⟩ ⟨0, 0⟩ true false).ok = true
    ∧ Loc.fromStr "12:3-14:1^*" = some ⟨⟨12, 3⟩, ⟨14, 1⟩, true, true⟩
    ∧ Loc.fromStr "12:3-14:1*^" = none ∧ Loc.fromStr "14:1-12:3" = none ∧ Loc.fromStr "0:0-1:1" = none := by
  decide +kernel

/-! The hypotheses are needed (tests over literals, not property theorems): with a
non-`None` default on an OPTIONAL field, or two members of a oneof group set, the round
trip fails on the model. -/

def badSchema : Schema :=
  ⟨[⟨"C", [⟨"flag", .bool, .optional, none, .str "x"⟩]⟩,
    ⟨"O", [⟨"a", .bool, .optional, some "g", .none⟩, ⟨"b", .bool, .optional, some "g", .none⟩]⟩], []⟩

example : ¬ SchemaOk badSchema := by decide +kernel
example : WfMsg badSchema "C" (.msg "C" [.none]) := by decide +kernel
example : (toDict badSchema (.msg "C" [.none])).bind (fromDict badSchema "C") = some (.msg "C" [.str "x"]) := by
  rfl
example : ¬ WfMsg badSchema "O" (.msg "O" [.bool true, .bool false]) := by decide +kernel
example : (toDict badSchema (.msg "O" [.bool true, .bool false])).bind (fromDict badSchema "O")
    = some (.msg "O" [.none, .bool false]) := by
  rfl

end Examples

end Emboss.Json
