/-
C15 — Dependency cycles are always rejected; field order respects dependencies.

Property theorems only (helper lemmas live in Emboss/Lemmas/Deps.lean).
Model: Emboss/Model/Deps.lean (mirrors dependency_checker.py).
-/
import Emboss.Lemmas.Deps
import Emboss.Lemmas.TarjanMain
namespace Emboss.Deps

/-- Every field of `fields_in_dependency_order` comes after all fields (or runtime
parameters) its location, condition or value mentions.  Unconditional: holds for
whatever prefix the loop manages to emit. -/
theorem C15_order_topological (deps : DepFn) (params fields : List Nat) :
    TopoFrom deps params (order deps params fields) :=
  orderAux_topo deps _ _ _

/-- The ordering is the source order whenever the source order already has the
property. -/
theorem C15_order_identity_if_sorted (deps : DepFn) (params fields : List Nat)
    (h : TopoFrom deps params fields) : order deps params fields = fields :=
  orderAux_id_of_topo deps params fields h

/-- When the Python `assert len(order) == len(structure.field)` passes, the ordering
is a permutation of the structure's fields. -/
theorem C15_order_perm (deps : DepFn) (params fields o : List Nat)
    (h : orderChecked deps params fields = some o) : o.Perm fields := by
  unfold orderChecked at h
  simp only at h
  split at h
  · rename_i hl
    cases h
    exact orderAux_perm_of_length deps _ _ _ (Nat.le_refl _) hl
  · cases h

/-- The assert cannot fire on a structure whose fields admit *any* dependency-respecting
arrangement (i.e. the field graph restricted to the structure is acyclic and mentions
only its own fields and parameters — which cycle detection, run earlier, guarantees). -/
theorem C15_order_complete (deps : DepFn) (params fields p : List Nat)
    (hp : p.Perm fields) (ht : TopoFrom deps params p) :
    ∃ o, orderChecked deps params fields = some o := by
  have := orderAux_complete deps fields.length params fields p (Nat.le_refl _) hp ht
  exact ⟨order deps params fields, by simp [orderChecked, order, this]⟩

/-- Non-vacuity: a structure whose source order is *not* topological (field 0 depends
on field 2, which depends on parameter 7) is reordered to `[1, 2, 0]`, and the
hypotheses of `C15_order_complete` are met by the arrangement `[2, 0, 1]`. -/
def exDeps : DepFn := fun f => if f = 0 then [2] else if f = 2 then [7] else []
example :
    order exDeps [7] [0, 1, 2] = [1, 2, 0] ∧ TopoFrom exDeps [7] [2, 0, 1] ∧
      ¬ TopoFrom exDeps [7] [0, 1, 2] := by
  decide

/-! ## Cycle detection (`_find_cycles`, Tarjan as written in dependency_checker.py) -/

/-- The final state of `_find_cycles` on a graph all of whose destinations are keys:
never out of fuel, invariant holds, stack empty, every key indexed. -/
theorem tarjan_final (g : Graph) (hc : closed g = true) :
    Inv g (tarjan g (keys g).length) ∧ (tarjan g (keys g).length).stack = [] ∧
      ∀ v ∈ keys g, indexed (tarjan g (keys g).length) v = true := by
  have h := tarjanLoop_spec (closed_edge hc) (keys g).length (keys g) TState.init (Inv.init g) rfl
    (fun v hv => hv) (List.countP_le_length)
  exact ⟨h.1, h.2.1, h.2.2.2⟩

/-- `C15_terminates`: recursion depth (the model's fuel) never exceeds the number of keys:
`_find_cycles` returns for every graph (or raises `KeyError` when a destination is not a
key — never for the graphs `_find_dependencies` builds). -/
theorem C15_terminates (g : Graph) : findCycles g ≠ .outOfFuel := by
  unfold findCycles findCyclesFuel
  cases hc : closed g
  · simp
  · have := (tarjan_final g hc).1.noOof
    simp [this]

/-- `C15_tarjan_sccs` (full statement, proved): the components reported by `_find_cycles`
are exactly the strongly connected components that contain a cycle — each reported list is
duplicate-free, is a class of mutual reachability, and consists of nodes that depend on
themselves; every node that depends on itself is in some reported component; and
reported components are pairwise disjoint (no SCC is reported twice).  The statement does
not mention the order in which keys or successors are iterated: the *set* of components
is independent of Python's set/dict iteration order (`C15_order_independent`). -/
theorem C15_tarjan_sccs (g : Graph) (cs : List (List Nat)) (h : findCycles g = .ok cs) :
    (∀ C ∈ cs, C.Nodup ∧ IsSCC g C ∧ ∀ a ∈ C, cyclic g a) ∧
    (∀ a, cyclic g a → ∃ C ∈ cs, a ∈ C) ∧
    cs.Pairwise (fun C D => ∀ a ∈ C, a ∉ D) := by
  unfold findCycles findCyclesFuel at h
  cases hc : closed g
  · simp [hc] at h
  · obtain ⟨hinv, hstk, hall⟩ := tarjan_final g hc
    simp only [hc, Bool.true_eq_false, if_false, hinv.noOof] at h
    injection h with h
    subst h
    refine ⟨fun C hC => ?_, fun a ha => ?_, hinv.compsDisj⟩
    · obtain ⟨_, h2, h3, h4⟩ := hinv.compsOk C hC
      exact ⟨h3, h2, h4⟩
    · obtain ⟨b, he, _⟩ := ReachP.head ha
      exact hinv.compsAll a (hall a (edge_src_key he)) (by simp [hstk]) ha

/-- `C15_cycle_iff`: a "Dependency cycle" error is produced exactly when some definition
depends on itself through references. -/
theorem C15_cycle_iff (g : Graph) (cs : List (List Nat)) (h : findCycles g = .ok cs) :
    cs ≠ [] ↔ ∃ a, cyclic g a := by
  obtain ⟨h1, h2, _⟩ := C15_tarjan_sccs g cs h
  constructor
  · intro hne
    cases cs with
    | nil => exact absurd rfl hne
    | cons C rest =>
      obtain ⟨_, hscc, hcyc⟩ := h1 C (by simp)
      cases C with
      | nil => exact absurd rfl hscc.1
      | cons a _ => exact ⟨a, hcyc a (by simp)⟩
  · intro ⟨a, ha⟩ hnil
    obtain ⟨C, hC, _⟩ := h2 a ha
    simp [hnil] at hC

/-- The only other outcome is the `KeyError` of `graph[destination]`. -/
theorem C15_ok_iff_closed (g : Graph) : (∃ cs, findCycles g = .ok cs) ↔ closed g = true := by
  unfold findCycles findCyclesFuel
  cases hc : closed g
  · simp
  · have := (tarjan_final g hc).1.noOof
    simp [this]

/-- Iteration order of `graph` and of each `graph[node]` (Python dict/set order) does not
matter: two dicts with the same edges yield the same set of components. -/
theorem C15_order_independent (g g' : Graph) (cs cs' : List (List Nat))
    (he : ∀ a b, Edge g a b ↔ Edge g' a b)
    (h : findCycles g = .ok cs) (h' : findCycles g' = .ok cs') :
    ∀ C ∈ cs, ∃ C' ∈ cs', ∀ x, x ∈ C ↔ x ∈ C' := by
  intro C hC
  obtain ⟨h1, _, _⟩ := C15_tarjan_sccs g cs h
  obtain ⟨h1', h2', _⟩ := C15_tarjan_sccs g' cs' h'
  obtain ⟨_, hscc, hcyc⟩ := h1 C hC
  cases hCe : C with
  | nil => exact absurd hCe hscc.1
  | cons a rest =>
    have haC : a ∈ C := by simp [hCe]
    obtain ⟨C', hC', haC'⟩ := h2' a ((hcyc a haC).congr (fun x y e => (he x y).mp e))
    refine ⟨C', hC', fun x => ?_⟩
    rw [← hCe, hscc.2 a haC x, (h1' C' hC').2.1.2 a haC' x]
    exact ⟨fun m => ⟨m.1.congr (fun x y e => (he x y).mp e), m.2.congr (fun x y e => (he x y).mp e)⟩,
           fun m => ⟨m.1.congr (fun x y e => (he x y).mpr e), m.2.congr (fun x y e => (he x y).mpr e)⟩⟩

/-- Non-vacuity (tests by evaluation): two SCCs joined by a bridge plus a self-loop and an
acyclic tail; the self-loop alone; an acyclic chain (no component); a dangling edge. -/
example : findCycles [(0, [1]), (1, [2]), (2, [0, 3]), (3, [4]), (4, [3]), (5, [5]), (6, [5])]
    = .ok [[4, 3], [2, 1, 0], [5]] := by decide
example : findCycles [(0, [1]), (1, [2]), (2, [])] = .ok [] := by decide
example : findCycles [(0, [1])] = .keyError := by decide
example : cyclic [(0, [1]), (1, [0])] 0 :=
  .step (b := 1) (by decide) (.single (by decide))

end Emboss.Deps
