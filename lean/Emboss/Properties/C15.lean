/-
C15 — Dependency cycles are always rejected; field order respects dependencies.

Property theorems only (helper lemmas live in Emboss/Lemmas/Deps.lean).
Model: Emboss/Model/Deps.lean (mirrors dependency_checker.py).
-/
import Emboss.Lemmas.Deps
import Emboss.Lemmas.TarjanMain
import Emboss.Lemmas.DepsMore
import Emboss.Lemmas.GroupsCanon
namespace Emboss.Deps

/-- Every field of `fields_in_dependency_order` comes after all fields (or runtime
parameters) its location, condition or value mentions.  Unconditional: holds for
whatever prefix the loop manages to emit. -/
theorem C15_order_topological (deps : DepFn) (params fields : List Nat) :
    TopoFrom deps params (order deps params fields) :=
  orderAux_topo deps _ _ _

/-- The ordering is the source order whenever the source order already has the
property. -/
theorem C15_order_identity_if_sorted (deps : DepFn) (params fields : List Nat)
    (h : TopoFrom deps params fields) : order deps params fields = fields :=
  orderAux_id_of_topo deps params fields h

/-- When the Python `assert len(order) == len(structure.field)` passes, the ordering
is a permutation of the structure's fields. -/
theorem C15_order_perm (deps : DepFn) (params fields o : List Nat)
    (h : orderChecked deps params fields = some o) : o.Perm fields := by
  unfold orderChecked at h
  simp only at h
  split at h
  · rename_i hl
    cases h
    exact orderAux_perm_of_length deps _ _ _ (Nat.le_refl _) hl
  · cases h

/-- The assert cannot fire on a structure whose fields admit *any* dependency-respecting
arrangement (i.e. the field graph restricted to the structure is acyclic and mentions
only its own fields and parameters — which cycle detection, run earlier, guarantees). -/
theorem C15_order_complete (deps : DepFn) (params fields p : List Nat)
    (hp : p.Perm fields) (ht : TopoFrom deps params p) :
    ∃ o, orderChecked deps params fields = some o := by
  have := orderAux_complete deps fields.length params fields p (Nat.le_refl _) hp ht
  exact ⟨order deps params fields, by simp [orderChecked, order, this]⟩

/-- Non-vacuity: a structure whose source order is *not* topological (field 0 depends
on field 2, which depends on parameter 7) is reordered to `[1, 2, 0]`, and the
hypotheses of `C15_order_complete` are met by the arrangement `[2, 0, 1]`. -/
def exDeps : DepFn := fun f => if f = 0 then [2] else if f = 2 then [7] else []
example :
    order exDeps [7] [0, 1, 2] = [1, 2, 0] ∧ TopoFrom exDeps [7] [2, 0, 1] ∧
      ¬ TopoFrom exDeps [7] [0, 1, 2] := by
  decide

/-! ## Cycle detection (`_find_cycles`, Tarjan as written in dependency_checker.py) -/

/-- The final state of `_find_cycles` on a graph all of whose destinations are keys:
never out of fuel, invariant holds, stack empty, every key indexed. -/
theorem tarjan_final (g : Graph) (hc : closed g = true) :
    Inv g (tarjan g (keys g).length) ∧ (tarjan g (keys g).length).stack = [] ∧
      ∀ v ∈ keys g, indexed (tarjan g (keys g).length) v = true := by
  have h := tarjanLoop_spec (closed_edge hc) (keys g).length (keys g) TState.init (Inv.init g) rfl
    (fun v hv => hv) (List.countP_le_length)
  exact ⟨h.1, h.2.1, h.2.2.2⟩

/-- `C15_terminates`: recursion depth (the model's fuel) never exceeds the number of keys:
`_find_cycles` returns for every graph (or raises `KeyError` when a destination is not a
key — never for the graphs `_find_dependencies` builds). -/
theorem C15_terminates (g : Graph) : findCycles g ≠ .outOfFuel := by
  unfold findCycles findCyclesFuel
  cases hc : closed g
  · simp
  · have := (tarjan_final g hc).1.noOof
    simp [this]

/-- `C15_tarjan_sccs` (full statement, proved): the components reported by `_find_cycles`
are exactly the strongly connected components that contain a cycle — each reported list is
duplicate-free, is a class of mutual reachability, and consists of nodes that depend on
themselves; every node that depends on itself is in some reported component; and
reported components are pairwise disjoint (no SCC is reported twice).  The statement does
not mention the order in which keys or successors are iterated: the *set* of components
is independent of Python's set/dict iteration order (`C15_order_independent`). -/
theorem C15_tarjan_sccs (g : Graph) (cs : List (List Nat)) (h : findCycles g = .ok cs) :
    (∀ C ∈ cs, C.Nodup ∧ IsSCC g C ∧ ∀ a ∈ C, cyclic g a) ∧
    (∀ a, cyclic g a → ∃ C ∈ cs, a ∈ C) ∧
    cs.Pairwise (fun C D => ∀ a ∈ C, a ∉ D) := by
  unfold findCycles findCyclesFuel at h
  cases hc : closed g
  · simp [hc] at h
  · obtain ⟨hinv, hstk, hall⟩ := tarjan_final g hc
    simp only [hc, Bool.true_eq_false, if_false, hinv.noOof] at h
    injection h with h
    subst h
    refine ⟨fun C hC => ?_, fun a ha => ?_, hinv.compsDisj⟩
    · obtain ⟨_, h2, h3, h4⟩ := hinv.compsOk C hC
      exact ⟨h3, h2, h4⟩
    · obtain ⟨b, he, _⟩ := ReachP.head ha
      exact hinv.compsAll a (hall a (edge_src_key he)) (by simp [hstk]) ha

/-- The same in the wording of the code ("components of size 1 without a self-edge are not
included"): the result is, as a set of sets, `{C | C SCC of g ∧ (|C| > 1 ∨ self-edge)}`. -/
theorem C15_tarjan_sccs_literal (g : Graph) (cs : List (List Nat)) (h : findCycles g = .ok cs) :
    (∀ C ∈ cs, C.Nodup ∧ IsSCC g C ∧ (C.length > 1 ∨ ∃ a, C = [a] ∧ Edge g a a)) ∧
    (∀ C, C.Nodup → IsSCC g C → (C.length > 1 ∨ ∃ a, C = [a] ∧ Edge g a a) →
      ∃ C' ∈ cs, ∀ x, x ∈ C ↔ x ∈ C') := by
  obtain ⟨h1, h2, _⟩ := C15_tarjan_sccs g cs h
  constructor
  · intro C hC
    obtain ⟨hnd, hscc, hcyc⟩ := h1 C hC
    refine ⟨hnd, hscc, ?_⟩
    match C, hscc, hcyc with
    | [], hscc, _ => exact absurd rfl hscc.1
    | [a], hscc, hcyc =>
      right
      obtain ⟨b, he, hr⟩ := ReachP.head (hcyc a (by simp))
      have hb : b ∈ [a] := (hscc.2 a (by simp) b).mpr ⟨.single he, hr⟩
      simp only [List.mem_singleton] at hb
      subst hb
      exact ⟨b, rfl, he⟩
    | _ :: _ :: _, _, _ => left; simp
  · intro C hnd hscc hnt
    have hcyc : ∃ a ∈ C, cyclic g a := by
      rcases hnt with hlen | ⟨a, rfl, he⟩
      · match C, hnd, hscc, hlen with
        | a :: b :: _, hnd, hscc, _ =>
          have hab : a ≠ b := by
            intro e; subst e; simp at hnd
          exact ⟨a, by simp, cyclic_of_mutual_ne ((hscc.2 a (by simp) b).mp (by simp)) hab⟩
      · exact ⟨a, by simp, .single he⟩
    obtain ⟨a, haC, hca⟩ := hcyc
    obtain ⟨C', hC', haC'⟩ := h2 a hca
    refine ⟨C', hC', fun x => ?_⟩
    rw [hscc.2 a haC x, (h1 C' hC').2.1.2 a haC' x]

/-- `C15_cycle_iff`: a "Dependency cycle" error is produced exactly when some definition
depends on itself through references. -/
theorem C15_cycle_iff (g : Graph) (cs : List (List Nat)) (h : findCycles g = .ok cs) :
    cs ≠ [] ↔ ∃ a, cyclic g a := by
  obtain ⟨h1, h2, _⟩ := C15_tarjan_sccs g cs h
  constructor
  · intro hne
    cases cs with
    | nil => exact absurd rfl hne
    | cons C rest =>
      obtain ⟨_, hscc, hcyc⟩ := h1 C (by simp)
      cases C with
      | nil => exact absurd rfl hscc.1
      | cons a _ => exact ⟨a, hcyc a (by simp)⟩
  · intro ⟨a, ha⟩ hnil
    obtain ⟨C, hC, _⟩ := h2 a ha
    simp [hnil] at hC

/-- The only other outcome is the `KeyError` of `graph[destination]`. -/
theorem C15_ok_iff_closed (g : Graph) : (∃ cs, findCycles g = .ok cs) ↔ closed g = true := by
  unfold findCycles findCyclesFuel
  cases hc : closed g
  · simp
  · have := (tarjan_final g hc).1.noOof
    simp [this]

/-- Iteration order of `graph` and of each `graph[node]` (Python dict/set order) does not
matter: two dicts with the same edges yield the same set of components. -/
theorem C15_order_independent (g g' : Graph) (cs cs' : List (List Nat))
    (he : ∀ a b, Edge g a b ↔ Edge g' a b)
    (h : findCycles g = .ok cs) (h' : findCycles g' = .ok cs') :
    ∀ C ∈ cs, ∃ C' ∈ cs', ∀ x, x ∈ C ↔ x ∈ C' := by
  intro C hC
  obtain ⟨h1, _, _⟩ := C15_tarjan_sccs g cs h
  obtain ⟨h1', h2', _⟩ := C15_tarjan_sccs g' cs' h'
  obtain ⟨_, hscc, hcyc⟩ := h1 C hC
  cases hCe : C with
  | nil => exact absurd hCe hscc.1
  | cons a rest =>
    have haC : a ∈ C := by simp [hCe]
    obtain ⟨C', hC', haC'⟩ := h2' a ((hcyc a haC).congr (fun x y e => (he x y).mp e))
    refine ⟨C', hC', fun x => ?_⟩
    rw [← hCe, hscc.2 a haC x, (h1' C' hC').2.1.2 a haC' x]
    exact ⟨fun m => ⟨m.1.congr (fun x y e => (he x y).mp e), m.2.congr (fun x y e => (he x y).mp e)⟩,
           fun m => ⟨m.1.congr (fun x y e => (he x y).mpr e), m.2.congr (fun x y e => (he x y).mpr e)⟩⟩

/-- Non-vacuity (tests by evaluation): two SCCs joined by a bridge plus a self-loop and an
acyclic tail; the self-loop alone; an acyclic chain (no component); a dangling edge. -/
example : findCycles [(0, [1]), (1, [2]), (2, [0, 3]), (3, [4]), (4, [3]), (5, [5]), (6, [5])]
    = .ok [[4, 3], [2, 1, 0], [5]] := by decide
example : findCycles [(0, [1]), (1, [2]), (2, [])] = .ok [] := by decide
example : findCycles [(0, [1])] = .keyError := by decide
example : cyclic [(0, [1]), (1, [0])] 0 :=
  .step (b := 1) (by decide) (.single (by decide))

/-! ## Stability of the ordering, and the link between the two halves -/

/-- `C15_order_least`: among all dependency-respecting arrangements of the fields the
produced order is the lexicographically least w.r.t. source positions (fields numbered in
source order) — "each field moves back only as far as its dependencies force it". -/
theorem C15_order_least (deps : DepFn) (params fields p : List Nat)
    (hs : fields.Pairwise (· < ·)) (hp : p.Perm fields) (ht : TopoFrom deps params p) :
    LexLe (order deps params fields) p :=
  orderAux_least deps _ _ _ _ hs (Nat.le_refl _) hp ht

example : order exDeps [7] [0, 1, 2] = [1, 2, 0] ∧ TopoFrom exDeps [7] [2, 0, 1] ∧
    LexLe [1, 2, 0] [2, 0, 1] := ⟨by decide, by decide, .lt _ _ (by decide)⟩

/-- The two halves together: if cycle detection reported nothing for the graph `g` and
every reference of a field of the structure goes to a field or parameter of the same
structure, then the Python `assert len(order) == len(structure.field)` cannot fire, and
the order is a permutation of the fields. -/
theorem C15_assert_cannot_fire (g : Graph) (params fields : List Nat)
    (hcyc : findCycles g = .ok [])
    (hdeps : ∀ f ∈ fields, ∀ d ∈ succs g f, d ∈ fields ∨ d ∈ params) :
    ∃ o, orderChecked (succs g) params fields = some o ∧ o.Perm fields := by
  have hac : ∀ a, ¬ cyclic g a := fun a ha =>
    ((C15_cycle_iff g [] hcyc).mpr ⟨a, ha⟩) rfl
  have hlen := orderAux_total_of_acyclic g hac fields.length params fields (Nat.le_refl _) hdeps
  have hoc : orderChecked (succs g) params fields = some (order (succs g) params fields) := by
    simp [orderChecked, order, hlen]
  exact ⟨_, hoc, C15_order_perm _ _ _ _ hoc⟩

example : findCycles [(0, [2]), (1, []), (2, [7]), (7, [])] = .ok [] ∧
    orderChecked (succs [(0, [2]), (1, []), (2, [7]), (7, [])]) [7] [0, 1, 2] = some [1, 2, 0] := by
  decide

/-! ## Error construction, edge extraction, import graph -/

/-- The error groups are emitted in sorted order (`sorted(cycles, key=sorted)`), each
group lists its component in sorted order (`sorted(cycle)`), and nothing is lost: the
result is a pure function of the *set* of components. -/
theorem C15_groups_sorted (comps : List (List Nat)) :
    (cycleGroups comps).Pairwise (fun a b => lexLe a b = true) ∧
    (∀ G ∈ cycleGroups comps, G.Pairwise (· ≤ ·) ∧ ∃ C ∈ comps, G.Perm C) ∧
    (cycleGroups comps).length = comps.length := by
  refine ⟨isort_sorted _ lexLe_total lexLe_trans _, fun G hG => ?_, ?_⟩
  · have hG' := (isort_perm lexLe _).subset hG
    obtain ⟨C, hC, rfl⟩ := List.mem_map.mp hG'
    refine ⟨?_, C, hC, isort_perm _ _⟩
    have := isort_sorted (fun a b : Nat => decide (a ≤ b)) (fun a b => by simp; omega)
      (fun a b c h1 h2 => by simp at h1 h2 ⊢; omega) C
    exact this.imp (fun h => by simpa using h)
  · have := (isort_perm lexLe (comps.map (isort fun a b => decide (a ≤ b)))).length_eq
    simpa [cycleGroups] using this

example : cycleGroups [[4, 3], [2, 1, 0], [5]] = [[0, 1, 2], [3, 4], [5]] := by decide

/-- End to end: the emitted error groups (what the user sees, in order) do not depend on
Python's dict/set iteration order — two dicts with the same edges give the same groups. -/
theorem C15_output_order_independent (g g' : Graph) (cs cs' : List (List Nat))
    (he : ∀ a b, Edge g a b ↔ Edge g' a b)
    (h : findCycles g = .ok cs) (h' : findCycles g' = .ok cs') :
    cycleGroups cs = cycleGroups cs' := by
  obtain ⟨h1, _, h3⟩ := C15_tarjan_sccs g cs h
  obtain ⟨h1', _, h3'⟩ := C15_tarjan_sccs g' cs' h'
  exact cycleGroups_canonical cs cs'
    (fun C hC => ⟨(h1 C hC).1, (h1 C hC).2.1.1⟩) (fun C hC => ⟨(h1' C hC).1, (h1' C hC).2.1.1⟩) h3 h3'
    (C15_order_independent g g' cs cs' he h h')
    (C15_order_independent g' g cs' cs (fun a b => (he a b).symm) h' h)

example : cycleGroups [[4, 3], [2, 1, 0], [5]] = cycleGroups [[5], [0, 2, 1], [3, 4]] := by decide

/-- Non-vacuity of the order-independence theorems: the same edges in two dict/set orders;
Tarjan discovers the components in different orders and with different member orders, the
emitted groups coincide. -/
example :
    let g : Graph := [(0, [1, 3]), (1, [0]), (2, [2]), (3, [4]), (4, [3])]
    let g' : Graph := [(4, [3]), (2, [2]), (3, [4]), (1, [0]), (0, [3, 1])]
    findCycles g = .ok [[4, 3], [1, 0], [2]] ∧ findCycles g' = .ok [[3, 4], [2], [0, 1]] ∧
    cycleGroups [[4, 3], [1, 0], [2]] = cycleGroups [[3, 4], [2], [0, 1]] := by decide

/-- `_find_dependencies`: `a` gets an edge to `b` exactly when some reference below `a`
that is outside attributes — and, for bare references (enum constants), outside atomic
types — has head `b`. -/
theorem C15_dependency_edges (defs : List Defn) (hnd : (defs.map (·.name)).Nodup)
    (d : Defn) (hd : d ∈ defs) (b : Nat) :
    Edge (findDependencies defs).1 d.name b ↔
      ∃ r ∈ d.refs, r.counts = true ∧ r.target = some b := by
  unfold Edge findDependencies
  simp only
  rw [succs_map defs (·.name) _ hnd d hd, mem_dedup, List.mem_filterMap]
  constructor
  · rintro ⟨r, hr, ht⟩
    rw [List.mem_filter] at hr
    exact ⟨r, hr.1, hr.2, ht⟩
  · rintro ⟨r, hr, hc, ht⟩
    exact ⟨r, List.mem_filter.mpr ⟨hr, hc⟩, ht⟩

example : (findDependencies [⟨1, [⟨some 2, 0, true, false, true⟩, ⟨some 3, 0, false, false, true⟩,
    ⟨some 4, 0, true, true, false⟩]⟩]).1 = [(1, [2])] := by decide

/-- `_find_module_import_dependencies`: every import is an edge, except the prelude's
import of itself. -/
theorem C15_import_edges (mods : List ModuleImports) (hnd : (mods.map (·.name)).Nodup)
    (m : ModuleImports) (hm : m ∈ mods) (i : Nat) :
    Edge (importGraph mods) m.name i ↔ i ∈ m.imports ∧ (i ≠ 0 ∨ m.name ≠ 0) := by
  unfold Edge importGraph
  rw [succs_map mods (·.name) _ hnd m hm, mem_dedup, List.mem_filter]
  simp

/-- A module other than the prelude that imports itself is an import cycle; the
prelude's self-import is not. -/
theorem C15_self_import (mods : List ModuleImports) (hnd : (mods.map (·.name)).Nodup) :
    (∀ m ∈ mods, m.name ≠ 0 → m.name ∈ m.imports → cyclic (importGraph mods) m.name) ∧
    ¬ Edge (importGraph mods) 0 0 := by
  refine ⟨fun m hm h0 hi => .single ((C15_import_edges mods hnd m hm _).mpr ⟨hi, .inl h0⟩), ?_⟩
  intro he
  by_cases h : ∃ m ∈ mods, m.name = 0
  · obtain ⟨m, hm, h0⟩ := h
    have := (C15_import_edges mods hnd m hm 0).mp (h0 ▸ he)
    rcases this.2 with h | h
    · exact h rfl
    · exact h h0
  · have : succs (importGraph mods) 0 = [] :=
      succs_map_none mods (·.name) _ 0 (fun x hx e => h ⟨x, hx, e⟩)
    unfold Edge at he
    simp [this] at he

example : findModuleDependencyCycles [⟨0, [0]⟩, ⟨1, [0, 1]⟩, ⟨2, [0, 3]⟩, ⟨3, [0, 2]⟩] =
    .cycles [[1], [2, 3]] := by decide

end Emboss.Deps
