/-
C15 — Dependency cycles are always rejected; field order respects dependencies.

Property theorems only (helper lemmas live in Emboss/Lemmas/Deps.lean).
Model: Emboss/Model/Deps.lean (mirrors dependency_checker.py).
-/
import Emboss.Lemmas.Deps
namespace Emboss.Deps

/-- Every field of `fields_in_dependency_order` comes after all fields (or runtime
parameters) its location, condition or value mentions.  Unconditional: holds for
whatever prefix the loop manages to emit. -/
theorem C15_order_topological (deps : DepFn) (params fields : List Nat) :
    TopoFrom deps params (order deps params fields) :=
  orderAux_topo deps _ _ _

/-- The ordering is the source order whenever the source order already has the
property. -/
theorem C15_order_identity_if_sorted (deps : DepFn) (params fields : List Nat)
    (h : TopoFrom deps params fields) : order deps params fields = fields :=
  orderAux_id_of_topo deps params fields h

/-- When the Python `assert len(order) == len(structure.field)` passes, the ordering
is a permutation of the structure's fields. -/
theorem C15_order_perm (deps : DepFn) (params fields o : List Nat)
    (h : orderChecked deps params fields = some o) : o.Perm fields := by
  unfold orderChecked at h
  simp only at h
  split at h
  · rename_i hl
    cases h
    exact orderAux_perm_of_length deps _ _ _ (Nat.le_refl _) hl
  · cases h

/-- The assert cannot fire on a structure whose fields admit *any* dependency-respecting
arrangement (i.e. the field graph restricted to the structure is acyclic and mentions
only its own fields and parameters — which cycle detection, run earlier, guarantees). -/
theorem C15_order_complete (deps : DepFn) (params fields p : List Nat)
    (hp : p.Perm fields) (ht : TopoFrom deps params p) :
    ∃ o, orderChecked deps params fields = some o := by
  have := orderAux_complete deps fields.length params fields p (Nat.le_refl _) hp ht
  exact ⟨order deps params fields, by simp [orderChecked, order, this]⟩

/-- Non-vacuity: a structure whose source order is *not* topological (field 0 depends
on field 2, which depends on parameter 7) is reordered to `[1, 2, 0]`, and the
hypotheses of `C15_order_complete` are met by the arrangement `[2, 0, 1]`. -/
def exDeps : DepFn := fun f => if f = 0 then [2] else if f = 2 then [7] else []
example :
    order exDeps [7] [0, 1, 2] = [1, 2, 0] ∧ TopoFrom exDeps [7] [2, 0, 1] ∧
      ¬ TopoFrom exDeps [7] [0, 1, 2] := by
  decide

end Emboss.Deps
