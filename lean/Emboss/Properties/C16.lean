/-
C16 — The compiler is total: any input yields output or well-formed located errors.

Property theorems only.  Model: Emboss/Model/Pipeline.lean (mirrors glue.process_ir,
glue.only_parse_emboss_file, glue.parse_emboss_file, error.split_errors,
error._Message.format, error.format_errors, error.make_error_from_parse_error).
Python exceptions are explicit `Crash` results in the model, so "defined" = "is `.ok`".

What is NOT here: totality of the passes themselves (module_ir, symbol_resolver,
type_check, expression_bounds, constraints, attribute checkers, write_inference, the
C++ back end).  They are abstract (`Pass.run`, `parse`) in these theorems and are
covered by exploration only (harness/corr/C16.py).
-/
import Emboss.Lemmas.PipelineQueue
import Emboss.Lemmas.PipelineFormat
import Emboss.Lemmas.PipelineDriver
namespace Emboss.Pipeline

/-- **Result is IR xor a non-empty list of (non-empty) groups.**  Whatever the passes and
the per-file parser do: if `parse_emboss_file` reports errors the list is non-empty, and
its groups are non-empty provided no stage ever returns an empty group.  (`Outcome.ir` and
`Outcome.errors` are distinct constructors: never both.) -/
theorem C16_errors_nonempty {σ : Type} (parse : String → Parsed) (mk : List String → σ)
    (passes : List (Pass σ)) (stop : Option String) (fuel : Nat) (root : String) (es : Errors)
    (h : parseEmbossFile parse mk passes stop fuel root = .errors es) :
    es ≠ [] ∧
    ((∀ f, ∀ g ∈ (parse f).errors, g ≠ []) →
     (∀ p ∈ passes, ∀ s, ∀ g ∈ (p.run s).2, g ≠ []) → WellFormed es) := by
  unfold parseEmbossFile at h
  split at h
  · cases h
  · rename_i es' f before hq
    cases h
    obtain ⟨he, hne, _, _⟩ := queueLoop_errors parse root fuel _ _ _ _ _ _ (QInv.init parse root) hq
    exact ⟨hne, fun hp _ => ⟨hne, by rw [he]; exact hp f⟩⟩
  · rename_i files hq
    unfold processIr at h
    have key : processLoop stop passes (mk files) [] = .errors es := by
      split at h
      · split at h
        · exact h
        · cases h
      · exact h
    obtain ⟨hne, hcase⟩ := processLoop_errors stop passes (mk files) [] es key (by intro g hg; cases hg)
    refine ⟨hne, fun _ hpass => ⟨hne, ?_⟩⟩
    intro g hg
    have hfrom : ∃ r ∈ results passes (mk files), g ∈ r := by
      rcases hcase with ⟨_, r, hr, hsub⟩ | ⟨_, _, hfrom⟩
      · exact ⟨r, hr, hsub g hg⟩
      · rcases hfrom g hg with h1 | h2
        · cases h1
        · exact h2
    obtain ⟨r, hr, hgr⟩ := hfrom
    obtain ⟨p, hp, s', rfl⟩ := results_from_pass passes _ r hr
    exact hpass p hp s' g hgr

/-- Non-vacuity: a pipeline whose second pass reports one user group. -/
example :
    let p1 : Pass Nat := ⟨"a", fun s => (s + 1, [])⟩
    let p2 : Pass Nat := ⟨"b", fun s => (s, [[⟨"m", ⟨1, 1, 1, 2, false⟩, .error, ['x']⟩]])⟩
    (match parseEmbossFile (fun _ => ⟨[], []⟩) (fun _ => 0) [p1, p2] none 5 "m" with
     | .errors es => es.length == 1
     | _ => false) = true := by decide

/-- **A group shown while any non-synthetic group exists is non-synthetic; synthetic
groups surface only if no pass produced a user group.**  `process_ir` either shows only
non-synthetic groups (all from one pass), or only synthetic ones, and then every group any
pass produced was synthetic. -/
theorem C16_user_errors_not_synthetic {σ : Type} (passes : List (Pass σ)) (stop : Option String)
    (s : σ) (es : Errors) (h : processIr passes stop s = .errors es) :
    ((∀ g ∈ es, g.isSynthetic = false) ∧ ∃ r ∈ results passes s, ∀ g ∈ es, g ∈ r) ∨
    ((∀ g ∈ es, g.isSynthetic = true) ∧
      ∀ r ∈ results passes s, ∀ g ∈ r, g.isSynthetic = true) := by
  have key : processLoop stop passes s [] = .errors es := by
    unfold processIr at h
    split at h
    · split at h
      · exact h
      · cases h
    · exact h
  obtain ⟨_, hcase⟩ := processLoop_errors stop passes s [] es key (by intro g hg; cases hg)
  rcases hcase with h1 | ⟨h2, h3, _⟩
  · exact Or.inl h1
  · exact Or.inr ⟨h2, h3⟩

/-- Non-vacuity (both branches): a synthetic group from pass 1 is hidden by the user group
of pass 2; alone it is shown. -/
example :
    let syn : Group := [⟨"m", ⟨1, 1, 1, 1, true⟩, .error, ['s']⟩]
    let usr : Group := [⟨"m", ⟨2, 1, 2, 3, false⟩, .error, ['u']⟩]
    let p1 : Pass Unit := ⟨"a", fun s => (s, [syn])⟩
    let p2 : Pass Unit := ⟨"b", fun s => (s, [usr])⟩
    let p3 : Pass Unit := ⟨"c", fun s => (s, [])⟩
    (match processIr [p1, p2] none (), processIr [p1, p3] none () with
     | .errors a, .errors b => a == [usr] && b == [syn]
     | _, _ => false) = true := by decide

/-- The only assertion of `process_ir` an input can trip is the first one (unknown
`stop_before_step`); the closing `assert stop_before_step is None` is unreachable. -/
theorem C16_process_ir_asserts {σ : Type} (passes : List (Pass σ)) (stop : Option String) (s : σ)
    (c : Crash) (h : processIr passes stop s = .crash c) :
    c = .badStopStep ∧ ∃ n, stop = some n ∧ n ∉ passes.map (·.name) := by
  unfold processIr at h
  split at h
  · rename_i n
    split at h
    · rename_i hmem
      exact absurd h (processLoop_no_crash (some n) passes s [] c (by
        intro m hm; cases hm; simpa using hmem))
    · rename_i hmem
      cases h
      exact ⟨rfl, n, rfl, by simpa using hmem⟩
  · exact absurd h (processLoop_no_crash none passes s [] c (by intro m hm; cases hm))

example : (match processIr ([⟨"a", fun s => (s, [])⟩] : List (Pass Unit)) (some "zz") () with
    | .crash .badStopStep => true | _ => false) = true := by decide

/-- **`format msg sources` is defined for every location and every source text.**  With the
guard `1 ≤ line ≤ #lines` (fix 0ced081) the list access cannot be out of range. -/
theorem C16_format_total (m : Msg) (sources : List (String × Text)) :
    ∃ pieces, formatMsg m sources = .ok pieces :=
  formatMsg_ok m sources

/-- `format_errors` is defined exactly when no group is empty (its own assertion). -/
theorem C16_format_errors_total (es : Errors) (sources : List (String × Text)) (color : Bool) :
    ((∀ g ∈ es, g ≠ []) → ∃ t, formatErrors es sources color = .ok t) ∧
    ([] ∈ es → formatErrors es sources color = .error .emptyGroup) := by
  constructor
  · intro h
    obtain ⟨r, hr⟩ := formatGroups_ok color sources es h
    exact ⟨joinLines r, by simp [formatErrors, hr]⟩
  · intro h
    simp [formatErrors, formatGroups_empty_group color sources es h]

/-- End to end: whatever `parse_emboss_file` reports renders, with any sources. -/
theorem C16_reported_errors_render {σ : Type} (parse : String → Parsed) (mk : List String → σ)
    (passes : List (Pass σ)) (stop : Option String) (fuel : Nat) (root : String) (es : Errors)
    (h : parseEmbossFile parse mk passes stop fuel root = .errors es)
    (hparse : ∀ f, ∀ g ∈ (parse f).errors, g ≠ [])
    (hpass : ∀ p ∈ passes, ∀ s, ∀ g ∈ (p.run s).2, g ≠ [])
    (sources : List (String × Text)) (color : Bool) :
    ∃ t, formatErrors es sources color = .ok t :=
  (C16_format_errors_total es sources color).1
    ((C16_errors_nonempty parse mk passes stop fuel root es h).2 hparse hpass).2

/-- Non-vacuity: the F16 situation — an error at the trailing Dedent (line n+1) of a
three-line file renders (header only, no snippet). -/
example :
    (match formatMsg ⟨"m", ⟨4, 1, 4, 1, false⟩, .error, "Syntax error".toList⟩
        [("m", "struct Foo:\n  0 [+1] UInt x\n  if true:\n".toList)] with
     | .ok ps => ps.length == 3
     | .error _ => false) = true := by decide

/-- Before fix 0ced081 (unguarded `source_lines[line - 1]`) the same message raised
`IndexError`: the totality theorem is false for the old code. -/
theorem C16_format_total_before_fix_counterexample :
    formatMsgUnguarded ⟨"m", ⟨4, 1, 4, 1, false⟩, .error, "Syntax error".toList⟩
        [("m", "struct Foo:\n  0 [+1] UInt x\n  if true:\n".toList)] = .error .indexError := by
  rfl

/-- **The import work queue terminates on every finite import graph (cyclic or not), and
each file is parsed at most once.**  `U` is any finite list containing every file reachable
from the root; with fuel `> |U|` the loop does not run out of fuel, and its result lists
distinct files. -/
theorem C16_import_queue_terminates (parse : String → Parsed) (root : String) (U : List String)
    (hU : ∀ f, Reach parse root f → f ∈ U) (fuel : Nat) (hfuel : U.length < fuel) :
    onlyParse parse fuel root ≠ .outOfFuel ∧
    (∀ files, onlyParse parse fuel root = .done files → files.Nodup) ∧
    (∀ es f before, onlyParse parse fuel root = .errors es f before → (before ++ [f]).Nodup) := by
  refine ⟨?_, ?_, ?_⟩
  · exact queueLoop_fuel parse root U hU fuel _ _ _ (QInv.init parse root) (by simpa using hfuel)
  · intro files h
    exact (queueLoop_done parse root fuel _ _ _ files (QInv.init parse root) h).nodup
  · intro es f before h
    exact (queueLoop_errors parse root fuel _ _ _ es f before (QInv.init parse root) h).2.2.1

/-- The modules of the IR are exactly the files reachable from the root through imports
(breadth-first from the root, which comes first), each parsed without errors. -/
theorem C16_import_queue_result (parse : String → Parsed) (root : String) (fuel : Nat)
    (files : List String) (h : onlyParse parse fuel root = .done files) :
    files.head? = some root ∧ (∀ x, x ∈ files ↔ Reach parse root x) ∧
    (∀ f ∈ files, (parse f).errors = []) := by
  have inv := queueLoop_done parse root fuel _ _ _ files (QInv.init parse root) h
  have hroot : files.head? = some root ∧ root ∈ files := by
    -- the root is parsed first: unfold one step of the loop
    unfold onlyParse at h
    cases fuel with
    | zero => simp [queueLoop] at h
    | succ fuel =>
      simp only [queueLoop] at h
      split at h
      · cases h
      · rename_i herr
        have inv1 := (QInv.init parse root).step (errors_nil_of_not herr)
        have inv2 := queueLoop_done parse root fuel _ _ _ files inv1 h
        -- files = [root] ++ later ones
        have : ∀ (fuel : Nat) (q seen acc : List String) (pre : List String),
            acc.reverse = pre ++ acc.reverse.drop pre.length →
            queueLoop parse fuel q seen acc = .done files → ∃ t, files = acc.reverse ++ t := by
          intro fuel
          induction fuel with
          | zero => intro q seen acc pre _ hh; simp [queueLoop] at hh
          | succ fuel ih =>
            intro q seen acc pre hp hh
            cases q with
            | nil => simp only [queueLoop, QResult.done.injEq] at hh; exact ⟨[], by simp [hh]⟩
            | cons g q =>
              simp only [queueLoop] at hh
              split at hh
              · cases hh
              · obtain ⟨t, ht⟩ := ih _ _ (g :: acc) [] (by simp) hh
                exact ⟨g :: t, by simp [ht]⟩
        obtain ⟨t, ht⟩ := this fuel _ _ [root] [] (by simp) h
        simp at ht
        subst ht
        exact ⟨by simp, by simp⟩
  refine ⟨hroot.1, ?_, ?_⟩
  · intro x
    constructor
    · exact inv.reach x
    · apply reach_mem_of_closed hroot.2
      intro f hf i hi
      exact inv.closed f (by simpa using hf) i hi
  · intro f hf
    exact inv.ok f (by simpa using hf)

/-- Non-vacuity: a cyclic graph with a self-import and a duplicated import; three files,
each parsed once, breadth-first. -/
example :
    let parse : String → Parsed := fun f =>
      if f = "a" then ⟨[], ["", "b", "c", "b"]⟩ else if f = "b" then ⟨[], ["", "a", "b"]⟩
      else if f = "c" then ⟨[], ["", "a"]⟩ else ⟨[], []⟩
    (match onlyParse parse 5 "a" with
     | .done fs => fs == ["a", "", "b", "c"]
     | _ => false) = true := by decide

/-- **Every location the tokenizer and `merge_source_locations` can produce lies inside the
file.**  `Produced lines` = a token inside a line, the end-of-file `Dedent`, or a merge of
produced locations (`start` of the first, `end` of the last), possibly marked synthetic; the
real `merge_source_locations` only ever returns such a location (or raises the constructor's
`assert start <= end`, or returns `None`). -/
theorem C16_locations_in_file (lines : List Text) :
    (∀ l, Produced lines l → InFile l lines) ∧
    (∀ ls l, (∀ x ∈ ls, x.sl ≠ 0 → Produced lines x) → mergeLocs ls = .ok (some l) →
      Produced lines l) :=
  ⟨produced_inFile lines, mergeLocs_produced lines⟩

/-- Non-vacuity: the location of `$next [+1]` (tokens `$next` … `]` of line 2) is produced,
and `merge_source_locations` of its tokens yields it. -/
example : mergeLocs [tokLoc 2 2 5, ⟨0, 0, 0, 0, false⟩, tokLoc 2 8 1, tokLoc 2 11 1] =
    .ok (some ⟨2, 3, 2, 13, false⟩) := by rfl

/-- **`module_ir`'s hand-built locations stay inside the file.**  Every location `module_ir`
constructs by hand is `SourceLocation(a.<start|end>, b.<start|end>)` for locations `a`, `b` of
nodes it already holds.  For produced `a`, `b` and any choice of endpoints: if the
constructor's assertions hold the result is `Produced` (hence `InFile`, hence rendered with a
caret inside its line — `C16_caret_in_line`); and the assertions hold exactly when the chosen
endpoints are in order (the "both or neither missing" assertion cannot fail: produced
locations have no missing endpoint).  That the real constructions have this shape, on real
arguments, is the `SPAN` tie (every `SourceLocation(...)` call `module_ir` makes while the
explored inputs are parsed) plus the oracle "every location of every IR node is `InFile`". -/
theorem C16_module_ir_locations (lines : List Text) (a b : Loc) (ea eb : End)
    (ha : Produced lines a) (hb : Produced lines b) :
    (∀ l, spanLoc a ea b eb = .ok l → Produced lines l ∧ InFile l lines) ∧
    (posLe (a.pos ea).1 (a.pos ea).2 (b.pos eb).1 (b.pos eb).2 = true ↔
      ∃ l, spanLoc a ea b eb = .ok l) := by
  refine ⟨fun l h => ?_, ?_⟩
  · have hp := spanLoc_produced lines a b ea eb l ha hb h
    exact ⟨hp, produced_inFile lines l hp⟩
  · have hza := produced_line_pos lines _ (produced_endpoint lines a ha ea)
    have hzb := produced_line_pos lines _ (produced_endpoint lines b hb eb)
    simp only at hza hzb
    have h0 : ((a.pos ea).1 == 0) = ((b.pos eb).1 == 0) := by
      have h1 : ((a.pos ea).1 == 0) = false := by simpa using hza.1
      have h2 : ((b.pos eb).1 == 0) = false := by simpa using hzb.1
      rw [h1, h2]
    constructor
    · intro hle
      exact ⟨⟨(a.pos ea).1, (a.pos ea).2, (b.pos eb).1, (b.pos eb).2, false⟩,
        by simp [spanLoc, mkLoc, hle, h0]⟩
    · rintro ⟨l, hl⟩
      unfold spanLoc mkLoc at hl
      split at hl
      · rename_i hc
        simp only [Bool.and_eq_true] at hc
        exact hc.1
      · cases hl

/-- Non-vacuity: `-x` on line 2 (tokens `-` at offset 10 and `x` at offset 11): the phantom zero
`SourceLocation(op.start, op.start)` and the whole expression `SourceLocation(op.start, x.end)`;
the empty `[]` of `UInt[]` (`SourceLocation(open.end, close.start)`); and an out-of-order pair
trips the constructor's assertion. -/
example :
    spanLoc (tokLoc 2 10 1) .start (tokLoc 2 10 1) .start = .ok ⟨2, 11, 2, 11, false⟩ ∧
    spanLoc (tokLoc 2 10 1) .start (tokLoc 2 11 1) .stop = .ok ⟨2, 11, 2, 13, false⟩ ∧
    spanLoc (tokLoc 2 14 1) .stop (tokLoc 2 15 1) .start = .ok ⟨2, 16, 2, 16, false⟩ ∧
    spanLoc (tokLoc 2 11 1) .stop (tokLoc 2 10 1) .start = .error () := ⟨rfl, rfl, rfl, rfl⟩

/-- **Caret line (full).**  For every produced location whose first line is shown, the
indicator is `column − 1` blanks followed by one caret per located character (at least one;
exactly one when the span continues on a later line), and it never extends past the
position just after the last character of the shown line (not past the last character when
the span is a non-empty part of that line).  No `InLine` hypothesis: it follows from how
locations are produced.  What remains outside Lean: that every location on a real message
is `Produced` — tokens are tied by the `TOKLOC` op, `merge_source_locations` by `MERGE`,
and the exploration oracle checks `InFile` on every real message. -/
theorem C16_caret_in_line (lines : List Text) (l : Loc) (line : Text) (h : Produced lines l)
    (hl : lines[l.sl - 1]? = some line) :
    indicator l = List.replicate (l.sc - 1) ' ' ++
      List.replicate (if l.sl = l.el then max 1 (l.ec - l.sc) else 1) '^' ∧
    (indicator l).length ≤ line.length + 1 ∧
    (l.sl = l.el → l.sc < l.ec → (indicator l).length ≤ line.length) := by
  obtain ⟨hs, he, hle⟩ := produced_inFile lines l h
  have hsc : 1 ≤ l.sc ∧ l.sc ≤ line.length + 1 := by
    rcases hs with ⟨line', _, h2, h3, h4⟩ | ⟨h1, _⟩
    · rw [hl] at h2; cases h2; exact ⟨h3, h4⟩
    · rw [h1] at hl; simp at hl
  have hind : indicator l = List.replicate (l.sc - 1) ' ' ++
      List.replicate (if l.sl = l.el then max 1 (l.ec - l.sc) else 1) '^' := by
    unfold indicator caret
    split <;> simp_all
  refine ⟨hind, ?_, ?_⟩
  · rw [hind]
    simp only [List.length_append, List.length_replicate]
    split
    · rename_i heq
      have hec : l.ec ≤ line.length + 1 := by
        rcases he with ⟨line', _, h2, _, h4⟩ | ⟨h1, _⟩
        · rw [← heq, hl] at h2; cases h2; exact h4
        · rw [← heq] at h1; rw [h1] at hl; simp at hl
      omega
    · omega
  · intro heq hlt
    rw [hind]
    simp only [List.length_append, List.length_replicate, heq, if_true]
    have hec : l.ec ≤ line.length + 1 := by
      rcases he with ⟨line', _, h2, _, h4⟩ | ⟨h1, _⟩
      · rw [← heq, hl] at h2; cases h2; exact h4
      · rw [← heq] at h1; rw [h1] at hl; simp at hl
    omega

/-- Non-vacuity: `$next` at columns 3–8 of the second line (a token), and a multi-line
merge starting there. -/
example : Produced ["struct Foo:".toList, "  $next [+1]  UInt  x".toList] (tokLoc 2 2 5) :=
  Produced.tok 2 2 5 _ (by decide) rfl (by decide)

/-- The single-line special case that was the round-1 theorem (kept as a corollary-style
statement about `InLine` locations). -/
theorem C16_caret_in_line_inline (l : Loc) (line : Text) (h : InLine l line) :
    indicator l = List.replicate (l.sc - 1) ' ' ++ List.replicate (max 1 (l.ec - l.sc)) '^' ∧
    (indicator l).length ≤ line.length + 1 ∧
    (l.sc < l.ec → (indicator l).length ≤ line.length) := by
  obtain ⟨h1, h2, h3, h4⟩ := h
  refine ⟨by simp [indicator, caret, h1], ?_, ?_⟩
  · rw [indicator_length l h1]; omega
  · intro hlt; rw [indicator_length l h1]; omega

example : InLine ⟨2, 3, 2, 7, false⟩ "  0 [+1] UInt x".toList := by
  simp [InLine]

/-- **`_find_in_dirs_and_read` never raises on file-system faults.**  When opening the file
fails in a directory with an `OSError` (missing, directory, path through a file, name too
long, permission, symlink loop …), a `UnicodeError`, or any other `ValueError` (`open()`
rejecting the name itself: "embedded null byte" — caught since 9d2590a), the search goes on; the
result is the text of the first directory where the file can be read (every earlier directory failed), or
`(None, errors)` with one detail per directory plus the import path — a non-empty list, so
`glue.parse_module` takes its "Unable to read file." branch. -/
theorem C16_find_and_read_total (probes : List (Text × Probe))
    (h : ∀ p ∈ probes, ∀ n, p.2 ≠ .otherError n) :
    (∃ t pre d post, findAndRead probes = .found t ∧ probes = pre ++ (d, .text t) :: post ∧
        ∀ q ∈ pre, q.2.isText = false) ∨
    (∃ es, findAndRead probes = .notFound es ∧ es.length = probes.length + 1 ∧
        (∀ q ∈ probes, q.2.isText = false) ∧
        ∃ g, parseModuleRead "f" (.notFound es) = some (.ok g) ∧ g.length = probes.length + 2) := by
  rcases findLoop_spec (probes.map (·.1)) probes [] h with h1 | ⟨es, h1, h2, h3⟩
  · exact Or.inl h1
  · refine Or.inr ⟨es, h1, by simpa using h2, h3, ?_⟩
    have hne : es.isEmpty = false := by
      cases es with
      | nil => simp at h2
      | cons a t => rfl
    refine ⟨unreadableGroup "f" es, by simp [parseModuleRead, hne], ?_⟩
    simp only [unreadableGroup, List.length_cons, List.length_map]
    simp at h2
    omega

/-- Non-vacuity: a directory in the first import dir, undecodable bytes in the second, the
file in the third. -/
example : findAndRead [("a".toList, .osError "Is a directory".toList),
      ("b".toList, .unicodeError "invalid start byte".toList), ("c".toList, .text ['x'])] =
    .found ['x'] := by decide

/-- A file name with an embedded NUL: `open()` raises a plain `ValueError` in every directory;
reported as unreadable (one detail per directory + the import path), not raised. -/
example : findAndRead [("a".toList, .valueError "embedded null byte".toList),
      ("b".toList, .valueError "embedded null byte".toList)] =
    .notFound ["embedded null byte".toList, "embedded null byte".toList, "import path a:b".toList] := by
  decide

/-- The seeded narrowing `except FileNotFoundError` is the situation `otherError`: with a
class of failure that is not caught the call raises. -/
example : findAndRead [("a".toList, .otherError "IsADirectoryError"), ("c".toList, .text ['x'])] =
    .raised "IsADirectoryError" := by decide

/-- **An unreadable file is one well-formed group**: the error "Unable to read file."
followed by one note per detail, all at `1:1` of the named file, none synthetic — and it
renders. -/
theorem C16_unreadable_file_group (file : String) (details : List Text) :
    unreadableGroup file details ≠ [] ∧
    (∀ m ∈ unreadableGroup file details, m.file = file ∧ m.loc = ⟨1, 1, 1, 1, false⟩) ∧
    (unreadableGroup file details).head?.map (·.sev) = some .error ∧
    ∀ sources color, ∃ t, formatErrors [unreadableGroup file details] sources color = .ok t := by
  refine ⟨by simp [unreadableGroup], ?_, by simp [unreadableGroup], ?_⟩
  · intro m hm
    simp only [unreadableGroup, List.mem_cons, List.mem_map] at hm
    rcases hm with rfl | ⟨d, _, rfl⟩ <;> exact ⟨rfl, rfl⟩
  · intro sources color
    exact (C16_format_errors_total _ sources color).1 (by
      intro g hg
      simp only [List.mem_singleton] at hg
      subst hg
      simp [unreadableGroup])

/-- **`embossc` exits 0 or 1, never with a traceback** — provided the front end returned an
IR or well-formed errors, the back end's groups are non-empty, and the output location is
writable.  Exit 1 happens exactly when the front end or the back end reported errors, and
then stderr is those errors rendered (front-end errors without source snippets: the IR is
`None`); exit 0 exactly when both succeeded, and then the header is written to
`join(output_path, output_file or input + ".h")`. -/
theorem C16_embossc_exit {σ : Type} (front : FrontResult σ) (back : σ → Text × Errors)
    (color : Bool) (op ofile : Option Text) (input : Text) (fs : OutFs)
    (hfront : ∀ es, front = .errors es → WellFormed es)
    (hback : ∀ s src, front = .ir s src → ∀ g ∈ (back s).2, g ≠ [])
    (hdir : dirname (embosscOutput op ofile input) ≠ [])
    (hmk : fs.makedirs (dirname (embosscOutput op ofile input)) = true)
    (hwr : fs.openWrite (embosscOutput op ofile input) = true) :
    (∃ es t, front = .errors es ∧ showErrors es [] color = .ok t ∧
        embosscMain front back color op ofile input fs = .exit 1 t none) ∨
    (∃ s src t, front = .ir s src ∧ (back s).2 ≠ [] ∧ showErrors (back s).2 src color = .ok t ∧
        embosscMain front back color op ofile input fs = .exit 1 t none) ∨
    (∃ s src, front = .ir s src ∧ (back s).2 = [] ∧
        embosscMain front back color op ofile input fs =
          .exit 0 [] (some (embosscOutput op ofile input, (back s).1))) := by
  cases front with
  | errors es =>
    obtain ⟨hne, hg⟩ := hfront es rfl
    obtain ⟨t, ht⟩ := showErrors_ok es [] color hg
    have hemp : es.isEmpty = false := by
      cases es with
      | nil => exact absurd rfl hne
      | cons a b => rfl
    exact Or.inl ⟨es, t, rfl, ht, by simp [embosscMain, hemp, ht]⟩
  | ir s src =>
    by_cases hb : (back s).2 = []
    · refine Or.inr (Or.inr ⟨s, src, rfl, hb, ?_⟩)
      have hd : (dirname (embosscOutput op ofile input)).isEmpty = false := by
        cases hdd : dirname (embosscOutput op ofile input) with
        | nil => exact absurd hdd hdir
        | cons a b => rfl
      simp [embosscMain, hb, hd, hmk, hwr]
    · obtain ⟨t, ht⟩ := showErrors_ok (back s).2 src color (hback s src rfl)
      have hemp : (back s).2.isEmpty = false := by
        cases hbb : (back s).2 with
        | nil => exact absurd hbb hb
        | cons a b => rfl
      exact Or.inr (Or.inl ⟨s, src, t, rfl, hb, ht, by simp [embosscMain, hemp, ht]⟩)

/-- Non-vacuity, and the two command-line quirks: the default output lands in
`./<input>.h`; an empty `--output-path` with a bare file name makes `os.makedirs("")` raise. -/
example :
    embosscMain (σ := Unit) (.ir () []) (fun _ => ("H".toList, [])) false none none "m.emb".toList
      ⟨fun _ => true, fun _ => true⟩ = .exit 0 [] (some ("./m.emb.h".toList, "H".toList)) ∧
    embosscMain (σ := Unit) (.ir () []) (fun _ => ("H".toList, [])) false (some []) none "m.emb".toList
      ⟨fun _ => true, fun _ => true⟩ = .raised "FileNotFoundError" := by decide

/-- **End to end: `embossc` on the modelled pipeline.**  For any per-file parser and passes
that never return an empty group, any finite import graph (fuel beyond the number of reachable
files), `stop_before_step = None` (the executables never set it), a back end that never returns
an empty group and a writable output location: the run is `exit 0` with the header written, or
`exit 1` with the rendered errors on stderr — never a traceback, never out of fuel.  The passes,
the per-file parser and the back end are abstract: this is the plumbing half of the property;
that they do not raise themselves is the exploration's half. -/
theorem C16_embossc_end_to_end {σ : Type} (parse : String → Parsed) (mk : List String → σ)
    (passes : List (Pass σ)) (root : String) (U : List String)
    (hU : ∀ f, Reach parse root f → f ∈ U) (fuel : Nat) (hfuel : U.length < fuel)
    (hparse : ∀ f, ∀ g ∈ (parse f).errors, g ≠ [])
    (hpass : ∀ p ∈ passes, ∀ s, ∀ g ∈ (p.run s).2, g ≠ [])
    (sources : σ → List (String × Text)) (back : σ → Text × Errors)
    (hback : ∀ s, ∀ g ∈ (back s).2, g ≠ [])
    (color : Bool) (op ofile : Option Text) (input : Text) (fs : OutFs)
    (hdir : dirname (embosscOutput op ofile input) ≠ [])
    (hmk : fs.makedirs (dirname (embosscOutput op ofile input)) = true)
    (hwr : fs.openWrite (embosscOutput op ofile input) = true) :
    ∃ front, frontOf (parseEmbossFile parse mk passes none fuel root) sources = .ok front ∧
      ((∃ t, embosscMain front back color op ofile input fs = .exit 1 t none) ∨
       (∃ h, embosscMain front back color op ofile input fs =
          .exit 0 [] (some (embosscOutput op ofile input, h)))) := by
  cases hout : parseEmbossFile parse mk passes none fuel root with
  | outOfFuel =>
    exfalso
    unfold parseEmbossFile at hout
    split at hout
    · rename_i hq
      exact (C16_import_queue_terminates parse root U hU fuel hfuel).1 hq
    · cases hout
    · rename_i files _
      simp only [processIr] at hout
      exact processLoop_no_fuel none passes (mk files) [] hout
  | crash c =>
    exfalso
    unfold parseEmbossFile at hout
    split at hout
    · cases hout
    · cases hout
    · rename_i files _
      obtain ⟨_, n, hn, _⟩ := C16_process_ir_asserts passes none (mk files) c hout
      cases hn
  | ir s =>
    refine ⟨.ir s (sources s), rfl, ?_⟩
    rcases C16_embossc_exit (.ir s (sources s)) back color op ofile input fs
        (by intro es h; cases h) (by intro s' src h; cases h; exact hback _) hdir hmk hwr with
      ⟨es, t, h, _⟩ | ⟨s', src, t, _, _, _, h⟩ | ⟨s', src, _, _, h⟩
    · cases h
    · exact Or.inl ⟨t, h⟩
    · exact Or.inr ⟨_, h⟩
  | errors es =>
    refine ⟨.errors es, rfl, ?_⟩
    have hwf := (C16_errors_nonempty parse mk passes none fuel root es hout).2 hparse hpass
    rcases C16_embossc_exit (σ := σ) (.errors es) back color op ofile input fs
        (by intro es' h; cases h; exact hwf) (by intro s' src h; cases h) hdir hmk hwr with
      ⟨es', t, _, _, h⟩ | ⟨s', src, t, h, _⟩ | ⟨s', src, h, _⟩
    · exact Or.inl ⟨t, h⟩
    · cases h
    · cases h

/-- Non-vacuity: a two-file project whose import is unreadable ends in exit 1 with the
"Unable to read file." group on stderr. -/
example :
    let parse : String → Parsed := fun f =>
      if f = "top.emb" then ⟨[], ["", "dep.emb"]⟩
      else if f = "" then ⟨[], []⟩ else ⟨[unreadableGroup f ["import path .".toList]], []⟩
    (match frontOf (parseEmbossFile parse (fun _ => ()) ([] : List (Pass Unit)) none 9 "top.emb")
        (fun _ => []) with
     | .ok front =>
       (match embosscMain front (fun _ => ([], [])) false none none "top.emb".toList
          ⟨fun _ => true, fun _ => true⟩ with
        | .exit 1 t none => t.take 35 == "dep.emb:1:1: error: Unable to read ".toList
        | _ => false)
     | .error _ => false) = true := by decide


/-- `make_error_from_parse_error` returns exactly one group of exactly one message, located
at the token (or at the default location when the token has none — the empty-input case),
never synthetic unless the token is. -/
theorem C16_parse_error_group (file : String) (code : Option Text) (tt ts : Text)
    (loc : Option Loc) (exp : List Text) :
    ∃ m, makeErrorFromParseError file code tt ts loc exp = [m] ∧ m.file = file ∧
      m.loc = locOrDefault loc ∧ m.sev = .error ∧
      (m.loc.synthetic = true → ∃ l, loc = some l ∧ l.synthetic = true) := by
  refine ⟨_, rfl, rfl, rfl, rfl, ?_⟩
  intro hs
  cases loc with
  | none => simp [locOrDefault] at hs
  | some l =>
    refine ⟨l, rfl, ?_⟩
    simp only [locOrDefault] at hs
    split at hs <;> simp_all

end Emboss.Pipeline
