/-
C05 spec: what an inferred `IntegerType` *means* (concretisation γ) and what an
expression *evaluates to* for an assignment of values to its leaves, written from the
property statement and doc/language-reference.md, not from expression_bounds.py.
-/
import Emboss.Model.Bounds
namespace Emboss.Bounds

/-- `lo ≤ v` for an extended lower bound (`+∞` bounds nothing from below: no value). -/
def LowOk : ExtInt → Int → Prop
  | .negInf, _ => True
  | .fin lo, v => lo ≤ v
  | .posInf, _ => False

def HighOk : ExtInt → Int → Prop
  | .posInf, _ => True
  | .fin hi, v => v ≤ hi
  | .negInf, _ => False

/-- "infinity" is the modulus of a constant: congruence modulo it is equality, the same
    as congruence modulo 0. -/
def Modulus.toNat : Modulus → Nat
  | .fin m => m
  | .inf => 0

/-- `v ≡ r (mod m)`; an infinite remainder describes no value. -/
def CongOk (m : Modulus) (r : ExtInt) (v : Int) : Prop :=
  ∃ c : Int, r = .fin c ∧ ((m.toNat : Nat) : Int) ∣ v - c

/-- γ: the set of integers an abstract value stands for. -/
def Gamma (a : AVal) (v : Int) : Prop :=
  LowOk a.min v ∧ HighOk a.max v ∧ CongOk a.modulus a.mv v

/-- γ lifted to expression types: a present boolean/enum value is *the* value. -/
def GammaT : AType → CVal → Prop
  | .int a, .int v => Gamma a v
  | .bool ob, .bool b => ∀ b', ob = some b' → b = b'
  | .enum ov, .enum v => ∀ v', ov = some v' → v = v'
  | _, _ => False

/-- values a field of a physical integer type can hold (language reference: UInt:n is
    0 … 2^n−1, Int:n is two's complement, Bcd:n has ⌊n/4⌋ decimal digits and n mod 4
    extra high bits); nothing is known when the size is not a positive constant. -/
def InPhys (k : LeafKind) (size : Option Int) (v : Int) : Prop :=
  match size with
  | none => True
  | some s =>
    if s < 1 then True
    else match k with
      | .uint => 0 ≤ v ∧ v < 2 ^ s.toNat
      | .sint => -(2 ^ (s.toNat - 1)) ≤ v ∧ v < 2 ^ (s.toNat - 1)
      | .bcd => 0 ≤ v ∧ v < 10 ^ (s.toNat / 4) * 2 ^ (s.toNat % 4)

/-- arithmetic/comparison/logic on values, as the language reference defines them -/
def evalBin : BinOp → CVal → CVal → Option CVal
  | .add, .int a, .int b => some (.int (a + b))
  | .sub, .int a, .int b => some (.int (a - b))
  | .mul, .int a, .int b => some (.int (a * b))
  | .eq, .int a, .int b => some (.bool (decide (a = b)))
  | .ne, .int a, .int b => some (.bool (decide (a ≠ b)))
  | .lt, .int a, .int b => some (.bool (decide (a < b)))
  | .le, .int a, .int b => some (.bool (decide (a ≤ b)))
  | .gt, .int a, .int b => some (.bool (decide (b < a)))
  | .ge, .int a, .int b => some (.bool (decide (b ≤ a)))
  | .eq, .enum a, .enum b => some (.bool (decide (a = b)))
  | .ne, .enum a, .enum b => some (.bool (decide (a ≠ b)))
  | .eq, .bool a, .bool b => some (.bool (decide (a = b)))
  | .ne, .bool a, .bool b => some (.bool (decide (a ≠ b)))
  | .and, .bool a, .bool b => some (.bool (a && b))
  | .or, .bool a, .bool b => some (.bool (a || b))
  | _, _, _ => none

/-- v is the greatest element of the non-empty list l -/
def IsMaxOf (l : List Int) (v : Int) : Prop := v ∈ l ∧ ∀ x ∈ l, x ≤ v

def valsInts : List CVal → Option (List Int)
  | [] => some []
  | .int v :: r => (valsInts r).map (v :: ·)
  | _ :: _ => none

def listMax : List Int → Option Int
  | [] => none
  | [a] => some a
  | a :: b :: r => (listMax (b :: r)).map (fun m => if a ≤ m then m else a)

mutual
/-- Concrete evaluation (every leaf readable).  `none` = ill-typed, or a
    `$upper_bound`/`$lower_bound` that has no finite value.  The value of
    `$upper_bound(e)` is by definition the bound the compiler inferred (language
    reference: "the most restrictive bound the compiler can prove"), hence `abs`. -/
def eval (ρ : Env) : Expr → Option CVal
  | .const v => some (.int v)
  | .bconst b => some (.bool b)
  | .econst v => some (.enum v)
  | .ileaf id _ _ => some (.int (ρ.i id))
  | .ssize id => some (.int (ρ.i id))
  | .given id _ => some (.int (ρ.i id))
  | .bleaf id => some (.bool (ρ.b id))
  | .eleaf id => some (.enum (ρ.e id))
  | .bin op l r =>
    match eval ρ l, eval ρ r with
    | some a, some b => evalBin op a b
    | _, _ => none
  | .choice c t f =>
    match eval ρ c, eval ρ t, eval ρ f with
    | some (.bool b), some x, some y => some (if b then x else y)
    | _, _, _ => none
  | .max args =>
    match evalList ρ args with
    | some vs => match valsInts vs with
      | some l => (listMax l).map .int
      | none => none
    | none => none
  | .upper e =>
    match abs e with
    | some (.int a) => a.max.toInt?.map .int
    | _ => none
  | .lower e =>
    match abs e with
    | some (.int a) => a.min.toInt?.map .int
    | _ => none
  | .cref e => eval ρ e
  | .vref e => eval ρ e
  | .present _ c => eval ρ c
def evalList (ρ : Env) : List Expr → Option (List CVal)
  | [] => some []
  | e :: es =>
    match eval ρ e, evalList ρ es with
    | some v, some vs => some (v :: vs)
    | _, _ => none
end

mutual
/-- every leaf of `e` holds a value of its physical type (`$static_size_in_bits` ≥ 0;
    a preset annotation describes its leaf) -/
def EnvOk (ρ : Env) : Expr → Prop
  | .ileaf id k size => InPhys k size (ρ.i id)
  | .ssize id => 0 ≤ ρ.i id
  | .given id a => Gamma a (ρ.i id)
  | .bin _ l r => EnvOk ρ l ∧ EnvOk ρ r
  | .choice c t f => EnvOk ρ c ∧ EnvOk ρ t ∧ EnvOk ρ f
  | .max args => EnvOkList ρ args
  | .upper e => EnvOk ρ e
  | .lower e => EnvOk ρ e
  | .cref e => EnvOk ρ e
  | .vref e => EnvOk ρ e
  | .present _ c => EnvOk ρ c
  | _ => True
def EnvOkList (ρ : Env) : List Expr → Prop
  | [] => True
  | e :: es => EnvOk ρ e ∧ EnvOkList ρ es
end

end Emboss.Bounds
