/-
C16 (round 2) — declarative side for the plumbing around the front end: what "a position
inside a file" is (from the property statement) and which locations the tokenizer and
`merge_source_locations` can produce.
-/
import Emboss.Model.PipelineDriver
import Emboss.Spec.Pipeline
namespace Emboss.Pipeline

/-- `(ln, col)` is a position inside the file with lines `lines` (1-based; `len + 1` is the
position just past the last character of a line), or the end-of-file position `(n + 1, 1)`. -/
def PosIn (ln col : Nat) (lines : List Text) : Prop :=
  (∃ line, 1 ≤ ln ∧ lines[ln - 1]? = some line ∧ 1 ≤ col ∧ col ≤ line.length + 1) ∨
  (ln = lines.length + 1 ∧ col = 1)

/-- The property statement's "a position inside that file", for a span. -/
def InFile (l : Loc) (lines : List Text) : Prop :=
  PosIn l.sl l.sc lines ∧ PosIn l.el l.ec lines ∧ posLe l.sl l.sc l.el l.ec = true

/-- The locations that tokenizing a file with lines `lines` and building nodes from the
tokens can yield: a token inside a line (`tokLoc`, premise = the match lies within the
line), the end-of-file `Dedent`s, a merge (`start` of an earlier, `end` of a later one), and
any of these marked synthetic. -/
inductive Produced (lines : List Text) : Loc → Prop
  | tok (ln off len : Nat) (line : Text) : 1 ≤ ln → lines[ln - 1]? = some line →
      off + len ≤ line.length → Produced lines (tokLoc ln off len)
  | eof : Produced lines (eofLoc lines.length)
  | merge (a b : Loc) (syn : Bool) : Produced lines a → Produced lines b →
      posLe a.sl a.sc b.el b.ec = true → Produced lines ⟨a.sl, a.sc, b.el, b.ec, syn⟩

end Emboss.Pipeline
