/-
Declarative specification for C12, from doc/language-reference.md and the property statement:

* a name used at some place is looked for in the scopes *visible* from there (own type,
  enclosing types, module, prelude); a scope *offers* the name if it defines it and the
  definition is a type / import alias (found from anywhere below) or the scope is the very
  scope the reference is written in (fields, abbreviations, parameters, enum values, `this`);
* the reference is bound iff exactly one visible scope offers the name — never by precedence;
* after a dot, each further name is a key of what was found so far (import aliases stand for
  the imported module).
-/
import Emboss.Model.Scope
namespace Emboss.Scope

/-- scope `s` offers `name` to a reference written in scope `cur` -/
def Offers (T : Table) (cur : Path) (name : String) (s : Path) : Prop :=
  ∃ e, lookup T (s ++ [name]) = some e ∧ (s = cur ∨ e.vis = Vis.search)

/-- `s` is the one and only visible scope that offers the name -/
def UniqueCandidate (T : Table) (cur : Path) (visible : List Path) (name : String) (s : Path) : Prop :=
  s ∈ visible ∧ Offers T cur name s ∧ ∀ s' ∈ visible, Offers T cur name s' → s' = s

def NoCandidate (T : Table) (cur : Path) (visible : List Path) (name : String) : Prop :=
  ∀ s ∈ visible, ¬ Offers T cur name s

def TwoCandidates (T : Table) (cur : Path) (visible : List Path) (name : String) : Prop :=
  ∃ s s', s ∈ visible ∧ s' ∈ visible ∧ s ≠ s' ∧ Offers T cur name s ∧ Offers T cur name s'

/-- the `is_local_name` exception (compiler-made references from an inline field to its own
type): the innermost offering scope -/
def Innermost (T : Table) (cur : Path) (visible : List Path) (name : String) (s : Path) : Prop :=
  ∃ pre post, visible = pre ++ s :: post ∧ Offers T cur name s ∧ ∀ x ∈ pre, ¬ Offers T cur name x

/-- dotted tail: every component (the head included) is a key of the scope reached so far -/
inductive Walks (T : Table) : Path → List String → Entry → Prop
  | last {K n e0 e} : lookup T (K ++ [n]) = some e0 → deref T e0 = some e → Walks T K [n] e
  | step {K n n' ns e0 e1 e} : lookup T (K ++ [n]) = some e0 → deref T e0 = some e1 →
      Walks T e1.key (n' :: ns) e → Walks T K (n :: n' :: ns) e

/-- every bound path element is named after the element and is an existing definition -/
inductive MembersBound (objs : List Obj) : List PathElem → List Path → Prop
  | nil : MembersBound objs [] []
  | cons {r rs c cs} : c.getLast? = some r.name → (findObject objs c).isSome →
      MembersBound objs rs cs → MembersBound objs (r :: rs) (c :: cs)

/-! ### Members after a dot in a field path (`a.b.c`)

Written from the language reference: `a.b` names the field (or parameter) `b` of the structure
that is the *type of the field `a`*; a virtual field that merely renames another field
(`let a = x.y`) stands for that field; nothing else has members.  The judgements are the cases
of one inductive family (so that rule induction is plain `induction`):

* `renames o o'` — `o` is a virtual field `let o = <field reference>` and the last element of
                 that reference is bound to the definition `o'`;
* `chain o via p` — following such renamings from `o` leads to `p`; `via` lists the renaming
                 fields passed on the way (`o` first);
* `mem o rs cs` — the path elements `rs`, looked up one after the other starting from the
                 definition `o`, are bound to the canonical names `cs`;
* `path i cs`  — the `i`-th field reference of the module is bound, element by element, to `cs`.

A member is looked up in the type of the *physical* field that a chain of renamings through
pairwise distinct fields ends in (`memCons`).  A chain that comes back to a field it has already
passed never reaches a physical field: such a field names nothing and has no members
(`MemberFails.physCycle`). -/

inductive MemberJudgement
  | renames (o o' : Obj)
  | chain (o : Obj) (via : List Obj) (p : Obj)
  | mem (o : Obj) (rs : List PathElem) (cs : List Path)
  | path (i : Nat) (cs : List Path)

inductive MemberRule (E : FEnv) : MemberJudgement → Prop
  /-- `let o = <field reference i>`: what the last element of that reference is bound to -/
  | renames {o i cs c o'} : o.kind = .field (.virtAlias i) → MemberRule E (.path i cs) →
      cs.getLast? = some c → findObject E.objs c = some o' → MemberRule E (.renames o o')
  | chainNil {o} : MemberRule E (.chain o [] o)
  | chainCons {o o' via p} : MemberRule E (.renames o o') → MemberRule E (.chain o' via p) →
      MemberRule E (.chain o (o :: via) p)
  | memNil {o} : MemberRule E (.mem o [] [])
  /-- `r` is looked up in the type `tc` of the physical field `p` behind `o` — and nowhere else -/
  | memCons {o via p t tc r o' rest cs} : MemberRule E (.chain o via p) → via.Nodup →
      p.kind = .field (.atomic t) →
      E.typeCanon t = some tc → findObject E.objs (tc ++ [r.name]) = some o' →
      MemberRule E (.mem o' rest cs) → MemberRule E (.mem o (r :: rest) ((tc ++ [r.name]) :: cs))
  | pathSingle {i fr h p} : E.frefs i = some fr → E.headCanon i = some h → fr.path = [p] →
      MemberRule E (.path i [h])
  | pathMulti {i fr h p0 r rest o cs} : E.frefs i = some fr → E.headCanon i = some h →
      fr.path = p0 :: r :: rest → findObject E.objs h = some o →
      MemberRule E (.mem o (r :: rest) cs) → MemberRule E (.path i (h :: cs))

/-- field reference `i` is bound to `cs` (head first) -/
def PathBound (E : FEnv) (i : Nat) (cs : List Path) : Prop := MemberRule E (.path i cs)

/-! The ways a field path can be wrong (language reference: only structures have members; an
array has none; the member must exist in the structure), with the error each one is answered
with.  `prev` is the path element that named the definition `o` (errors about `o` are located
there). -/

inductive MemberFailJudgement
  | phys (o : Obj) (prev : PathElem) (e : Err)
  | mem (o : Obj) (prev : PathElem) (rs : List PathElem) (e : Err)
  | path (i : Nat) (e : Err)

inductive MemberFails (E : FEnv) : MemberFailJudgement → Prop
  /-- the renamings end in a parameter, a module, a type, an enum value: no members -/
  | physNonField {o via p prev} : MemberRule E (.chain o via p) → (∀ sh, p.kind ≠ .field sh) →
      MemberFails E (.phys o prev (.noncomposite prev.name prev.rloc))
  /-- … in a virtual field that is not a plain renaming: no members -/
  | physOther {o via p prev} : MemberRule E (.chain o via p) → p.kind = .field .virtOther →
      MemberFails E (.phys o prev (.noncomposite prev.name prev.rloc))
  /-- … in a renaming field that was already passed (`let g = f.g` where `f` has the enclosing
  structure as its type): the renaming names no field at all -/
  | physCycle {o via p prev} : MemberRule E (.chain o via p) → p ∈ via →
      MemberFails E (.phys o prev (.noncomposite prev.name prev.rloc))
  | memPhys {o prev r rest e} : MemberFails E (.phys o prev e) →
      MemberFails E (.mem o prev (r :: rest) e)
  | memArray {o via p prev r rest} : MemberRule E (.chain o via p) → via.Nodup →
      p.kind = .field .array →
      MemberFails E (.mem o prev (r :: rest) (.arrayMember prev.name prev.rloc))
  | memMissing {o via p t tc prev r rest} : MemberRule E (.chain o via p) → via.Nodup →
      p.kind = .field (.atomic t) →
      E.typeCanon t = some tc → findObject E.objs (tc ++ [r.name]) = none →
      MemberFails E (.mem o prev (r :: rest) (.missing r.name r.nloc))
  | memLater {o via p t tc prev r rest o' e} : MemberRule E (.chain o via p) → via.Nodup →
      p.kind = .field (.atomic t) → E.typeCanon t = some tc →
      findObject E.objs (tc ++ [r.name]) = some o' → MemberFails E (.mem o' r rest e) →
      MemberFails E (.mem o prev (r :: rest) e)
  | pathNoHead {i fr h p0 r rest} : E.frefs i = some fr → E.headCanon i = some h →
      fr.path = p0 :: r :: rest → findObject E.objs h = none →
      MemberFails E (.path i (.noncomposite p0.name p0.rloc))
  | pathMem {i fr h p0 r rest o e} : E.frefs i = some fr → E.headCanon i = some h →
      fr.path = p0 :: r :: rest → findObject E.objs h = some o →
      MemberFails E (.mem o p0 (r :: rest) e) → MemberFails E (.path i e)

/-- field reference `i` is rejected with error `e` -/
def PathRejected (E : FEnv) (i : Nat) (e : Err) : Prop := MemberFails E (.path i e)

/-- What `_set_visible_scopes_for_module` must be given for the visible scopes to be pairwise
distinct: the anonymously imported files (in practice: just the prelude) are distinct files and
none of them is the module itself.  (A condition on the *input* — the import list —; the
harness counts the references whose context violates it: only the prelude's own contexts do,
the prelude imports itself, and the prelude contains no reference that needs resolving.) -/
def Ctx.WellFormed (c : Ctx) : Prop := c.anon.Nodup ∧ c.module ∉ c.anon

/-- the head scope the scoping rules designate for a reference -/
def HeadScope (T : Table) (r : Ref) (n : String) (s : Path) : Prop :=
  if r.isLocal then Innermost T r.ctx.cur r.ctx.visible n s
  else UniqueCandidate T r.ctx.cur r.ctx.visible n s

/-- reference `r` is bound to the definition with canonical name `d` -/
def Resolves (T : Table) (r : Ref) (d : Path) : Prop :=
  ∃ n l rest s e, r.names = (n, l) :: rest ∧ HeadScope T r n s ∧
    Walks T s (r.names.map (·.1)) e ∧ e.canon = d

/-- every reference of a pass is bound to what the scoping rules designate -/
inductive AllResolved (T : Table) : List Ref → List (Option Path) → Prop
  | nil : AllResolved T [] []
  | cons {r rs d os} : Resolves T r d → AllResolved T rs os → AllResolved T (r :: rs) (some d :: os)

end Emboss.Scope
