/-
Declarative specification for C12, from doc/language-reference.md and the property statement:

* a name used at some place is looked for in the scopes *visible* from there (own type,
  enclosing types, module, prelude); a scope *offers* the name if it defines it and the
  definition is a type / import alias (found from anywhere below) or the scope is the very
  scope the reference is written in (fields, abbreviations, parameters, enum values, `this`);
* the reference is bound iff exactly one visible scope offers the name — never by precedence;
* after a dot, each further name is a key of what was found so far (import aliases stand for
  the imported module).
-/
import Emboss.Model.Scope
namespace Emboss.Scope

/-- scope `s` offers `name` to a reference written in scope `cur` -/
def Offers (T : Table) (cur : Path) (name : String) (s : Path) : Prop :=
  ∃ e, lookup T (s ++ [name]) = some e ∧ (s = cur ∨ e.vis = Vis.search)

/-- `s` is the one and only visible scope that offers the name -/
def UniqueCandidate (T : Table) (cur : Path) (visible : List Path) (name : String) (s : Path) : Prop :=
  s ∈ visible ∧ Offers T cur name s ∧ ∀ s' ∈ visible, Offers T cur name s' → s' = s

def NoCandidate (T : Table) (cur : Path) (visible : List Path) (name : String) : Prop :=
  ∀ s ∈ visible, ¬ Offers T cur name s

def TwoCandidates (T : Table) (cur : Path) (visible : List Path) (name : String) : Prop :=
  ∃ s s', s ∈ visible ∧ s' ∈ visible ∧ s ≠ s' ∧ Offers T cur name s ∧ Offers T cur name s'

/-- the `is_local_name` exception (compiler-made references from an inline field to its own
type): the innermost offering scope -/
def Innermost (T : Table) (cur : Path) (visible : List Path) (name : String) (s : Path) : Prop :=
  ∃ pre post, visible = pre ++ s :: post ∧ Offers T cur name s ∧ ∀ x ∈ pre, ¬ Offers T cur name x

/-- dotted tail: every component (the head included) is a key of the scope reached so far -/
inductive Walks (T : Table) : Path → List String → Entry → Prop
  | last {K n e0 e} : lookup T (K ++ [n]) = some e0 → deref T e0 = some e → Walks T K [n] e
  | step {K n n' ns e0 e1 e} : lookup T (K ++ [n]) = some e0 → deref T e0 = some e1 →
      Walks T e1.key (n' :: ns) e → Walks T K (n :: n' :: ns) e

/-- every bound path element is named after the element and is an existing definition -/
inductive MembersBound (objs : List Obj) : List PathElem → List Path → Prop
  | nil : MembersBound objs [] []
  | cons {r rs c cs} : c.getLast? = some r.name → (findObject objs c).isSome →
      MembersBound objs rs cs → MembersBound objs (r :: rs) (c :: cs)

/-- the head scope the scoping rules designate for a reference -/
def HeadScope (T : Table) (r : Ref) (n : String) (s : Path) : Prop :=
  if r.isLocal then Innermost T r.ctx.cur r.ctx.visible n s
  else UniqueCandidate T r.ctx.cur r.ctx.visible n s

/-- reference `r` is bound to the definition with canonical name `d` -/
def Resolves (T : Table) (r : Ref) (d : Path) : Prop :=
  ∃ n l rest s e, r.names = (n, l) :: rest ∧ HeadScope T r n s ∧
    Walks T s (r.names.map (·.1)) e ∧ e.canon = d

/-- every reference of a pass is bound to what the scoping rules designate -/
inductive AllResolved (T : Table) : List Ref → List (Option Path) → Prop
  | nil : AllResolved T [] []
  | cons {r rs d os} : Resolves T r d → AllResolved T rs os → AllResolved T (r :: rs) (some d :: os)

end Emboss.Scope
