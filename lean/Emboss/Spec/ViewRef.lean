/-
Reference semantics R of structure views — the scalar / presence / size core, in Lean
(round 2; until now R existed only in Python, harness/lib/embref.py).

Written from doc/language-reference.md ("Structs", "Field location", "Conditional fields",
"Virtual fields", "[requires]") and doc/cpp-reference.md (what is readable when), for *flat* byte
structures: physical `UInt`/`Int` fields at possibly dynamic offsets, conditional fields, virtual
fields, runtime parameters, `[requires]` on fields.  R is declarative: `RFact` is the **least set
of facts** closed under the documented rules — there is no fuel, no evaluation order and no
storage model in it:

  pres    a field exists iff its condition holds: the fact `x is present = b` holds when the
          condition evaluates to `b` from facts that hold;
  scalar  a present physical field whose start `s ≥ 0` and size `z ≥ 0` are computable, which
          has the size of its type and all of whose bytes `buf[s .. s+z)` are inside the buffer,
          has the value its bytes denote in its byte order (two's complement for `Int`),
          provided that value passes the field's `[requires]`;
  virt    a virtual field has the value of its expression (D5 of embref: independently of its
          own presence), provided it passes its `[requires]`.

Expressions (decision D1 of embref.py): a reference is unknown unless the corresponding fact
holds; operators are strict in unknown-ness except `&&`, `||` ("even if the other argument
cannot be computed") and `?:` (condition + selected branch) — the operator table `applyFn` is
shared with the model (it *is* the documented three-valued table).  The reference evaluates the
*source* expression: the compiler's constant-folding annotations (`Expr.fold`) are ignored
(`evalR` looks through them), which is why R is only a lower bound on knowledge for folded
definitions (D8) and the refinement theorem is stated for fold-free ones.

The size of a structure is `ViewSpec.size` (Spec/View.lean) over the extents R defines
(`C01_size_is_max_end` relates the synthesised `$size_in_bytes` to it for every environment).
-/
import Emboss.Model.View
namespace Emboss.ViewRef
open Emboss.View

/-- What R can say about a structure over a buffer. -/
inductive Fact where
  /-- the field at `path` is readable and has value `v` -/
  | val (path : List String) (v : Val)
  /-- the presence of the field at `path` is known to be `b` -/
  | pres (path : List String) (b : Bool)

/-- Number denoted by a byte string, least significant byte first. -/
def leNumber (d : List Nat) : Nat := d.foldr (fun b acc => b % 256 + 256 * acc) 0

def number (bo : ByteOrder) (d : List Nat) : Nat :=
  match bo with
  | .be => leNumber d.reverse
  | _ => leNumber d

/-- Value of an integer field of `bits` bits holding the unsigned number `raw`. -/
def specDecode (k : ScalarKind) (bits : Nat) (raw : Nat) : Option Val :=
  match k with
  | .uint => some (.int raw)
  | .int => some (.int (if raw < 2 ^ (bits - 1) then (raw : Int) else (raw : Int) - (2 ^ bits : Nat)))
  | _ => none

mutual
  /-- Value of a source expression under a partial assignment (`Env` reused as the record of
  what is known: field values, parameters, presences, `this`). -/
  def evalR (ρ : Env) : Expr → Option Val
    | .const v => some v
    | .fold _ orig => evalR ρ orig
    | .ref p => ρ.read p
    | .param n => ρ.param n
    | .has p => (ρ.has p).map Val.bool
    | .lv => ρ.lv
    | .op f args => applyFn f (evalRList ρ args)
  def evalRList (ρ : Env) : Exprs → List (Option Val)
    | .nil => []
    | .cons e es => evalR ρ e :: evalRList ρ es
end

/-- `[requires]` holds for the candidate value `v` (`this = v`). -/
def requiresOk (ρ : Env) (req : Option Expr) (v : Val) : Prop :=
  ∀ r, req = some r → evalR { ρ with lv := some v } r = some (.bool true)

/-- The least set of facts closed under the documented rules, for the structure `sd` with
parameter values `ps` over the bytes `buf`.  In every rule `ρ` is *any* partial assignment all of
whose entries are facts that hold (with the structure's parameters, and no `this`). -/
inductive RFact (sd : StructDef) (ps : List Val) (buf : List Nat) : Fact → Prop
  | pres {x : String} {f : Field} {b : Bool} (ρ : Env)
      (hf : sd.field x = some f)
      (hr : ∀ p v, ρ.read p = some v → RFact sd ps buf (.val p v))
      (hh : ∀ p c, ρ.has p = some c → RFact sd ps buf (.pres p c))
      (hp : ∀ n v, ρ.param n = some v → lookupParam sd.params ps n = some v)
      (hl : ρ.lv = none)
      (he : evalR ρ f.cond = some (.bool b)) :
      RFact sd ps buf (.pres [x] b)
  | scalar {x : String} {f : Field} {start size : Expr} {k : ScalarKind} {bits : Nat}
      {req : Option Expr} {bo : ByteOrder} {s z : Int} {v : Val} (ρ : Env)
      (hf : sd.field x = some f)
      (hk : f.kind = .phys start size (.scalar k bits req) bo)
      (hpres : RFact sd ps buf (.pres [x] true))
      (hr : ∀ p v, ρ.read p = some v → RFact sd ps buf (.val p v))
      (hh : ∀ p c, ρ.has p = some c → RFact sd ps buf (.pres p c))
      (hp : ∀ n v, ρ.param n = some v → lookupParam sd.params ps n = some v)
      (hl : ρ.lv = none)
      (hs : evalR ρ start = some (.int s)) (hz : evalR ρ size = some (.int z))
      (hs0 : 0 ≤ s) (hz0 : 0 ≤ z)
      (hsize : z.toNat * 8 = bits)
      (hin : s.toNat + z.toNat ≤ buf.length)
      (hv : specDecode k bits (number bo ((buf.drop s.toNat).take z.toNat)) = some v)
      (hreq : requiresOk ρ req v) :
      RFact sd ps buf (.val [x] v)
  | virt {x : String} {f : Field} {value : Expr} {req : Option Expr} {v : Val} (ρ : Env)
      (hf : sd.field x = some f)
      (hk : f.kind = .virt value req)
      (hr : ∀ p v, ρ.read p = some v → RFact sd ps buf (.val p v))
      (hh : ∀ p c, ρ.has p = some c → RFact sd ps buf (.pres p c))
      (hp : ∀ n v, ρ.param n = some v → lookupParam sd.params ps n = some v)
      (hl : ρ.lv = none)
      (hv : evalR ρ value = some v)
      (hreq : requiresOk ρ req v) :
      RFact sd ps buf (.val [x] v)

/-! ### the fragment -/

mutual
  def foldFree : Expr → Bool
    | .fold _ _ => false
    | .op _ args => foldFreeList args
    | _ => true
  def foldFreeList : Exprs → Bool
    | .nil => true
    | .cons e es => foldFree e && foldFreeList es
end

def foldFreeOpt : Option Expr → Bool
  | none => true
  | some e => foldFree e

/-- A field of the fragment: a `UInt`/`Int` of `bits > 0` bits whose size is the literal
`bits / 8` (what the front end enforces for fixed-size types, `fieldWF`), or a virtual field;
all expressions free of folding annotations. -/
def flatField (f : Field) : Bool :=
  foldFree f.cond &&
  match f.kind with
  | .phys start size (.scalar k bits req) _ =>
    (k == .uint || k == .int) && decide (0 < bits) && foldFree start && foldFreeOpt req &&
    (match size with
     | .const (.int z) => decide (0 ≤ z) && z.toNat * 8 == bits
     | _ => false)
  | .virt value req => foldFree value && foldFreeOpt req
  | _ => false

def flatStruct (sd : StructDef) : Bool :=
  sd.unit == 8 && sd.fields.all flatField

/-! ### logical equality (C20) -/

def isPhys (f : Field) : Bool :=
  match f.kind with
  | .phys _ _ _ _ => true
  | _ => false

/-- Two buffers are *logically equal* as views of `sd` (C20's statement): they agree on which
physical fields are present, and every present physical field reads equal — all as defined by
the reference semantics.  Bytes no field covers, and virtual fields, play no role. -/
def LogicallyEqual (sd : StructDef) (ps : List Val) (a b : List Nat) : Prop :=
  ∀ f ∈ sd.fields, isPhys f = true →
    ∃ c, RFact sd ps a (.pres [f.name] c) ∧ RFact sd ps b (.pres [f.name] c) ∧
      (c = true → ∃ v, RFact sd ps a (.val [f.name] v) ∧ RFact sd ps b (.val [f.name] v))

/-- field names are unique (the front end rejects duplicate names) -/
def namesUnique (sd : StructDef) : Prop := ∀ f ∈ sd.fields, sd.field f.name = some f

end Emboss.ViewRef
