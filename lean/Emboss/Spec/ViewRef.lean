/-
Reference semantics R of structure views, in Lean (round 2: flat byte structures; round 3: nested
structures, `bits` containers with sub-byte fields, aliases, array element facts).

Written from doc/language-reference.md ("Structs", "bits", "Field location", "Conditional
fields", "Virtual fields", "Aliases", "Arrays", "[requires]") and doc/cpp-reference.md (what is
readable when).  R is declarative: `RFact m w` is the **least set of facts** about the view `w`
(a structure definition, maybe-known parameter values, and a *window*: the bytes that are there,
or the number a `bits` container holds) closed under the documented rules — there is no fuel, no
evaluation order and no `GetOffsetStorage` in it:

  pres     a field exists iff its condition holds: the fact `x is present = b` holds when the
           condition evaluates to `b` from facts that hold;
  scalar   a present physical field whose start `s ≥ 0` and size `z ≥ 0` are computable, which
           has the size of its type and whose whole extent `[s, s+z)` is inside the window, has the
           value its extent denotes — in a byte structure the bytes taken in the field's byte
           order, in a `bits` container bits `[s, s+z)` of the container's number
           (`Emboss.Scalar.Spec.bits`, the spec C02 is proved against) — decoded per type (two's
           complement for `Int`, non-zero for `Flag`), provided that value passes `[requires]`;
  virt     a virtual field has the value of its expression (D5 of embref: independently of its
           own presence), provided it passes its `[requires]`;
  sub      a present field of structure / `bits` type with computable location and arguments:
           every fact of the *inner* structure over the field's sub-window (the bytes of the
           extent that are there; for a `bits` type the number the extent's bytes denote, which
           needs all of them) is a fact of the outer one, under the field's name;
  nullsub  the accessor of a field can always be called (cpp-reference: it returns a view that is
           not Ok when the field is absent or unreadable — embref D5/D6); what holds of the inner
           structure *without any bytes and parameters* (constant virtual fields, constant
           conditions) holds under the field's name;
  alias    an alias that is present reads what its target reads;
  count    a present array field with computable location whose whole extent is inside the
           window (embref D2: the count is defined for complete arrays only) has
           `size / element size` elements;
  elem     element `i` of a present array of scalars, lying inside the field's extent
           (`e·i + e ≤ size`), is decoded like a scalar field at `s + e·i`.

Expressions (decision D1 of embref.py): a reference is unknown unless the corresponding fact
holds; operators are strict in unknown-ness except `&&`, `||` ("even if the other argument
cannot be computed") and `?:` (condition + selected branch) — the operator table `applyFn` is
shared with the model (it *is* the documented three-valued table).  The reference evaluates the
*source* expression: the compiler's constant-folding annotations (`Expr.fold`) are ignored
(`evalR` looks through them), which is why R is only a lower bound on knowledge for folded
definitions (D8) and the refinement theorem is stated for definitions whose annotations are
closed constants (`foldFree`; in particular fold-free ones).

The size of a structure is `ViewSpec.size` (Spec/View.lean) over the extents R defines
(`C01_size_is_max_end` relates the synthesised `$size_in_bytes` to it for every environment).
-/
import Emboss.Model.View
import Emboss.Model.ViewFrag
import Emboss.Spec.Scalar
namespace Emboss.ViewRef
open Emboss.View

/-- What R can say about a view. -/
inductive Fact where
  /-- the field at `path` is readable and has value `v` -/
  | val (path : List String) (v : Val)
  /-- the presence of the field at `path` is known to be `b` -/
  | pres (path : List String) (b : Bool)
  /-- the array field `x` has `n` elements -/
  | count (x : String) (n : Nat)
  /-- element `i` of the array field `x` is readable and has value `v` -/
  | elem (x : String) (i : Nat) (v : Val)

/-- a fact about the inner view, seen from the outer one through field `x` -/
def Fact.under (x : String) : Fact → Option Fact
  | .val p v => some (.val (x :: p) v)
  | .pres p b => some (.pres (x :: p) b)
  | _ => none

/-- Number denoted by a byte string, least significant byte first. -/
def leNumber (d : List Nat) : Nat := d.foldr (fun b acc => b % 256 + 256 * acc) 0

def number (bo : ByteOrder) (d : List Nat) : Nat :=
  match bo with
  | .be => leNumber d.reverse
  | _ => leNumber d

/-- Value of a field of `bits` bits holding the unsigned number `raw`. -/
def specDecode (k : ScalarKind) (bits : Nat) (raw : Nat) : Option Val :=
  match k with
  | .uint => some (.int raw)
  | .int => some (.int (if raw < 2 ^ (bits - 1) then (raw : Int) else (raw : Int) - (2 ^ bits : Nat)))
  | .flag => some (.bool (raw != 0))
  | .enum _ false => some (.int raw)
  | _ => none

/-- The unsigned number the extent `[s, s+z)` of a window denotes for a field of `bits` bits:
defined when the field has the size of its type and the whole extent is inside the window. -/
def fieldRaw (st : Storage) (bo : ByteOrder) (s z bits : Nat) : Option Nat :=
  match st with
  | .bytes (some d) =>
    if z * 8 = bits ∧ s + z ≤ d.length then some (number bo ((d.drop s).take z)) else none
  | .bits (some x) n =>
    if z = bits ∧ s + z ≤ n then some (Emboss.Scalar.Spec.bits s z x) else none
  | _ => none

/-- The window of a field of structure / `bits` type located at `[s, s+z)`: a byte structure in a
byte structure sees the bytes of the extent that are there; a `bits` type in a byte structure
holds the number its `bits/8` bytes denote in the field's byte order (all of them are needed);
inside a `bits` container it holds bits `[s, s+z)` of the container. -/
def window (st : Storage) (childIsBits : Bool) (bo : ByteOrder) (s z bits : Nat) : Storage :=
  match st, childIsBits with
  | .bytes none, false => .bytes none
  | .bytes (some d), false => .bytes (some ((d.drop s).take z))
  | .bytes d, true => .bits (fieldRaw (.bytes d) bo s z bits) bits
  | .bits x n, _ => .bits (if s + z ≤ n then x.map (Emboss.Scalar.Spec.bits s z) else none) z

/-- The whole extent `[s, s+z)` is inside a readable window (an empty extent always is). -/
def extentIn (st : Storage) (s z : Nat) : Bool :=
  match st with
  | .bytes (some d) => decide (z = 0 ∨ s + z ≤ d.length)
  | .bits (some _) n => decide (z = 0 ∨ s + z ≤ n)
  | _ => false

mutual
  /-- Value of a source expression under a partial assignment (`Env` reused as the record of
  what is known: field values, parameters, presences, `this`). -/
  def evalR (ρ : Env) : Expr → Option Val
    | .const v => some v
    | .fold _ orig => evalR ρ orig
    | .ref p => ρ.read p
    | .param n => ρ.param n
    | .has p => (ρ.has p).map Val.bool
    | .lv => ρ.lv
    | .op f args => applyFn f (evalRList ρ args)
  def evalRList (ρ : Env) : Exprs → List (Option Val)
    | .nil => []
    | .cons e es => evalR ρ e :: evalRList ρ es
end

/-- constructor arguments of a parameterised type: all of them must be computable -/
def evalArgsR (ρ : Env) : Exprs → Option (List Val)
  | .nil => some []
  | .cons e es =>
    match evalR ρ e, evalArgsR ρ es with
    | some v, some vs => some (v :: vs)
    | _, _ => none

/-- `[requires]` holds for the candidate value `v` (`this = v`). -/
def requiresOk (ρ : Env) (req : Option Expr) (v : Val) : Prop :=
  ∀ r, req = some r → evalR { ρ with lv := some v } r = some (.bool true)

/-- The least set of facts closed under the documented rules, for the view `w` (structure
`w.sd`, parameter values `w.params` if known, window `w.st`) in module `m`.  In every rule `ρ` is
*any* partial assignment all of whose entries are facts that hold of `w` (with the view's
parameters, and no `this`). -/
inductive RFact (m : Module) : SView → Fact → Prop
  | pres {w : SView} {x : String} {f : Field} {b : Bool} (ρ : Env)
      (hf : w.sd.field x = some f)
      (hr : ∀ p v, ρ.read p = some v → RFact m w (.val p v))
      (hh : ∀ p c, ρ.has p = some c → RFact m w (.pres p c))
      (hp : ∀ n v, ρ.param n = some v → w.param n = some v)
      (hl : ρ.lv = none)
      (he : evalR ρ f.cond = some (.bool b)) :
      RFact m w (.pres [x] b)
  | scalar {w : SView} {x : String} {f : Field} {start size : Expr} {k : ScalarKind} {bits : Nat}
      {req : Option Expr} {bo : ByteOrder} {s z : Int} {raw : Nat} {v : Val} (ρ : Env)
      (hf : w.sd.field x = some f)
      (hk : f.kind = .phys start size (.scalar k bits req) bo)
      (hpres : RFact m w (.pres [x] true))
      (hr : ∀ p v, ρ.read p = some v → RFact m w (.val p v))
      (hh : ∀ p c, ρ.has p = some c → RFact m w (.pres p c))
      (hp : ∀ n v, ρ.param n = some v → w.param n = some v)
      (hl : ρ.lv = none)
      (hs : evalR ρ start = some (.int s)) (hz : evalR ρ size = some (.int z))
      (hs0 : 0 ≤ s) (hz0 : 0 ≤ z)
      (hraw : fieldRaw w.st bo s.toNat z.toNat bits = some raw)
      (hv : specDecode k bits raw = some v)
      (hreq : requiresOk ρ req v) :
      RFact m w (.val [x] v)
  | virt {w : SView} {x : String} {f : Field} {value : Expr} {req : Option Expr} {v : Val} (ρ : Env)
      (hf : w.sd.field x = some f)
      (hk : f.kind = .virt value req)
      (hr : ∀ p v, ρ.read p = some v → RFact m w (.val p v))
      (hh : ∀ p c, ρ.has p = some c → RFact m w (.pres p c))
      (hp : ∀ n v, ρ.param n = some v → w.param n = some v)
      (hl : ρ.lv = none)
      (hv : evalR ρ value = some v)
      (hreq : requiresOk ρ req v) :
      RFact m w (.val [x] v)
  | sub {w : SView} {x : String} {f : Field} {start size : Expr} {name : String} {bits : Nat}
      {args : Exprs} {bo : ByteOrder} {sd' : StructDef} {s z : Int} {vs : List Val}
      {inner outer : Fact} (ρ : Env)
      (hf : w.sd.field x = some f)
      (hk : f.kind = .phys start size (.struct name bits args) bo)
      (hfind : m.find name = some sd')
      (hpres : RFact m w (.pres [x] true))
      (hr : ∀ p v, ρ.read p = some v → RFact m w (.val p v))
      (hh : ∀ p c, ρ.has p = some c → RFact m w (.pres p c))
      (hp : ∀ n v, ρ.param n = some v → w.param n = some v)
      (hl : ρ.lv = none)
      (hs : evalR ρ start = some (.int s)) (hz : evalR ρ size = some (.int z))
      (hs0 : 0 ≤ s) (hz0 : 0 ≤ z)
      (hargs : evalArgsR ρ args = some vs)
      (hsub : RFact m { sd := sd', params := some vs,
                        st := window w.st (sd'.unit != 8) bo s.toNat z.toNat bits } inner)
      (hout : inner.under x = some outer) :
      RFact m w outer
  | nullsub {w : SView} {x : String} {f : Field} {start size : Expr} {name : String} {bits : Nat}
      {args : Exprs} {bo : ByteOrder} {sd' : StructDef} {inner outer : Fact}
      (hf : w.sd.field x = some f)
      (hk : f.kind = .phys start size (.struct name bits args) bo)
      (hfind : m.find name = some sd')
      (hsub : RFact m (nullView sd') inner)
      (hout : inner.under x = some outer) :
      RFact m w outer
  | aliasVal {w : SView} {x : String} {f : Field} {t rest : List String} {v : Val}
      (hf : w.sd.field x = some f)
      (hk : f.kind = .alias t)
      (hpres : RFact m w (.pres [x] true))
      (ht : RFact m w (.val (t ++ rest) v)) :
      RFact m w (.val (x :: rest) v)
  | aliasPres {w : SView} {x : String} {f : Field} {t : List String} {y : String} {ys : List String}
      {c : Bool}
      (hf : w.sd.field x = some f)
      (hk : f.kind = .alias t)
      (hpres : RFact m w (.pres [x] true))
      (ht : RFact m w (.pres (t ++ y :: ys) c)) :
      RFact m w (.pres (x :: y :: ys) c)
  | count {w : SView} {x : String} {f : Field} {start size : Expr} {elem : PType} {es : Nat}
      {bo : ByteOrder} {s z : Int} (ρ : Env)
      (hf : w.sd.field x = some f)
      (hk : f.kind = .phys start size (.array elem es) bo)
      (hpres : RFact m w (.pres [x] true))
      (hr : ∀ p v, ρ.read p = some v → RFact m w (.val p v))
      (hh : ∀ p c, ρ.has p = some c → RFact m w (.pres p c))
      (hp : ∀ n v, ρ.param n = some v → w.param n = some v)
      (hl : ρ.lv = none)
      (hs : evalR ρ start = some (.int s)) (hz : evalR ρ size = some (.int z))
      (hs0 : 0 ≤ s) (hz0 : 0 ≤ z) (hes : 0 < es)
      (hin : extentIn w.st s.toNat z.toNat = true) :
      RFact m w (.count x (z.toNat / es))
  | elem {w : SView} {x : String} {f : Field} {start size : Expr} {k : ScalarKind} {bits : Nat}
      {req : Option Expr} {es : Nat} {bo : ByteOrder} {s z : Int} {i raw : Nat} {v : Val} (ρ : Env)
      (hf : w.sd.field x = some f)
      (hk : f.kind = .phys start size (.array (.scalar k bits req) es) bo)
      (hpres : RFact m w (.pres [x] true))
      (hr : ∀ p v, ρ.read p = some v → RFact m w (.val p v))
      (hh : ∀ p c, ρ.has p = some c → RFact m w (.pres p c))
      (hp : ∀ n v, ρ.param n = some v → w.param n = some v)
      (hl : ρ.lv = none)
      (hs : evalR ρ start = some (.int s)) (hz : evalR ρ size = some (.int z))
      (hs0 : 0 ≤ s) (hz0 : 0 ≤ z)
      (hi : es * i + es ≤ z.toNat)
      (hraw : fieldRaw w.st bo (s.toNat + es * i) es bits = some raw)
      (hv : specDecode k bits raw = some v)
      (hreq : requiresOk ρ req v) :
      RFact m w (.elem x i v)

/-! ### the fragment

The decidable predicates `refField` / `refStruct` / `refModule` (and `foldFree`, `okKind`,
`sizeIsBits`) live in Model/ViewFrag.lean so that the driver can evaluate them on every real IR. -/

/-- a view's window has the shape its structure addresses: bytes for a `struct`, a number for a
`bits` -/
def viewWF (w : SView) : Bool :=
  match w.st with
  | .bytes _ => w.sd.unit == 8
  | .bits _ _ => w.sd.unit != 8

/-! ### logical equality (C20) -/

def isPhys (f : Field) : Bool :=
  match f.kind with
  | .phys _ _ _ _ => true
  | _ => false

/-- every physical field of the structure is a scalar (the structure may itself be nested
anywhere, and may be a `bits` container) -/
def scalarFields (sd : StructDef) : Bool :=
  sd.fields.all (fun f =>
    match f.kind with
    | .phys _ _ (.scalar _ _ _) _ => true
    | .phys _ _ _ _ => false
    | _ => true)

/-- Two views of the same structure are *logically equal* (C20's statement): they agree on which
physical fields are present, and every present physical field reads equal — all as defined by
the reference semantics.  Bytes / bits no field covers, and virtual fields, play no role. -/
def LogicallyEqual (m : Module) (wa wb : SView) : Prop :=
  ∀ f ∈ wa.sd.fields, isPhys f = true →
    ∃ c, RFact m wa (.pres [f.name] c) ∧ RFact m wb (.pres [f.name] c) ∧
      (c = true → ∃ v, RFact m wa (.val [f.name] v) ∧ RFact m wb (.val [f.name] v))

/-- `w'` is the view the reference assigns to the field `x` of structure / `bits` type of `w`
(the view whose facts rule `sub` lifts): inner structure, argument values, sub-window. -/
inductive SubViewR (m : Module) (w : SView) (x : String) : SView → Prop
  | mk {f : Field} {start size : Expr} {name : String} {bits : Nat}
      {args : Exprs} {bo : ByteOrder} {sd' : StructDef} {s z : Int} {vs : List Val} (ρ : Env)
      (hf : w.sd.field x = some f)
      (hk : f.kind = .phys start size (.struct name bits args) bo)
      (hfind : m.find name = some sd')
      (hr : ∀ p v, ρ.read p = some v → RFact m w (.val p v))
      (hh : ∀ p c, ρ.has p = some c → RFact m w (.pres p c))
      (hp : ∀ n v, ρ.param n = some v → w.param n = some v)
      (hl : ρ.lv = none)
      (hs : evalR ρ start = some (.int s)) (hz : evalR ρ size = some (.int z))
      (hs0 : 0 ≤ s) (hz0 : 0 ≤ z)
      (hargs : evalArgsR ρ args = some vs) :
      SubViewR m w x { sd := sd', params := some vs,
                       st := window w.st (sd'.unit != 8) bo s.toNat z.toNat bits }

/-- the two views have the same parameter values (a structure without parameters trivially) -/
def ParamsAgree (wa wb : SView) : Prop := wa.sd.params = [] ∨ wa.params = wb.params

/-- **Logical equality, recursively** (C20's statement), to nesting depth `k`: two views of the
same structure type agree on which physical fields are present, every present scalar field reads
equal, and every present field of structure / `bits` type is — as the views R assigns to it on
both sides — logically equal to depth `k - 1`.  Everything is stated over R-facts; bytes / bits no
field covers, virtual fields and aliases play no role.  (Structure types do not nest recursively
in Emboss, so a depth at least the nesting depth of the type is "logically equal".) -/
def LogEq (m : Module) : Nat → SView → SView → Prop
  | 0, _, _ => False
  | k + 1, wa, wb =>
    ParamsAgree wa wb ∧
    ∀ f ∈ wa.sd.fields, isPhys f = true →
      ∃ c, RFact m wa (.pres [f.name] c) ∧ RFact m wb (.pres [f.name] c) ∧
        (c = true →
          match f.kind with
          | .phys _ _ (.struct _ _ _) _ =>
            ∃ wa' wb', SubViewR m wa f.name wa' ∧ SubViewR m wb f.name wb' ∧ LogEq m k wa' wb'
          | _ => ∃ v, RFact m wa (.val [f.name] v) ∧ RFact m wb (.val [f.name] v))

/-- no physical field is an array (fragment of `C20_equals_iff_logical_nested_partial`) -/
def noArrayFields (sd : StructDef) : Bool :=
  sd.fields.all (fun f =>
    match f.kind with
    | .phys _ _ (.array _ _) _ => false
    | _ => true)

/-- field names are unique (the front end rejects duplicate names) -/
def namesUnique (sd : StructDef) : Prop := ∀ f ∈ sd.fields, sd.field f.name = some f

end Emboss.ViewRef
