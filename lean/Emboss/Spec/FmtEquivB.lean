/-
Specification side of C11, normal form modulo blank lines (round 3).

The grammar keeps blank lines as tree structure: `eol -> "\n" comment-line*`,
`comment-line -> Comment? "\n"`, and the module starts with a `comment-line*`.  A blank
source line is a `comment-line` whose `Comment?` is the empty production.  The property
statement lets the formatter change blank lines.  `EquivB`: two parse trees are the same
except that, under an `eol` node and at the head of the module, the chain of comment
lines may carry *other blank lines at its two ends* (blank lines between two comments of
one chain are not touched: the formatter keeps them).

Everything is phrased through the handler the live registry assigns to a production
(`handlerAt`), not through production names.
-/
import Emboss.Spec.Fmt
namespace Emboss.Fmt

/-- The handler the registry resolves production `p` to. -/
def handlerAt (tbl : Table) (p : Nat) : Option Handler := (tbl[p]?).bind resolve

/-- A blank line: a node handled by `_comment_line` whose first child is an empty
production handled by `_empty_string` and whose second child is a token (the line end). -/
def isBlankLineTree (tbl : Table) : Tree → Bool
  | .node p [.node q [], .tok _ _] =>
    handlerAt tbl p == some .commentLine && handlerAt tbl q == some .emptyString
  | _ => false

/-- Any comment line (blank or not): a two-child node handled by `_comment_line`. -/
def isCommentLineTree (tbl : Table) : Tree → Bool
  | .node p [_, _] => handlerAt tbl p == some .commentLine
  | _ => false

/-- A chain (`x* -> x x*` handled by `_concatenate_lists`, `x* ->` by `_empty_list`) of
blank lines only. -/
inductive AllBlank (tbl : Table) : Tree → Prop
  | nil {p : Nat} : handlerAt tbl p = some .emptyList → AllBlank tbl (.node p [])
  | cons {p : Nat} {e c : Tree} : handlerAt tbl p = some .concatenateLists →
      isBlankLineTree tbl e = true → AllBlank tbl c → AllBlank tbl (.node p [e, c])

/-- `c'` is the chain of comment lines `c` with blank lines appended at its end. -/
inductive TrailExt (tbl : Table) : Tree → Tree → Prop
  | atNil {p : Nat} {c' : Tree} : handlerAt tbl p = some .emptyList → AllBlank tbl c' →
      TrailExt tbl (.node p []) c'
  | cons {p : Nat} {l c c' : Tree} : handlerAt tbl p = some .concatenateLists →
      isCommentLineTree tbl l = true → TrailExt tbl c c' →
      TrailExt tbl (.node p [l, c]) (.node p [l, c'])

/-- `c'` is the chain of comment lines `c` with blank lines added at both ends. -/
inductive BlankExt (tbl : Table) : Tree → Tree → Prop
  | trail {c c' : Tree} : TrailExt tbl c c' → BlankExt tbl c c'
  | lead {p : Nat} {e c c' : Tree} : handlerAt tbl p = some .concatenateLists →
      isBlankLineTree tbl e = true → BlankExt tbl c c' → BlankExt tbl c (.node p [e, c'])

/-- Two chains of comment lines that differ only in the blank lines at their ends. -/
def BlankEq (tbl : Table) (c c' : Tree) : Prop := ∃ c0, BlankExt tbl c0 c ∧ BlankExt tbl c0 c'

/-- Same tree up to blank lines at the ends of the comment-line chains under `eol` nodes
(`_eol`) and at the head of the module (`_module`). -/
inductive EquivB (tbl : Table) : Tree → Tree → Prop
  | refl (t : Tree) : EquivB tbl t t
  | node (p : Nat) (cs cs' : List Tree) : cs.length = cs'.length →
      (∀ (i : Nat) (h : i < cs.length) (h' : i < cs'.length), EquivB tbl cs[i] cs'[i]) →
      EquivB tbl (.node p cs) (.node p cs')
  | eol (p : Nat) (nl c c' : Tree) : handlerAt tbl p = some .eol → BlankEq tbl c c' →
      EquivB tbl (.node p [nl, c]) (.node p [nl, c'])
  | module (p : Nat) (c c' : Tree) (rest rest' : List Tree) : handlerAt tbl p = some .module →
      BlankEq tbl c c' → rest.length = rest'.length →
      (∀ (i : Nat) (h : i < rest.length) (h' : i < rest'.length), EquivB tbl rest[i] rest'[i]) →
      EquivB tbl (.node p (c :: rest)) (.node p (c' :: rest'))

end Emboss.Fmt
