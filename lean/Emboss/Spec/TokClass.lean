/-
Declarative classification of names and numbers (property C10), written from
doc/language-reference.md ("Names", "Numeric Constant Formats") and the keyword /
reserved-prefix rows of doc/grammar.md — not from the tokenizer's regexes.

A *word run* is a maximal run of `[A-Za-z0-9_$]`.
-/
namespace Emboss.Tok.Class

def between (lo hi c : Char) : Bool := lo.toNat ≤ c.toNat && c.toNat ≤ hi.toNat

def isLower (c : Char) : Bool := between 'a' 'z' c
def isUpper (c : Char) : Bool := between 'A' 'Z' c
def isDigit (c : Char) : Bool := between '0' '9' c
def isHexDigit (c : Char) : Bool := isDigit c || between 'a' 'f' c || between 'A' 'F' c
def isBinDigit (c : Char) : Bool := between '0' '1' c
def isUs (c : Char) : Bool := c.toNat == '_'.toNat
def isWordChar (c : Char) : Bool :=
  isLower c || isUpper c || isDigit c || isUs c || c.toNat == '$'.toNat

/-! ### Names -/

/-- "Imported module names and field names are always `snake_case`.  They must start with
a lower-case letter, and may only contain lower-case letters, numbers, and underscore." -/
def isSnake : List Char → Bool
  | [] => false
  | c :: r => isLower c && r.all (fun c => isLower c || isUs c || isDigit c)

/-- "Enum value names are always `SHOUTY_CASE`.  They must start with a capital letter,
may only contain capital letters, numbers, and underscore" and, per the regex the
reference gives, contain at least one more capital letter or underscore ("A", "A1" are
not SHOUTY_CASE). -/
def isShouty : List Char → Bool
  | [] => false
  | c :: r => isUpper c && r.all (fun c => isUpper c || isUs c || isDigit c) &&
      r.any (fun c => isUpper c || isUs c)

/-- "Type names in Emboss are always `CamelCase`.  They must start with a capital letter,
contain at least one lower-case letter, and contain only letters and digits." -/
def isCamel : List Char → Bool
  | [] => false
  | c :: r => isUpper c && r.all (fun c => isLower c || isUpper c || isDigit c) && r.any isLower

/-- Words reserved for the compiler (doc/grammar.md): a reserved prefix followed by
characters of the same case style. -/
def isReserved (w : List Char) : Bool :=
  ("EmbossReserved".toList.isPrefixOf w &&
      (w.drop 14).all (fun c => isUpper c || isLower c || isDigit c)) ||
  ("emboss_reserved".toList.isPrefixOf w &&
      (w.drop 15).all (fun c => isUs c || isLower c || isDigit c)) ||
  ("EMBOSS_RESERVED".toList.isPrefixOf w &&
      (w.drop 15).all (fun c => isUs c || isUpper c || isDigit c))

/-- Keywords and `$`-words of the grammar (literal tokens made of word characters). -/
def keywords : List String :=
  ["$static_size_in_bits", "$is_statically_sized", "$max", "$present", "$upper_bound",
   "$lower_bound", "$next", "$size_in_bits", "$size_in_bytes", "$max_size_in_bits",
   "$max_size_in_bytes", "$min_size_in_bits", "$min_size_in_bytes", "$default",
   "struct", "bits", "enum", "external", "import", "as", "if", "let"]

def keywordOf (w : List Char) : Option String := keywords.find? (fun l => l.toList == w)

/-! ### Numbers -/

/-- One or more digits, no separators. -/
def isPlain (dig : Char → Bool) (w : List Char) : Bool := !w.isEmpty && w.all dig

/-- `_`-separated groups: the text is a first group of 1…`first` digits followed by zero or
more groups of a `_` and exactly `len` digits. -/
def Grouped (dig : Char → Bool) (first len : Nat) (w : List Char) : Prop :=
  ∃ (g0 : List Char) (gs : List (List Char)),
    w = g0 ++ (gs.map (fun g => '_' :: g)).flatten ∧
    1 ≤ g0.length ∧ g0.length ≤ first ∧ g0.all dig = true ∧
    ∀ g ∈ gs, g.length = len ∧ g.all dig = true

/-- "Decimal numbers may use `_` as a thousands separator". -/
def IsDecimal (w : List Char) : Prop := isPlain isDigit w = true ∨ Grouped isDigit 3 3 w

/-- "Hexadecimal and binary numbers may use `_` as a separator every 4 or 8 digits …
cannot be mixed in the same constant"; the `x`/`b` must be lower case. -/
def IsRadixBody (dig : Char → Bool) (body : List Char) : Prop :=
  isPlain dig body = true ∨ Grouped dig 4 4 body ∨ Grouped dig 8 8 body

/-- The forms without a `_` after the prefix: decimal, `0x…`, `0b…`, each without separators or
with the separators described above. -/
def IsNumberNoPrefixUnderscore (w : List Char) : Prop :=
  IsDecimal w ∨ (∃ body, w = '0' :: 'x' :: body ∧ IsRadixBody isHexDigit body) ∨
    (∃ body, w = '0' :: 'b' :: body ∧ IsRadixBody isBinDigit body)

/-- "A single `_` may also be placed directly after the `0x` or `0b` prefix, before the first
group of digits" (documented since /repo commit 1c861f8; examples `0x_1234_5678`, `0x_ff`,
`0b_1010_0101`): after `0x_` / `0b_` come *groups* of digits in the sense of the 4- or 8-digit
rule — a first group of 1…4 digits followed by `_`-separated groups of exactly 4, or a first
group of 1…8 digits followed by groups of exactly 8.  (A run of more than 8 digits is not a
group under either rule, so `0x_123456789` is not of this form.) -/
def IsNumberRadixUnderscore (w : List Char) : Prop :=
  (∃ body, w = '0' :: 'x' :: '_' :: body ∧ (Grouped isHexDigit 4 4 body ∨ Grouped isHexDigit 8 8 body)) ∨
    (∃ body, w = '0' :: 'b' :: '_' :: body ∧ (Grouped isBinDigit 4 4 body ∨ Grouped isBinDigit 8 8 body))

/-- Numeric constants exactly as doc/language-reference.md ("Numeric Constant Formats")
describes them. -/
def IsNumberDoc (w : List Char) : Prop := IsNumberNoPrefixUnderscore w ∨ IsNumberRadixUnderscore w

/-- The catch-all number shape of doc/grammar.md (`BadNumber`): a digit, optionally one
of `b x B X`, then hex digits and underscores. -/
def isBadNumberShape : List Char → Bool
  | [] => false
  | d :: r => isDigit d &&
      (r.all (fun c => isHexDigit c || isUs c) ||
        match r with
        | y :: r' => (y.toNat == 'b'.toNat || y.toNat == 'x'.toNat || y.toNat == 'B'.toNat ||
            y.toNat == 'X'.toNat) && r'.all (fun c => isHexDigit c || isUs c)
        | [] => false)

/-! ### Classification of a word run that does not start with a digit -/

/-- Expected symbol of a maximal word run starting with a letter, `_` or `$`. -/
def classifyWord (w : List Char) : String :=
  match keywordOf w with
  | some l => "\"" ++ l ++ "\""
  | none =>
    if isReserved w then "BadWord"
    else if w = "true".toList ∨ w = "false".toList then "BooleanConstant"
    else if isSnake w then "SnakeWord"
    else if isShouty w then "ShoutyWord"
    else if isCamel w then "CamelWord"
    else "BadWord"

end Emboss.Tok.Class
