/-
Declarative specification of scalar decoding, written from the language reference
(doc/language-reference.md: `byte_order`, `bits`, `UInt`, `Int`, `Bcd`, `Flag`, `Float`,
`enum`) and from the statements of properties C02/C03 — independent of how the runtime
computes.
-/
import Emboss.Model.Scalar
namespace Emboss.Scalar.Spec
open Emboss.Scalar

/-- Little-endian value of a byte string: `Σ bᵢ · 256ⁱ`. -/
def leValue : List Nat → Nat
  | [] => 0
  | b :: bs => b + 256 * leValue bs

/-- The container taken in the field's byte order: little endian = first byte least
significant, big endian = last byte least significant, `Null` = the single byte. -/
def containerValue (order : ByteOrder) (bytes : List Nat) : Nat :=
  match order with
  | .big => leValue bytes.reverse
  | _ => leValue bytes

/-- Bits `[o, o+w)` of `x`; bit 0 is the least significant bit. -/
def bits (o w x : Nat) : Nat := x / 2 ^ o % 2 ^ w

/-- Two's-complement value of the `w`-bit pattern `d`. -/
def twos (w d : Nat) : Int := if d < 2 ^ (w - 1) then (d : Int) else (d : Int) - (2 ^ w : Nat)

/-- The `i`-th decimal digit position (nibble) of `d`. -/
def nibble (i d : Nat) : Nat := d / 16 ^ i % 16

/-- `Σ_{i<n} nibbleᵢ(d) · 10ⁱ`. -/
def bcdValue : Nat → Nat → Nat
  | 0, _ => 0
  | n + 1, d => d % 16 + 10 * bcdValue n (d / 16)

/-- Every one of the low `n` nibbles is a decimal digit. -/
def BcdOk (n d : Nat) : Prop := ∀ i, i < n → nibble i d ≤ 9

instance (n d : Nat) : Decidable (BcdOk n d) := by unfold BcdOk; infer_instance

/-- Number of nibbles of a `w`-bit `Bcd` (a high partial nibble is zero-extended). -/
def nibbles (w : Nat) : Nat := (w + 3) / 4

/-- A well-formed placement of a `w`-bit field at bit offset `o` of a `c`-bit container
stored in `bytes` (what the compiler guarantees for every generated view). -/
structure Placed (bb : BitBlock) (o w : Nat) : Prop where
  c_mult : bb.c % 8 = 0
  c_lo : 8 ≤ bb.c
  c_hi : bb.c ≤ 64
  w_pos : 1 ≤ w
  fits : o + w ≤ bb.c
  len : bb.bytes.length * 8 = bb.c
  bytes_ok : ∀ b ∈ bb.bytes, b < 256
  null_ok : bb.order = .null → bb.c = 8

/-- `result` is `old` with bits `[o, o+w)` replaced by `new` and **every other bit
unchanged** (the frame condition of a field write). -/
def Updated (o w old new result : Nat) : Prop :=
  ∀ i, result.testBit i = if o ≤ i ∧ i < o + w then new.testBit (i - o) else old.testBit i

/-- The documented logical value of the `w`-bit pattern `d` read as type `ty` (`none`: not a
valid value — a `Bcd` with a nibble above 9).  `Int` and signed enums: two's complement **at
the field width**; `Float`: the IEEE-754 bit pattern itself; `Flag`: 0 = false, 1 = true. -/
def decodeSpec (ty : Ty) (w d : Nat) : Option Int :=
  match ty with
  | .uint | .flag | .float | .enum _ false => some (d : Int)
  | .int | .enum _ true => some (twos w d)
  | .bcd => if BcdOk (nibbles w) d then some (bcdValue (nibbles w) d : Int) else none

/-- Static side conditions of a view type at field width `w` (what the compiler enforces):
a `Flag` is one bit; an enum field is at most as wide as the enum's underlying type — and,
for the theorems about *signed* enums, exactly as wide (narrower signed enum fields are the
open finding `signed-enum-in-field-narrower-than-underlying-type`). -/
def TypeFits (ty : Ty) (w : Nat) : Prop :=
  match ty with
  | .flag => w = 1
  | .float => w = 32 ∨ w = 64
  | .enum uw false => w ≤ uw
  | .enum uw true => uw = w
  | _ => True

/-- The candidate value `x` is a value of the C++ argument type of the view's
`CouldWriteValue`/`TryToWrite` (`UIntView`/`IntView`: any integer type `t` up to 64 bits —
the methods are templated; `BcdView`: `ValueType`; `FlagView`: `bool`; `FloatView`: the
float whose bit pattern is `x`; `EnumView`: the enum, i.e. its underlying type). -/
def ArgOk (ty : Ty) (w : Nat) (t : IntT) (x : Int) : Prop :=
  match ty with
  | .uint | .int => t.holds x = true ∧ t.width ≤ 64
  | .bcd => 0 ≤ x ∧ x < ((2 ^ Emboss.Bits.leastWidth w : Nat) : Int)
  | .flag => x = 0 ∨ x = 1
  | .float => 0 ≤ x ∧ x < ((2 ^ w : Nat) : Int)
  | .enum uw false => 0 ≤ x ∧ x < ((2 ^ uw : Nat) : Int)
  | .enum uw true => -((2 ^ (uw - 1) : Nat) : Int) ≤ x ∧ x < ((2 ^ (uw - 1) : Nat) : Int)

/-- `x` is representable in a `w`-bit field of type `ty`: some `w`-bit pattern decodes to it. -/
def Representable (ty : Ty) (w : Nat) (x : Int) : Prop :=
  ∃ d, d < 2 ^ w ∧ decodeSpec ty w d = some x

/-- The bits covered by the field, per the documentation. -/
def fieldBits (bb : BitBlock) (o w : Nat) : Nat :=
  bits o w (containerValue bb.order bb.bytes)

end Emboss.Scalar.Spec
