/-
Declarative side conditions of the structure round trip (property C06).
-/
import Emboss.Model.TextStruct
namespace Emboss.Text

/-- `b'` has the same bits as `b` wherever an emitted field of `pre`, present in `b`, lives. -/
def AgreeOn (pre : List FieldSem) (b b' : Buf) : Prop :=
  ∀ g ∈ pre, g.emitted = true → ∀ l, g.loc b = some l → ∀ a ∈ l, b' a = b a

/-- "Fields are listed in dependency order and skipped fields are not dependees of emitted
fields": the location (existence, offset, size) of every emitted field is determined by the
bits of the *emitted* fields that come earlier in the list. -/
def DepOk : List FieldSem → List FieldSem → Prop
  | _, [] => True
  | pre, f :: rest =>
    (f.emitted = true → ∀ b b', AgreeOn pre b b' → f.loc b' = f.loc b) ∧ DepOk (pre ++ [f]) rest

/-- `d` is a dependency of `f`, directly or through other fields (virtual fields included:
a physical field located through `let off = n * 2` depends on `n`). -/
inductive DependsOn (deps : Nat → List Nat) : Nat → Nat → Prop
  | direct {f d : Nat} : d ∈ deps f → DependsOn deps f d
  | step {f m d : Nat} : m ∈ deps f → DependsOn deps m d → DependsOn deps f d

end Emboss.Text
