/-
Declarative meaning of the regex fragment (property C10): `Lang r pre rest` — the
pattern `r` can match exactly the characters `pre` when they are followed by `rest`
(the context is needed only for `$`).  Written from the regular-expression syntax
reference, independent of how a backtracking engine searches.
-/
import Emboss.Model.Regex
namespace Emboss.Regex

inductive Lang : Regex → List Char → List Char → Prop
  | eps (rest) : Lang .eps [] rest
  | chr (c x rest) : c.mem x = true → Lang (.chr c) [x] rest
  | seq {a b u v rest} : Lang a u (v ++ rest) → Lang b v rest → Lang (.seq a b) (u ++ v) rest
  | altL {a b u rest} : Lang a u rest → Lang (.alt a b) u rest
  | altR {a b u rest} : Lang b u rest → Lang (.alt a b) u rest
  /-- stop repeating (allowed once the minimum is reached) -/
  | repStop {r mx rest} : Lang (.rep r 0 mx) [] rest
  /-- one more iteration (allowed while the maximum is not exhausted) -/
  | repIter {r mn mx u v rest} : mx ≠ some 0 → Lang r u (v ++ rest) →
      Lang (.rep r (mn - 1) (mx.map (· - 1))) v rest → Lang (.rep r mn mx) (u ++ v) rest
  | eol {rest} : atEol rest = true → Lang .eol [] rest

/-- `n` is the length of *some* match of `r` at the front of `s`. -/
def MatchesLen (r : Regex) (s : List Char) (n : Nat) : Prop :=
  n ≤ s.length ∧ Lang r (s.take n) (s.drop n)

end Emboss.Regex
