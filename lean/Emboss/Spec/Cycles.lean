/-
Declarative specification for C15 (cycle half): reachability, cycles, strongly
connected components.  Written from the property statement, independent of Tarjan.
-/
import Emboss.Model.Tarjan
namespace Emboss.Deps

/-- `a` mentions `b`. -/
def Edge (g : Graph) (a b : Nat) : Prop := b ∈ succs g a

instance (g : Graph) (a b : Nat) : Decidable (Edge g a b) := inferInstanceAs (Decidable (b ∈ succs g a))

/-- Reach⁺: a non-empty path of references. -/
inductive ReachP (g : Graph) : Nat → Nat → Prop
  | single {a b} : Edge g a b → ReachP g a b
  | step {a b c} : Edge g a b → ReachP g b c → ReachP g a c

/-- Reach*: a possibly empty path. -/
inductive Reach (g : Graph) : Nat → Nat → Prop
  | refl (a) : Reach g a a
  | step {a b c} : Edge g a b → Reach g b c → Reach g a c

/-- "depends on itself through references". -/
def cyclic (g : Graph) (a : Nat) : Prop := ReachP g a a

/-- Mutual reachability (the equivalence whose classes are the SCCs). -/
def Mutual (g : Graph) (a b : Nat) : Prop := Reach g a b ∧ Reach g b a

/-- `C` (as a set) is a class of mutual reachability. -/
def IsSCC (g : Graph) (C : List Nat) : Prop :=
  C ≠ [] ∧ ∀ a ∈ C, ∀ b, b ∈ C ↔ Mutual g a b

end Emboss.Deps
