/-
Separation discipline for writer output (property C06): when is a sequence of
stream pieces read back, token for token, by `ReadToken`?  Written from
doc/text-format.md: tokens are separated by white space or punctuation, `#` starts a
comment that extends to the end of the line.
-/
import Emboss.Model.TextTree
namespace Emboss.Text

/-- Characters that end a token. -/
def isDelim (c : Char) : Bool := isSpace c || c = '#' || isPunct c

/-- A non-punctuation token: non-empty, no white space, `#` or punctuation inside. -/
def ValidWord (w : List Char) : Prop := w ≠ [] ∧ ∀ c ∈ w, isDelim c = false

inductive Kind where
  | word | comment | other
  deriving DecidableEq

def Piece.kind : Piece → Kind
  | .word _ => .word
  | .comment _ => .comment
  | _ => .other

def Piece.Valid : Piece → Prop
  | .word w => ValidWord w
  | .punct c => isPunct c = true
  | .space s => ∀ c ∈ s, isSpace c = true
  | .comment b => ∀ c ∈ b, c ≠ '\n' ∧ c ≠ '\r'

/-- What may follow a piece of the given kind: a word needs a separator (punctuation, a
comment, non-empty white space); a comment needs a line end first. -/
def OkAfter : Kind → Piece → Prop
  | .word, .word _ => False
  | .word, .space s => s ≠ []
  | .word, _ => True
  | .comment, .space (c :: _) => c = '\n' ∨ c = '\r'
  | .comment, _ => False
  | .other, _ => True

/-- The piece list is well separated when read after a piece of kind `k`. -/
def WellSep : Kind → List Piece → Prop
  | _, [] => True
  | k, p :: ps => p.Valid ∧ OkAfter k p ∧ WellSep p.kind ps

/-- Kind of the last piece (`k` for the empty list). -/
def lastKind : Kind → List Piece → Kind
  | k, [] => k
  | _, p :: ps => lastKind p.kind ps

/-! ## Well-formed value trees and option sets -/

def Scalar.WF : Scalar → Prop
  | .int _ _ => True
  | .bool _ => True
  | .enumV n _ _ => ∀ w, n = some w → ValidWord w
  | .float t => ValidWord t

mutual
/-- Names, enum names and float texts are single tokens; read-only fields are scalars
(virtual fields have integer, boolean or enum type). -/
def TVal.WF : TVal → Prop
  | .scalar s => s.WF
  | .arr _ vs => vs.WF
  | .struct fs => fs.WF
def TVals.WF : TVals → Prop
  | .nil => True
  | .cons v vs => v.WF ∧ vs.WF
  | .skip vs => vs.WF
def TFields.WF : TFields → Prop
  | .nil => True
  | .cons name ro v fs => ValidWord name ∧ (ro = true → ∃ s, v = .scalar s) ∧ v.WF ∧ fs.WF
  | .skip name fs => ValidWord name ∧ fs.WF
end

/-- The option sets whose output is documented as re-readable: comments only together with
multi-line output (`O_rr` = {single-line, no comments} ∪ {multi-line, comments on|off}); any
base, any grouping; indentation made of white space. -/
structure Opts.Rereadable (o : Opts) : Prop where
  comments_need_multiline : o.comments = true → o.multiline = true
  indent_blank : ∀ c ∈ o.indent, isSpace c = true
  current_blank : ∀ c ∈ o.current, isSpace c = true

/-- A value may end in a word, in punctuation, or (multi-line only) in a comment. -/
def EndOk (o : Opts) : Kind → Prop
  | .comment => o.multiline = true
  | _ => True

/-- Where a field clause may start: multi-line output starts every clause on a fresh line. -/
def StartOk (o : Opts) (k : Kind) : Prop := if o.multiline = true then k = .other else k ≠ .comment

end Emboss.Text
