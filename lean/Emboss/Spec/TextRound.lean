/-
Text-level round trip (property C06): what `UpdateFromText` applied to `WriteToString`'s
output is supposed to produce, for value trees of *static* shape — written from the property
statement ("every emitted field reads back equal"): the sequence of `TryToWrite` calls is the
sequence of the tree's emitted (not read-only) leaves, each with its own value, addressed by its
path (`a.b[2]`), in the order of the text.  Unreadable atomic fields / elements (`skip` nodes, only written about
with `allow_partial_output`) are not in the text and not among the writes; an unreadable array
element still counts as an index.

`Matches shape v`: the value tree `v` is what a view of static shape `shape` can hold (integer
in the range of its `ValueType` and of the field, enum name known to the reader with that
value, array of the declared length, every written field known to the reader).
-/
import Emboss.Model.TextRead
import Emboss.Spec.TextTok
namespace Emboss.Text

/-- The value a leaf hands to `TryToWrite` when it is read back. -/
def Scalar.written : Scalar → WVal
  | .int _ v => .int v
  | .bool b => .bool b
  | .enumV _ _ v => .int v
  | .float t => .float t

/-- Path of element `i` / of member `name` (as the reader model and the harness print them). -/
def pathIdx (path : List Char) (i : Nat) : List Char := path ++ ('[' :: natToChars i ++ [']'])
def pathField (path name : List Char) : List Char := if path = [] then name else path ++ ('.' :: name)

mutual
/-- The emitted leaves of a value tree with their paths, in text order. -/
def writesVal (path : List Char) : TVal → List Write
  | .scalar s => [(path, s.written)]
  | .arr _ vs => writesElems path 0 vs
  | .struct fs => writesFields path fs
def writesElems (path : List Char) (i : Nat) : TVals → List Write
  | .nil => []
  | .cons v vs => writesVal (pathIdx path i) v ++ writesElems path (i + 1) vs
  | .skip vs => writesElems path (i + 1) vs
def writesFields (path : List Char) : TFields → List Write
  | .nil => []
  | .cons name false v fs => writesVal (pathField path name) v ++ writesFields path fs
  | .cons _ true _ fs => writesFields path fs
  | .skip _ fs => writesFields path fs
end

/-- `ElementCount()`: unreadable elements count. -/
def TVals.length : TVals → Nat
  | .nil => 0
  | .cons _ vs => vs.length + 1
  | .skip vs => vs.length + 1

/-- Number of elements that are written. -/
def TVals.written : TVals → Nat
  | .nil => 0
  | .cons _ vs => vs.written + 1
  | .skip vs => vs.written

/-- An enum name is not mistaken for a number by `ReadEnumViewFromTextStream` (which looks at
the first character: digit ⇒ unsigned number, `-` ⇒ signed number, else a name).  Emboss enum
value names are SHOUTY_CASE, so this always holds for compiled modules. -/
def NameLike : List Char → Prop
  | [] => True
  | c :: _ => isDigitChar c = false ∧ c ≠ '-'

/-- The scalar `s` is a value the view described by the reader shape can hold. -/
def ScalarMatches : RScalar → Scalar → Prop
  | .int T lo hi, .int T' v => T' = T ∧ T.InRange v ∧ lo ≤ v ∧ v ≤ hi
  | .bool, .bool _ => True
  | .enumR names T lo hi, .enumV (some n) T' v =>
    T' = T ∧ NameLike n ∧ lookupName names n = some v ∧ lo ≤ v ∧ v ≤ hi
  | .enumR _ T lo hi, .enumV none T' v => T' = T ∧ T.InRange v ∧ lo ≤ v ∧ v ≤ hi
  | .float, .float _ => True
  | _, _ => False

mutual
/-- Static shapes: an array holds exactly `count` elements (`count` is a `size_t`), every
written member of a struct is a field of the reader's struct. -/
def Matches : RShape → TVal → Prop
  | .scalar rs, .scalar s => ScalarMatches rs s
  | .arr count elem, .arr _ vs => vs.length = count ∧ count < 2 ^ 64 ∧ MatchesAll elem vs
  | .struct rfs, .struct fs => MatchesFields rfs fs
  | _, _ => False
def MatchesAll : RShape → TVals → Prop
  | _, .nil => True
  | e, .cons v vs => Matches e v ∧ MatchesAll e vs
  | e, .skip vs => MatchesAll e vs
def MatchesFields : RFields → TFields → Prop
  | _, .nil => True
  | rfs, .cons name false v fs =>
    (∃ s, findField rfs name = some s ∧ Matches s v) ∧ MatchesFields rfs fs
  | rfs, .cons _ true _ fs => MatchesFields rfs fs
  | rfs, .skip _ fs => MatchesFields rfs fs
end

mutual
/-- Every array of the tree has at most one written element. -/
def TVal.SmallArrays : TVal → Prop
  | .scalar _ => True
  | .arr _ vs => vs.written ≤ 1 ∧ vs.SmallArrays
  | .struct fs => fs.SmallArrays
def TVals.SmallArrays : TVals → Prop
  | .nil => True
  | .cons v vs => v.SmallArrays ∧ vs.SmallArrays
  | .skip vs => vs.SmallArrays
def TFields.SmallArrays : TFields → Prop
  | .nil => True
  | .cons _ _ v fs => v.SmallArrays ∧ fs.SmallArrays
  | .skip _ fs => fs.SmallArrays
end

/-- The exact boundary of the open finding `multiline-array-elements-not-comma-separated`:
no array with two or more written elements is written in multi-line mode (the multi-line form of
`WriteArrayToTextStream` separates elements by line breaks only, `ReadArrayFromTextStream`
insists on `,`; arrays with zero or one element need no separator and are re-read). -/
def noMultilineArray (o : Opts) (v : TVal) : Prop := o.multiline = true → v.SmallArrays

mutual
/-- Fuel the reader model spends on a tree (one unit per call of `readVal` / loop iteration). -/
def needVal : TVal → Nat
  | .scalar _ => 1
  | .arr _ vs => 1 + needElems vs
  | .struct fs => 1 + needFields fs
def needElems : TVals → Nat
  | .nil => 1
  | .cons v vs => 1 + needVal v + needElems vs
  | .skip vs => needElems vs
def needFields : TFields → Nat
  | .nil => 1
  | .cons _ false v fs => 1 + needVal v + needFields fs
  | .cons _ true _ fs => needFields fs
  | .skip _ fs => needFields fs
end

end Emboss.Text
