/-
Specification side of C11, normal form modulo trailing blanks of comments.

`equivC`: two parse trees have the same productions node by node and the same tokens,
except that layout tokens (Indent, Dedent, newline) may carry any text and
`Documentation` and `Comment` tokens may differ in trailing blanks — exactly the
differences the property statement allows between a text and its formatted version
("the same token sequence up to whitespace, blank lines and trailing blanks in
comments/documentation"), apart from blank lines (which are tree structure).
-/
import Emboss.Spec.Fmt
namespace Emboss.Fmt

def commentSym : String := "Comment"
def commentOptSym : String := "Comment?"
def isCommentSym (s : String) : Bool := s == commentSym || s == commentOptSym

def tokEquivC (s : String) (x x' : Str) : Bool :=
  isLayoutSym s ||
    (if s == docSym then rstrip x == rstrip x'
     else if s == commentSym then rstrip x == rstrip x' && x.isEmpty == x'.isEmpty
     else x == x')

mutual
  def equivC : Tree → Tree → Bool
    | .tok s x, .tok s' x' => s == s' && tokEquivC s x x'
    | .node p cs, .node p' cs' => p == p' && equivCL cs cs'
    | _, _ => false
  def equivCL : List Tree → List Tree → Bool
    | [], [] => true
    | t :: ts, t' :: ts' => equivC t t' && equivCL ts ts'
    | _, _ => false
end

/-- The argument position at which a handler takes the trailing comment of a line. -/
def Handler.commentPos : Handler → List Nat
  | .docLine => [1] | .importLine => [4] | .attributeLine => [1] | .structureType => [4] | .type_ => [3]
  | .virtualField => [4] | .unconditionalField => [6] | .inlineBits => [3] | .inlineType => [5]
  | .conditionalField => [3] | .enumValue => [5] | .commentLine => [0]
  | _ => []

/-- Table obligation: in every registered production the symbols `Comment` / `Comment?`
stand exactly at the handler's comment position (where the text ends a row, so that its
trailing blanks are stripped by the rendering and can reach no column width that is
used); `Comment?` itself is produced by `_identity` from a comment or by `_empty_string`. -/
def commentPosOK (h : Handler) : Nat → List String → Bool
  | _, [] => true
  | i, s :: rest => (isCommentSym s == h.commentPos.contains i) && commentPosOK h (i + 1) rest

def commentCore (r : Option Handler) (lhs : String) (rhs : List String) : Bool :=
  match r with
  | none => false
  | some .identity =>
    (match rhs with
     | [s] => isCommentSym s == isCommentSym lhs
     | _ => false)
  | some .emptyString => true
  | some h => commentPosOK h 0 rhs && !isCommentSym lhs

def commentOK (e : String × List String × String × Bool) : Bool := commentCore (resolve e) e.1 e.2.1

def tableComment (tbl : Table) : Bool := tbl.all commentOK

end Emboss.Fmt
