/-
C14 — declarative specification: `Realisable p`, written from doc/language-reference.md and
structured BY DOCUMENTED RULE (per entity: what must hold of a field, a type, a module),
whereas the model (`Emboss/Model/Constraints.lean`) is structured by compiler pass.

Shared with the model: the abstract data types, the effective values a declaration has
according to the reference (`effUnit`, `effFixedSize`, `effMaxBits`: "if not specified,
`maximum_bits` defaults to 64", the size of a structure = the end of its last byte), the
attribute lookup `getAttr` and the enumeration `allTypes` (characterised relationally by
`C14_defaults_propagate`).  NOTE: `getAttr` is the front end's `get_attribute`, which does
not look at the back-end qualifier; it coincides with the documented (unqualified) lookup
`declared` exactly when no qualified attribute bears a front-end name (`UnqAttrs`,
lemma `getAttr_eq_declared`); the theorem `C14_qualified_attribute_counterexample` shows the
real defect outside that condition.
-/
import Emboss.Model.Constraints
namespace Emboss.Constraints
open Emboss.Generated

/-! ## Attribute table ("only whitelisted attributes are allowed") -/

/-- The documented lookup: the unqualified, non-`$default` attribute of that name. -/
def declared (attrs : List Attr) (n : String) : Option AVal :=
  (attrs.find? (fun a => a.name = n ∧ a.isDefault = false ∧ a.backEnd = "")).map (·.val)

/-- No back-end-qualified attribute in the list. -/
def UnqAttrs (attrs : List Attr) : Prop := ∀ a ∈ attrs, a.backEnd = ""

/-- The value of attribute `a` has the type its name demands. -/
def ValueOK (a : Attr) : Prop :=
  match AttrTable.attrTypes.lookup a.name with
  | some .intConst => ∃ n, a.val = .int (some n)
  | some .boolConst => ∃ b l, a.val = .bool (some b) l
  | some .bool => (∃ b l, a.val = .bool b l) ∨ (∃ e, a.val = .req e)
  | some .str => ∃ s, a.val = .str s
  | some (.choice vs) => ∃ s, a.val = .str s ∧ s ∈ vs
  | some .backEnds => ∃ s, a.val = .str s ∧ validBackEnds s = true
  | _ => False

/-- Keys `(name, is $default)` of the unqualified attributes. -/
def frontKeys (attrs : List Attr) : List (String × Bool) :=
  (attrs.filter (fun a => a.backEnd = "")).map (fun a => (a.name, a.isDefault))

/-- Attributes only where (scope table `specs`), how often (once) and with the values
allowed. -/
structure AttrListOK (specs : List (String × Bool)) (attrs : List Attr) : Prop where
  once : (frontKeys attrs).Nodup
  allowed : ∀ a ∈ attrs, a.backEnd = "" → (a.name, a.isDefault) ∈ specs
  typed : ∀ a ∈ attrs, a.backEnd = "" → ValueOK a

/-! ## Widths -/

/-- The width rule of the referenced type for a use of `size` bits (`none` = not statically
sized): an `enum` needs 1..`maximum_bits` bits; any type's declared `static_requirements`
must hold (for the prelude types: `C14_prelude_requirements`). -/
def WidthOK (rt : TypeInfo) (size : Option Int) : Prop :=
  (∀ vs, rt.kind = .enum vs → ∃ s, size = some s ∧ 1 ≤ s ∧ s ≤ effMaxBits rt) ∧
  (∀ v, getAttr rt.attrs "static_requirements" = some v → ∃ e, v = .req e ∧ reqMet e size = true)

/-- Both bounds fit one 64-bit integer type. -/
def FitsIn64 (lo hi : Bound) : Prop :=
  ∃ a b, lo = .fin a ∧ hi = .fin b ∧ ((0 ≤ a ∧ b < 2 ^ 64) ∨ (-(2 ^ 63) ≤ a ∧ b < 2 ^ 63))

/-- Runtime parameters: integers carry an explicit width (obeying the type's width rule and
fitting 64 bits), enums must not. -/
def ParamOK (p : Program) (q : Param) : Prop :=
  if q.isInt then
    ∃ s rt, q.explicitSize = some s ∧ FitsIn64 q.lo q.hi ∧ findType p q.ref = some rt ∧
      WidthOK rt (some s)
  else q.explicitSize = none

/-! ## Fields -/

/-- Array dimensions, outermost first. -/
def Ty.dims : Ty → List Len
  | .atomic _ _ => []
  | .array b l => l :: b.dims

def Len.isConst : Len → Prop
  | .const _ => True
  | _ => False

/-- Is the field exactly one addressable unit, or made of one-unit elements?  (The only case
in which byte order does not matter.) -/
def OneUnit (p : Program) (t : TypeInfo) (f : Field) : Prop :=
  f.sizeConst = some 1 ∨ leafFixedSize p f.ty.leaf = some (effUnit t).bits

/-- The size in bits the element of the field statically has: the explicit size, else the
fixed size of its type, else (scalar field of constant size) the size of the field. -/
def staticElemSize (t rt : TypeInfo) (f : Field) : Option Int :=
  match f.ty.leaf.2, effFixedSize rt with
  | some e, _ => some e
  | none, some e => some e
  | none, none =>
    if f.ty.isAtomic then
      (match f.sizeMin, f.sizeMax with
       | .fin mn, .fin mx => if mn = mx then some (mn * (effUnit t).bits) else none
       | _, _ => none)
    else none

/-- What must hold of a physical field `f` of structure `t` whose (innermost) type is the
definition `rt`, `d` being the `$default byte_order` in effect. -/
structure PhysFieldOK (p : Program) (d : Option AVal) (t : TypeInfo) (f : Field) (rt : TypeInfo) :
    Prop where
  /-- bits have no byte-oriented members -/
  hasUnit : effUnit rt ≠ .none
  noByteInBits : effUnit t = .bit → effUnit rt ≠ .byte
  /-- arrays: fixed-size elements, whole addressable units; only the outermost length may be
  omitted or dynamic -/
  elemFixed : f.ty.isAtomic = false →
    ∃ sz, leafFixedSize p f.ty.leaf = some sz ∧ sz % (effUnit t).bits = 0
  innerConst : ∀ l ∈ f.ty.dims.tail, l.isConst
  /-- an explicit size equals the fixed size of the type, if it has one -/
  explicitMatches : ∀ e ts, f.ty.leaf.2 = some e → effFixedSize rt = some ts → e = ts
  /-- a scalar field holds its fixed-size type: exactly when the field size is constant (an
  anonymous `bits` may be smaller than its field), at most otherwise -/
  fits : f.ty.isAtomic = true → ∀ mn mx e, f.sizeMin = .fin mn → f.sizeMax = .fin mx →
    (f.ty.leaf.2 = some e ∨ (f.ty.leaf.2 = none ∧ effFixedSize rt = some e)) →
    e ≤ mx * (effUnit t).bits ∧
      (mn = mx → rt.anonymous = false → e = mx * (effUnit t).bits)
  /-- the width rule of the type, for the size the element statically has -/
  width : WidthOK rt (staticElemSize t rt f)
  /-- byte order present exactly where it matters -/
  noByteOrder : effUnit rt = effUnit t → getAttr f.attrs "byte_order" = none
  byteOrder : effUnit rt ≠ effUnit t →
    (∃ v, getAttr f.attrs "byte_order" = some v ∧ (v = .str "Null" → OneUnit p t f)) ∨
    (getAttr f.attrs "byte_order" = none ∧ ∃ v, d = some v ∧ (v = .str "Null" → OneUnit p t f)) ∨
    (getAttr f.attrs "byte_order" = none ∧ d = none ∧ OneUnit p t f)
  /-- `[requires]` only on integer, enumeration or boolean (non-array) fields -/
  requiresPlace : getAttr f.attrs "requires" ≠ none → f.ty.isAtomic = true ∧ physKind rt ≠ .other

/-- What must hold of any field. -/
structure FieldOK (p : Program) (d : Option AVal) (t : TypeInfo) (f : Field) : Prop where
  attrs : AttrListOK (fieldSpecs f) f.attrs
  name : isReserved f.name = false
  phys : f.isVirtual = false → ∃ rt, findType p f.ty.leaf.1 = some rt ∧ PhysFieldOK p d t f rt
  virt : f.isVirtual = true →
    getAttr f.attrs "byte_order" = none ∧ (getAttr f.attrs "requires" ≠ none → f.vkind ≠ .other)

/-! ## Types -/

/-- Is the enum signed?  Declared, or "signed if there is at least one negative value". -/
def Signed (t : TypeInfo) (values : List EnumValue) (s : Bool) : Prop :=
  (getAttr t.attrs "is_signed" = none ∧ (s = true ↔ ∃ v ∈ values, v.value < 0)) ∨
  (∃ l, getAttr t.attrs "is_signed" = some (.bool (some s) l))

structure EnumOK (t : TypeInfo) (values : List EnumValue) : Prop where
  maxBits : 1 ≤ effMaxBits t ∧ effMaxBits t ≤ 64
  representable : ∀ s, Signed t values s → ∀ v ∈ values,
    if s then -(2 ^ (effMaxBits t - 1).toNat) ≤ v.value ∧ v.value < 2 ^ (effMaxBits t - 1).toNat
    else 0 ≤ v.value ∧ v.value < 2 ^ (effMaxBits t).toNat
  valueAttrs : ∀ v ∈ values, AttrListOK AttrTable.enumValueAttrs v.attrs
  valueNames : ∀ v ∈ values, isReserved v.name = false

structure StructOK (p : Program) (d : Option AVal) (t : TypeInfo) (fields : List Field) : Prop where
  fieldsOK : ∀ f ∈ fields, FieldOK p d t f
  /-- a declared `fixed_size_in_bits` is the real size -/
  declaredSize : ∀ v, getAttr t.attrs "fixed_size_in_bits" = some v →
    ∃ sz, structFixedSize t fields = some sz ∧ v = .int (some sz)
  /-- `bits` are fixed size, at most 64 bits -/
  bits : t.unit = .bit → ∃ n, effFixedSize t = some n ∧ n ≤ 64

/-- What must hold of a type definition. -/
structure TypeOK (p : Program) (d : Option AVal) (t : TypeInfo) : Prop where
  attrs : AttrListOK (typeSpecs t) t.attrs
  name : isReserved t.name = false
  params : ∀ q ∈ t.params, ParamOK p q
  enum : ∀ vs, t.kind = .enum vs → EnumOK t vs
  struct : ∀ fs, t.kind = .structure fs → StructOK p d t fs
  external : t.kind = .external →
    ∃ n, getInt t.attrs "addressable_unit_size" = some n ∧ (n = 1 ∨ n = 8)

/-! ## Modules -/

def attrsOfTypeInfo (t : TypeInfo) : List Attr :=
  t.attrs ++ t.fields.flatMap (·.attrs) ++ t.values.flatMap (·.attrs)

structure ModuleOK (m : Module) : Prop where
  attrs : AttrListOK AttrTable.moduleAttrs m.attrs
  /-- back-end qualifiers are among the expected back ends -/
  backEnds : (∀ a ∈ m.attrs, a.backEnd ∈ expectedBackEnds m) ∧
    ∀ c ∈ m.ctxs, ∀ a ∈ attrsOfTypeInfo c.2, a.backEnd ∈ expectedBackEnds m
  /-- static references refer to constants -/
  staticRefs : ∀ b ∈ m.staticRefs, b = true
  /-- every run-time integer expression fits a 64-bit integer type (C05's gate accepts it) -/
  gated : ∀ g ∈ m.gated, Emboss.Bounds.gate g.2 = some []

/-- The module list is realisable as the language reference states. -/
def Realisable (p : Program) : Prop :=
  (∀ m ∈ p, ModuleOK m) ∧ (∀ c ∈ allTypes p, TypeOK p c.1 c.2)

/-! ## `$default` propagation, relationally -/

/-- `path` is a chain of nested type definitions of the forest ending in `t` (outermost
first, `t` last). -/
inductive IsPath : Forest → List TypeInfo → TypeInfo → Prop where
  | here (t : TypeInfo) (ch sib : Forest) : IsPath (.node t ch sib) [t] t
  | child (t : TypeInfo) (ch sib : Forest) (path : List TypeInfo) (u : TypeInfo) :
      IsPath ch path u → IsPath (.node t ch sib) (t :: path) u
  | sibling (t : TypeInfo) (ch sib : Forest) (path : List TypeInfo) (u : TypeInfo) :
      IsPath sib path u → IsPath (.node t ch sib) path u

/-- The `$default byte_order` a scope declares itself (the last one, if several). -/
def ownDefault (attrs : List Attr) : Option AVal :=
  gatherDefault attrs none

/-- The nearest enclosing `$default byte_order` along a chain of scopes (outermost first). -/
def nearestDefault : List (List Attr) → Option AVal
  | [] => none
  | scope :: inner =>
    match nearestDefault inner with
    | some v => some v
    | none => ownDefault scope

end Emboss.Constraints
