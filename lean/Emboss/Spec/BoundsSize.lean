/-
C05 spec, third part: the expression the front end synthesises for the run-time size of a
structure (`synthetics._add_size_virtuals`):
  `$size_in_bits = $max(0, c1 ? s1 + z1 : 0, …, cn ? sn + zn : 0)`
over the physical fields (existence condition `ci`, start `si`, size `zi`), and
`$max_size_in_bits = $upper_bound($size_in_bits)`, `$min_size_in_bits = $lower_bound($size_in_bits)`
(`synthetics._add_size_bound_virtuals`; same for `…_in_bytes`).
-/
import Emboss.Spec.Bounds
namespace Emboss.Bounds

/-- a physical field as the size synthesis sees it -/
structure PField where
  cond : Expr
  start : Expr
  size : Expr

/-- `existence_condition ? start + size : 0` -/
def sizeClause (f : PField) : Expr := .choice f.cond (.bin .add f.start f.size) (.const 0)

/-- `$size_in_bits` / `$size_in_bytes` of a structure with the physical fields `fs` -/
def sizeExpr (fs : List PField) : Expr := .max (.const 0 :: fs.map sizeClause)

end Emboss.Bounds
