/-
C05 spec, second part: the *inductive* form of the invariant
`expression_bounds._assert_integer_constraints`, and the syntactic fragment for which the
property statement promises tight bounds.

`invPy` (Model/Bounds.lean) is the assert block as written.  On its own it is not
inductive, for two reasons that are both visible in the code:

* a "constant infinity" (`modulus = "infinity"`, `modular_value = "infinity"`) passes the
  asserts and would crash `+ - * ?:` (it was produced by `$upper_bound` of an unbounded
  argument until the fix of finding F8; no transfer function produces it any more) —
  excluded by `FiniteConst`;
* for an annotation with no finite bound the asserts never look at `modular_value`, so
  `-infinity .. infinity, modulus 3, modular_value "infinity"` passes — excluded by
  `CanonMv` (`0 ≤ modular_value < modulus`, which is what every transfer function
  produces through `% modulus` and what the asserts force as soon as one bound is finite).

`InvOk` is the conjunction; it is a decidable (`Bool`) predicate.
-/
import Emboss.Spec.Bounds
namespace Emboss.Bounds

/-- no "constant infinity": a constant-moduled value has a finite `modular_value` -/
def FiniteConst (a : AVal) : Bool :=
  match a.modulus, a.mv with
  | .inf, .fin _ => true
  | .inf, _ => false
  | .fin _, _ => true

/-- canonical remainder: `0 ≤ modular_value < modulus` for a finite modulus -/
def CanonMv (a : AVal) : Bool :=
  match a.modulus, a.mv with
  | .fin m, .fin v => decide (0 ≤ v ∧ v < (m : Int))
  | .fin _, _ => false
  | .inf, _ => true

/-- `_assert_integer_constraints` passes, the remainder is canonical, no constant infinity -/
def InvOk (a : AVal) : Bool :=
  invPy a == some true && CanonMv a && FiniteConst a

/-- the same for an expression type (nothing to say about booleans / enums) -/
def InvOkT : AType → Bool
  | .int a => InvOk a
  | _ => true

mutual
/-- every preset annotation (`$logical_value`) satisfies the invariant -/
def GivenOk : Expr → Bool
  | .given _ a => InvOk a
  | .bin _ l r => GivenOk l && GivenOk r
  | .choice c t f => GivenOk c && GivenOk t && GivenOk f
  | .max args => GivenOkList args
  | .upper e => GivenOk e
  | .lower e => GivenOk e
  | .cref e => GivenOk e
  | .vref e => GivenOk e
  | .present _ c => GivenOk c
  | _ => true
def GivenOkList : List Expr → Bool
  | [] => true
  | e :: es => GivenOk e && GivenOkList es
end

/-! ### The linear single-occurrence fragment (tightness) -/

mutual
/-- ids of the integer leaves of an expression -/
def ivars : Expr → List Nat
  | .ileaf id _ _ => [id]
  | .ssize id => [id]
  | .given id _ => [id]
  | .bin _ l r => ivars l ++ ivars r
  | .choice c t f => ivars c ++ ivars t ++ ivars f
  | .max args => ivarsList args
  | .upper e => ivars e
  | .lower e => ivars e
  | .cref e => ivars e
  | .vref e => ivars e
  | .present _ c => ivars c
  | _ => []
def ivarsList : List Expr → List Nat
  | [] => []
  | e :: es => ivars e ++ ivarsList es
end

def disjoint (l r : List Nat) : Bool := l.all (fun x => !r.contains x)

mutual
/-- the fragment for which the property statement promises tight bounds: expressions over
    `+`, `-`, `*`, `$max` (at least one argument), integer literals and physical integer
    leaves of known size ≥ 1, in which **every leaf id occurs at most once** (the operands
    of every operator mention disjoint sets of leaves).  It contains the linear
    expressions `c0 + c1*x1 + … + cn*xn` over distinct leaves. -/
def LinOnce : Expr → Bool
  | .const _ => true
  | .ileaf _ _ size => (match size with | some s => decide (1 ≤ s) | none => false)
  | .bin op l r => isArith op && LinOnce l && LinOnce r && disjoint (ivars l) (ivars r)
  | .max args => !args.isEmpty && LinOnceList args
  | _ => false
def LinOnceList : List Expr → Bool
  | [] => true
  | e :: es => LinOnce e && LinOnceList es && disjoint (ivars e) (ivarsList es)
end

/-- the environment that reads the leaves in `vs` from `ρ1` and all others from `ρ2` -/
def mergeEnv (vs : List Nat) (ρ1 ρ2 : Env) : Env :=
  ⟨fun id => if vs.contains id then ρ1.i id else ρ2.i id, ρ2.b, ρ2.e⟩

end Emboss.Bounds
