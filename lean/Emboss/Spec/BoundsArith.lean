/-
C05 spec, fourth part: the arithmetic fragment on which the bounds analysis is shown to be
total (never raises).  Comparisons are left out on purpose: their annotation goes through
`ir_util.constant_value`, which raises `KeyError` on `$upper_bound`/`$lower_bound` of a
known operand (open finding), and the model has no type checker for their operands.
-/
import Emboss.Spec.BoundsInv
namespace Emboss.Bounds

/-- a condition that needs no `constant_value`: a boolean field or a boolean literal -/
def isBoolAtom : Expr → Bool
  | .bleaf _ => true
  | .bconst _ => true
  | _ => false

mutual
/-- integer expressions built from literals, integer leaves of any kind and size,
    `$static_size_in_bits`, preset `$logical_value`s, references to virtual fields, `+ - *`,
    `$max` (≥ 1 argument), `$upper_bound`, `$lower_bound`, and `?:` on a boolean field/literal -/
def ArithOnly : Expr → Bool
  | .const _ => true
  | .ileaf _ _ _ => true
  | .ssize _ => true
  | .given _ _ => true
  | .bin op l r => isArith op && ArithOnly l && ArithOnly r
  | .choice c t f => isBoolAtom c && ArithOnly t && ArithOnly f
  | .max args => !args.isEmpty && ArithOnlyList args
  | .upper e => ArithOnly e
  | .lower e => ArithOnly e
  | .vref e => ArithOnly e
  | _ => false
def ArithOnlyList : List Expr → Bool
  | [] => true
  | e :: es => ArithOnly e && ArithOnlyList es
end

end Emboss.Bounds
