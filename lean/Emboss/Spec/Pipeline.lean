/-
C16 — declarative side: what "well-formed errors", "reachable through imports" and
"inside the line" mean, written from the property statement (not from the code).
-/
import Emboss.Model.Pipeline
namespace Emboss.Pipeline

/-- A reportable error list: non-empty, and every group non-empty. -/
def WellFormed (es : Errors) : Prop := es ≠ [] ∧ ∀ g ∈ es, g ≠ []

/-- The files a compilation has to read: the root, and every import of a file that
parsed without errors. -/
inductive Reach (parse : String → Parsed) (root : String) : String → Prop
  | root : Reach parse root root
  | step {f i : String} : Reach parse root f → (parse f).errors = [] →
      i ∈ (parse f).imports → Reach parse root i

/-- The error lists the passes produce, in order, the IR being threaded through. -/
def results : List (Pass σ) → σ → List Errors
  | [], _ => []
  | p :: ps, s => (p.run s).2 :: results ps (p.run s).1

/-- A location lies inside the line `line` (columns are 1-based; `len+1` is the position
just past the last character). -/
def InLine (l : Loc) (line : Text) : Prop :=
  l.sl = l.el ∧ 1 ≤ l.sc ∧ l.sc ≤ l.ec ∧ l.ec ≤ line.length + 1

end Emboss.Pipeline
