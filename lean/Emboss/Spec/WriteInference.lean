/-
Declarative specification for write inference (language reference, "Virtual fields":
a virtual field whose value is `reference ± constants` can be written; the compiler solves
for the referenced field).
-/
import Emboss.Model.WriteInference
namespace Emboss.WInf.Spec
open Emboss.WInf

/-- Number of field references in an expression. -/
def refCount : Expr → Nat
  | .ref _ => 1
  | .un _ a => refCount a
  | .bin _ a b => refCount a + refCount b
  | .tern _ a b c => refCount a + refCount b + refCount c
  | _ => 0

/-- `Invertible e x`: `e` is built from the single field reference `x` by additions and
subtractions whose other operand contains no field reference. -/
inductive Invertible : Expr → Nat → Prop
  | ref (x : Nat) : Invertible (.ref x) x
  | addL {a b : Expr} {x : Nat} : Invertible a x → refCount b = 0 → Invertible (.bin .add a b) x
  | addR {a b : Expr} {x : Nat} : refCount a = 0 → Invertible b x → Invertible (.bin .add a b) x
  | subL {a b : Expr} {x : Nat} : Invertible a x → refCount b = 0 → Invertible (.bin .sub a b) x
  | subR {a b : Expr} {x : Nat} : refCount a = 0 → Invertible b x → Invertible (.bin .sub a b) x

end Emboss.WInf.Spec
