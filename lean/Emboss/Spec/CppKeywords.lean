/-
Spec for the `(cpp) namespace` attribute, written from ISO/IEC 14882:2017: [lex.key] Table 5
(keywords) and Table 6 (alternative representations), none of which can be a namespace name.
Independent of the back end's own list.
-/
namespace Emboss.Spec

def cpp17Keywords : List String := [
  "alignas", "alignof", "asm", "auto", "bool", "break", "case", "catch", "char", "char16_t", "char32_t",
  "class", "const", "constexpr", "const_cast", "continue", "decltype", "default", "delete", "do", "double",
  "dynamic_cast", "else", "enum", "explicit", "export", "extern", "false", "float", "for", "friend", "goto",
  "if", "inline", "int", "long", "mutable", "namespace", "new", "noexcept", "nullptr", "operator", "private",
  "protected", "public", "register", "reinterpret_cast", "return", "short", "signed", "sizeof", "static",
  "static_assert", "static_cast", "struct", "switch", "template", "this", "thread_local", "throw", "true",
  "try", "typedef", "typeid", "typename", "union", "unsigned", "using", "virtual", "void", "volatile",
  "wchar_t", "while",
  "and", "and_eq", "bitand", "bitor", "compl", "not", "not_eq", "or", "or_eq", "xor", "xor_eq"]

end Emboss.Spec
