/-
C17 — specification, written from the property statement:

  "Compiling the same set of source files always produces byte-identical IR, header and
   diagnostics, independent of the Python hash seed, of how often the compilation is
   repeated (in fresh processes or within one), of the order in which import directories
   list identical files, and of whether the front end and back end run in one process or
   two … (interleaving with other modules in one process: constant up to the numbering of
   reserved anonymous identifiers)".

Nothing here refers to how the compiler computes.
-/
import Emboss.Model.Purity
namespace Emboss.Purity.Spec
open Emboss.Purity

/-- A computation over a hash-ordered collection is independent of the hash seed when
every permutation of the iteration order gives the same result. -/
def OrderIndependent (f : List α → β) : Prop := ∀ l₁ l₂ : List α, l₁.Perm l₂ → f l₁ = f l₂

/-- Same, for results that are themselves sets (given by membership). -/
def OrderIndependentAsSet (f : List α → List β) : Prop :=
  ∀ l₁ l₂ : List α, l₁.Perm l₂ → ∀ y, y ∈ f l₁ ↔ y ∈ f l₂

/- `View` (from the model file): what a compilation shows — per module (file name, source
text, IR atoms), or the diagnostic. -/

def anonsOf (atoms : List Atom) : List Nat :=
  atoms.filterMap fun | .anon n => some n | .lit _ => none

def anons : View → List Nat
  | .ok ms => ms.flatMap fun m => anonsOf m.2.2
  | .error _ => []

def rename (ρ : Nat → Nat) : View → View
  | .ok ms => .ok (ms.map fun m => (m.1, m.2.1, m.2.2.map (Atom.rename ρ)))
  | .error d => .error d

/-- "Constant up to the numbering of reserved anonymous identifiers": `v` is `v₀` with the
anonymous numbers renamed by a function that is injective on the numbers that occur
(distinct anonymous fields stay distinct). Diagnostics are equal outright. -/
def EqualUpToAnonymousNumbering (v₀ v : View) : Prop :=
  ∃ ρ : Nat → Nat, (∀ a ∈ anons v₀, ∀ b ∈ anons v₀, ρ a = ρ b → a = b) ∧ v = rename ρ v₀

/-- Within one module the renaming is a translation (so it preserves the order in which the
module's anonymous fields were numbered). -/
def TranslationPerModule (ρ : Nat → Nat) (v₀ : View) : Prop :=
  match v₀ with
  | .ok ms => ∀ m ∈ ms, ∀ a ∈ anonsOf m.2.2, ∀ b ∈ anonsOf m.2.2, a ≤ b → ρ a + (b - a) = ρ b
  | .error _ => True

/-- Import directories holding identical copies: whichever directory is searched first,
the file read is the same. -/
def IdenticalCopies (fs : String → String → Option String) (f : String) (dirs : List String)
    (t : String) : Prop :=
  (∃ d ∈ dirs, fs d f = some t) ∧ ∀ d ∈ dirs, ∀ t', fs d f = some t' → t' = t

end Emboss.Purity.Spec
