/-
C18 — declarative spec, written from the property statement (not from the code):

  "For every IR the front end produces, writing it as JSON and reading it back gives an
   equal IR (every node, every set/unset distinction, integers beyond 64 bits, source
   locations with their flags), serializing again gives the same text, and the C++ back end
   produces the identical header from the re-read IR as from the in-memory one."

The spec is stated for an arbitrary serializer/deserializer pair over arbitrary value
types: the property theorems instantiate it with the model of `to_dict`/`_from_dict`.
-/
namespace Emboss.Json.Spec

/-- `de (ser m) = m`: reading back what was written gives an equal value. -/
def RoundTrips {M D : Type} (ser : M → Option D) (de : D → Option M) (m : M) : Prop :=
  ∃ d, ser m = some d ∧ de d = some m

/-- Serializing the re-read value gives the same serialized form again. -/
def Idempotent {M D : Type} (ser : M → Option D) (de : D → Option M) (m : M) : Prop :=
  ∃ d m', ser m = some d ∧ de d = some m' ∧ ser m' = some d

/-- An observation of messages (has_field answers, a generated header, …) cannot tell the
re-read value from the original. -/
def Indistinguishable {M D α : Type} (ser : M → Option D) (de : D → Option M) (obs : M → α) (m : M) : Prop :=
  ∃ d m', ser m = some d ∧ de d = some m' ∧ obs m' = obs m

theorem idempotent_of_roundTrips {M D : Type} {ser : M → Option D} {de : D → Option M} {m : M}
    (h : RoundTrips ser de m) : Idempotent ser de m := by
  obtain ⟨d, h1, h2⟩ := h
  exact ⟨d, m, h1, h2, h1⟩

theorem indistinguishable_of_roundTrips {M D α : Type} {ser : M → Option D} {de : D → Option M}
    (obs : M → α) {m : M} (h : RoundTrips ser de m) : Indistinguishable ser de obs m := by
  obtain ⟨d, h1, h2⟩ := h
  exact ⟨d, m, h1, h2, rfl⟩

end Emboss.Json.Spec
