/-
Specification side of C11, separability as a *certificate check* for the kernel.

`gluedPairs` (Spec/Fmt.lean) computes nullable symbols, FIRST/LAST sets and the
leading-blank symbols as fixpoints; the kernel evaluates such programs by name and would
recompute the fixpoints at every use.  Here the tables are *given* (the translator
computes candidates, Generated/FmtGlue.lean) and only checked:

* `nullableClosed`: if every symbol of a right-hand side is in `ns`, so is the left-hand
  side — hence `ns` contains every nullable symbol (induction on the derivation);
* `edgeClosed`: for every production, the terminals that can begin (end) its right-hand
  side according to the table are in the entry of its left-hand side — hence the table
  contains FIRST (LAST) of every nonterminal;
* `leadSound`: every symbol of `S` is a nonterminal all of whose productions begin with a
  blank relative to `S` itself (`_concatenate_with_prefix_spaces`, the empty string, or a
  concatenation/identity whose leading symbols are in `S` up to and including the first
  one that is not nullable) — hence every symbol of `S` renders, when non-empty, with a
  leading blank (induction on the parse tree);
* every pair `pairsOfEntry` derives from these tables is in the audited list.

Larger `ns`/FIRST/LAST only add pairs and a smaller `S` only adds pairs, so any tables
that pass make the check conservative.
-/
import Emboss.Spec.Fmt
namespace Emboss.Fmt

section Generic
variable {α : Type} [DecidableEq α]

def subsetOf (a b : List α) : Bool := a.all b.contains

def nullableClosed (g : Gram α) (ns : List α) : Bool :=
  g.all (fun p => !(p.2.all ns.contains) || ns.contains p.1)

def edgeClosed (g : Gram α) (ns : List α) (rev : Bool) (m : List (α × List α)) : Bool :=
  g.all (fun p => subsetOf (firstOfSeq g ns m (if rev then p.2.reverse else p.2)) (lookupSet m p.1))

def leadSound (tbl : List (GEntry α)) (ns S : List α) : Bool :=
  S.all (fun s => tbl.any (fun e => e.1 == s) &&
    (tbl.filter (fun e => e.1 == s)).all (leadOkEntry ns S))

/-- All pairs derived from the given tables (not deduplicated). -/
def pairsFrom (minus : α) (tbl : List (GEntry α)) (ns : List α) (fs ls : List (α × List α))
    (lead : List α) : List (α × α) :=
  let g : Gram α := tbl.map (fun e => (e.1, e.2.1))
  tbl.flatMap (pairsOfEntry minus g ns fs ls lead)

end Generic

/-- The interned registry with handlers resolved. -/
def resolvedN (tblN : List (Nat × List Nat × String × Bool)) : List (GEntry Nat) :=
  tblN.map (fun e => (e.1, e.2.1, resolveN e))

def pairCode (p : Nat × Nat) : Nat := p.1 * 65536 + p.2

/-- The certificate check on the interned registry. -/
def glueCertOK (minusN : Nat) (tbl : List (GEntry Nat)) (ns : List Nat) (fs ls : List (Nat × List Nat))
    (lead : List Nat) (allowed : List (Nat × Nat)) : Bool :=
  let g : Gram Nat := tbl.map (fun e => (e.1, e.2.1))
  let codes := allowed.map pairCode
  nullableClosed g ns && edgeClosed g ns false fs && edgeClosed g ns true ls &&
  leadSound tbl ns lead &&
  (pairsFrom minusN tbl ns fs ls lead).all (fun p => decide (p.2 < 65536) && codes.contains (pairCode p))

/-- Every entry of the interned list is `none` or decodes (through `syms`) to the entry of
the audited list at the same position. -/
def alignedOK (syms : List String) : List (String × String) → List (Option (Nat × Nat)) → Bool
  | [], [] => true
  | _ :: qs, none :: ns => alignedOK syms qs ns
  | q :: qs, some p :: ns =>
    (syms[p.1]? == some q.1 && syms[p.2]? == some q.2) && alignedOK syms qs ns
  | _, _ => false

end Emboss.Fmt
