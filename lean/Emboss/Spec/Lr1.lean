/-
Declarative specification for C08/C09: parse trees of a context-free grammar, sentences,
viable prefixes, productivity.  Written from the property statement ("each node an instance
of a production, leaves equal to the input in order"), independent of any LR construction.
-/
import Emboss.Model.Lr1Valid
namespace Emboss.Lr1

mutual
/-- the leaves of a tree, left to right -/
def Tree.yield : Tree → List Token
  | .leaf t => [t]
  | .node _ cs => Tree.yieldL cs
def Tree.yieldL : List Tree → List Token
  | [] => []
  | c :: cs => c.yield ++ Tree.yieldL cs
end

/-- `t` is a parse tree of `G`: every inner node is an instance of a user production (its
children's root symbols are the right-hand side, in order); every leaf is a token whose
symbol is a terminal. -/
inductive ParseTree (G : Grammar) : Tree → Prop
  | leaf (t : Token) : G.isNT t.sym = false → ParseTree G (.leaf t)
  | node (p : Rule) (cs : List Tree) : p ∈ G.prods → (∀ c ∈ cs, ParseTree G c) →
      cs.map Tree.root = p.rhs → ParseTree G (.node p cs)

/-- `t` is a derivation of the token string `w` from the start symbol. -/
def Derives (G : Grammar) (t : Tree) (w : List Token) : Prop :=
  ParseTree G t ∧ t.root = G.start ∧ t.yield = w

def Sentence (G : Grammar) (w : List Token) : Prop := ∃ t, Derives G t w

/-- `u` can be continued to a sentence -/
def ViablePrefix (G : Grammar) (u : List Token) : Prop := ∃ v, Sentence G (u ++ v)

/-- symbol `x` derives at least one terminal string -/
def Productive (G : Grammar) (x : Nat) : Prop := ∃ t, ParseTree G t ∧ t.root = x

/-- every nonterminal of the grammar is productive (reachability is *not* required) -/
def Reduced (G : Grammar) : Prop := (∀ p ∈ G.prods, Productive G p.lhs) ∧ Productive G G.start

end Emboss.Lr1
