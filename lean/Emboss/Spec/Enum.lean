/-
Declarative specification for C19, written from the property statement and
doc/cpp-reference.md ("If the given value has more than one name, the first name that
appears in the Emboss definition will be returned"), independent of how the back end computes.
The declared list `decl` is the enum's `(Emboss name, value)` pairs in source order.
-/
namespace Emboss.Enum.Spec

abbrev Name := List Char

/-- `n` is a declared Emboss name and its value is `v`. -/
def Declares (decl : List (Name × Int)) (n : Name) (v : Int) : Prop := (n, v) ∈ decl

/-- `n` is the first declared name whose value is `v`. -/
def FirstNameOf (decl : List (Name × Int)) (v : Int) (n : Name) : Prop :=
  ∃ pre post, decl = pre ++ (n, v) :: post ∧ ∀ p ∈ pre, p.2 ≠ v

/-- `v` is a declared value. -/
def Known (decl : List (Name × Int)) (v : Int) : Prop := ∃ n, (n, v) ∈ decl

/-- The values a `w`-bit field of a signed / unsigned enum can hold. -/
def FieldRange (signed : Bool) (w : Nat) (v : Int) : Prop :=
  if signed then -((2 : Int) ^ (w - 1)) ≤ v ∧ v < (2 : Int) ^ (w - 1) else 0 ≤ v ∧ v < (2 : Int) ^ w

instance (signed : Bool) (w : Nat) (v : Int) : Decidable (FieldRange signed w v) := by
  unfold FieldRange; exact inferInstance

/-- The value denoted by the `w` raw bits `raw` (two's complement for signed enums). -/
def FieldValue (signed : Bool) (w : Nat) (raw : Nat) : Int :=
  if signed ∧ (raw : Int) ≥ (2 : Int) ^ (w - 1) then (raw : Int) - (2 : Int) ^ w else raw

end Emboss.Enum.Spec
