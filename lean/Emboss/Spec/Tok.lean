/-
Declarative side of C10 (tokenization), written from the property statement:
what it means for a token list to cover a line losslessly with longest-match /
earliest-pattern tokens, and what a well-formed indentation stack is.
-/
import Emboss.Model.Tok
import Emboss.Spec.Regex
namespace Emboss.Tok
open Emboss.Regex

/-- Pattern choice at one position: some pattern `p` of the list matches `n`
characters of `s`, every earlier pattern matches strictly fewer (or not at all), every
later pattern matches at most `n`: the longest match, ties to the earlier pattern. -/
def IsBest (pats : List Pat) (s : List Char) (n : Nat) (sy : Option String) : Prop :=
  ∃ pre p post, pats = pre ++ p :: post ∧ matchLen p.re s = .ok n ∧ p.sym = sy ∧
    (∀ q ∈ pre, ∀ m, matchLen q.re s = .ok m → m < n) ∧
    (∀ q ∈ post, ∀ m, matchLen q.re s = .ok m → m ≤ n)

/-- A line is cut into segments: tokens, and gaps (text matched by a pattern without a
symbol, i.e. whitespace). -/
inductive Seg where
  | tok (t : Token)
  | gap (text : List Char)

def Seg.text : Seg → List Char
  | .tok t => t.text
  | .gap x => x

def Seg.tok? : Seg → Option Token
  | .tok t => some t
  | .gap _ => none

/-- `Covers pats ln s off segs`: `segs` cuts `s` (= the line from 0-based offset `off`)
into non-empty consecutive pieces, each the best match at its position; token pieces
carry symbol, exact text and 1-based half-open columns. -/
inductive Covers (pats : List Pat) (ln : Nat) : List Char → Nat → List Seg → Prop
  | nil (off : Nat) : Covers pats ln [] off []
  | tok {s off n name segs} : 0 < n → n ≤ s.length → IsBest pats s n (some name) →
      Covers pats ln (s.drop n) (off + n) segs →
      Covers pats ln s off (.tok ⟨name, s.take n, ln, off + 1, ln, off + n + 1⟩ :: segs)
  | gap {s off n segs} : 0 < n → n ≤ s.length → IsBest pats s n none →
      Covers pats ln (s.drop n) (off + n) segs →
      Covers pats ln s off (.gap (s.take n) :: segs)

/-! ### The declarative maximal-munch specification of one line

`Covers` above is the success half (with `IsBest` phrased through the matcher's answers).
Below: the failure half (`StuckAt`), and both halves once more purely in terms of the
patterns' *languages* (`Lang`, no matcher): `MunchCovers` / `MunchStuck`. -/

/-- No pattern matches a non-empty piece at the front of `s`. -/
def NoMatch (pats : List Pat) (s : List Char) : Prop :=
  ∀ q ∈ pats, ∀ m, matchLen q.re s = .ok m → m = 0

/-- `StuckAt pats s off k`: cutting `s` (= the line from 0-based offset `off`) into best
matches gets stuck at 0-based offset `k`: a non-empty rest at whose front nothing matches
("Unrecognized token"). -/
inductive StuckAt (pats : List Pat) : List Char → Nat → Nat → Prop
  | here {s off} : s ≠ [] → NoMatch pats s → StuckAt pats s off off
  | step {s off n sy k} : 0 < n → IsBest pats s n sy → StuckAt pats (s.drop n) (off + n) k →
      StuckAt pats s off k

/-- Maximal munch over the pattern *languages*: `n` is the greatest length of a match of any
pattern's language at the front of `s`; among the patterns whose language has a match of
that length, `sy` is the symbol of the earliest. -/
def IsBestLang (pats : List Pat) (s : List Char) (n : Nat) (sy : Option String) : Prop :=
  ∃ pre p post, pats = pre ++ p :: post ∧ MatchesLen p.re s n ∧ p.sym = sy ∧
    (∀ q ∈ pre, ∀ m, MatchesLen q.re s m → m < n) ∧
    (∀ q ∈ pats, ∀ m, MatchesLen q.re s m → m ≤ n)

/-- `Covers` with `IsBestLang` in the place of `IsBest`. -/
inductive MunchCovers (pats : List Pat) (ln : Nat) : List Char → Nat → List Seg → Prop
  | nil (off : Nat) : MunchCovers pats ln [] off []
  | tok {s off n name segs} : 0 < n → n ≤ s.length → IsBestLang pats s n (some name) →
      MunchCovers pats ln (s.drop n) (off + n) segs →
      MunchCovers pats ln s off (.tok ⟨name, s.take n, ln, off + 1, ln, off + n + 1⟩ :: segs)
  | gap {s off n segs} : 0 < n → n ≤ s.length → IsBestLang pats s n none →
      MunchCovers pats ln (s.drop n) (off + n) segs →
      MunchCovers pats ln s off (.gap (s.take n) :: segs)

/-- No pattern's language has a non-empty match at the front of `s`. -/
def NoMatchLang (pats : List Pat) (s : List Char) : Prop :=
  ∀ q ∈ pats, ∀ m, MatchesLen q.re s m → m = 0

/-- `StuckAt` with the language-level notions. -/
inductive MunchStuck (pats : List Pat) : List Char → Nat → Nat → Prop
  | here {s off} : s ≠ [] → NoMatchLang pats s → MunchStuck pats s off off
  | step {s off n sy k} : 0 < n → IsBestLang pats s n sy → MunchStuck pats (s.drop n) (off + n) k →
      MunchStuck pats s off k

def tokensOf (segs : List Seg) : List Token := segs.filterMap Seg.tok?

/-- `a` is a proper prefix of `b`. -/
def StrictPrefix (a b : List Char) : Prop := a <+: b ∧ a ≠ b

/-- The indentation stack is a chain of strict prefixes down to the empty string. -/
def ChainOk : List (List Char) → Prop
  | [] => False
  | [x] => x = []
  | x :: y :: rest => StrictPrefix y x ∧ ChainOk (y :: rest)

def IStack.Ok (st : IStack) : Prop := ChainOk (st.top :: st.below)

/-- A line takes part in indentation unless all its tokens are comments (blank lines
included). -/
def isBlankLine (lts : List Token) : Bool := lts.all (fun t => t.sym == "Comment")

/-- What one line does to the indentation stack, and which synthetic tokens announce it:
nothing on blank/comment lines or when the leading whitespace equals the stack top; one
`Indent` (carrying the new part of the whitespace) when it properly extends the top;
otherwise one `Dedent` per popped level, down to the open level that equals it. -/
inductive IndentStep (ln : Nat) (line : List Char) (lts : List Token) (st : IStack) :
    List Token → IStack → Prop
  | blank : isBlankLine lts = true → IndentStep ln line lts st [] st
  | same : isBlankLine lts = false → leadingWs line = st.top → IndentStep ln line lts st [] st
  | indent : isBlankLine lts = false → leadingWs line ≠ st.top → st.top <+: leadingWs line →
      IndentStep ln line lts st
        [⟨"Indent", (leadingWs line).drop st.top.length, ln, st.top.length + 1, ln,
          (leadingWs line).length + 1⟩]
        ⟨leadingWs line, st.top :: st.below⟩
  | dedent {st' : IStack} (popped : List (List Char)) : isBlankLine lts = false →
      leadingWs line ≠ st.top → ¬ st.top <+: leadingWs line →
      st.top :: st.below = popped ++ st'.top :: st'.below → st'.top = leadingWs line →
      leadingWs line ∉ popped →
      IndentStep ln line lts st
        (List.replicate popped.length (dedentTok ln ((leadingWs line).length + 1))) st'

/-- The shape of a successful tokenization of a list of lines starting at line number
`ln` with indentation stack `st`: per line, synthetic Indent/Dedent tokens, the tokens
of a lossless longest-match cover of the line, one end-of-line token at column
`len + 1`; after the last line one `Dedent` per still-open level at `(ln_last + 1, 1)`. -/
inductive FileCover (pats : List Pat) : List (List Char) → Nat → IStack → List Token → Prop
  | done {ln st} : FileCover pats [] ln st (List.replicate st.depth (dedentTok ln 1))
  | line {line rest ln st st' synth segs ts} : Covers pats ln line 0 segs →
      IndentStep ln line (tokensOf segs) st synth st' → FileCover pats rest (ln + 1) st' ts →
      FileCover pats (line :: rest) ln st
        (synth ++ tokensOf segs ++ [newlineTok ln line.length] ++ ts)

def countSym (sym : String) (ts : List Token) : Nat := ts.countP (fun t => t.sym == sym)

/-- Symbols that only the indentation / end-of-line logic may produce. -/
def ReservedSyms (pats : List Pat) : Prop :=
  ∀ p ∈ pats, p.sym ≠ some "Indent" ∧ p.sym ≠ some "Dedent" ∧ p.sym ≠ some nlSym

end Emboss.Tok
