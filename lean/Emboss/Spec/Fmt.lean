/-
Specification side of C11 (formatter): what "content" means, which trees are trees of
the grammar, the kinds of values handlers exchange, and the table of terminal pairs
the formatter may print without a blank between them.

Written from the property statement ("the same token sequence up to whitespace, blank
lines and trailing blanks in comments/documentation"; "never raises on parseable
input"), independently of how format_emb.py computes.
-/
import Emboss.Model.Fmt
namespace Emboss.Fmt

/-! ## Content: a text with every blank character erased -/

/-- Erase every character Python regards as white space (blank, tab, newline, …). -/
def despace (s : Str) : Str := s.filter (fun c => !isPySpace c)

mutual
  /-- Texts of all leaves (tokens) of a parse tree, left to right. -/
  def leaves : Tree → List Str
    | .tok _ text => [text]
    | .node _ cs => leavesList cs
  def leavesList : List Tree → List Str
    | [] => []
    | t :: ts => leaves t ++ leavesList ts
end

/-- The layout tokens of the tokenizer. -/
def isLayoutSym (s : String) : Bool := s == "Indent" || s == "Dedent" || s == nlSym

mutual
  /-- Texts of the non-layout leaves (everything except Indent, Dedent, newline). -/
  def contentLeaves : Tree → List Str
    | .tok sym text => if isLayoutSym sym then [] else [text]
    | .node _ cs => contentLeavesList cs
  def contentLeavesList : List Tree → List Str
    | [] => []
    | t :: ts => contentLeaves t ++ contentLeavesList ts
end

mutual
  /-- Layout tokens carry only blanks (Indent: the indentation; newline: "\n"; Dedent: ""),
  as every token stream of the tokenizer does. -/
  def layoutBlank : Tree → Bool
    | .tok sym text => !isLayoutSym sym || (despace text).isEmpty
    | .node _ cs => layoutBlankList cs
  def layoutBlankList : List Tree → Bool
    | [] => true
    | t :: ts => layoutBlank t && layoutBlankList ts
end

/-- The token-level content of a tree: the blank-erased texts of its leaves. -/
def leafContent (t : Tree) : Str := despace (leaves t).flatten

/-! ## Kinds of handler results -/

inductive Kind
  | str          -- a Python str
  | strs2        -- a list of exactly two str (field-location)
  | rows         -- list of single-column `_Row`s
  | blocksF      -- list of `_Block`s headed by "field"/"virtual-field" rows
  | blocksF1     -- … non-empty
  | blocksE      -- list of `_Block`s headed by "enum-value" rows
  | sections     -- list of lists of rows (type-definition*)
  | inlineBody   -- `_InlineBitsBodyType`
  deriving DecidableEq, Repr, Inhabited

/-- Rows that `_render_row_to_text` accepts (`len(row.columns) < 2`). -/
def PlainRows (l : List Row) : Prop := ∀ r ∈ l, r.columns.length < 2

def BlockOK (names : List RowName) (b : Block) : Prop :=
  PlainRows b.pre ∧ PlainRows b.body ∧ b.header.name ∈ names

def fieldNames : List RowName := [.field, .virtualField]
def enumNames : List RowName := [.enumValue]

def HasKind (v : Fmt) : Kind → Prop
  | .str => ∃ s, v = .str s
  | .strs2 => ∃ a b, v = .strs [a, b]
  | .rows => ∃ l, asRows v = some l ∧ PlainRows l
  | .blocksF => ∃ l, asBlocks v = some l ∧ ∀ b ∈ l, BlockOK fieldNames b
  | .blocksF1 => ∃ l, asBlocks v = some l ∧ l ≠ [] ∧ ∀ b ∈ l, BlockOK fieldNames b
  | .blocksE => ∃ l, asBlocks v = some l ∧ ∀ b ∈ l, BlockOK enumNames b
  | .sections => ∃ l, asSections v = some l ∧ ∀ s ∈ l, PlainRows s
  | .inlineBody => ∃ h f, v = .inlineBody h f ∧ PlainRows h ∧ ∀ b ∈ f, BlockOK fieldNames b

def HasKinds : List Fmt → List Kind → Prop
  | [], [] => True
  | v :: vs, k :: ks => HasKind v k ∧ HasKinds vs ks
  | _, _ => False

/-- `k₁ ≤ k₂`: every value of kind `k₁` is a value of kind `k₂`. -/
def Kind.le : Kind → Kind → Bool
  | .blocksF1, .blocksF => true
  | a, b => a == b

/-- The kind of the value the fold produces for each grammar symbol.  Everything not
listed is a string (all terminals, and every sub-line nonterminal).  The assignment is
*checked*, not trusted: `tableTyped` verifies it against every production of the
regenerated table. -/
def kindOf (sym : String) : Kind :=
  if sym ∈ ["comment-line*", "comment-line", "doc-line*", "doc-line", "import-line*", "import-line",
            "attribute-line*", "attribute-line", "eol", "struct", "bits", "enum", "external",
            "type-definition", "struct-body", "bits-body", "enum-body", "external-body",
            "field-body", "field-body?", "enum-value-body", "enum-value-body?"] then .rows
  else if sym = "type-definition*" then .sections
  else if sym = "field-location" then .strs2
  else if sym ∈ ["field", "virtual-field", "unconditional-struct-field", "unconditional-bits-field",
                 "unconditional-anonymous-bits-field", "inline-enum-field-definition",
                 "inline-struct-field-definition", "inline-bits-field-definition",
                 "anonymous-bits-field-definition", "conditional-struct-field-block",
                 "conditional-bits-field-block", "conditional-anonymous-bits-field-block",
                 "unconditional-struct-field+", "unconditional-bits-field+",
                 "unconditional-anonymous-bits-field+"] then .blocksF1
  else if sym ∈ ["struct-field-block", "bits-field-block", "anonymous-bits-field-block",
                 "unconditional-struct-field*", "unconditional-bits-field*",
                 "unconditional-anonymous-bits-field*"] then .blocksF
  else if sym ∈ ["enum-value", "enum-value*", "enum-value+"] then .blocksE
  else if sym = "anonymous-bits-body" then .inlineBody
  else .str

/-- Signature of a handler: for argument kinds `ks`, the kind of the result (`none`:
the handler is not typed at these kinds).  The three variadic string handlers accept
any number of strings. -/
def Handler.sig : Handler → List Kind → Option Kind
  | .module, ks => if ks = [.rows, .rows, .rows, .rows, .sections] then some .str else none
  | .docLine, ks => if ks = [.str, .str, .rows] then some .rows else none
  | .importLine, ks => if ks = [.str, .str, .str, .str, .str, .rows] then some .rows else none
  | .attributeLine, ks => if ks = [.str, .str, .rows] then some .rows else none
  | .attribute, ks => if ks = [.str, .str, .str, .str, .str, .str, .str] then some .str else none
  | .parameterDefinition, ks => if ks = [.str, .str, .str] then some .str else none
  | .typeDefinitions, ks => if ks = [.rows, .sections] then some .sections else none
  | .structureType, ks => if ks = [.str, .str, .str, .str, .str, .rows, .rows] then some .rows else none
  | .type_, ks => if ks = [.str, .str, .str, .str, .rows, .rows] then some .rows else none
  | .structureBody, ks =>
    if ks = [.str, .rows, .rows, .sections, .blocksF, .str] then some .rows else none
  | .fieldLocation, ks => if ks = [.str, .str, .str, .str, .str] then some .strs2 else none
  | .structureBlock, ks =>
    if ks = [.blocksF1, .blocksF] then some .blocksF1
    else if ks = [.blocksF, .blocksF] then some .blocksF else none
  | .virtualField, ks =>
    if ks = [.str, .str, .str, .str, .str, .rows, .rows] then some .blocksF1 else none
  | .unconditionalField, ks =>
    if ks = [.strs2, .str, .str, .str, .str, .str, .str, .rows, .rows] then some .blocksF1 else none
  | .fieldBody, ks => if ks = [.str, .rows, .rows, .str] then some .rows else none
  | .inlineBits, ks => if ks = [.strs2, .str, .str, .str, .rows, .inlineBody] then some .blocksF1 else none
  | .inlineType, ks =>
    if ks = [.strs2, .str, .str, .str, .str, .str, .rows, .rows] then some .blocksF1 else none
  | .conditionalField, ks =>
    if ks = [.str, .str, .str, .str, .rows, .str, .blocksF1, .str] then some .blocksF1 else none
  | .inlineBitsBody, ks => if ks = [.str, .rows, .blocksF, .str] then some .inlineBody else none
  | .enumBody, ks => if ks = [.str, .rows, .rows, .blocksE, .str] then some .rows else none
  | .enumValues, ks => if ks = [.blocksE, .blocksE] then some .blocksE else none
  | .enumValue, ks =>
    if ks = [.str, .str, .str, .str, .str, .str, .rows, .rows] then some .blocksE else none
  | .enumValueBody, ks => if ks = [.str, .rows, .rows, .str] then some .rows else none
  | .externalBody, ks => if ks = [.str, .rows, .rows, .str] then some .rows else none
  | .commentLine, ks => if ks = [.str, .str] then some .rows else none
  | .eol, ks => if ks = [.str, .rows] then some .rows else none
  | .emptyList, ks => if ks = [] then some .rows else none   -- refined below: `[]` has every list kind
  | .emptyString, ks => if ks = [] then some .str else none
  | .identity, ks => match ks with
    | [k] => some k
    | _ => none
  | .concatenate, ks => if ks.all (· == .str) then some .str else none
  | .concatenateWithPrefixSpaces, ks => if ks.all (· == .str) then some .str else none
  | .concatenateWithSpaces, ks => if ks.all (· == .str) then some .str else none
  | .concatenateLists, ks => if ks = [.rows, .rows] then some .rows else none
  | .docRstrip, ks => if ks = [.str] then some .str else none
  | .additiveExpressionRight, ks => if ks = [.str, .str] then some .str else none

/-- Kinds that the Python `[]` inhabits. -/
def Kind.hasEmpty : Kind → Bool
  | .rows | .blocksF | .blocksE | .sections => true
  | _ => false

/-- One registry entry is well typed: the handler is known and registered with the
right calling convention, and at the kinds of the production's right-hand side it
yields a value of the kind of the left-hand side. -/
def checkCore (r : Option Handler) (kl : Kind) (krs : List Kind) : Bool :=
  match r with
  | none => false
  | some .emptyList => krs.isEmpty && kl.hasEmpty
  | some h =>
    match h.sig krs with
    | some k => k.le kl
    | none => false

def checkEntry (e : String × List String × String × Bool) : Bool :=
  checkCore (resolve e) (kindOf e.1) (e.2.1.map kindOf)

/-- Argument positions a handler ignores (`del indent, dedent  # Unused`, `del eol`). -/
def Handler.dropped : Handler → List Nat
  | .structureBody => [0, 5]
  | .fieldBody | .enumValueBody | .externalBody | .inlineBitsBody => [0, 3]
  | .conditionalField => [5, 7]
  | .enumBody => [0, 4]
  | .commentLine => [1]
  | .eol => [0]
  | _ => []

/-- Every ignored argument position holds a layout terminal (Indent, Dedent, newline) in
the production the handler is registered for — so ignoring it loses no content. -/
def dropCore (r : Option Handler) (lay : List Bool) : Bool :=
  match r with
  | none => false
  | some h => h.dropped.all (fun i => match lay[i]? with
    | some b => b
    | none => false)

def dropOK (e : String × List String × String × Bool) : Bool :=
  dropCore (resolve e) (e.2.1.map isLayoutSym)

def tableTyped (tbl : Table) : Bool :=
  tbl.all checkEntry && tbl.all dropOK && tbl.all (fun e => !isLayoutSym e.1)

/-! ### The same obligations on the interned table

The regenerated table also comes with every symbol replaced by its index in `symbols`
(`formattersN`).  `tableTypedN` computes the kind and the layout flag of every symbol
*once* and then works on numbers, which the kernel evaluates quickly (kernel `String`
equality is slow); `decodeEntry` maps an interned entry back, and Lemmas/FmtTable.lean
proves that `tableTypedN` of the interned table implies `tableTyped` of the decoded one. -/

/-- `[l[i] for i in is]`, `none` if an index is out of range. -/
def getAll {α : Type} (l : List α) : List Nat → Option (List α)
  | [] => some []
  | i :: r =>
    match l[i]?, getAll l r with
    | some x, some xs => some (x :: xs)
    | _, _ => none

def decodeEntry (syms : List String) (e : Nat × List Nat × String × Bool) :
    Option (String × List String × String × Bool) :=
  match syms[e.1]?, getAll syms e.2.1 with
  | some l, some r => some (l, r, e.2.2.1, e.2.2.2)
  | _, _ => none

def decodeTable (syms : List String) : List (Nat × List Nat × String × Bool) → Option Table
  | [] => some []
  | e :: r =>
    match decodeEntry syms e, decodeTable syms r with
    | some d, some ds => some (d :: ds)
    | _, _ => none

def resolveN (e : Nat × List Nat × String × Bool) : Option Handler :=
  resolve ("", [], e.2.2.1, e.2.2.2)

def entryOKN (kinds : List Kind) (lays : List Bool) (e : Nat × List Nat × String × Bool) : Bool :=
  match kinds[e.1]?, getAll kinds e.2.1, lays[e.1]?, getAll lays e.2.1 with
  | some kl, some krs, some ll, some lrs =>
    checkCore (resolveN e) kl krs && dropCore (resolveN e) lrs && !ll
  | _, _, _, _ => false

def tableTypedN (syms : List String) (tblN : List (Nat × List Nat × String × Bool)) : Bool :=
  tblN.all (entryOKN (syms.map kindOf) (syms.map isLayoutSym))

def prodOf (e : String × List String × String × Bool) : String × List String := (e.1, e.2.1)

/-- `_check_productions` (the registered productions are exactly `module_ir.PRODUCTIONS`),
plus pairwise distinctness. -/
def tableMatchesGrammar (tbl : Table) (grammar : List (String × List String)) : Bool :=
  decide ((tbl.map prodOf).Nodup) &&
  grammar.all (fun p => (tbl.map prodOf).contains p) &&
  (tbl.map prodOf).all (fun p => grammar.contains p)

/-! ## Trees of the grammar -/

/-- Root symbol of a tree. -/
def rootSym (tbl : Table) : Tree → String
  | .tok sym _ => sym
  | .node p _ => match tbl[p]? with
    | some e => e.1
    | none => ""

/-- "Comment cannot follow Documentation on a line" (tokenizer: `-- .*` swallows it): in a
`doc-line -> doc Comment? eol` node the `Comment?` child is the empty production. -/
def docLineOK (tbl : Table) (h : Handler) (cs : List Tree) : Bool :=
  if h = .docLine then
    match cs with
    | [_, .node q [], _] => (tbl[q]?.bind resolve) == some .emptyString
    | _ => false
  else true

mutual
  /-- `t` is a parse tree over the registry's productions: every node's children carry
  the symbols of its production's right-hand side, tokens carry terminal symbols (symbols
  of kind `str`), and doc lines have no comment. -/
  def wf (tbl : Table) : Tree → Bool
    | .tok sym _ => kindOf sym == .str
    | .node p cs =>
      match tbl[p]? with
      | none => false
      | some e =>
        (cs.map (rootSym tbl) == e.2.1) && wfList tbl cs &&
          (match resolve e with
           | some h => docLineOK tbl h cs
           | none => false)
  def wfList (tbl : Table) : List Tree → Bool
    | [] => true
    | t :: ts => wf tbl t && wfList tbl ts
end

/-! ## What the formatter may not look at

Two parse trees are *equivalent* when they have the same productions node by node and the
same tokens, except that layout tokens (Indent, Dedent, newline: the source's indentation
and line ends) may carry any text and `Documentation` tokens may differ in trailing
blanks.  The property statement ("the same token sequence up to whitespace, blank lines
and trailing blanks in comments/documentation") allows the formatter to change exactly
these; idempotence needs the converse: the formatter's output must not *depend* on them. -/

def docSym : String := "Documentation"

def tokEquiv (s : String) (x x' : Str) : Bool :=
  isLayoutSym s || (if s == docSym then rstrip x == rstrip x' else x == x')

mutual
  def equivT : Tree → Tree → Bool
    | .tok s x, .tok s' x' => s == s' && tokEquiv s x x'
    | .node p cs, .node p' cs' => p == p' && equivL cs cs'
    | _, _ => false
  def equivL : List Tree → List Tree → Bool
    | [], [] => true
    | t :: ts, t' :: ts' => equivT t t' && equivL ts ts'
    | _, _ => false
end

/-- Table obligation for that: in every registered production, a right-hand-side position
that holds a layout terminal is one the handler ignores (`Handler.dropped`; the converse of
`dropOK`), and a `Documentation` terminal is only ever handed to `_doc`, which strips its
trailing blanks before anything measures it. -/
def normPos (h : Handler) : Nat → List String → Bool
  | _, [] => true
  | i, s :: rest =>
    (!isLayoutSym s || h.dropped.contains i) && (s != docSym || h == .docRstrip) &&
      normPos h (i + 1) rest

def normCore (r : Option Handler) (rhs : List String) : Bool :=
  match r with
  | none => false
  | some h => normPos h 0 rhs

def normOK (e : String × List String × String × Bool) : Bool := normCore (resolve e) e.2.1

def tableNormal (tbl : Table) : Bool := tbl.all normOK

/-! ## Content of values -/

def Row.content (r : Row) : Str := despace r.columns.flatten
def rowsContent (l : List Row) : Str := (l.map Row.content).flatten
def Block.content (b : Block) : Str := rowsContent b.pre ++ b.header.content ++ rowsContent b.body
def blocksContent (l : List Block) : Str := (l.map Block.content).flatten

def content : Fmt → Str
  | .str s => despace s
  | .strs l => despace l.flatten
  | .nil => []
  | .rows l => rowsContent l
  | .blocks l => blocksContent l
  | .sections l => (l.map rowsContent).flatten
  | .inlineBody h f => rowsContent h ++ blocksContent f

def contents (l : List Fmt) : Str := (l.map content).flatten

/-! ## Terminal pairs the formatter may juxtapose

`gluedPairs` computes, from the regenerated grammar and handler table, every pair of
terminals (last leaf of one argument, first leaf of a later argument, everything between
them able to be empty) that some handler prints with nothing in between.  `glue h i j`
transcribes, per handler, between which arguments no blank is inserted (read off the
format strings / joins of format_emb.py; columns of a row are always blank-separated by
`_columnize`).  `allowedGlued` is the audited list of computed pairs: for each of them
the harness checks on sample texts that the real tokenizer splits the juxtaposition
back into the two tokens.  The one pair that must not be glued, `("-", "-")` (`a - -b`
would become `a--b`, a documentation token), is kept apart by
`_additive_expression_right` (`keptApart`); no other handler can produce it. -/

/-- Arguments `i < j` of handler `h` are printed with nothing in between (when every
argument strictly between them is empty). -/
def glue : Handler → Nat → Nat → Bool
  | .concatenate, _, _ => true
  | .attribute, 0, _ => true
  | .attribute, 3, 4 => true
  | .attribute, 5, 6 => true
  | .parameterDefinition, 0, 1 => true
  | .fieldLocation, 1, 2 => true
  | .fieldLocation, 2, 3 => true
  | .fieldLocation, 3, 4 => true
  | .structureType, 1, 2 => true
  | .structureType, 1, 3 => true
  | .structureType, 2, 3 => true
  | .type_, 1, 2 => true
  | .conditionalField, 1, 2 => true
  | .inlineBits, 1, 2 => true
  | .inlineType, 2, 4 => true
  | .inlineType, 3, 4 => true
  | .additiveExpressionRight, 0, 1 => true   -- (except `keptApart`)
  | _, _, _ => false

/-- Terminal pairs (last terminal of the left argument, first terminal of the right one)
between which the handler inserts a blank although it glues the two arguments otherwise:
`_additive_expression_right` tests `operator == "-" and operand.startswith("-")`
(`minus` = the terminal `"-"`). -/
def keptApart {α : Type} [DecidableEq α] (minus : α) : Handler → α → α → Bool
  | .additiveExpressionRight, x, y => x == minus && y == minus
  | _, _, _ => false

/-! The computation is generic in the type of symbols (it is run on the table of strings
by the compiled checker, ops `GLUE`/`GLUECHECK`: obligation `C11_render_separable`.  A
kernel evaluation on an interned copy was tried and dropped: the kernel's call-by-name
evaluation recomputes the FIRST/LAST fixpoints at every use, > 15 min). -/

abbrev Gram (α : Type) := List (α × List α)
/-- A registry entry with its handler resolved. -/
abbrev GEntry (α : Type) := α × List α × Option Handler

section Generic
variable {α : Type} [DecidableEq α]

def addAll (acc : List α) (l : List α) : List α :=
  l.foldl (fun a x => if a.contains x then a else a ++ [x]) acc

/-- Apply `step` until nothing changes, at most `fuel` times. -/
def iterFix {β : Type} [DecidableEq β] (step : β → β) : Nat → β → β
  | 0, x => x
  | n + 1, x => let y := step x; if y = x then x else iterFix step n y

def nullableStep (g : Gram α) (ns : List α) : List α :=
  addAll ns ((g.filter (fun p => p.2.all ns.contains)).map (·.1))

/-- Symbols that can derive the empty token sequence. -/
def nullableSyms (g : Gram α) : List α := iterFix (nullableStep g) g.length []

def lookupSet (m : List (α × List α)) (s : α) : List α :=
  match m.find? (fun p => p.1 == s) with
  | some p => p.2
  | none => []

def isNonterminal (g : Gram α) (s : α) : Bool := g.any (fun p => p.1 == s)

/-- Terminals that can begin a derivation of the symbol sequence `rhs`. -/
def firstOfSeq (g : Gram α) (ns : List α) (m : List (α × List α)) : List α → List α
  | [] => []
  | s :: rest =>
    let here := if isNonterminal g s then lookupSet m s else [s]
    if ns.contains s then addAll here (firstOfSeq g ns m rest) else here

def setInsert (m : List (α × List α)) (k : α) (vs : List α) : List (α × List α) :=
  if m.any (fun p => p.1 == k) then m.map (fun p => if p.1 == k then (p.1, addAll p.2 vs) else p)
  else m ++ [(k, addAll [] vs)]

def edgeStep (g : Gram α) (ns : List α) (rev : Bool) (m : List (α × List α)) : List (α × List α) :=
  g.foldl (fun m p => setInsert m p.1 (firstOfSeq g ns m (if rev then p.2.reverse else p.2))) m

/-- FIRST sets (`rev = false`) or LAST sets (`rev = true`) of all nonterminals. -/
def edgeSets (g : Gram α) (rev : Bool) : List (α × List α) :=
  iterFix (edgeStep g (nullableSyms g) rev) g.length []

def symEdge (g : Gram α) (m : List (α × List α)) (s : α) : List α :=
  if isNonterminal g s then lookupSet m s else [s]

def leadOkSeq (ns S : List α) (rhs : List α) : Bool :=
  (rhs.foldl (fun (st : Bool × Bool) s =>
    -- st = (still scanning, verdict so far)
    if !st.1 then st
    else if !S.contains s then (false, false)
    else if ns.contains s then (true, true) else (false, true)) (true, true)).2

def leadOkEntry (ns S : List α) (e : GEntry α) : Bool :=
  match e.2.2 with
  | some .concatenateWithPrefixSpaces => true
  | some .emptyString => true
  | some .concatenate => leadOkSeq ns S e.2.1
  | some .identity => leadOkSeq ns S e.2.1
  | _ => false

def leadStep (tbl : List (GEntry α)) (ns S : List α) : List α :=
  S.filter (fun s => (tbl.filter (fun e => e.1 == s)).all (leadOkEntry ns S))

/-- Symbols whose rendering, when non-empty, always begins with a blank (results of
`_concatenate_with_prefix_spaces`, and concatenations/identities that begin with such a
symbol): greatest fixpoint. -/
def leadBlankSyms (tbl : List (GEntry α)) (g : Gram α) : List α :=
  iterFix (leadStep tbl (nullableSyms g)) g.length (addAll [] (g.map (·.1)))

def pairsOfEntry (minus : α) (g : Gram α) (ns : List α) (fs ls : List (α × List α))
    (lead : List α) (e : GEntry α) : List (α × α) :=
  match e.2.2 with
  | none => []
  | some h =>
    let rhs := e.2.1
    let n := rhs.length
    (List.range n).flatMap fun i =>
      (List.range n).flatMap fun j =>
        if i < j && glue h i j && ((rhs.drop (i + 1)).take (j - i - 1)).all ns.contains then
          match rhs[i]?, rhs[j]? with
          | some a, some b =>
            if lead.contains b then [] else
            (symEdge g ls a).flatMap fun x =>
              ((symEdge g fs b).filter fun y => !keptApart minus h x y).map fun y => (x, y)
          | _, _ => []
        else []

/-- Every terminal pair some handler can print without a blank in between. -/
def gluedPairsG (minus : α) (tbl : List (GEntry α)) : List (α × α) :=
  let g : Gram α := tbl.map (fun e => (e.1, e.2.1))
  let ns := nullableSyms g
  let fs := edgeSets g false
  let ls := edgeSets g true
  let lead := leadBlankSyms tbl g
  (tbl.flatMap (pairsOfEntry minus g ns fs ls lead)).foldl (fun a x => if a.contains x then a else a ++ [x]) []

/-- The four fixpoint computations did reach a fixpoint (they are cut off after as many
rounds as there are productions). -/
def fixpointsReached (tbl : List (GEntry α)) : Bool :=
  let g : Gram α := tbl.map (fun e => (e.1, e.2.1))
  let ns := nullableSyms g
  decide (nullableStep g ns = ns) &&
  decide (edgeStep g ns false (edgeSets g false) = edgeSets g false) &&
  decide (edgeStep g ns true (edgeSets g true) = edgeSets g true) &&
  decide (leadStep tbl ns (leadBlankSyms tbl g) = leadBlankSyms tbl g)

end Generic

abbrev Grammar := Gram String

def minusSym : String := "\"-\""

def resolved (tbl : Table) : List (GEntry String) := tbl.map (fun e => (e.1, e.2.1, resolve e))

/-- On the table of strings (the productions of the registry are the grammar: `C11_table_ok`). -/
def gluedPairs (tbl : Table) : List (String × String) := gluedPairsG minusSym (resolved tbl)

def allowedGlued : List (String × String) := [
  ("\"[\"", "\"(\""),
  ("\"[\"", "\"$default\""),
  ("\"[\"", "SnakeWord"),
  ("SnakeWord", "\":\""),
  ("String", "\"]\""),
  ("\")\"", "\"]\""),
  ("BooleanConstant", "\"]\""),
  ("Number", "\"]\""),
  ("ShoutyWord", "\"]\""),
  ("\"$next\"", "\"]\""),
  ("\"$static_size_in_bits\"", "\"]\""),
  ("\"$is_statically_sized\"", "\"]\""),
  ("\"$min_size_in_bytes\"", "\"]\""),
  ("\"$min_size_in_bits\"", "\"]\""),
  ("\"$max_size_in_bytes\"", "\"]\""),
  ("\"$max_size_in_bits\"", "\"]\""),
  ("\"$size_in_bytes\"", "\"]\""),
  ("\"$size_in_bits\"", "\"]\""),
  ("SnakeWord", "\"]\""),
  ("CamelWord", "\"(\""),
  ("CamelWord", "\":\""),
  ("\")\"", "\":\""),
  ("\"[\"", "\"+\""),
  ("\"+\"", "\"-\""),
  ("\"+\"", "\"+\""),
  ("\"+\"", "\"(\""),
  ("\"+\"", "BooleanConstant"),
  ("\"+\"", "\"$lower_bound\""),
  ("\"+\"", "\"$upper_bound\""),
  ("\"+\"", "\"$present\""),
  ("\"+\"", "\"$max\""),
  ("\"+\"", "Number"),
  ("\"+\"", "\"$min_size_in_bytes\""),
  ("\"+\"", "\"$min_size_in_bits\""),
  ("\"+\"", "\"$max_size_in_bytes\""),
  ("\"+\"", "\"$max_size_in_bits\""),
  ("\"+\"", "\"$size_in_bytes\""),
  ("\"+\"", "\"$size_in_bits\""),
  ("\"+\"", "SnakeWord"),
  ("\"+\"", "\"$next\""),
  ("\"+\"", "\"$static_size_in_bits\""),
  ("\"+\"", "\"$is_statically_sized\""),
  ("\"+\"", "ShoutyWord"),
  ("\"+\"", "CamelWord"),
  ("\"bits\"", "\":\""),
  ("BooleanConstant", "\":\""),
  ("Number", "\":\""),
  ("ShoutyWord", "\":\""),
  ("\"$next\"", "\":\""),
  ("\"$static_size_in_bits\"", "\":\""),
  ("\"$is_statically_sized\"", "\":\""),
  ("\"$min_size_in_bytes\"", "\":\""),
  ("\"$min_size_in_bits\"", "\":\""),
  ("\"$max_size_in_bytes\"", "\":\""),
  ("\"$max_size_in_bits\"", "\":\""),
  ("\"$size_in_bytes\"", "\":\""),
  ("\"$size_in_bits\"", "\":\""),
  ("\")\"", "\",\""),
  ("BooleanConstant", "\",\""),
  ("Number", "\",\""),
  ("ShoutyWord", "\",\""),
  ("\"$next\"", "\",\""),
  ("\"$static_size_in_bits\"", "\",\""),
  ("\"$is_statically_sized\"", "\",\""),
  ("\"$min_size_in_bytes\"", "\",\""),
  ("\"$min_size_in_bits\"", "\",\""),
  ("\"$max_size_in_bytes\"", "\",\""),
  ("\"$max_size_in_bits\"", "\",\""),
  ("\"$size_in_bytes\"", "\",\""),
  ("\"$size_in_bits\"", "\",\""),
  ("SnakeWord", "\",\""),
  ("\"$lower_bound\"", "\"(\""),
  ("\"$upper_bound\"", "\"(\""),
  ("\"$present\"", "\"(\""),
  ("\"$max\"", "\"(\""),
  ("\"(\"", "\"-\""),
  ("\"(\"", "\"+\""),
  ("\"(\"", "\"(\""),
  ("\"(\"", "BooleanConstant"),
  ("\"(\"", "\"$lower_bound\""),
  ("\"(\"", "\"$upper_bound\""),
  ("\"(\"", "\"$present\""),
  ("\"(\"", "\"$max\""),
  ("\"(\"", "Number"),
  ("\"(\"", "\"$min_size_in_bytes\""),
  ("\"(\"", "\"$min_size_in_bits\""),
  ("\"(\"", "\"$max_size_in_bytes\""),
  ("\"(\"", "\"$max_size_in_bits\""),
  ("\"(\"", "\"$size_in_bytes\""),
  ("\"(\"", "\"$size_in_bits\""),
  ("\"(\"", "SnakeWord"),
  ("\"(\"", "\"$next\""),
  ("\"(\"", "\"$static_size_in_bits\""),
  ("\"(\"", "\"$is_statically_sized\""),
  ("\"(\"", "ShoutyWord"),
  ("\"(\"", "CamelWord"),
  ("\"(\"", "\")\""),
  ("\")\"", "\")\""),
  ("BooleanConstant", "\")\""),
  ("Number", "\")\""),
  ("ShoutyWord", "\")\""),
  ("\"$next\"", "\")\""),
  ("\"$static_size_in_bits\"", "\")\""),
  ("\"$is_statically_sized\"", "\")\""),
  ("\"$min_size_in_bytes\"", "\")\""),
  ("\"$min_size_in_bits\"", "\")\""),
  ("\"$max_size_in_bytes\"", "\")\""),
  ("\"$max_size_in_bits\"", "\")\""),
  ("\"$size_in_bytes\"", "\")\""),
  ("\"$size_in_bits\"", "\")\""),
  ("SnakeWord", "\")\""),
  ("SnakeWord", "\".\""),
  ("\".\"", "CamelWord"),
  ("\"-\"", "\"(\""),
  ("\"-\"", "BooleanConstant"),
  ("\"-\"", "\"$lower_bound\""),
  ("\"-\"", "\"$upper_bound\""),
  ("\"-\"", "\"$present\""),
  ("\"-\"", "\"$max\""),
  ("\"-\"", "Number"),
  ("\"-\"", "\"$min_size_in_bytes\""),
  ("\"-\"", "\"$min_size_in_bits\""),
  ("\"-\"", "\"$max_size_in_bytes\""),
  ("\"-\"", "\"$max_size_in_bits\""),
  ("\"-\"", "\"$size_in_bytes\""),
  ("\"-\"", "\"$size_in_bits\""),
  ("\"-\"", "SnakeWord"),
  ("\"-\"", "\"$next\""),
  ("\"-\"", "\"$static_size_in_bits\""),
  ("\"-\"", "\"$is_statically_sized\""),
  ("\"-\"", "ShoutyWord"),
  ("\"-\"", "CamelWord"),
  ("\"$min_size_in_bytes\"", "\".\""),
  ("\"$min_size_in_bits\"", "\".\""),
  ("\"$max_size_in_bytes\"", "\".\""),
  ("\"$max_size_in_bits\"", "\".\""),
  ("\"$size_in_bytes\"", "\".\""),
  ("\"$size_in_bits\"", "\".\""),
  ("\".\"", "\"$min_size_in_bytes\""),
  ("\".\"", "\"$min_size_in_bits\""),
  ("\".\"", "\"$max_size_in_bytes\""),
  ("\".\"", "\"$max_size_in_bits\""),
  ("\".\"", "\"$size_in_bytes\""),
  ("\".\"", "\"$size_in_bits\""),
  ("\".\"", "SnakeWord"),
  ("\")\"", "\"*\""),
  ("BooleanConstant", "\"*\""),
  ("Number", "\"*\""),
  ("ShoutyWord", "\"*\""),
  ("\"$next\"", "\"*\""),
  ("\"$static_size_in_bits\"", "\"*\""),
  ("\"$is_statically_sized\"", "\"*\""),
  ("\"$min_size_in_bytes\"", "\"*\""),
  ("\"$min_size_in_bits\"", "\"*\""),
  ("\"$max_size_in_bytes\"", "\"*\""),
  ("\"$max_size_in_bits\"", "\"*\""),
  ("\"$size_in_bytes\"", "\"*\""),
  ("\"$size_in_bits\"", "\"*\""),
  ("SnakeWord", "\"*\""),
  ("\"*\"", "\"-\""),
  ("\"*\"", "\"+\""),
  ("\"*\"", "\"(\""),
  ("\"*\"", "BooleanConstant"),
  ("\"*\"", "\"$lower_bound\""),
  ("\"*\"", "\"$upper_bound\""),
  ("\"*\"", "\"$present\""),
  ("\"*\"", "\"$max\""),
  ("\"*\"", "Number"),
  ("\"*\"", "\"$min_size_in_bytes\""),
  ("\"*\"", "\"$min_size_in_bits\""),
  ("\"*\"", "\"$max_size_in_bytes\""),
  ("\"*\"", "\"$max_size_in_bits\""),
  ("\"*\"", "\"$size_in_bytes\""),
  ("\"*\"", "\"$size_in_bits\""),
  ("\"*\"", "SnakeWord"),
  ("\"*\"", "\"$next\""),
  ("\"*\"", "\"$static_size_in_bits\""),
  ("\"*\"", "\"$is_statically_sized\""),
  ("\"*\"", "ShoutyWord"),
  ("\"*\"", "CamelWord"),
  ("\"]\"", "\",\""),
  ("CamelWord", "\",\""),
  ("\"]\"", "\")\""),
  ("CamelWord", "\")\""),
  ("\"[\"", "\"]\""),
  ("\")\"", "\"-\""),
  ("\")\"", "\"+\""),
  ("BooleanConstant", "\"-\""),
  ("BooleanConstant", "\"+\""),
  ("Number", "\"-\""),
  ("Number", "\"+\""),
  ("ShoutyWord", "\"-\""),
  ("ShoutyWord", "\"+\""),
  ("\"$next\"", "\"-\""),
  ("\"$next\"", "\"+\""),
  ("\"$static_size_in_bits\"", "\"-\""),
  ("\"$static_size_in_bits\"", "\"+\""),
  ("\"$is_statically_sized\"", "\"-\""),
  ("\"$is_statically_sized\"", "\"+\""),
  ("\"$min_size_in_bytes\"", "\"-\""),
  ("\"$min_size_in_bytes\"", "\"+\""),
  ("\"$min_size_in_bits\"", "\"-\""),
  ("\"$min_size_in_bits\"", "\"+\""),
  ("\"$max_size_in_bytes\"", "\"-\""),
  ("\"$max_size_in_bytes\"", "\"+\""),
  ("\"$max_size_in_bits\"", "\"-\""),
  ("\"$max_size_in_bits\"", "\"+\""),
  ("\"$size_in_bytes\"", "\"-\""),
  ("\"$size_in_bytes\"", "\"+\""),
  ("\"$size_in_bits\"", "\"-\""),
  ("\"$size_in_bits\"", "\"+\""),
  ("SnakeWord", "\"-\""),
  ("SnakeWord", "\"+\""),
  ("\"-\"", "\"+\""),
  ("CamelWord", "\".\""),
  ("\".\"", "ShoutyWord"),
  ("\":\"", "Number"),
  ("\"]\"", "\"[\""),
  ("\"[\"", "\"-\""),
  ("\"[\"", "BooleanConstant"),
  ("\"[\"", "\"$lower_bound\""),
  ("\"[\"", "\"$upper_bound\""),
  ("\"[\"", "\"$present\""),
  ("\"[\"", "\"$max\""),
  ("\"[\"", "Number"),
  ("\"[\"", "\"$min_size_in_bytes\""),
  ("\"[\"", "\"$min_size_in_bits\""),
  ("\"[\"", "\"$max_size_in_bytes\""),
  ("\"[\"", "\"$max_size_in_bits\""),
  ("\"[\"", "\"$size_in_bytes\""),
  ("\"[\"", "\"$size_in_bits\""),
  ("\"[\"", "\"$next\""),
  ("\"[\"", "\"$static_size_in_bits\""),
  ("\"[\"", "\"$is_statically_sized\""),
  ("\"[\"", "ShoutyWord"),
  ("\"[\"", "CamelWord"),
  ("CamelWord", "\"[\""),
  ("\")\"", "\"[\""),
  ("Number", "\"[\"")
]

/-- The separability obligation on the regenerated table: the fixpoint computations
converged, and every terminal pair some handler prints with nothing in between is in the
audited list (none of whose pairs the tokenizer merges or splits differently — sampled on
the real tokenizer on every run). -/
def gluedOK (tbl : Table) : Bool :=
  fixpointsReached (resolved tbl) && (gluedPairs tbl).all (fun p => allowedGlued.contains p)

end Emboss.Fmt
