/-
Declarative pieces of the reference semantics of structure views (doc/language-reference.md,
"Automatically-Generated Fields", "$next"), independent of how the compiler computes them.
-/
namespace Emboss.ViewSpec

def imax (a b : Int) : Int := if a < b then b else a

/-- One physical field as the reference sees it in a given buffer: presence (if computable),
start and size (if computable). -/
abbrev Extent := Option Bool × Option Int × Option Int

/-- "The intrinsic size is the size required to hold every field in the struct": the largest
end of a present field, `acc` if there is none; unknown when some presence, or the location of
a present field, is unknown. -/
def sizeFrom (acc : Int) : List Extent → Option Int
  | [] => some acc
  | (none, _, _) :: _ => none
  | (some false, _, _) :: rest => sizeFrom acc rest
  | (some true, some s, some z) :: rest => sizeFrom (imax acc (s + z)) rest
  | (some true, _, _) :: _ => none

def size (l : List Extent) : Option Int := sizeFrom 0 l

end Emboss.ViewSpec
