/-
Declarative reading of a number text (property C06), written from doc/text-format.md
("numeric values in the same formats that are allowed in Emboss source files":
decimal, `0x…`, `0b…`, optional `-`, `_` separators) — independent of how
`DecodeInteger` computes (no accumulator guards, no offsets).
-/
import Emboss.Model.Text
namespace Emboss.Text.Spec

/-- Digit values, as a table. -/
def digitTable : List (Char × Nat) :=
  [('0', 0), ('1', 1), ('2', 2), ('3', 3), ('4', 4), ('5', 5), ('6', 6), ('7', 7), ('8', 8), ('9', 9),
   ('a', 10), ('b', 11), ('c', 12), ('d', 13), ('e', 14), ('f', 15),
   ('A', 10), ('B', 11), ('C', 12), ('D', 13), ('E', 14), ('F', 15)]

def digitValue (c : Char) : Option Nat := digitTable.lookup c

/-- The digit values of a number body with the `_` separators dropped; `none` when some
other character is not a digit of the base. -/
def digitsOf (base : Nat) : List Char → Option (List Nat)
  | [] => some []
  | c :: cs =>
    if c = '_' then digitsOf base cs
    else match digitValue c with
      | some d => if d < base then (digitsOf base cs).map (d :: ·) else none
      | none => none

/-- Positional value of a digit list (most significant first), starting from `a`. -/
def valueFrom (base : Nat) (a : Int) (ds : List Nat) : Int :=
  ds.foldl (fun (a : Int) (d : Nat) => a * (base : Int) + (d : Int)) a

/-- Sign, base and body of a number text.  A leading `-` is a sign only when the
target type is signed. -/
def signOf (signedTy : Bool) (s : List Char) : Bool := signedTy && s.head? = some '-'

def afterSign (signedTy : Bool) (s : List Char) : List Char :=
  if signOf signedTy s then s.drop 1 else s

def baseOf (s1 : List Char) : Nat :=
  if s1.take 2 = ['0', 'x'] ∨ s1.take 2 = ['0', 'X'] then 16
  else if s1.take 2 = ['0', 'b'] ∨ s1.take 2 = ['0', 'B'] then 2
  else 10

def bodyOf (s1 : List Char) : List Char := if baseOf s1 = 10 then s1 else s1.drop 2

/-- The mathematical value denoted by a number text, `none` when the text is not a
number: nothing after sign and prefix, or a character that is neither `_` nor a digit of
the base.  (Lenient about where `_` may stand; the statement's clause is "rejected
rather than wrapped", so only the *value* matters.) -/
def textValue (signedTy : Bool) (s : List Char) : Option Int :=
  let s1 := afterSign signedTy s
  let body := bodyOf s1
  if body = [] then none
  else (digitsOf (baseOf s1) body).map fun ds =>
    let v := valueFrom (baseOf s1) 0 ds
    if signOf signedTy s then -v else v

end Emboss.Text.Spec
