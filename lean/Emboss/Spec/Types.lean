/-
Spec for C13, transcribed from doc/language-reference.md §"Operators and Functions"
and the statement of the property: which type a (resolved) expression has.

`HasType false` is the documented relation.  `HasType true` adds the one rule the code
has and the reference does not: ordering comparisons on two values of one enum
(`orderEnum`), so that the refinement theorem can be stated exactly for the code as it is.
-/
import Emboss.Model.Types
namespace Emboss.Types

def BinOp.isArith (op : BinOp) : Prop := op = .add ∨ op = .sub ∨ op = .mul
def BinOp.isLogic (op : BinOp) : Prop := op = .and ∨ op = .or
def BinOp.isEq (op : BinOp) : Prop := op = .eq ∨ op = .ne
def BinOp.isOrd (op : BinOp) : Prop := op = .lt ∨ op = .le ∨ op = .gt ∨ op = .ge

inductive HasType (coded : Bool) : Expr → Ty → Prop
  /-- numeric constants are integers, `true`/`false` booleans, `Enum.VALUE` has its enum's type -/
  | num {l} : HasType coded (.num l) .int
  | boolc {l} : HasType coded (.boolc l) .bool
  | enumv {l n} : HasType coded (.enumv l n) (.enum n)
  /-- a field name has the type its definition gives it: declared (parameters, physical
  fields; "opaque" for arrays and structures) or that of the `let` expression -/
  | lparam {l t} : HasType coded (.lparam l t) t.toTy
  | lphys {l t} : HasType coded (.lphys l t) t.toTy
  | lparamArr {l} : HasType coded (.lparamArr l) .opaque
  | lvirt {l df d τ} : HasType coded d τ → HasType coded (.lvirt l df d) τ
  | cvirt {l df d τ} : HasType coded d τ → HasType coded (.cvirt l df d) τ
  /-- `$is_statically_sized` is a boolean, `$static_size_in_bits` an integer; `$next` has no
  type outside a field location (where `synthetics` has replaced it) -/
  | builtinB {l} : HasType coded (.builtin l .isStaticallySized) .bool
  | builtinI {l} : HasType coded (.builtin l .staticSizeInBits) .int
  /-- "`*`, `+`, `-` require two integer arguments, and return an integer" -/
  | arith {l op a b} : op.isArith → HasType coded a .int → HasType coded b .int →
      HasType coded (.bin l op a b) .int
  /-- "`&&` and `||` require two boolean arguments, and return a boolean" -/
  | logic {l op a b} : op.isLogic → HasType coded a .bool → HasType coded b .bool →
      HasType coded (.bin l op a b) .bool
  /-- "`==`, `!=` take two boolean arguments, two integer arguments, or two arguments of the
  same enum type, and return a boolean" -/
  | equal {l op a b τ} : op.isEq → τ.isValue = true → HasType coded a τ → HasType coded b τ →
      HasType coded (.bin l op a b) .bool
  /-- "`<`, `<=`, `>`, `>=` take two integer arguments, and return a boolean" -/
  | order {l op a b} : op.isOrd → HasType coded a .int → HasType coded b .int →
      HasType coded (.bin l op a b) .bool
  /-- AS CODED ONLY: ordering on two values of the same enum -/
  | orderEnum {l op a b n} : coded = true → op.isOrd → HasType coded a (.enum n) →
      HasType coded b (.enum n) → HasType coded (.bin l op a b) .bool
  /-- "`?:` condition must be a boolean, if_true and if_false must have the same type; it
  returns that type" (integer, boolean or one enum) -/
  | choice {l c t f τ} : HasType coded c .bool → τ.isValue = true → HasType coded t τ →
      HasType coded f τ → HasType coded (.choice l c t f) τ
  /-- "`$max()` requires at least one argument; all arguments must be integers; returns an integer" -/
  | max {l args} : args ≠ [] → (∀ a ∈ args, HasType coded a .int) → HasType coded (.fn l .max args) .int
  /-- "`$present()` takes exactly one argument, a reference to a field; the type of the field
  does not matter; returns a boolean" -/
  | present {l a τ} : a.isFieldRef = true → HasType coded a τ → HasType coded (.fn l .present [a]) .bool
  /-- "`$upper_bound()` / `$lower_bound()` take a single integer argument and return an integer" -/
  | upper {l a} : HasType coded a .int → HasType coded (.fn l .upper [a]) .int
  | lower {l a} : HasType coded a .int → HasType coded (.fn l .lower [a]) .int

/-- The checker accepted the expression with type τ: no error. -/
def Ok (r : Res) (τ : Ty) : Prop := r.errs = [] ∧ r.ty = τ

instance (r : Res) (τ : Ty) : Decidable (Ok r τ) := by unfold Ok; infer_instance

mutual
/-- The expression and everything it is built from, each with the module file it is written
in: syntactic sub-expressions (`function.args`, recursively) and, through references, the
definitions of the virtual fields it mentions. -/
def parts (file : FileId) : Expr → List FExpr
  | .bin l op a b => (file, .bin l op a b) :: (parts file a ++ parts file b)
  | .choice l c t f => (file, .choice l c t f) :: (parts file c ++ (parts file t ++ parts file f))
  | .fn l f args => (file, .fn l f args) :: partsList file args
  | .cvirt l df d => (file, .cvirt l df d) :: parts df d
  | .lvirt l df d => (file, .lvirt l df d) :: parts df d
  | e => [(file, e)]
def partsList (file : FileId) : List Expr → List FExpr
  | [] => []
  | e :: es => parts file e ++ partsList file es
end

mutual
/-- user-written: no location in the expression — nor in the definitions it refers to — is
synthetic (`is_synthetic`: produced by `synthetics.desugar`). -/
def natural : Expr → Bool
  | .num l | .boolc l | .enumv l _ | .cother l | .lparam l _ | .lparamArr l | .lphys l _
  | .builtin l _ => !l.syn
  | .cphys l _ dl => !l.syn && !dl.syn
  | .cvirt l _ d | .lvirt l _ d => !l.syn && natural d
  | .bin l _ a b => !l.syn && (natural a && natural b)
  | .choice l c t f => !l.syn && (natural c && (natural t && natural f))
  | .fn l _ args => !l.syn && naturalList args
def naturalList : List Expr → Bool
  | [] => true
  | e :: es => natural e && naturalList es
end

end Emboss.Types
