/-
Declarative statement of where the types written inline end up (C12, `module_ir.py`).

`placedTypes` / `placedFields` say it by recursion on what is written, with the scope as a
parameter — no lists are built and taken apart again:

* a type written as a definition lives in the scope it is written in and opens a new scope for
  what is written in its body;
* a type written inline in a field (named after the field in CamelCase; anonymous `bits:` after
  the reserved field name) lives in the scope its field is written in — but opens **no** scope:
  whatever is written in its body lives in that same scope, i.e. in the nearest enclosing type
  that is written as a definition;
* the fields of every type, inline or not, live in the scope of that type.

`docTypes` is what the language reference says (sections "Inline `struct`", "Inline `enum`",
"Inline `bits`": *"This is equivalent to"* the type being written as a definition, named in
CamelCase, in the body of the structure, with a field of that type): the same, except that an
inline type opens a scope like any other.  The two agree unless something is written inside an
inline type that is a type itself.
-/
import Emboss.Model.ScopeSyntax
namespace Emboss.Scope

mutual
def placedTypes (host : Path) : Syn → List (Path × String)
  | .node tag name num subs fields =>
    match tag with
    | .typeDef => (host, name) ::
        (placedTypesAll (host ++ [name]) subs ++ placedTypesAll (host ++ [name]) fields)
    | .inline => (host, camel name) :: (placedTypesAll host subs ++ placedTypesAll host fields)
    | .anon => (host, camel (anonName num)) ::
        (placedTypesAll host subs ++ placedTypesAll host fields)
    | .plain => []
def placedTypesAll (host : Path) : List Syn → List (Path × String)
  | [] => []
  | t :: ts => placedTypes host t ++ placedTypesAll host ts
end

mutual
def placedFields (host : Path) : Syn → List (Path × String)
  | .node tag name num subs fields =>
    match tag with
    | .typeDef => (fields.map fun f => (host ++ [name], fieldName f)) ++
        (placedFieldsAll (host ++ [name]) subs ++ placedFieldsAll (host ++ [name]) fields)
    | .inline => (fields.map fun f => (host ++ [camel name], fieldName f)) ++
        (placedFieldsAll host subs ++ placedFieldsAll host fields)
    | .anon => (fields.map fun f => (host ++ [camel (anonName num)], fieldName f)) ++
        (placedFieldsAll host subs ++ placedFieldsAll host fields)
    | .plain => []
def placedFieldsAll (host : Path) : List Syn → List (Path × String)
  | [] => []
  | t :: ts => placedFields host t ++ placedFieldsAll host ts
end

mutual
/-- the language reference: an inline type is "equivalent to" a definition in the body -/
def docTypes (host : Path) : Syn → List (Path × String)
  | .node tag name num subs fields =>
    match tag with
    | .typeDef => (host, name) ::
        (docTypesAll (host ++ [name]) subs ++ docTypesAll (host ++ [name]) fields)
    | .inline => (host, camel name) ::
        (docTypesAll (host ++ [camel name]) subs ++ docTypesAll (host ++ [camel name]) fields)
    | .anon => (host, camel (anonName num)) ::
        (docTypesAll (host ++ [camel (anonName num)]) subs ++
         docTypesAll (host ++ [camel (anonName num)]) fields)
    | .plain => []
def docTypesAll (host : Path) : List Syn → List (Path × String)
  | [] => []
  | t :: ts => docTypes host t ++ docTypesAll host ts
end

mutual
/-- nothing that is a type is written inside an inline type -/
def Shallow : Syn → Prop
  | .node tag _ _ subs fields =>
    match tag with
    | .typeDef => ShallowAll subs ∧ ShallowAll fields
    | .inline => subs = [] ∧ PlainAll fields
    | .anon => subs = [] ∧ PlainAll fields
    | .plain => True
def ShallowAll : List Syn → Prop
  | [] => True
  | t :: ts => Shallow t ∧ ShallowAll ts
def PlainAll : List Syn → Prop
  | [] => True
  | .node tag _ _ _ _ :: ts => tag = .plain ∧ PlainAll ts
end

mutual
/-- names of the types written as definitions -/
def explicitNames : Syn → List String
  | .node tag name _ subs fields =>
    match tag with
    | .typeDef => name :: (explicitNamesAll subs ++ explicitNamesAll fields)
    | _ => explicitNamesAll subs ++ explicitNamesAll fields
def explicitNamesAll : List Syn → List String
  | [] => []
  | t :: ts => explicitNames t ++ explicitNamesAll ts
end

mutual
/-- the numbers of the anonymous `bits:` in the order the counter reaches them: the children
from the last to the first, then the construct itself -/
def anonNums : Syn → List Nat
  | .node tag _ num subs fields =>
    match tag with
    | .anon => anonNumsAll fields ++ anonNumsAll subs ++ [num]
    | _ => anonNumsAll fields ++ anonNumsAll subs
def anonNumsAll : List Syn → List Nat
  | [] => []
  | t :: ts => anonNumsAll ts ++ anonNums t
end

end Emboss.Scope
