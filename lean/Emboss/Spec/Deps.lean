/-
Declarative specification for C15 (dependency ordering part).
-/
import Emboss.Model.Deps
namespace Emboss.Deps

/-- `l` lists definitions so that each one comes after everything it mentions,
given that `added` is already available (runtime parameters, earlier fields). -/
def TopoFrom (deps : DepFn) : List Nat → List Nat → Prop
  | _, [] => True
  | added, f :: rest => (∀ d ∈ deps f, d ∈ added) ∧ TopoFrom deps (f :: added) rest

instance TopoFrom.decidable (deps : DepFn) : ∀ added l, Decidable (TopoFrom deps added l)
  | _, [] => isTrue trivial
  | added, f :: rest =>
    have := TopoFrom.decidable deps (f :: added) rest
    inferInstanceAs (Decidable ((∀ d ∈ deps f, d ∈ added) ∧ TopoFrom deps (f :: added) rest))

/-- Lexicographic `≤` on lists of source positions. -/
inductive LexLe : List Nat → List Nat → Prop
  | nil (l) : LexLe [] l
  | lt {a b : Nat} (as bs) : a < b → LexLe (a :: as) (b :: bs)
  | eq (a : Nat) {as bs} : LexLe as bs → LexLe (a :: as) (a :: bs)

end Emboss.Deps
