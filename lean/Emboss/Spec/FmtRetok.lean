/-
Specification side of C11, re-tokenization (round 3): what the rendered text of a list of
rows must tokenize to.  Imports the formatter model and the tokenizer model (C10) only, so
that the driver can evaluate it.

`expectLeaves`: Indent / Dedent / end-of-line tokens as a function of the rows'
indentation levels and leaves.  `retokExpect`: evaluates, row by row, the hypotheses of
`C11_retokenize_partial` with the tokenizer model and returns the expected token sequence
(`C11_retokenize_checked`: whenever it answers `some E`, `tokenize` of the formatted text
yields `E`).
-/
import Emboss.Model.Fmt
import Emboss.Model.Tok
import Emboss.Spec.FmtEquivB
import Emboss.Generated.TokTable
namespace Emboss.FmtTok
open Emboss.Tok Emboss.Generated

abbrev Leaf := String × List Char

def leafOf (t : Token) : Leaf := (t.sym, t.text)

/-- The text of a rendered line: nothing for an empty content, else the indentation and
the content. -/
def lineText (iw j : Nat) (s : List Char) : List Char :=
  if s = [] then [] else Fmt.spaces (iw * j) ++ s

/-- `dedentTo` on levels. -/
def dedentLv (j : Nat) : List Nat → Nat → Option (Nat × Nat × List Nat)
  | [], _ => none
  | t :: below, k => if j = t then some (k, t, below) else dedentLv j below (k + 1)

def allComment (L : List Leaf) : Bool := L.all (fun l => l.1 == "Comment")

def nlLeaf : Leaf := (nlSym, ['\n'])
def dedentLeaf : Leaf := ("Dedent", [])

/-- The leaves of the token sequence of a rendered file: `rs` lists, per row, the
indentation level and the leaves of the content; `top :: below` are the open indentation
levels.  Rows without tokens or with comments only take no part in indentation; a deeper
row opens a level (`Indent` carrying the added blanks), a shallower one closes levels down
to an open one (`none`: "Bad indentation" — the level was never opened); every row ends
with an end-of-line token; at the end every open level is closed. -/
def expectLeaves (iw : Nat) : Nat → List Nat → List (Nat × List Leaf) → Option (List Leaf)
  | _, below, [] => some (List.replicate below.length dedentLeaf)
  | top, below, (j, L) :: rest =>
    if allComment L then (expectLeaves iw top below rest).map (fun x => L ++ nlLeaf :: x)
    else if j = top then (expectLeaves iw top below rest).map (fun x => L ++ nlLeaf :: x)
    else if top < j then
      (expectLeaves iw j (top :: below) rest).map
        (fun x => ("Indent", Fmt.spaces (iw * (j - top))) :: (L ++ nlLeaf :: x))
    else
      match dedentLv j below 1 with
      | none => none
      | some (k, t', b') =>
        (expectLeaves iw t' b' rest).map (fun x => List.replicate k dedentLeaf ++ (L ++ nlLeaf :: x))

/-- The content of a row: its columns, without trailing blanks. -/
def rowText (r : Fmt.Row) : List Char := Fmt.rstrip r.columns.flatten

/-- The leaves the tokenizer model cuts `s` into (`none`: it fails). -/
def evalLeaves (s : List Char) : Option (List Leaf) :=
  match tokLine tokTable.pats 0 s.length s 0 with
  | .ok ts => some (ts.map leafOf)
  | _ => none

/-- The rows `_module` hands to `_render_rows_to_text`. -/
def moduleRows (c d i a : List Fmt.Row) (ty : List (List Fmt.Row)) : List Fmt.Row :=
  Fmt.addBlankRowsOnDedent (Fmt.indentBlanksAndComments
    (Fmt.intersperse [{ name := .topTypeSeparator }, { name := .topTypeSeparator }]
      (Fmt.intersperse [{ name := .sectionBreak }] [Fmt.stripEmptyRows c, d, i, a] :: ty)))

def headOK (s : List Char) : Bool :=
  match s.head? with
  | some y => !isSpaceChar y
  | none => true

def lastOK (s : List Char) : Bool :=
  match s.getLast? with
  | some y => !isSpaceChar y
  | none => true

/-- The hypotheses of `C11_retokenize_partial` for one row, by evaluation: fewer than two
columns; the content neither starts nor ends with a blank and has no line terminator; the
tokenizer model accepts it.  Answer: indentation level and leaves. -/
def rowCheck (r : Fmt.Row) : Option (Nat × List Leaf) :=
  if r.columns.length < 2 then
    let s := rowText r
    if headOK s && lastOK s && s.all (fun c => !isLineBreakNat c.toNat) then
      (evalLeaves s).map (fun L => (r.indent, L))
    else none
  else none

def rowsCheck : List Fmt.Row → Option (List (Nat × List Leaf))
  | [] => some []
  | r :: rest =>
    match rowCheck r, rowsCheck rest with
    | some x, some xs => some (x :: xs)
    | _, _ => none

/-- All hypotheses evaluated, and the token sequence they imply. -/
def retokExpect (iw : Nat) (c d i a : List Fmt.Row) (ty : List (List Fmt.Row)) : Option (List Leaf) :=
  match rowsCheck (moduleRows c d i a ty) with
  | some rows => expectLeaves iw 0 [] rows
  | none => none

/-- The whole evaluation for a parse tree: the root is handled by `_module`, its children
fold to rows / sections, and `retokExpect` accepts them. -/
def retokTree (iw : Nat) (t : Fmt.Tree) : Option (List Leaf) :=
  match t with
  | .node p cs =>
    if Fmt.handlerAt Generated.FmtTable.formatters p = some .module then
      match Fmt.foldList Generated.FmtTable.formatters iw cs with
      | some [vc, vd, vi, va, vty] =>
        match Fmt.asRows vc, Fmt.asRows vd, Fmt.asRows vi, Fmt.asRows va, Fmt.asSections vty with
        | some c, some d, some i, some a, some ty => retokExpect iw c d i a ty
        | _, _, _, _, _ => none
      | _ => none
    else none
  | _ => none

end Emboss.FmtTok
