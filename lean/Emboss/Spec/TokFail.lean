/-
Declarative side of C10, failure half at file level: when `tokenize` reports an error, and
which one.  (Success half: `FileCover` in Spec/Tok.lean.)
-/
import Emboss.Spec.Tok
namespace Emboss.Tok
open Emboss.Regex

/-- `FileFails pats lines ln st msg sl sc el ec`: tokenizing `lines` (first line number `ln`,
indentation stack `st`) fails with message `msg` at `(sl, sc)–(el, ec)`: the lines before
the failing one have covers and indentation steps; the failing line either cannot be cut
into best matches (stuck at 0-based offset `k`: "Unrecognized token" at columns `k+1`–`k+2`)
or has a cover, is not blank/comment-only, and its leading whitespace neither extends the
innermost open level nor equals any open level ("Bad indentation" over the leading
whitespace). -/
inductive FileFails (pats : List Pat) :
    List (List Char) → Nat → IStack → String → Nat → Nat → Nat → Nat → Prop
  | stuck {line rest ln st k} : StuckAt pats line 0 k →
      FileFails pats (line :: rest) ln st "Unrecognized token" ln (k + 1) ln (k + 2)
  | indent {line rest ln st segs} : Covers pats ln line 0 segs →
      isBlankLine (tokensOf segs) = false → leadingWs line ≠ st.top → ¬ st.top <+: leadingWs line →
      leadingWs line ∉ st.below →
      FileFails pats (line :: rest) ln st "Bad indentation" ln 1 ln ((leadingWs line).length + 1)
  | later {line rest ln st st' synth segs msg a b c d} : Covers pats ln line 0 segs →
      IndentStep ln line (tokensOf segs) st synth st' → FileFails pats rest (ln + 1) st' msg a b c d →
      FileFails pats (line :: rest) ln st msg a b c d

end Emboss.Tok
