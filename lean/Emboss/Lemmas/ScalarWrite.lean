/-
CouldWriteValue range expressions and the raw value handed to WriteUInt (non-BCD views).
-/
import Emboss.Lemmas.ScalarRead
namespace Emboss.Scalar
open Emboss.Bits Emboss.Scalar.Spec

theorem ofInt_of_nonneg {W : Nat} {x : Int} (h0 : 0 ≤ x) (h : x < ((2 ^ W : Nat) : Int)) :
    ofInt W x = x.toNat := by
  unfold ofInt; rw [Int.emod_eq_of_lt h0 h]

theorem IntT.holds_lt64 {t : IntT} {x : Int} (ht : t.holds x = true) (hw : t.width ≤ 64) :
    x < ((2 ^ 64 : Nat) : Int) ∧ -((2 ^ 63 : Nat) : Int) ≤ x := by
  unfold IntT.holds at ht
  have h1 : 2 ^ (t.width - 1) ≤ 2 ^ 63 := pow_le_pow (by omega)
  have h2 : 2 ^ t.width ≤ 2 ^ 64 := pow_le_pow hw
  split at ht <;> simp only [decide_eq_true_eq] at ht <;> omega

/-- The upper bound expression of `UIntView::CouldWriteValue`:
`((ValueType(1) << (kBits - 1)) << 1) - 1 = 2^kBits - 1`, including `kBits = 32, 64` where
the double shift wraps to 0 and the subtraction wraps back. -/
theorem uint_bound_eq {k : Nat} (hk : 1 ≤ k) (hk64 : k ≤ 64) :
    subW (arithW (leastWidth k)) (shl (arithW (leastWidth k))
      (shl (arithW (leastWidth k)) 1 (k - 1)) 1) 1 = 2 ^ k - 1 := by
  have hle := le_leastWidth hk64
  have hA := le_arithW (leastWidth k)
  generalize arithW (leastWidth k) = A at *
  have hkA : k ≤ A := by omega
  rw [shl_one (by omega)]
  have hpk : 2 ^ (k - 1) * 2 ^ 1 = 2 ^ k := by rw [← Nat.pow_add]; congr 1; omega
  by_cases hlt : k < A
  · rw [shl_eq (by rw [hpk]; exact pow_lt_pow hlt), hpk,
      subW_eq (pow_lt_pow hlt) (two_pow_pos' k)]
  · have hkA' : k = A := by omega
    subst hkA'
    have h0 : shl k (2 ^ (k - 1)) 1 = 0 := by
      unfold shl wrap; rw [Nat.shiftLeft_eq, hpk, Nat.mod_self]
    rw [h0]
    unfold subW
    have hp := two_pow_pos' k
    rw [wrap_of_lt hp, wrap_of_lt (show 1 < 2 ^ k by
      have : 2 ^ 1 ≤ 2 ^ k := pow_le_pow hk
      omega)]
    rw [Nat.zero_add]; exact wrap_of_lt (by omega)

/-- The bounds of `IntView::CouldWriteValue`. -/
theorem int_bounds_eq {k : Nat} (hk : 2 ≤ k) (hk64 : k ≤ 64) :
    toSigned (arithW (leastWidth k)) (shl (arithW (leastWidth k)) 1 (k - 2)) =
      ((2 ^ (k - 2) : Nat) : Int) := by
  have hle := le_leastWidth hk64
  have hA := le_arithW (leastWidth k)
  generalize arithW (leastWidth k) = A at *
  rw [shl_one (by omega)]
  exact toSigned_of_lt (pow_lt_pow (by omega)) (by omega)

theorem maskToNBits_ofInt {BW k : Nat} (hk : k ≤ BW) (x : Int) :
    maskToNBits BW (ofInt BW x) k = ofInt k x := by
  have hlt : ofInt BW x < 2 ^ BW := by
    unfold ofInt
    have h1 := Int.emod_lt_of_pos x (b := ((2 ^ BW : Nat) : Int)) (by exact_mod_cast two_pow_pos' BW)
    have h2 := Int.emod_nonneg x (b := ((2 ^ BW : Nat) : Int)) (by have := two_pow_pos' BW; omega)
    omega
  rw [maskToNBits_eq hlt hk]
  unfold ofInt
  have hdvd : ((2 ^ k : Nat) : Int) ∣ ((2 ^ BW : Nat) : Int) := by
    obtain ⟨n, rfl⟩ : ∃ n, BW = k + n := ⟨BW - k, by omega⟩
    exact ⟨((2 ^ n : Nat) : Int), by rw [Nat.pow_add]; exact Int.natCast_mul _ _⟩
  have h2 := Int.emod_nonneg x (b := ((2 ^ BW : Nat) : Int)) (by have := two_pow_pos' BW; omega)
  have : ((x % ((2 ^ BW : Nat) : Int)).toNat % 2 ^ k : Nat) =
      ((x % ((2 ^ BW : Nat) : Int)) % ((2 ^ k : Nat) : Int)).toNat := by
    have h3 := Int.emod_nonneg (x % ((2 ^ BW : Nat) : Int)) (b := ((2 ^ k : Nat) : Int))
      (by have := two_pow_pos' k; omega)
    apply Int.ofNat.inj
    simp only [Int.ofNat_eq_natCast, Int.natCast_emod, Int.toNat_of_nonneg h2, Int.toNat_of_nonneg h3]
  rw [this, Int.emod_emod_of_dvd _ hdvd]

theorem ofInt_lt (W : Nat) (x : Int) : ofInt W x < 2 ^ W := by
  unfold ofInt
  have h1 := Int.emod_lt_of_pos x (b := ((2 ^ W : Nat) : Int)) (by exact_mod_cast two_pow_pos' W)
  have h2 := Int.emod_nonneg x (b := ((2 ^ W : Nat) : Int)) (by have := two_pow_pos' W; omega)
  omega

end Emboss.Scalar
