/-
Lemmas for C10: the pattern loop picks the longest match with ties to the earlier
pattern; `_tokenize_line` yields a lossless cover; fuel is never exhausted.
-/
import Emboss.Model.Tok
import Emboss.Spec.Tok
import Emboss.Lemmas.Regex
namespace Emboss.Tok
open Emboss.Regex

@[simp] theorem tokensOf_nil : tokensOf [] = [] := rfl
@[simp] theorem tokensOf_gap (x : List Char) (segs : List Seg) :
    tokensOf (.gap x :: segs) = tokensOf segs := rfl
@[simp] theorem tokensOf_tok (t : Token) (segs : List Seg) :
    tokensOf (.tok t :: segs) = t :: tokensOf segs := rfl

/-! ### `bestMatch` -/

theorem bestMatch_ne_none (ps : List Pat) (s : List Char) : ∀ n sy, bestMatch ps s n sy ≠ none := by
  induction ps with
  | nil => intro n sy; simp [bestMatch]
  | cons p ps ih =>
    intro n sy
    unfold bestMatch
    split
    · rename_i h; exact absurd h (matchLen_no_fuel _ _)
    · exact ih _ _
    · split
      · exact ih _ _
      · exact ih _ _

theorem bestMatch_spec (ps : List Pat) (s : List Char) :
    ∀ n0 sy0 n sy, bestMatch ps s n0 sy0 = some (n, sy) →
      (n = n0 ∧ sy = sy0 ∧ ∀ q ∈ ps, ∀ m, matchLen q.re s = .ok m → m ≤ n0) ∨
      (n0 < n ∧ IsBest ps s n sy) := by
  induction ps with
  | nil =>
    intro n0 sy0 n sy h
    simp only [bestMatch, Option.some.injEq, Prod.mk.injEq] at h
    exact .inl ⟨h.1.symm, h.2.symm, by simp⟩
  | cons p ps ih =>
    intro n0 sy0 n sy h
    unfold bestMatch at h
    split at h
    · cases h
    · rename_i hf
      rcases ih _ _ _ _ h with ⟨h1, h2, h3⟩ | ⟨h1, pre, q, post, hp, hm, hs, hpre, hpost⟩
      · refine .inl ⟨h1, h2, ?_⟩
        intro q hq m hm
        rcases List.mem_cons.mp hq with rfl | hq
        · rw [hf] at hm; cases hm
        · exact h3 q hq m hm
      · refine .inr ⟨h1, p :: pre, q, post, by simp [hp], hm, hs, ?_, hpost⟩
        intro q' hq' m hm'
        rcases List.mem_cons.mp hq' with rfl | hq'
        · rw [hf] at hm'; cases hm'
        · exact hpre q' hq' m hm'
    · rename_i m0 hm0
      split at h
      · rename_i hgt
        rcases ih _ _ _ _ h with ⟨h1, h2, h3⟩ | ⟨h1, pre, q, post, hp, hm, hs, hpre, hpost⟩
        · refine .inr ⟨by omega, [], p, ps, rfl, by rw [hm0, h1], h2.symm, by simp, ?_⟩
          intro q hq m hm
          rw [h1]; exact h3 q hq m hm
        · refine .inr ⟨by omega, p :: pre, q, post, by simp [hp], hm, hs, ?_, hpost⟩
          intro q' hq' m hm'
          rcases List.mem_cons.mp hq' with rfl | hq'
          · rw [hm0] at hm'; cases hm'; omega
          · exact hpre q' hq' m hm'
      · rename_i hle
        rcases ih _ _ _ _ h with ⟨h1, h2, h3⟩ | ⟨h1, pre, q, post, hp, hm, hs, hpre, hpost⟩
        · refine .inl ⟨h1, h2, ?_⟩
          intro q hq m hm
          rcases List.mem_cons.mp hq with rfl | hq
          · rw [hm0] at hm; cases hm; omega
          · exact h3 q hq m hm
        · refine .inr ⟨h1, p :: pre, q, post, by simp [hp], hm, hs, ?_, hpost⟩
          intro q' hq' m hm'
          rcases List.mem_cons.mp hq' with rfl | hq'
          · rw [hm0] at hm'; cases hm'; omega
          · exact hpre q' hq' m hm'

theorem IsBest.le_length {pats s n sy} (h : IsBest pats s n sy) : n ≤ s.length := by
  obtain ⟨_, p, _, _, hm, _⟩ := h
  exact matchLen_le _ _ _ hm

/-! ### `tokLine` -/

theorem tokLine_covers (pats : List Pat) (ln : Nat) :
    ∀ fuel s off ts, tokLine pats ln fuel s off = .ok ts →
      ∃ segs, Covers pats ln s off segs ∧ ts = tokensOf segs := by
  intro fuel
  induction fuel with
  | zero =>
    intro s off ts h
    cases s with
    | nil => simp only [tokLine, LineRes.ok.injEq] at h; exact ⟨[], .nil off, by simp [← h]⟩
    | cons c cs => simp [tokLine] at h
  | succ f ih =>
    intro s off ts h
    cases s with
    | nil => simp only [tokLine, LineRes.ok.injEq] at h; exact ⟨[], .nil off, by simp [← h]⟩
    | cons c cs =>
      simp only [tokLine] at h
      split at h
      · cases h
      · cases h
      · rename_i n sy hb
        rcases bestMatch_spec _ _ _ _ _ _ hb with ⟨h1, _, _⟩ | ⟨_, hbest⟩
        · omega
        · have hle := hbest.le_length
          split at h
          · rename_i ts' hrec
            obtain ⟨segs, hc, hts⟩ := ih _ _ _ hrec
            simp only [LineRes.ok.injEq] at h
            cases sy with
            | some name =>
              dsimp only at h; subst h
              exact ⟨.tok ⟨name, (c :: cs).take (n + 1), ln, off + 1, ln, off + (n + 1) + 1⟩ :: segs,
                .tok (by omega) hle hbest hc, by simp [hts]⟩
            | none =>
              dsimp only at h; subst h
              exact ⟨.gap ((c :: cs).take (n + 1)) :: segs, .gap (by omega) hle hbest hc, by simp [hts]⟩
          · rename_i e hne
            cases e <;> simp_all

theorem tokLine_no_fuel (pats : List Pat) (ln : Nat) :
    ∀ fuel s off, s.length ≤ fuel → tokLine pats ln fuel s off ≠ .fuel := by
  intro fuel
  induction fuel with
  | zero =>
    intro s off h
    cases s with
    | nil => simp [tokLine]
    | cons c cs => simp at h
  | succ f ih =>
    intro s off hlen
    cases s with
    | nil => simp [tokLine]
    | cons c cs =>
      simp only [tokLine]
      split
      · rename_i hb; exact absurd hb (bestMatch_ne_none _ _ _ _)
      · simp
      · rename_i n sy hb
        have := ih ((c :: cs).drop (n + 1)) (off + (n + 1)) (by simp at hlen ⊢; omega)
        generalize tokLine pats ln f ((c :: cs).drop (n + 1)) (off + (n + 1)) = res at this ⊢
        cases res <;> simp_all

/-! ### consequences of `Covers` -/

theorem Covers.concat {pats ln s off segs} (h : Covers pats ln s off segs) :
    (segs.map Seg.text).flatten = s := by
  induction h with
  | nil => rfl
  | tok _ _ _ _ ih => simp [Seg.text, ih]
  | gap _ _ _ _ ih => simp [Seg.text, ih]

/-- Facts about one token of a cover of the suffix `s` starting at 0-based offset `off`. -/
theorem Covers.token_facts {pats ln s off segs} (h : Covers pats ln s off segs) :
    ∀ t ∈ tokensOf segs, t.sl = ln ∧ t.el = ln ∧ off + 1 ≤ t.sc ∧ t.text ≠ [] ∧
      t.ec = t.sc + t.text.length ∧ t.ec ≤ off + s.length + 1 ∧
      t.text = (s.drop (t.sc - 1 - off)).take (t.ec - t.sc) ∧
      IsBest pats (s.drop (t.sc - 1 - off)) t.text.length (some t.sym) := by
  induction h with
  | nil => intro t ht; simp at ht
  | @tok s off n name segs hn hle hb _ ih =>
    intro t ht
    simp only [tokensOf_tok, List.mem_cons] at ht
    rcases ht with rfl | ht
    · have hlen : (s.take n).length = n := by simp; omega
      refine ⟨rfl, rfl, Nat.le_refl _, ?_, ?_, ?_, ?_, ?_⟩
      · intro hc; simp only at hc; rw [hc] at hlen; simp at hlen; omega
      · simp only [hlen]; omega
      · simp only; omega
      · simp only; rw [show off + 1 - 1 - off = 0 by omega, show off + n + 1 - (off + 1) = n by omega]; simp
      · simp only [hlen]; rw [show off + 1 - 1 - off = 0 by omega]; simpa using hb
    · obtain ⟨h1, h2, h3, h4, h5, h6, h7, h8⟩ := ih t ht
      have hl : (s.drop n).length = s.length - n := by simp
      refine ⟨h1, h2, by omega, h4, h5, by omega, ?_, ?_⟩
      · rw [h7, List.drop_drop]; congr 2; omega
      · rw [List.drop_drop] at h8; rw [show t.sc - 1 - off = n + (t.sc - 1 - (off + n)) by omega]; exact h8
  | @gap s off n segs hn hle hb _ ih =>
    intro t ht
    simp only [tokensOf_gap] at ht
    obtain ⟨h1, h2, h3, h4, h5, h6, h7, h8⟩ := ih t ht
    have hl : (s.drop n).length = s.length - n := by simp
    refine ⟨h1, h2, by omega, h4, h5, by omega, ?_, ?_⟩
    · rw [h7, List.drop_drop]; congr 2; omega
    · rw [List.drop_drop] at h8; rw [show t.sc - 1 - off = n + (t.sc - 1 - (off + n)) by omega]; exact h8

/-- Tokens of a cover are disjoint and in order: each ends no later than the next begins. -/
theorem Covers.ordered {pats ln s off segs} (h : Covers pats ln s off segs) :
    (tokensOf segs).Pairwise (fun a b => a.ec ≤ b.sc) := by
  induction h with
  | nil => simp
  | @tok s off n name segs hn hle hb hc ih =>
    simp only [tokensOf_tok, List.pairwise_cons]
    refine ⟨?_, ih⟩
    intro b hb'
    have := (hc.token_facts b hb').2.2.1
    show off + n + 1 ≤ b.sc
    omega
  | gap _ _ _ _ ih => simpa using ih

end Emboss.Tok
