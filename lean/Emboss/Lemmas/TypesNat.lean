import Emboss.Lemmas.TypesLoc
import Emboss.Lemmas.TypesMod
namespace Emboss.Types

/-! User-written (non-synthetic) input: every error is visible, so the pipeline stops at the
first pass that objects and never reaches the unguarded reads. -/

theorem natural_loc {e : Expr} (h : natural e = true) : e.loc.syn = false := by
  cases e <;> simp [natural] at h <;> simp [Expr.loc] <;> first | exact h | exact h.1

theorem naturalList_mem {es : List Expr} (h : naturalList es = true) : ∀ a ∈ es, natural a = true := by
  induction es with
  | nil => intro a ha; cases ha
  | cons e es ih =>
    simp only [naturalList, Bool.and_eq_true] at h
    intro a ha
    rcases List.mem_cons.1 ha with rfl | ha
    · exact h.1
    · exact ih h.2 a ha

theorem hidden_of {er : Err} (hl : er.l.syn = false) (hn : er.notes = []) : er.hidden = false := by
  simp [Err.hidden, hl, hn]

mutual
theorem tc_visible (e : Expr) : natural e = true → ∀ (file : FileId), ∀ er ∈ (tc file e).errs,
    er.hidden = false :=
  match e with
  | .num _ | .boolc _ | .enumv _ _ | .lparam _ _ | .lparamArr _ | .lphys _ _ => by
    intro _ file er h; simp [tc, Res.pure] at h
  | .cother l => by
    intro hn file er h
    simp [tc, err] at h; subst h
    simp [natural] at hn; simp [Err.hidden, hn]
  | .builtin l b => by
    intro hn file er h
    cases b <;> simp [tc, Res.pure, err] at h
    subst h; simp [natural] at hn; simp [Err.hidden, hn]
  | .cphys l df dl => by
    intro hn file er h
    simp [tc] at h; subst h
    simp [natural] at hn; simp [Err.hidden, hn.1, hn.2]
  | .cvirt l df d => by
    intro hn file er h
    simp only [natural, Bool.and_eq_true] at hn
    simp only [tc] at h; exact tc_visible d hn.2 df er h
  | .lvirt l df d => by
    intro hn file er h
    simp only [natural, Bool.and_eq_true] at hn
    simp only [tc] at h; exact tc_visible d hn.2 df er h
  | .bin l op a b => by
    intro hn file er h
    simp only [natural, Bool.and_eq_true, Bool.not_eq_true'] at hn
    rcases bin_errs h with h | h | ⟨_, hno, h | h | h⟩
    · exact tc_visible a hn.2.1 file er h
    · exact tc_visible b hn.2.2 file er h
    · exact hidden_of (h ▸ natural_loc hn.2.1) hno
    · exact hidden_of (h ▸ natural_loc hn.2.2) hno
    · exact hidden_of (h ▸ hn.1) hno
  | .choice l c t f => by
    intro hn file er h
    simp only [natural, Bool.and_eq_true, Bool.not_eq_true'] at hn
    rcases choice_errs h with h | h | h | ⟨_, hno, h | h | h⟩
    · exact tc_visible c hn.2.1 file er h
    · exact tc_visible t hn.2.2.1 file er h
    · exact tc_visible f hn.2.2.2 file er h
    · exact hidden_of (h ▸ natural_loc hn.2.1) hno
    · exact hidden_of (h ▸ natural_loc hn.2.2.1) hno
    · exact hidden_of (h ▸ hn.1) hno
  | .fn l f args => by
    intro hn file er h
    simp only [natural, Bool.and_eq_true, Bool.not_eq_true'] at hn
    simp only [tc, List.mem_append] at h
    rcases h with (h | h) | h
    · exact tcList_visible args hn.2 file er h
    · obtain ⟨a, ha, h', _, hno⟩ := fnArgErrs_loc file f 0 args _ er h
      exact hidden_of (h' ▸ natural_loc (naturalList_mem hn.2 a ha)) hno
    · split at h
      · simp at h
      · simp only [List.mem_singleton] at h; subst h
        simp [Err.hidden, err, hn.1]
theorem tcList_visible (es : List Expr) : naturalList es = true → ∀ (file : FileId),
    ∀ er ∈ (tcList file es).errs, er.hidden = false :=
  match es with
  | [] => by intro _ file er h; simp [tcList] at h
  | e :: es => by
    intro hn file er h
    simp only [naturalList, Bool.and_eq_true] at hn
    simp only [tcList, List.mem_append] at h
    rcases h with h | h
    · exact tc_visible e hn.1 file er h
    · exact tcList_visible es hn.2 file er h
end

/-- the module's expressions and parameter declarations are user-written -/
def Module.natural (m : Module) : Prop :=
  (∀ e ∈ m.exprs, Emboss.Types.natural e.2 = true) ∧ ∀ p ∈ m.params, p.l.syn = false

theorem tcAll_visible : ∀ (es : List FExpr), (∀ e ∈ es, natural e.2 = true) →
    ∀ er ∈ tcAll es, er.hidden = false
  | [], _ => by intro er h; simp [tcAll] at h
  | e :: es, hn => by
    intro er h
    simp only [tcAll, List.mem_append] at h
    rcases h with h | h
    · exact tc_visible e.2 (hn e (by simp)) e.1 er h
    · exact tcAll_visible es (fun x hx => hn x (by simp [hx])) er h

theorem annotate_visible (m : Module) (hn : m.natural) : ∀ er ∈ annotate m, er.hidden = false := by
  intro er h
  simp only [annotate, List.mem_append, List.mem_flatMap] at h
  rcases h with h | ⟨p, hp, h⟩
  · exact tcAll_visible m.exprs hn.1 er h
  · split at h
    · simp only [List.mem_singleton] at h; subst h
      simp [Err.hidden, err, hn.2 p hp]
    · cases h

/-- for user-written modules the only raising site that can be reached is the open
`[is_signed: <non-literal>]` one -/
theorem run_crashed_natural (m : Module) (wf : m.wf) (hn : m.natural) (k : Crash)
    (h : run m = .crashed k) : k = .attrSignedNotLiteral := by
  rcases run_crashed m wf k h with hk | ⟨hne, hall⟩
  · exact hk
  · cases ha : annotate m with
    | nil => exact absurd ha hne
    | cons er rest =>
      have h1 := hall er (by simp [ha])
      have h2 := annotate_visible m hn er (by simp [ha])
      rw [h1] at h2; cases h2

/-- user-written module whose `[is_signed]` attributes are literals: nothing raises -/
theorem run_total_natural (m : Module) (wf : m.wf) (hn : m.natural) (hl : attrLate m.attrs = none)
    (k : Crash) : run m ≠ .crashed k := by
  intro h
  have hk := run_crashed_natural m wf hn k h
  subst hk
  by_cases ha : annotate m = []
  · have ⟨hte, hpa⟩ := (annotate_nil m).1 ha
    have hti : ∀ e ∈ inspected m, Typed e := fun e he => hte e (wf e (by simp [he]))
    have hta : ∀ e ∈ attrExprs m.attrs, Typed e := fun e he => hte e (wf e (by simp [he]))
    have c1 := checkTypes_crash m hti hpa
    have c2 := attrAll_crash m.attrs hta
    unfold run at h
    simp only [ha, c1, c2, hl] at h
    revert h
    simp only [List.filter_nil, ne_eq, not_true_eq_false, if_false]
    repeat' split
    all_goals (intro h; cases h)
  · cases hann : annotate m with
    | nil => exact ha hann
    | cons er rest =>
      have h2 := annotate_visible m hn er (by simp [hann])
      unfold run at h
      simp only at h
      split at h
      · cases h
      · rename_i hf
        simp only [ne_eq, Decidable.not_not, List.filter_eq_nil_iff] at hf
        have := hf er (by simp [hann])
        simp [h2] at this

/-! ### where the errors of the three passes lie -/

/-- the error is located — location and file name — at one of the module's own items: inside a
top-level expression (through references: inside the referred definition, in its file), at a
parameter declaration, at an inspected expression, at a type use with parameters, or at an
attribute value. -/
inductive ErrAt (m : Module) (er : Err) : Prop
  | expr {e : FExpr} : e ∈ m.exprs → LocIn er.l er.file e.1 e.2 → ErrAt m er
  | param {p : Param} : p ∈ m.params → er.l = p.l → er.file = p.file → ErrAt m er
  | position {e : FExpr} : e ∈ inspected m → er.l = e.2.loc → er.file = e.1 → ErrAt m er
  | passed {p : Passed} : p ∈ m.passed → er.l = p.l → er.file = p.file → ErrAt m er
  | attr {a : Attr} : a ∈ m.attrs → er.l = a.l → er.file = a.file → ErrAt m er

theorem tcAll_at : ∀ (es : List FExpr), ∀ er ∈ tcAll es, ∃ e ∈ es, LocIn er.l er.file e.1 e.2
  | [], er, h => by simp [tcAll] at h
  | e :: es, er, h => by
    simp only [tcAll, List.mem_append] at h
    rcases h with h | h
    · exact ⟨e, by simp, tc_loc e.2 e.1 er h⟩
    · obtain ⟨e', he', h'⟩ := tcAll_at es er h
      exact ⟨e', by simp [he'], h'⟩

theorem annotate_at (m : Module) : ∀ er ∈ annotate m, ErrAt m er := by
  intro er h
  simp only [annotate, List.mem_append, List.mem_flatMap] at h
  rcases h with h | ⟨p, hp, h⟩
  · obtain ⟨e, he, h'⟩ := tcAll_at m.exprs er h
    exact .expr he h'
  · split at h
    · simp only [List.mem_singleton] at h; subst h; exact .param hp rfl rfl
    · cases h

theorem wantTy_at {want : Ty} {c : Cls} {e : FExpr} {er : Err} (h : er ∈ wantTy want c e) :
    er.l = e.2.loc ∧ er.file = e.1 := by
  unfold wantTy at h
  split at h
  · cases h
  · simp only [List.mem_singleton] at h; subst h; exact ⟨rfl, rfl⟩

theorem paramAll_at : ∀ (ps : List Param), ∀ er ∈ (paramAll ps).errs, ∃ p ∈ ps, er.l = p.l ∧ er.file = p.file
  | [], er, h => by simp [paramAll] at h
  | p :: ps, er, h => by
    simp only [paramAll, PassRes.app, List.mem_append] at h
    rcases h with h | h
    · refine ⟨p, by simp, ?_⟩
      unfold paramOne at h
      split at h <;> simp [err] at h
      subst h; exact ⟨rfl, rfl⟩
    · obtain ⟨q, hq, h'⟩ := paramAll_at ps er h
      exact ⟨q, by simp [hq], h'⟩

theorem passedArgs_at (p : Passed) : ∀ (i : Nat) (ts : List (Ty × Loc)) (gs : List Expr),
    ∀ er ∈ (passedArgs p i ts gs).errs, ∃ g ∈ gs, er.l = g.loc ∧ er.file = p.file
  | _, [], _, er, h => by simp [passedArgs] at h
  | _, _ :: _, [], er, h => by simp [passedArgs] at h
  | i, (t, pl) :: ts, g :: gs, er, h => by
    have ih := passedArgs_at p (i + 1) ts gs er
    simp only [passedArgs] at h
    repeat' split at h
    · obtain ⟨g', hg', h'⟩ := ih h; exact ⟨g', by simp [hg'], h'⟩
    · obtain ⟨g', hg', h'⟩ := ih h; exact ⟨g', by simp [hg'], h'⟩
    · simp at h
    · simp only [List.mem_cons] at h
      rcases h with rfl | h
      · exact ⟨g, by simp, rfl, rfl⟩
      · obtain ⟨g', hg', h'⟩ := ih h; exact ⟨g', by simp [hg'], h'⟩

theorem passedAll_at (m : Module) : ∀ (ps : List Passed), (∀ p ∈ ps, p ∈ m.passed) →
    ∀ er ∈ (passedAll ps).errs, ErrAt m er
  | [], _, er, h => by simp [passedAll] at h
  | p :: ps, hs, er, h => by
    simp only [passedAll, PassRes.app, List.mem_append] at h
    rcases h with h | h
    · have hp : p ∈ m.passed := hs p (by simp)
      unfold passedOne at h
      split at h
      · simp only [List.mem_singleton] at h; subst h; exact .passed hp rfl rfl
      · obtain ⟨g, hg, h1, h2⟩ := passedArgs_at p 0 _ _ er h
        refine .position (e := (p.file, g)) ?_ h1 h2
        simp only [inspected, List.mem_append, List.mem_flatMap, List.mem_map]
        exact .inr ⟨p, hp, g, hg, rfl⟩
    · exact passedAll_at m ps (fun q hq => hs q (by simp [hq])) er h

theorem checkTypes_at (m : Module) : ∀ er ∈ (checkTypes m).errs, ErrAt m er := by
  intro er h
  simp only [checkTypes, PassRes.app, List.mem_append, List.mem_flatMap] at h
  rcases h with ((((⟨p, hp, h⟩ | ⟨a, ha, h⟩) | ⟨c, hc, h⟩) | ⟨v, hv, h⟩) | h) | h
  · rcases h with h | h
    · obtain ⟨h1, h2⟩ := wantTy_at h
      refine .position (e := (p.1, p.2.1)) ?_ h1 h2
      simp only [inspected, List.mem_append, List.mem_flatMap]
      exact .inl (.inl (.inl (.inl ⟨p, hp, by simp⟩)))
    · obtain ⟨h1, h2⟩ := wantTy_at h
      refine .position (e := (p.1, p.2.2)) ?_ h1 h2
      simp only [inspected, List.mem_append, List.mem_flatMap]
      exact .inl (.inl (.inl (.inl ⟨p, hp, by simp⟩)))
  · obtain ⟨h1, h2⟩ := wantTy_at h
    refine .position (e := a) ?_ h1 h2
    simp only [inspected, List.mem_append]
    exact .inl (.inl (.inl (.inr ha)))
  · obtain ⟨h1, h2⟩ := wantTy_at h
    refine .position (e := c) ?_ h1 h2
    simp only [inspected, List.mem_append]
    exact .inl (.inl (.inr hc))
  · split at h
    · cases h
    · simp only [List.mem_singleton] at h; subst h
      refine .position (e := v) ?_ rfl rfl
      simp only [inspected, List.mem_append]
      exact .inl (.inr hv)
  · obtain ⟨p, hp, h1, h2⟩ := paramAll_at m.params er h
    exact .param hp h1 h2
  · exact passedAll_at m m.passed (fun _ hp => hp) er h

theorem attrOne_at (a : Attr) : ∀ er ∈ (attrOne a).errs, er.l = a.l ∧ er.file = a.file := by
  intro er h
  rcases a with ⟨file, l, k, sg, v, c⟩
  cases v <;> cases k <;> simp only [attrOne] at h
  all_goals (repeat' split at h)
  all_goals simp [err] at h
  all_goals (try (subst h; exact ⟨rfl, rfl⟩))

theorem attrAll_at (m : Module) : ∀ (as : List Attr), (∀ a ∈ as, a ∈ m.attrs) →
    ∀ er ∈ (attrAll as).errs, ErrAt m er
  | [], _, er, h => by simp [attrAll] at h
  | a :: as, hs, er, h => by
    simp only [attrAll, PassRes.app, List.mem_append] at h
    rcases h with h | h
    · obtain ⟨h1, h2⟩ := attrOne_at a er h
      exact .attr (hs a (by simp)) h1 h2
    · exact attrAll_at m as (fun q hq => hs q (by simp [hq])) er h

end Emboss.Types
