/-
Level B, closure / goto core of the generator model (Model/Lr1Gen.lean): the worklist closure
returns a set that contains its seed, is closed under "an item with `X` after the dot brings
`[X → . γ, c]` for every `c ∈ FIRST(β a)`" (the validator's `VClosure`, over the generator's own
FIRST table), and adds only dot-0 items that some item of the result brings in; every state of
`gen G` is such a set, state 0 is the closure of `[S' → . start, $]`.
-/
import Emboss.Model.Lr1Gen
import Emboss.Lemmas.Lr1Basic
namespace Emboss.Lr1
namespace Gen

variable {C : Cert}

/-! ### `succsOf` -/

theorem mem_succsOf {it y : Item} : y ∈ succsOf C it ↔
    ∃ p x, C.ruleAt it.pi = some p ∧ p.rhs[it.dot]? = some x ∧
      ∃ j ∈ C.prodsFor x, ∃ c ∈ C.firstSeq (p.rhs.drop (it.dot + 1)) [it.la], y = ⟨j, 0, c⟩ := by
  constructor
  · intro h
    unfold succsOf at h
    cases hp : C.ruleAt it.pi with
    | none => simp [hp] at h
    | some p =>
      cases hx : p.rhs[it.dot]? with
      | none => simp [hp, hx] at h
      | some x =>
        simp only [hp, hx, List.mem_flatMap, List.mem_map] at h
        obtain ⟨j, hj, c, hc, rfl⟩ := h
        exact ⟨p, x, rfl, hx, j, hj, c, hc, rfl⟩
  · rintro ⟨p, x, hp, hx, j, hj, c, hc, rfl⟩
    unfold succsOf
    simp only [hp, hx, List.mem_flatMap, List.mem_map]
    exact ⟨j, hj, c, hc, rfl⟩

theorem succsOf_dot {it y : Item} (h : y ∈ succsOf C it) : y.dot = 0 := by
  obtain ⟨_, _, _, _, _, _, _, _, rfl⟩ := mem_succsOf.mp h
  rfl

/-- closed under the one-step closure relation -/
def Closed (C : Cert) (S : List Item) : Prop := ∀ it ∈ S, ∀ y ∈ succsOf C it, y ∈ S

/-- `Closed` is the validator's closure condition for one state -/
theorem Closed.vclosure {S : List Item} (h : Closed C S) :
    ∀ it ∈ S, ∀ p ∈ C.ruleAt it.pi, ∀ x ∈ p.rhs[it.dot]?, ∀ j ∈ C.prodsFor x,
      ∀ c ∈ C.firstSeq (p.rhs.drop (it.dot + 1)) [it.la], (⟨j, 0, c⟩ : Item) ∈ S := by
  intro it hit p hp x hx j hj c hc
  exact h it hit _ (mem_succsOf.mpr ⟨p, x, hp, hx, j, hj, c, hc, rfl⟩)

/-! ### the worklist -/

theorem addNew_spec : ∀ (js acc todo : List Item),
    (∀ x ∈ acc, x ∈ (addNew acc todo js).1) ∧
    (∀ x ∈ todo, x ∈ (addNew acc todo js).2) ∧
    (∀ x ∈ js, x ∈ (addNew acc todo js).1) ∧
    (∀ x ∈ (addNew acc todo js).1, x ∈ acc ∨ x ∈ js) ∧
    (∀ x ∈ (addNew acc todo js).2, x ∈ todo ∨ x ∈ (addNew acc todo js).1) ∧
    (∀ x ∈ (addNew acc todo js).1, x ∉ (addNew acc todo js).2 → x ∈ acc ∧ x ∉ todo)
  | [], acc, todo =>
    ⟨fun _ h => h, fun _ h => h, fun _ h => (List.not_mem_nil h).elim, fun _ h => Or.inl h, fun _ h => Or.inl h,
      fun _ h hn => ⟨h, hn⟩⟩
  | j :: js, acc, todo => by
    unfold addNew
    by_cases hc : acc.contains j = true
    · simp only [hc, if_true]
      obtain ⟨h1, h2, h3, h4, h5, h6⟩ := addNew_spec js acc todo
      refine ⟨h1, h2, ?_, ?_, h5, h6⟩
      · intro x hx
        rcases List.mem_cons.mp hx with rfl | hx
        · exact h1 _ (by simpa using hc)
        · exact h3 x hx
      · intro x hx
        rcases h4 x hx with h | h
        · exact Or.inl h
        · exact Or.inr (List.mem_cons_of_mem _ h)
    · simp only [hc, Bool.false_eq_true, if_false]
      obtain ⟨h1, h2, h3, h4, h5, h6⟩ := addNew_spec js (j :: acc) (j :: todo)
      have hj : j ∉ acc := by simpa using hc
      refine ⟨fun x hx => h1 x (List.mem_cons_of_mem _ hx), fun x hx => h2 x (List.mem_cons_of_mem _ hx),
        ?_, ?_, ?_, ?_⟩
      · intro x hx
        rcases List.mem_cons.mp hx with rfl | hx
        · exact h1 _ List.mem_cons_self
        · exact h3 x hx
      · intro x hx
        rcases h4 x hx with h | h
        · rcases List.mem_cons.mp h with rfl | h
          · exact Or.inr List.mem_cons_self
          · exact Or.inl h
        · exact Or.inr (List.mem_cons_of_mem _ h)
      · intro x hx
        rcases h5 x hx with h | h
        · rcases List.mem_cons.mp h with rfl | h
          · exact Or.inr (h1 _ List.mem_cons_self)
          · exact Or.inl h
        · exact Or.inr h
      · intro x hx hnx
        obtain ⟨ha, hn⟩ := h6 x hx hnx
        rcases List.mem_cons.mp ha with rfl | ha
        · exact absurd List.mem_cons_self hn
        · exact ⟨ha, fun ht => hn (List.mem_cons_of_mem _ ht)⟩

/-- The worklist invariant and what it gives at the end. -/
theorem closeLoop_spec : ∀ (f : Nat) (todo acc S : List Item), closeLoop C f todo acc = some S →
    (∀ x ∈ todo, x ∈ acc) → (∀ x ∈ acc, x ∉ todo → ∀ y ∈ succsOf C x, y ∈ acc) →
    (∀ x ∈ acc, x ∈ S) ∧ Closed C S ∧
      (∀ x ∈ S, x ∈ acc ∨ (x.dot = 0 ∧ ∃ y ∈ S, x ∈ succsOf C y))
  | _, [], acc, S, h, _, hinv => by
    simp only [closeLoop] at h
    cases h
    exact ⟨fun _ hx => hx, fun x hx y hy => hinv x hx (by simp) y hy, fun x hx => Or.inl hx⟩
  | 0, _ :: _, _, _, h, _, _ => by simp [closeLoop] at h
  | f + 1, it :: todo, acc, S, h, hsub, hinv => by
    simp only [closeLoop] at h
    obtain ⟨h1, h2, h3, h4, h5, h6⟩ := addNew_spec (succsOf C it) acc todo
    have hit : it ∈ acc := hsub it List.mem_cons_self
    have ih := closeLoop_spec f _ _ S h
      (by
        intro x hx
        rcases h5 x hx with ht | ha
        · exact h1 x (hsub x (List.mem_cons_of_mem _ ht))
        · exact ha)
      (by
        intro x hx hnx y hy
        obtain ⟨hxa, hxt⟩ := h6 x hx hnx
        by_cases he : x = it
        · subst he; exact h3 y hy
        · exact h1 y (hinv x hxa (by
            intro hm
            rcases List.mem_cons.mp hm with hm | hm
            · exact he hm
            · exact hxt hm) y hy))
    obtain ⟨ia, ic, ij⟩ := ih
    refine ⟨fun x hx => ia x (h1 x hx), ic, ?_⟩
    intro x hx
    rcases ij x hx with ha | hj
    · rcases h4 x ha with ha | hs
      · exact Or.inl ha
      · exact Or.inr ⟨succsOf_dot hs, it, ia it (h1 it hit), hs⟩
    · exact Or.inr hj

theorem closure_spec {seed S : List Item} (h : closure C seed = some S) :
    (∀ x ∈ seed, x ∈ S) ∧ Closed C S ∧
      (∀ x ∈ S, x ∈ seed ∨ (x.dot = 0 ∧ ∃ y ∈ S, x ∈ succsOf C y)) :=
  closeLoop_spec _ seed seed S h (fun _ hx => hx) (fun x hx hnx => absurd hx hnx)

/-! ### sets as sorted lists -/

theorem mem_insertS {x z : Item} : ∀ {l : List Item}, z ∈ insertS x l ↔ z = x ∨ z ∈ l
  | [] => by simp [insertS]
  | y :: ys => by
    unfold insertS
    by_cases h1 : x = y
    · subst h1; simp
    · simp only [h1, if_false]
      by_cases h2 : Item.lt x y = true
      · simp [h2]
      · simp only [h2, Bool.false_eq_true, if_false, List.mem_cons, mem_insertS (l := ys)]
        constructor
        · rintro (h | h | h)
          · exact Or.inr (Or.inl h)
          · exact Or.inl h
          · exact Or.inr (Or.inr h)
        · rintro (h | h | h)
          · exact Or.inr (Or.inl h)
          · exact Or.inl h
          · exact Or.inr (Or.inr h)

theorem mem_norm {z : Item} : ∀ {l : List Item}, z ∈ norm l ↔ z ∈ l
  | [] => by simp [norm]
  | x :: xs => by
    have ih := mem_norm (z := z) (l := xs)
    simp only [norm, List.foldr_cons, List.mem_cons] at ih ⊢
    rw [mem_insertS, ih]

theorem Closed.norm {S : List Item} (h : Closed C S) : Closed C (norm S) :=
  fun it hit y hy => mem_norm.mpr (h it (mem_norm.mp hit) y hy)

/-! ### goto -/

theorem gotoSet_spec {I J : List Item} {x : Nat} (h : gotoSet C I x = some J) :
    (∀ it ∈ I, C.nextSyms it = [x] → advance it ∈ J) ∧ Closed C J ∧
    (∀ y ∈ J, y.dot = 0 ∨ ∃ it ∈ I, C.nextSyms it = [x] ∧ y = advance it) := by
  obtain ⟨h1, h2, h3⟩ := closure_spec h
  refine ⟨?_, h2, ?_⟩
  · intro it hit hn
    exact h1 _ (List.mem_map.mpr ⟨it, List.mem_filter.mpr ⟨hit, by simp [hn]⟩, rfl⟩)
  · intro y hy
    rcases h3 y hy with hs | ⟨h0, _⟩
    · obtain ⟨it, hf, rfl⟩ := List.mem_map.mp hs
      obtain ⟨hit, hn⟩ := List.mem_filter.mp hf
      exact Or.inr ⟨it, hit, by simpa using hn, rfl⟩
    · exact Or.inl h0

/-! ### the tables do not depend on the item sets of the certificate -/

def withItems (C : Cert) (items : Array (List Item)) : Cert := { C with items := items }

theorem firstSeq_withItems (C : Cert) (items : Array (List Item)) : ∀ (β t : List Nat),
    (withItems C items).firstSeq β t = C.firstSeq β t
  | [], _ => rfl
  | x :: β, t => by
    simp only [Cert.firstSeq, firstSeq_withItems C items β t]
    rfl

theorem succsOf_withItems (C : Cert) (items : Array (List Item)) (it : Item) :
    succsOf (withItems C items) it = succsOf C it := by
  unfold succsOf
  have h1 : (withItems C items).ruleAt it.pi = C.ruleAt it.pi := rfl
  rw [h1]
  cases C.ruleAt it.pi with
  | none => rfl
  | some p =>
    simp only []
    cases p.rhs[it.dot]? with
    | none => rfl
    | some x =>
      simp only [firstSeq_withItems]
      rfl

theorem Closed.withItems {S : List Item} (items : Array (List Item)) (h : Closed C S) :
    Closed (withItems C items) S := by
  intro it hit y hy
  rw [succsOf_withItems] at hy
  exact h it hit y hy

/-! ### the states of `gen G` -/

def StatesOK (C : Cert) (I0 : List Item) (st : St) : Prop :=
  st.states[0]? = some (Gen.norm I0) ∧ ∀ I ∈ st.states.toList, Closed C I

theorem expand_ok {I0 I : List Item} : ∀ (xs : List Nat) (st : St) (row : List (Nat × Nat)) (st' : St)
    (row' : List (Nat × Nat)), expand C I xs st row = some (st', row') → StatesOK C I0 st → StatesOK C I0 st'
  | [], st, row, st', row', h, hs => by
    simp only [expand, Option.some.injEq, Prod.mk.injEq] at h
    rw [← h.1]; exact hs
  | x :: xs, st, row, st', row', h, hs => by
    simp only [expand] at h
    cases hg : gotoSet C I x with
    | none => simp [hg] at h
    | some J =>
      simp only [hg] at h
      cases hi : stateIndex st (Gen.norm J) with
      | some k =>
        simp only [hi] at h
        exact expand_ok xs st _ st' row' h hs
      | none =>
        simp only [hi] at h
        refine expand_ok xs _ _ st' row' h ⟨?_, ?_⟩
        · have h0 := hs.1
          have hlt : 0 < st.states.size := by
            by_cases hz : 0 < st.states.size
            · exact hz
            · simp [Array.getElem?_eq_none (Nat.le_of_not_lt hz)] at h0
          show (st.states.push (Gen.norm J))[0]? = _
          rw [Array.getElem?_push, if_neg (Nat.ne_of_lt hlt)]
          exact h0
        · intro K hK
          simp only [Array.toList_push, List.mem_append, List.mem_singleton] at hK
          rcases hK with hK | rfl
          · exact hs.2 K hK
          · exact (gotoSet_spec hg).2.1.norm

theorem bfs_ok {I0 : List Item} : ∀ (f i : Nat) (st st' : St), bfs C f i st = some st' →
    StatesOK C I0 st → StatesOK C I0 st'
  | 0, _, _, _, h, _ => by simp [bfs] at h
  | f + 1, i, st, st', h, hs => by
    simp only [bfs] at h
    cases hI : st.states[i]? with
    | none => simp only [hI, Option.some.injEq] at h; rw [← h]; exact hs
    | some I =>
      simp only [hI] at h
      cases he : expand C I (normN (I.flatMap C.nextSyms)) st [] with
      | none => simp [he] at h
      | some r =>
        obtain ⟨st1, row⟩ := r
        simp only [he] at h
        have h1 := expand_ok (I0 := I0) _ _ _ _ _ he hs
        exact bfs_ok f (i + 1) _ st' h ⟨h1.1, h1.2⟩

end Gen

open Gen in
/-- Every state of the generated automaton is closed (the validator's `VClosure` holds for the
generator's output, over the generator's own FIRST table), state 0 contains `[S' → . start, $]`
and has only dot-0 items. -/
theorem gen_closure_start {G : Grammar} {o : Gen.Out} (h : gen G = some o) :
    VClosure (listMem o.cert) o.cert ∧ VStart (listMem o.cert) G o.cert := by
  unfold gen at h
  cases hC : Gen.tables G with
  | none => simp [hC] at h
  | some C =>
    simp only [hC] at h
    cases hI : Gen.closure C [⟨C.seedIdx, 0, G.eoi⟩] with
    | none => simp [hI] at h
    | some I0 =>
      simp only [hI] at h
      cases hb : Gen.bfs C (1000000 + Gen.itemBound C) 0 ⟨#[Gen.norm I0], #[]⟩ with
      | none => simp [hb] at h
      | some st =>
        simp only [hb, Option.some.injEq] at h
        obtain ⟨c1, c2, c3⟩ := closure_spec hI
        have hok : StatesOK C I0 st := bfs_ok (I0 := I0) _ _ _ _ hb
          ⟨by simp, by
            intro I hI'
            simp only [List.mem_singleton] at hI'
            have : I = Gen.norm I0 := by simpa using hI'
            rw [this]; exact c2.norm⟩
        subst h
        show VClosure (listMem (withItems C st.states)) (withItems C st.states) ∧
          VStart (listMem (withItems C st.states)) G (withItems C st.states)
        constructor
        · intro s hs it hit p hp x hx j hj c hc
          simp only [listMem, Cert.itemsOf] at hit ⊢
          have hs' : s < st.states.size := hs
          have he : (withItems C st.states).items[s]? = some st.states[s] := Array.getElem?_eq_getElem hs'
          simp only [he, Option.getD_some] at hit ⊢
          have hcl := (hok.2 st.states[s] (Array.getElem_mem_toList hs')).withItems st.states
          exact hcl.vclosure it hit p hp x hx j hj c hc
        · have h0 : (withItems C st.states).items[0]? = some (Gen.norm I0) := hok.1
          constructor
          · simp only [listMem, Cert.itemsOf, h0, Option.getD_some]
            exact mem_norm.mpr (c1 _ (by simp [Cert.seedIdx, withItems]))
          · intro it hit
            simp only [Cert.itemsOf, h0, Option.getD_some] at hit
            rcases c3 it (mem_norm.mp hit) with hsd | ⟨hd, _⟩
            · simp only [List.mem_singleton] at hsd; rw [hsd]
            · exact hd

end Emboss.Lr1
