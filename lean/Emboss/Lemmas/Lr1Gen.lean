/-
Level B, part 2: closure / goto core of the generator model (Model/Lr1Gen.lean): the worklist
closure returns a set that contains its seed, is closed under "an item with `X` after the dot
brings `[X → . γ, c]` for every `c ∈ FIRST(β a)`" (the validator's `VClosure`, over the generator's
own FIRST table), and adds only dot-0 items that some item of the result brings in; it preserves
every item predicate that the one-step closure preserves; and the order in which it finds the
items is a justification order (the validator's `VOrder`).
-/
import Emboss.Model.Lr1Gen
import Emboss.Lemmas.Lr1Basic
namespace Emboss.Lr1
namespace Gen

variable {C : Cert}

/-! ### `succsOf` -/

theorem mem_succsOf {it y : Item} : y ∈ succsOf C it ↔
    ∃ p x, C.ruleAt it.pi = some p ∧ p.rhs[it.dot]? = some x ∧
      ∃ j ∈ C.prodsFor x, ∃ c ∈ C.firstSeq (p.rhs.drop (it.dot + 1)) [it.la], y = ⟨j, 0, c⟩ := by
  constructor
  · intro h
    unfold succsOf at h
    cases hp : C.ruleAt it.pi with
    | none => simp [hp] at h
    | some p =>
      cases hx : p.rhs[it.dot]? with
      | none => simp [hp, hx] at h
      | some x =>
        simp only [hp, hx, List.mem_flatMap, List.mem_map] at h
        obtain ⟨j, hj, c, hc, rfl⟩ := h
        exact ⟨p, x, rfl, hx, j, hj, c, hc, rfl⟩
  · rintro ⟨p, x, hp, hx, j, hj, c, hc, rfl⟩
    unfold succsOf
    simp only [hp, hx, List.mem_flatMap, List.mem_map]
    exact ⟨j, hj, c, hc, rfl⟩

theorem succsOf_dot {it y : Item} (h : y ∈ succsOf C it) : y.dot = 0 := by
  obtain ⟨_, _, _, _, _, _, _, _, rfl⟩ := mem_succsOf.mp h
  rfl

/-- closed under the one-step closure relation -/
def Closed (C : Cert) (S : List Item) : Prop := ∀ it ∈ S, ∀ y ∈ succsOf C it, y ∈ S

/-- `Closed` is the validator's closure condition for one state -/
theorem Closed.vclosure {S : List Item} (h : Closed C S) :
    ∀ it ∈ S, ∀ p ∈ C.ruleAt it.pi, ∀ x ∈ p.rhs[it.dot]?, ∀ j ∈ C.prodsFor x,
      ∀ c ∈ C.firstSeq (p.rhs.drop (it.dot + 1)) [it.la], (⟨j, 0, c⟩ : Item) ∈ S := by
  intro it hit p hp x hx j hj c hc
  exact h it hit _ (mem_succsOf.mpr ⟨p, x, hp, hx, j, hj, c, hc, rfl⟩)

/-! ### the worklist -/

theorem addNew_spec : ∀ (js acc todo : List Item),
    (∀ x ∈ acc, x ∈ (addNew acc todo js).1) ∧
    (∀ x ∈ todo, x ∈ (addNew acc todo js).2) ∧
    (∀ x ∈ js, x ∈ (addNew acc todo js).1) ∧
    (∀ x ∈ (addNew acc todo js).1, x ∈ acc ∨ x ∈ js) ∧
    (∀ x ∈ (addNew acc todo js).2, x ∈ todo ∨ x ∈ (addNew acc todo js).1) ∧
    (∀ x ∈ (addNew acc todo js).1, x ∉ (addNew acc todo js).2 → x ∈ acc ∧ x ∉ todo)
  | [], acc, todo =>
    ⟨fun _ h => h, fun _ h => h, fun _ h => (List.not_mem_nil h).elim, fun _ h => Or.inl h, fun _ h => Or.inl h,
      fun _ h hn => ⟨h, hn⟩⟩
  | j :: js, acc, todo => by
    unfold addNew
    by_cases hc : acc.contains j = true
    · simp only [hc, if_true]
      obtain ⟨h1, h2, h3, h4, h5, h6⟩ := addNew_spec js acc todo
      refine ⟨h1, h2, ?_, ?_, h5, h6⟩
      · intro x hx
        rcases List.mem_cons.mp hx with rfl | hx
        · exact h1 _ (by simpa using hc)
        · exact h3 x hx
      · intro x hx
        rcases h4 x hx with h | h
        · exact Or.inl h
        · exact Or.inr (List.mem_cons_of_mem _ h)
    · simp only [hc, Bool.false_eq_true, if_false]
      obtain ⟨h1, h2, h3, h4, h5, h6⟩ := addNew_spec js (j :: acc) (j :: todo)
      have hj : j ∉ acc := by simpa using hc
      refine ⟨fun x hx => h1 x (List.mem_cons_of_mem _ hx), fun x hx => h2 x (List.mem_cons_of_mem _ hx),
        ?_, ?_, ?_, ?_⟩
      · intro x hx
        rcases List.mem_cons.mp hx with rfl | hx
        · exact h1 _ List.mem_cons_self
        · exact h3 x hx
      · intro x hx
        rcases h4 x hx with h | h
        · rcases List.mem_cons.mp h with rfl | h
          · exact Or.inr List.mem_cons_self
          · exact Or.inl h
        · exact Or.inr (List.mem_cons_of_mem _ h)
      · intro x hx
        rcases h5 x hx with h | h
        · rcases List.mem_cons.mp h with rfl | h
          · exact Or.inr (h1 _ List.mem_cons_self)
          · exact Or.inl h
        · exact Or.inr h
      · intro x hx hnx
        obtain ⟨ha, hn⟩ := h6 x hx hnx
        rcases List.mem_cons.mp ha with rfl | ha
        · exact absurd List.mem_cons_self hn
        · exact ⟨ha, fun ht => hn (List.mem_cons_of_mem _ ht)⟩

/-- The worklist invariant and what it gives at the end. -/
theorem closeLoop_spec : ∀ (f : Nat) (todo acc S : List Item), closeLoop C f todo acc = some S →
    (∀ x ∈ todo, x ∈ acc) → (∀ x ∈ acc, x ∉ todo → ∀ y ∈ succsOf C x, y ∈ acc) →
    (∀ x ∈ acc, x ∈ S) ∧ Closed C S ∧
      (∀ x ∈ S, x ∈ acc ∨ (x.dot = 0 ∧ ∃ y ∈ S, x ∈ succsOf C y))
  | _, [], acc, S, h, _, hinv => by
    simp only [closeLoop] at h
    cases h
    exact ⟨fun _ hx => hx, fun x hx y hy => hinv x hx (by simp) y hy, fun x hx => Or.inl hx⟩
  | 0, _ :: _, _, _, h, _, _ => by simp [closeLoop] at h
  | f + 1, it :: todo, acc, S, h, hsub, hinv => by
    simp only [closeLoop] at h
    obtain ⟨h1, h2, h3, h4, h5, h6⟩ := addNew_spec (succsOf C it) acc todo
    have hit : it ∈ acc := hsub it List.mem_cons_self
    have ih := closeLoop_spec f _ _ S h
      (by
        intro x hx
        rcases h5 x hx with ht | ha
        · exact h1 x (hsub x (List.mem_cons_of_mem _ ht))
        · exact ha)
      (by
        intro x hx hnx y hy
        obtain ⟨hxa, hxt⟩ := h6 x hx hnx
        by_cases he : x = it
        · subst he; exact h3 y hy
        · exact h1 y (hinv x hxa (by
            intro hm
            rcases List.mem_cons.mp hm with hm | hm
            · exact he hm
            · exact hxt hm) y hy))
    obtain ⟨ia, ic, ij⟩ := ih
    refine ⟨fun x hx => ia x (h1 x hx), ic, ?_⟩
    intro x hx
    rcases ij x hx with ha | hj
    · rcases h4 x ha with ha | hs
      · exact Or.inl ha
      · exact Or.inr ⟨succsOf_dot hs, it, ia it (h1 it hit), hs⟩
    · exact Or.inr hj

theorem closure_spec {seed S : List Item} (h : closure C seed = some S) :
    (∀ x ∈ seed, x ∈ S) ∧ Closed C S ∧
      (∀ x ∈ S, x ∈ seed ∨ (x.dot = 0 ∧ ∃ y ∈ S, x ∈ succsOf C y)) :=
  closeLoop_spec _ seed seed S h (fun _ hx => hx) (fun x hx hnx => absurd hx hnx)

/-! ### sets as sorted lists -/

theorem mem_insertS {x z : Item} : ∀ {l : List Item}, z ∈ insertS x l ↔ z = x ∨ z ∈ l
  | [] => by simp [insertS]
  | y :: ys => by
    unfold insertS
    by_cases h1 : x = y
    · subst h1; simp
    · simp only [h1, if_false]
      by_cases h2 : Item.lt x y = true
      · simp [h2]
      · simp only [h2, Bool.false_eq_true, if_false, List.mem_cons, mem_insertS (l := ys)]
        constructor
        · rintro (h | h | h)
          · exact Or.inr (Or.inl h)
          · exact Or.inl h
          · exact Or.inr (Or.inr h)
        · rintro (h | h | h)
          · exact Or.inr (Or.inl h)
          · exact Or.inl h
          · exact Or.inr (Or.inr h)

theorem mem_norm {z : Item} : ∀ {l : List Item}, z ∈ norm l ↔ z ∈ l
  | [] => by simp [norm]
  | x :: xs => by
    have ih := mem_norm (z := z) (l := xs)
    simp only [norm, List.foldr_cons, List.mem_cons] at ih ⊢
    rw [mem_insertS, ih]

theorem Closed.norm {S : List Item} (h : Closed C S) : Closed C (norm S) :=
  fun it hit y hy => mem_norm.mpr (h it (mem_norm.mp hit) y hy)

/-! ### goto -/

theorem gotoSet_spec {I J : List Item} {x : Nat} (h : gotoSet C I x = some J) :
    (∀ it ∈ I, C.nextSyms it = [x] → advance it ∈ J) ∧ Closed C J ∧
    (∀ y ∈ J, y.dot = 0 ∨ ∃ it ∈ I, C.nextSyms it = [x] ∧ y = advance it) := by
  obtain ⟨h1, h2, h3⟩ := closure_spec h
  refine ⟨?_, h2, ?_⟩
  · intro it hit hn
    exact h1 _ (List.mem_map.mpr ⟨it, List.mem_filter.mpr ⟨hit, by simp [hn]⟩, rfl⟩)
  · intro y hy
    rcases h3 y hy with hs | ⟨h0, _⟩
    · obtain ⟨it, hf, rfl⟩ := List.mem_map.mp hs
      obtain ⟨hit, hn⟩ := List.mem_filter.mp hf
      exact Or.inr ⟨it, hit, by simpa using hn, rfl⟩
    · exact Or.inl h0

/-! ### predicates preserved by the one-step closure hold for the whole closure -/

theorem closeLoop_all {P : Item → Prop} (hstep : ∀ it, P it → ∀ y ∈ succsOf C it, P y) :
    ∀ (f : Nat) (todo acc S : List Item), closeLoop C f todo acc = some S →
      (∀ x ∈ todo, x ∈ acc) → (∀ x ∈ acc, P x) → ∀ x ∈ S, P x
  | _, [], acc, S, h, _, hP => by
    simp only [closeLoop] at h
    cases h; exact hP
  | 0, _ :: _, _, _, h, _, _ => by simp [closeLoop] at h
  | f + 1, it :: todo, acc, S, h, hsub, hP => by
    simp only [closeLoop] at h
    obtain ⟨h1, _, _, h4, h5, _⟩ := addNew_spec (succsOf C it) acc todo
    have hit : it ∈ acc := hsub it List.mem_cons_self
    refine closeLoop_all hstep f _ _ S h ?_ ?_
    · intro x hx
      rcases h5 x hx with ht | ha
      · exact h1 x (hsub x (List.mem_cons_of_mem _ ht))
      · exact ha
    · intro x hx
      rcases h4 x hx with ha | hs
      · exact hP x ha
      · exact hstep it (hP it hit) x hs

theorem closure_all {P : Item → Prop} (hstep : ∀ it, P it → ∀ y ∈ succsOf C it, P y)
    {seed S : List Item} (h : closure C seed = some S) (hP : ∀ x ∈ seed, P x) : ∀ x ∈ S, P x :=
  closeLoop_all hstep _ seed seed S h (fun _ hx => hx) hP

/-! ### the discovery order is a justification order -/

/-- `JustOrder` read from the end of the list: every dot-0 item other than the seed has, further
down the list, an item whose next symbol is its left-hand side -/
def RJ (C : Cert) : List Item → Prop
  | [] => True
  | it :: rest =>
    (it.dot = 0 → it.pi = C.seedIdx ∨ ∃ p ∈ C.ruleAt it.pi, ∃ y ∈ rest, p.lhs ∈ C.nextSyms y) ∧ RJ C rest

/-- every item the one-step closure brings in is a production of the symbol after the dot -/
def SuccLhs (C : Cert) : Prop :=
  ∀ it, ∀ j ∈ succsOf C it, ∃ p ∈ C.ruleAt j.pi, p.lhs ∈ C.nextSyms it

theorem addNew_RJ : ∀ (js acc todo : List Item), RJ C acc →
    (∀ j ∈ js, j.dot = 0 → ∃ p ∈ C.ruleAt j.pi, ∃ y ∈ acc, p.lhs ∈ C.nextSyms y) → RJ C (addNew acc todo js).1
  | [], _, _, h, _ => h
  | j :: js, acc, todo, h, hj => by
    unfold addNew
    split
    · exact addNew_RJ js acc todo h (fun k hk => hj k (List.mem_cons_of_mem _ hk))
    · refine addNew_RJ js (j :: acc) (j :: todo) ⟨fun h0 => Or.inr (hj j List.mem_cons_self h0), h⟩ ?_
      intro k hk h0
      obtain ⟨p, hp, y, hy, hl⟩ := hj k (List.mem_cons_of_mem _ hk) h0
      exact ⟨p, hp, y, List.mem_cons_of_mem _ hy, hl⟩

theorem closeLoop_RJ (hs : SuccLhs C) : ∀ (f : Nat) (todo acc S : List Item),
    closeLoop C f todo acc = some S → (∀ x ∈ todo, x ∈ acc) → RJ C acc → RJ C S
  | _, [], acc, S, h, _, hR => by
    simp only [closeLoop] at h
    cases h; exact hR
  | 0, _ :: _, _, _, h, _, _ => by simp [closeLoop] at h
  | f + 1, it :: todo, acc, S, h, hsub, hR => by
    simp only [closeLoop] at h
    obtain ⟨h1, _, _, _, h5, _⟩ := addNew_spec (succsOf C it) acc todo
    have hit : it ∈ acc := hsub it List.mem_cons_self
    refine closeLoop_RJ hs f _ _ S h ?_ ?_
    · intro x hx
      rcases h5 x hx with ht | ha
      · exact h1 x (hsub x (List.mem_cons_of_mem _ ht))
      · exact ha
    · refine addNew_RJ _ _ _ hR ?_
      intro j hj _
      obtain ⟨p, hp, hl⟩ := hs it j hj
      exact ⟨p, hp, it, hit, hl⟩

def seenOf (C : Cert) (l : List Item) (seen : List Nat) : List Nat :=
  l.foldl (fun s it => C.nextSyms it ++ s) seen

theorem mem_seenOf {a : Nat} : ∀ {l : List Item} {seen : List Nat},
    (a ∈ seen ∨ ∃ y ∈ l, a ∈ C.nextSyms y) → a ∈ seenOf C l seen
  | [], _, h => by
    rcases h with h | ⟨_, hy, _⟩
    · exact h
    · cases hy
  | b :: l, seen, h => by
    simp only [seenOf, List.foldl_cons]
    refine mem_seenOf (l := l) ?_
    rcases h with h | ⟨y, hy, h⟩
    · exact Or.inl (List.mem_append_right _ h)
    · rcases List.mem_cons.mp hy with rfl | hy
      · exact Or.inl (List.mem_append_left _ h)
      · exact Or.inr ⟨y, hy, h⟩

theorem justOrder_snoc {z : Item} : ∀ {l : List Item} {seen : List Nat}, JustOrder C seen l →
    (z.dot = 0 → z.pi = C.seedIdx ∨ ∃ p ∈ C.ruleAt z.pi, p.lhs ∈ seenOf C l seen) →
    JustOrder C seen (l ++ [z])
  | [], _, _, hz => ⟨hz, trivial⟩
  | _ :: l, _, h, hz => ⟨h.1, justOrder_snoc (l := l) h.2 hz⟩

theorem RJ.justOrder : ∀ {acc : List Item}, RJ C acc → JustOrder C [] acc.reverse
  | [], _ => trivial
  | it :: rest, h => by
    rw [List.reverse_cons]
    refine justOrder_snoc (RJ.justOrder h.2) ?_
    intro h0
    rcases h.1 h0 with hs | ⟨p, hp, y, hy, hl⟩
    · exact Or.inl hs
    · exact Or.inr ⟨p, hp, mem_seenOf (Or.inr ⟨y, List.mem_reverse.mpr hy, hl⟩)⟩

/-- The closure's items, in the order found, are in justification order, provided the dot-0 items
of the seed are the seed production's. -/
theorem closure_justOrder (hs : SuccLhs C) {seed S : List Item} (h : closure C seed = some S)
    (h0 : ∀ x ∈ seed, x.dot = 0 → x.pi = C.seedIdx) : JustOrder C [] S.reverse := by
  refine (closeLoop_RJ hs _ seed seed S h (fun _ hx => hx) ?_).justOrder
  clear h
  induction seed with
  | nil => trivial
  | cons a l ih =>
    exact ⟨fun hd => Or.inl (h0 a List.mem_cons_self hd), ih (fun x hx => h0 x (List.mem_cons_of_mem _ hx))⟩

theorem mem_insertN {x z : Nat} : ∀ {l : List Nat}, z ∈ insertN x l ↔ z = x ∨ z ∈ l
  | [] => by simp [insertN]
  | y :: ys => by
    unfold insertN
    by_cases h1 : x = y
    · subst h1; simp
    · simp only [h1, if_false]
      by_cases h2 : x < y
      · simp [h2]
      · simp only [h2, if_false, List.mem_cons, mem_insertN (l := ys)]
        constructor
        · rintro (h | h | h)
          · exact Or.inr (Or.inl h)
          · exact Or.inl h
          · exact Or.inr (Or.inr h)
        · rintro (h | h | h)
          · exact Or.inr (Or.inl h)
          · exact Or.inl h
          · exact Or.inr (Or.inr h)

theorem mem_normN {z : Nat} : ∀ {l : List Nat}, z ∈ normN l ↔ z ∈ l
  | [] => by simp [normN]
  | x :: xs => by
    have ih := mem_normN (z := z) (l := xs)
    simp only [normN, List.foldr_cons, List.mem_cons] at ih ⊢
    rw [mem_insertN, ih]

end Gen
end Emboss.Lr1
